#!/usr/bin/env python3
"""Builds hand-written one-instance-broken variants of /repo as patch files under
/verif/mutants/<prop>/. Each entry: (props, name, file, old, new, expected key substring)."""
import os, subprocess, sys, tempfile, shutil
REPO='/repo'; V='/verif'
M=[
 (["C01"],"S1a-missing-push","scanner/steps-url.go","		s.stepStack.Push(stateExpectKeyword)\n","", "S1a:"),
 (["C01","C14"],"S1d-offset-underflow","scanner/steps.go","	case ContextOpenSign:\n		s.found(ContextOpen)\n		s.step = stateContextOpenedOnNewline","	case ContextOpenSign:\n		s.foundAt(s.curIndex-1, ContextOpen)\n		s.step = stateContextOpenedOnNewline","S1d:"),
 (["C01"],"S1e-no-progress","scanner/steps-comments.go","	default:\n		s.step = stateCommentBlock\n		return s.step(s, c)\n	}\n}\n\nfunc stateCommentTwiceClosed","	default:\n		return s.step(s, c)\n	}\n}\n\nfunc stateCommentTwiceClosed","S1e:cycle"),
 (["C14"],"S1g-silent-skip","scanner/steps.go","	case CommentSign:\n		return s.startComment()\n	default:\n		return s.japiErrorUnexpectedChar(\"after body\", \"\")","	case CommentSign:\n		return s.startComment()\n	case ',', ';':\n		return nil\n	default:\n		return s.japiErrorUnexpectedChar(\"after body\", \"\")","S1g:stateBodyEnded"),
 (["C05"],"W3-blank-line-error","scanner/steps-headers.go","	case caseWhitespace(c), caseNewLine(c):\n		return nil\n	case CommentSign:\n		return s.startComment()\n	case ObjectOpen, LinkSymbol:","	case caseWhitespace(c):\n		return nil\n	case CommentSign:\n		return s.startComment()\n	case ObjectOpen, LinkSymbol:","W3:stateHeaderBody"),
 (["C14","C04"],"K2-wrong-letter","scanner/steps-tags.go","	if c != 's' {\n		return stateTagsError(s, \"s\")","	if c != 'z' {\n		return stateTagsError(s, \"s\")","K2:"),
 (["C14"],"LJ1-end-offset","scanner/steps.go","	case caseNewLine(c), EOF:\n		s.foundAt(s.curIndex-1, SchemaEnd)\n		s.step = stateExpectKeyword","	case caseNewLine(c), EOF:\n		s.foundAt(s.curIndex-2, SchemaEnd)\n		s.step = stateExpectKeyword","LJ1:"),
 (["C14","C01"],"S1b-double-begin","scanner/steps-directive-parameters.go","	case DoubleQuote:\n		s.found(ParameterEnd)\n		s.step = stateParameterOrAnnotation","	case DoubleQuote:\n		s.found(ParameterEnd)\n		s.found(ParameterEnd)\n		s.step = stateParameterOrAnnotation","S1b:"),
 (["C01"],"N1b-description-root","directive/enumeration.go","	case Jsight, Info, Server, URL, Get, Post, Put, Patch, Delete, Type, Enum,\n		Macro, Paste, TAG:","	case Jsight, Info, Server, URL, Get, Post, Put, Patch, Delete, Type, Enum,\n		Macro, Paste, TAG, Description:","N1b:Description"),
 (["C01","C12"],"N2-drop-notation-test","core/compile_catalog.go","				r.HTTPRequestBody != nil &&\n				r.HTTPRequestBody.Schema != nil &&\n				r.HTTPRequestBody.Schema.Notation == notation.SchemaNotationJSight","				r.HTTPRequestBody != nil &&\n				r.HTTPRequestBody.Schema != nil","N2:core.(*JApiCore).processRequestAllOf"),
 (["C01"],"P1-foreign-error","core/compile_catalog.go","			if err := core.processSchemaContentJSightAllOf(v.Schema.ContentJSight, v.Schema.UsedUserTypes); err != nil {\n				return v.Directive.BodyError(err.Error())\n			}","			if err := core.processSchemaContentJSightAllOf(v.Schema.ContentJSight, v.Schema.UsedUserTypes); err != nil {\n				return err\n			}","P1:core.adoptError"),
 (["C01"],"P2-no-recover","kit/japi.go","	defer func() {\n		if r := recover(); r != nil {\n			err = fmt.Errorf(\"%s\", r)\n		}\n	}()\n","	_ = fmt.Sprint\n","P2:kit.readPanicFree"),
 (["C01","C04","C09"],"X1-missing-method","catalog/http_method.go","	case OPTIONS:\n		return \"OPTIONS\"\n","","X1:catalog.(HTTPMethod).String"),
 (["C01","C08"],"T1-include-no-cycle-guard","scanner/stack.go","	if _, ok := s.uniqueFiles[name]; ok {\n		return ErrRecursionDetected\n	}\n","","T1l:include-worklist"),
 (["C01"],"T1-loop-no-progress","core/scan_project.go","		if core.currentContextDirective.HasExplicitContext {\n			core.currentContextDirective = core.currentContextDirective.Parent // Parent can be nil\n			return nil\n		}\n\n		core.currentContextDirective = core.currentContextDirective.Parent","		if core.currentContextDirective.HasExplicitContext {\n			core.currentContextDirective = core.currentContextDirective.Parent // Parent can be nil\n			return nil\n		}\n\n		if core.currentContextDirective.Type().IsHTTPRequestMethod() {\n			continue\n		}\n		core.currentContextDirective = core.currentContextDirective.Parent","T1l:core.(*JApiCore).closeLastExplicitContext"),
 (["C03","C16"],"D2-time-now","core/core.go","func (core *JApiCore) Catalog() *catalog.Catalog {\n	return core.catalog","func (core *JApiCore) Catalog() *catalog.Catalog {\n	_ = time.Now()\n	return core.catalog","D2:core.(*JApiCore).Catalog"),
 (["C03"],"D3-random-seed","core/build_catalog.go","regex.WithGeneratorSeed(0)","regex.WithGeneratorSeed(int64(len(k)))","D3:"),
 (["C03","C04","C09"],"D4-range-map","catalog/tags_gen.go","	for i, k := range m.order {\n		if i != 0 {\n			buf.WriteRune(',')\n		}\n","	i := -1\n	for k := range m.data {\n		i++\n		if i != 0 {\n			buf.WriteRune(',')\n		}\n","D4:Tags.MarshalJSON"),
 (["C03","C16","C20"],"G2-global-counter","catalog/annotation.go","func Annotation(s string) string {","var annotationCalls int\n\nfunc Annotation(s string) string {\n	annotationCalls++","G2:catalog.annotationCalls"),
 (["C04","C11","C15"],"K1-drop-handler","core/core.go","		directive.Version:          core.addVersion,\n","","K1:Version"),
 (["C04","C09"],"M1-drop-note","catalog/schema_jsight.go","	data.InheritedFrom = c.InheritedFrom\n	data.Note = c.Note\n	if c.Rules != nil && c.Rules.Len() != 0 {\n		data.Rules = c.Rules.data\n	}\n	if len(c.Children) == 0 {","	data.InheritedFrom = c.InheritedFrom\n	if c.Rules != nil && c.Rules.Len() != 0 {\n		data.Rules = c.Rules.data\n	}\n	if len(c.Children) == 0 {","NONE"),
 (["C04","C09"],"M1-drop-field","catalog/tag.go","	data.Description = t.Description\n","","M1:Tag.Description"),
 (["C04","C09"],"ID1-wrong-key","catalog/setters.go","	in := newHTTPInteraction(httpID, d.Annotation)\n","	other := httpID\n	other.method = GET\n	in := newHTTPInteraction(other, d.Annotation)\n","ID1:"),
 (["C02"],"E1-wrong-pair","core/include.go","	return jerr.NewJApiError(msg, lex.File(), lex.Begin())","	return jerr.NewJApiError(msg, lex.File(), lex.End())","NONE"),
 (["C06","C07"],"R1-append-outside","core/compile_core_paste.go","	if d.HasExplicitContext {\n		core.currentContextDirective = dd.Parent\n	}","	if d.HasExplicitContext {\n		core.currentContextDirective = dd.Parent\n	}\n	if d.Parent != nil && dd.Parent == nil {\n		d.Parent.AppendChild(&dd)\n	}","R1:AppendChild"),
 (["C06"],"R2-eof-unchecked","core/scan_project.go","	if core.HasUnclosedExplicitContext() {\n		return core.japiError(\"not all explicit contexts are closed\", core.scanner.CurrentIndex()-1)\n	}\n	return nil","	if core.HasUnclosedExplicitContext() && !core.scannersStack.Empty() {\n		return core.japiError(\"not all explicit contexts are closed\", core.scanner.CurrentIndex()-1)\n	}\n	return nil","R2:eof"),
 (["C08"],"I1-skip-validation","core/include.go","	if err := validateIncludeFileName(path); err != nil {\n		return \"\", incorrectParameter(keyword, path, err.Error())\n	}","	if err := validateIncludeFileName(path); err != nil && !core.scannersStack.Empty() {\n		return \"\", incorrectParameter(keyword, path, err.Error())\n	}","I1:"),
 (["C07"],"MP1-unchecked-macro","core/compile_core_paste.go","	macro, ok := core.macro[name]\n	if !ok {\n		return paste.KeywordError(\"macro not found\")\n	}\n","	macro, ok := core.macro[name]\n	if !ok && paste.Parent == nil {\n		return paste.KeywordError(\"macro not found\")\n	}\n","MP1:"),
 (["C12"],"IM1-mutate-base","core/compile_catalog.go","		vv := *v\n		if vv.InheritedFrom == \"\" {\n			uut.Add(userTypeName)\n		}\n		vv.InheritedFrom = userTypeName\n		sc.Unshift(&vv)","		if v.InheritedFrom == \"\" {\n			uut.Add(userTypeName)\n		}\n		v.InheritedFrom = userTypeName\n		sc.Unshift(v)","IM1:"),
 (["C13"],"PS1-drop-unused-test","core/compile_catalog.go","		if len(pp) > 0 {\n			ss := core.getPropertiesNames(pp)\n			return v.pathDirective.KeywordError(fmt.Sprintf(\"Has unused parameters %q in schema\", ss))\n		}","		_ = core.getPropertiesNames","PS1:BuildResourceMethodsPathVariables:unused-parameters"),
 (["C15"],"DN1-skip-empty-test","core/build_catalog_directives.go","	if len(bb) == 0 {\n		return d.KeywordError(jerr.EmptyDescription)\n	}\n\n	text := string(bb)","	if len(bb) == 0 && d.Parent.Type() == directive.Info {\n		return d.KeywordError(jerr.EmptyDescription)\n	}\n\n	text := string(bb)","DN1:handler"),
 (["C15"],"AN1-raw-annotation","core/scan_project.go","	core.currentDirective.Annotation = catalog.Annotation(lexeme.Value().String())","	_ = catalog.Annotation\n	core.currentDirective.Annotation = lexeme.Value().String()","AN1:"),
 (["C19","C09"],"TG-skip-append","catalog/setters.go","	in := newJsonRpcInteraction(rpcId, d.NamedParameter(\"MethodName\"), d.Annotation)\n\n	tns, je := c.tagNames(d, rpcId)\n	if je != nil {\n		return je\n	}\n	for _, tn := range tns {\n		in.appendTagName(tn)\n	}","	in := newJsonRpcInteraction(rpcId, d.NamedParameter(\"MethodName\"), d.Annotation)\n\n	tns, je := c.tagNames(d, rpcId)\n	if je != nil {\n		return je\n	}\n	if len(tns) > 0 {\n		in.appendTagName(tns[0])\n	}","TG:TG1:catalog.(*Catalog).AddJsonRpcMethod"),
 (["C19"],"TP1-swap-precedence","catalog/setters.go","	if td := getChildrenTagsDirective(d); td != nil { // child directive Tags for HTTP or JSON-RPC methods\n		return c.tagsFromTagsDirective(td)\n	}\n\n	if td := getParentTagsDirective(d); td != nil { // parent URL\n		return c.tagsFromTagsDirective(td)\n	}","	if td := getParentTagsDirective(d); td != nil { // parent URL\n		return c.tagsFromTagsDirective(td)\n	}\n\n	if td := getChildrenTagsDirective(d); td != nil { // child directive Tags for HTTP or JSON-RPC methods\n		return c.tagsFromTagsDirective(td)\n	}","TP1:tags"),
 (["C10"],"SO1-tags-after-types","core/compile_core.go","	if je := core.collectTags(); je != nil {\n		return je\n	}\n\n	core.collectUserTypes()\n\n	if je := core.compileUserTypes(); je != nil {\n		return je\n	}\n","	core.collectUserTypes()\n\n	if je := core.compileUserTypes(); je != nil {\n		return je\n	}\n\n	if je := core.collectTags(); je != nil {\n		return je\n	}\n","NONE"),
 (["C18"],"NI-count-banned","core/build_catalog_directives.go","	f, ok := core.directiveFunctions[d.Type()]\n	if !ok { // Path\n		return nil\n	}\n","	f, ok := core.directiveFunctions[d.Type()]\n	if !ok || len(core.bannedDirectives) > 3 { // Path\n		return nil\n	}\n","NI:bannedDirectives"),
 (["C16"],"G1-unlocked-read","catalog/servers_gen.go","func (m *Servers) Len() int {\n	m.mx.RLock()\n	defer m.mx.RUnlock()\n\n	return len(m.data)","func (m *Servers) Len() int {\n	return len(m.data)","G1:Servers.Len"),
 (["C16","C01"],"L1-reenter-under-write","core/compile_catalog.go","			if hi, ok := v.(*catalog.HTTPInteraction); ok {\n				pp := pathParameters(v.Path().String())","			if hi, ok := v.(*catalog.HTTPInteraction); ok && core.catalog.Interactions.Len() > 0 {\n				pp := pathParameters(v.Path().String())","L1:core.(*JApiCore).BuildResourceMethodsPathVariables"),
 (["C11","C07"],"H1-no-dup-test","core/compile_core_macro.go","	if _, ok := core.macro[name]; ok {\n		return d.KeywordError(fmt.Sprintf(\"%s (%q)\", jerr.DuplicateNames, name))\n	}\n","	_ = fmt.Sprintf\n","H1:core.(*JApiCore).addMacro"),
 (["C02"],"E2a-japierror-late","core/build_catalog.go","		return core.directivesWithPastes[0].KeywordError(\"JSIGHT should be the first directive\")","		return core.japiError(\"JSIGHT should be the first directive\", 0)","E2a:"),
 (["C19","C04","C06"],"R4-parent-before-hoist","core/context_processing.go","			if isURL {\n				if core.currentContextDirective.HasExplicitContext {","			d.Parent = core.currentContextDirective\n\n			if isURL {\n				if core.currentContextDirective.HasExplicitContext {","R4:exit:core.(*JApiCore).processContext"),
 (["C06","C04"],"R4-linked-but-not-listed","core/context_processing.go","			d.Parent = core.currentContextDirective\n			core.currentContextDirective.AppendChild(d)\n			core.currentContextDirective = d","			d.Parent = core.currentContextDirective\n			if !d.Type().IsHTTPRequestMethod() || d.NamedParameter(\"Path\") == \"\" {\n				core.currentContextDirective.AppendChild(d)\n			}\n			core.currentContextDirective = d","R4:exit:core.(*JApiCore).processContext"),
 (["C20","C12"],"PA1-content-filter","core/compile_catalog.go","		if s != nil && s.Schema != nil && s.Schema.Notation == notation.SchemaNotationJSight {\n			if err := core.processSchemaContentJSightAllOf(s.Schema.ContentJSight, s.Schema.UsedUserTypes); err != nil {","		if s != nil && s.Schema != nil && s.Schema.Notation == notation.SchemaNotationJSight && s.Schema.ContentJSight.Rules.Has(\"allOf\") {\n			if err := core.processSchemaContentJSightAllOf(s.Schema.ContentJSight, s.Schema.UsedUserTypes); err != nil {","PA1:core.(*JApiCore).processBaseUrlAllOf"),
 (["C19"],"TN1-no-underscore-doubling","catalog/tag_name.go","	title = strings.ReplaceAll(title, \"_\", \"__\")\n","","TN1:code"),
 (["C19"],"TN1-special-case-collides","catalog/tag_name.go","		return \"@_\"","		return \"@__\"","TN1:special:/"),
 (["C15"],"DN2-cr-before-crlf","core/description.go","	b = bytes.ReplaceAll(b, []byte{'\\r', '\\n'}, []byte{'\\n'}) // Windows\n	b = bytes.ReplaceAll(b, []byte{'\\r'}, []byte{'\\n'})       // Macintosh (old)\n","	b = bytes.ReplaceAll(b, []byte{'\\r'}, []byte{'\\n'})       // Macintosh (old)\n	b = bytes.ReplaceAll(b, []byte{'\\r', '\\n'}, []byte{'\\n'}) // Windows\n","DN2:order"),
 (["C15"],"DN1-setter-rewrites","catalog/setters.go","	if c.Info.Description != nil {\n		return errors.New(jerr.NotUniqueDirective)\n	}\n","	if c.Info.Description != nil {\n		return errors.New(jerr.NotUniqueDirective)\n	}\n	text = Annotation(text)\n","DN1:AddDescriptionToInfo:store"),
 (["C13"],"LC1-stop-at-first-undeclared","core/compile_catalog.go","				delete(pp, p.parameter)\n			}\n		}\n","				delete(pp, p.parameter)\n			} else {\n				break\n			}\n		}\n","LC1:core.(*JApiCore).BuildResourceMethodsPathVariables"),
]
only=set(sys.argv[1:])
ok=bad=0
for props,name,fn,old,new,expect in M:
    if expect=="NONE": continue
    if only and name not in only: continue
    src=open(os.path.join(REPO,fn)).read()
    if src.count(old)!=1:
        print("ANCHOR-PROBLEM",name,fn,"occurrences:",src.count(old)); bad+=1; continue
    d=tempfile.mkdtemp(prefix='/tmp/mkmut.')
    try:
        os.makedirs(os.path.join(d,'a',os.path.dirname(fn)),exist_ok=True); os.makedirs(os.path.join(d,'b',os.path.dirname(fn)),exist_ok=True)
        open(os.path.join(d,'a',fn),'w').write(src)
        new_src=src.replace(old,new)
        if "time.Now" in new and '"time"' not in new_src:
            new_src=new_src.replace('import (\n','import (\n\t"time"\n',1)
        open(os.path.join(d,'b',fn),'w').write(new_src)
        diff=subprocess.run(['diff','-u','a/'+fn,'b/'+fn],cwd=d,capture_output=True,text=True).stdout
        for p in props:
            os.makedirs(os.path.join(V,'mutants',p),exist_ok=True)
            open(os.path.join(V,'mutants',p,'M-'+name+'.patch'),'w').write(diff)
            open(os.path.join(V,'mutants',p,'M-'+name+'.expect'),'w').write(expect)
        ok+=1
    finally:
        shutil.rmtree(d)
print("written",ok,"problems",bad)
