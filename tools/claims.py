TB = "Trusted: Go type checker and x/tools v0.29.0; the schema library's API contract (errors not panics, deterministic, Len() <= bytes left); stdlib. Data-dependent scanner predicates are explored both ways."

claim("C01", "static analysis: pushdown reachability (post*) over the extracted scanner automaton + typestate/must-dataflow rules over go/cfg + SCC termination analysis on the VTA call graph",
      "Necessary conditions of totality decided on every path/site: no empty step/event-stack pop, no inverted lexeme span, no index underflow, scanner progress (S1a-e); nil typestate of the parser's current directive against the lexeme kinds the automaton can emit without one (N1), Parent of non-root kinds (N1b), body-coordinates typestate incl. the userTypes-key invariant (B1), notation typestate (N2), unsigned len-1 (U1), exhaustive failure switches (X1), every explicit panic discharged (P1), recover barriers (P2), every recursive SCC and open loop matches a termination idiom (T1). Breaking any of them reintroduces a crash or hang; faults inside the schema library and value-level index arithmetic are not decided.",
      TB, "DESIGN.md §4 C01")
claim("C03", "static analysis: typed-AST rules over every function (map ranges, nondeterminism sources, global stores)",
      "A sufficient condition for determinism of the library's own code: no order-sensitive map range (D1), no clock/random/env/goroutine/address source (D2), constant seeds (D3), ordered collections iterate their order slice (D4), no package-level state written after init (G2). Determinism of the schema library is assumed.",
      TB, "DESIGN.md §4 C03")
claim("C05", "static analysis: per-state byte-class facts and sub-machine shape on the extracted scanner automaton",
      "Decides for all inputs that every scanner state treats LF/CR alike and space/tab alike (W1) and that the comment sub-machine is transparent (W2). These are necessary for invariance under newline/indentation/comment rewriting; the full equivalence of two renderings is not decided.",
      TB, "DESIGN.md §4 C05")
claim("C14", "static analysis: pushdown reachability (post*) over the extracted scanner automaton, keyword-trie enumeration",
      "For ALL byte strings (not a sample): every reachable scanner configuration emits well-formed, in-range, strictly ordered, non-overlapping lexemes (S1b,c,d,f), skips only trivia (S1g), leaves no lexeme open at end of input (S1i); the spelled keyword set equals the directive table (K2); body lexemes are exactly the library's extent (LJ1). That the library's Len() delimits one value is trusted.",
      TB, "DESIGN.md §4 C14")
claim("C17", "static analysis: shape of the quoted-parameter sub-automaton (found by role) on the extracted scanner automaton",
      "Decides the rejection clauses of the property for all inputs: unterminated quote and backslash before any byte other than \\ or \" are errors at that byte; closing quote ends the lexeme at its own position. The round-trip equality of values (a for-all-strings property of unescapeParameter) is not decided.",
      TB, "DESIGN.md §4 C17")
