TB = "Trusted: Go type checker and x/tools v0.29.0; the schema library's API contract (errors not panics, deterministic, Len() <= bytes left); stdlib. Data-dependent scanner predicates are explored both ways."

claim("C01", "static analysis: pushdown reachability (post*) over the extracted scanner automaton + typestate/must-dataflow rules over go/cfg + SCC termination analysis on the VTA call graph",
      "Necessary conditions of totality decided on every path/site: no empty step/event-stack pop, no inverted lexeme span, no index underflow, scanner progress (S1a-e); nil typestate of the parser's current directive against the lexeme kinds the automaton can emit without one (N1), Parent of non-root kinds (N1b), body-coordinates typestate incl. the userTypes-key invariant (B1), notation typestate (N2), unsigned len-1 (U1), exhaustive failure switches (X1), every explicit panic discharged (P1), recover barriers (P2), every recursive SCC and open loop matches a termination idiom (T1). Breaking any of them reintroduces a crash or hang; faults inside the schema library and value-level index arithmetic are not decided.",
      TB, "DESIGN.md §4 C01")
claim("C03", "static analysis: typed-AST rules over every function (map ranges, nondeterminism sources, global stores)",
      "A sufficient condition for determinism of the library's own code: no order-sensitive map range (D1), no clock/random/env/goroutine/address source (D2), constant seeds (D3), ordered collections iterate their order slice (D4), no package-level state written after init (G2). Determinism of the schema library is assumed.",
      TB, "DESIGN.md §4 C03")
claim("C05", "static analysis: per-state byte-class facts and sub-machine shape on the extracted scanner automaton",
      "Decides for all inputs that every scanner state treats LF/CR alike and space/tab alike (W1) and that the comment sub-machine is transparent (W2). These are necessary for invariance under newline/indentation/comment rewriting; the full equivalence of two renderings is not decided.",
      TB, "DESIGN.md §4 C05")
claim("C14", "static analysis: pushdown reachability (post*) over the extracted scanner automaton, keyword-trie enumeration",
      "For ALL byte strings (not a sample): every reachable scanner configuration emits well-formed, in-range, strictly ordered, non-overlapping lexemes (S1b,c,d,f), skips only trivia (S1g), leaves no lexeme open at end of input (S1i); the spelled keyword set equals the directive table (K2); body lexemes are exactly the library's extent (LJ1). That the library's Len() delimits one value is trusted.",
      TB, "DESIGN.md §4 C14")
claim("C17", "static analysis: shape of the quoted-parameter sub-automaton (found by role) on the extracted scanner automaton",
      "Decides the rejection clauses of the property for all inputs: unterminated quote and backslash before any byte other than \\ or \" are errors at that byte; closing quote ends the lexeme at its own position. The round-trip equality of values (a for-all-strings property of unescapeParameter) is not decided.",
      TB, "DESIGN.md §4 C17")
claim("C02", "static analysis: error-construction-site rules over the typed AST, VTA call-graph stage confinement, field-footprint memo analysis",
      "At every construction site of a JApiError: file and index come from one object through wrappers, the single cross-object wrapper is unreachable after the scan stage (E1/E2a); the error passes the directive's include tracer or is covered by the scan stage's deferred trace (E2b); the include-tracer cache key covers what the tracer is built from (E3i: known finding F11); line-number and line-beginning walkers agree on the byte at the position (SB1); body positions only with a set body (B1); empty-content and underflow guards (U1, S1d). Necessary conditions; the value-level line/quote arithmetic is not decided.",
      TB, "DESIGN.md §4 C02")
claim("C10", "static analysis: typestate ordering on the CFG (rules-before-load), effect-memo rule, stage order of the pipeline",
      "Decides the mechanisms that make declaration order immaterial: AddRule on shared user types only in a dedicated pass that dominates every loading call (O1), no caller-owned accumulator crosses a run-wide visited set (E3ii: known finding F13), no order-sensitive map range (D1), collect stages precede compilation and each pipeline stage is dominated by the success of the previous (SO1). Permutation invariance of the whole catalog is not decided.",
      TB, "DESIGN.md §4 C10")
claim("C11", "static analysis: must-dataflow guard rules over go/cfg at every insert / slot store / key site",
      "The mechanism behind each static check is present on every path at every site: membership test before every insert into a uniqueness collection (H1), emptiness test of every directive parameter that becomes a collection key (H2), empty-slot test with rejection before every singleton slot store (H3), every directive kind has a consumer (K1), the similar-paths check on every successful path of every path-registering handler (CK1). Does not decide the similar-path string logic nor that the diagnostic is located at the offending directive.",
      TB, "DESIGN.md §4 C11")
claim("C16", "static analysis: lock-set must-dataflow per method, global-store scan, callback re-entrancy over static calls",
      "A sufficient condition for race freedom of the collection types and independence of parses: guarded fields read under R/W and written under W on every path (G1), no package-level state written or mutated after init incl. sync.Map-style containers (G2), no goroutines/scheduler state (D2), option closures share no captured reference with the core (OP1), no incompatible lock re-entry from callbacks (L1). Equality of concurrent and solo results beyond this, and the schema library's pools, are not decided.",
      TB, "DESIGN.md §4 C16")
claim("C18", "static analysis: must-dataflow dominance of the ban lookup over directive creation and file access; reject-only use of the option's set; option-closure aliasing",
      "Every creation site of a directive and every file-system call of core is dominated by a bannedDirectives lookup (created kind / INCLUDE) whose found branch returns the error (B2); every read of the set is reject-only, which is a sufficient argument that a project without banned kinds is processed exactly as without the option (NI); option closures store no captured map/slice into the core (OP1). The diagnostic text is a constant.",
      TB, "DESIGN.md §4 C18")
claim("C04", "static analysis: table extraction and coverage rules over the typed AST (kinds vs handlers, model fields vs serialisers, scanner keyword trie vs directive table)",
      "Necessary conditions of catalog faithfulness: every directive kind has a consumer (K1), every field of the catalog model is serialised or tagged (M1), collections keep and serialise source order (D4), the spellable keyword set equals the directive table (K2), interactions are stored under the id they were built from (ID1), serialisation switches are total (X1). Equality of the catalog with a model of the document is not decided.",
      TB, "DESIGN.md §4 C04")
claim("C06", "static analysis: who-may-write rules for the directive tree, CFG dominance for the parenthesis protocol, VTA reachability of the resolver from both phases",
      "Decides the structural part: one resolver links parents and is the only place that inserts into the tree, used by both the scan and the paste-expansion phase (R1); the parenthesis protocol is wired end to end and the scan stage cannot succeed with an open explicit context (R2); '(' / ')' without a directive are diagnostics (N1); total lexeme dispatch (X1). The walk that picks the nearest admitting ancestor is not decided.",
      TB, "DESIGN.md §4 C06")
claim("C07", "static analysis: SCC termination analysis on the VTA call graph, must-dataflow guards for the macro table",
      "Decides that macro expansion is guarded against every cycle (T1 on the expansion SCC), duplicate macro names are refused (H1), a pasted macro was found (MP1), pasted children go through the same resolver (R1), MACRO/PASTE never reach the catalog builder (K1). Equality with the inlined document is not decided.",
      TB, "DESIGN.md §4 C07")
claim("C08", "static analysis: who-may-call rule for file-system access plus value-derivation of the path argument on the CFG",
      "Confinement by construction: the only file-system calls are behind INCLUDE (and the caller-supplied root); the path is Join(Dir(current file), p) with p the value the validator accepted, and ReadFile gets the path Stat accepted (I1); include cycles refused by the guarded worklist (T1); banned INCLUDE touches no file (B2); stray INCLUDE parameters and empty included files are diagnostics (N1, U1). That the validator rejects exactly the bad names is a for-all-strings property and is not decided.",
      TB, "DESIGN.md §4 C08")
claim("C09", "static analysis: format-string injectivity rule for map key texts, constructor/key agreement, serialisation coverage",
      "Decides: injective key text of structured map keys (J1: known finding F12 for JSON-RPC ids), key == id the interaction was built from (ID1), total serialisation switches (X1), mutual tag/interaction registration (TG), every model field serialised (M1), one entry per key in insertion order (D4). UTF-8 validity, indented==compact and used-type existence beyond the library's own rejection are not decided.",
      TB, "DESIGN.md §4 C09")
claim("C12", "static analysis: must-dataflow guard on Unshift, alias-based who-may-mutate rule for base types, effect-memo rule",
      "Decides: each inherited property inserted at most once and never over an own property (H1/Unshift), base types never written through (IM1), the per-run memo carries no caller-owned accumulator (E3ii: known finding F13), notation typestate (N2), guarded allOf recursion (T1). Order and transitive completeness of inherited properties are not decided.",
      TB, "DESIGN.md §4 C12")
claim("C13", "static analysis: stage-order dominance and must-dataflow guards around the path-parameter binding",
      "Decides: duplicate parameter per prefix refused before insert (H1), Path schemas read only after the flat-object check succeeded and leftover properties rejected (PS1), non-JSight Path body is a diagnostic (N2), deterministic message (D1), similar-paths check on every path-registering handler (CK1). The prefix/name splitting and the binding itself are string logic and not decided.",
      TB, "DESIGN.md §4 C13")
claim("C15", "static analysis: who-may-call + dominance rule for description setters, single-normaliser rule for annotation stores, shared-table rule",
      "Decides: descriptions reach the catalog only from the Description handler after the normaliser succeeded and the result was non-empty, for all four hosts (DN1); every annotation/note store takes the one normaliser's result (AN1); the description look-ahead and the keyword lookup read one table (K2p). The normal form itself and idempotence are string semantics and not decided.",
      TB, "DESIGN.md §4 C15")
claim("C19", "static analysis: sibling-agreement rule for the two interaction creators, provenance rule for tag values, order of source tests",
      "Decides: both creators resolve tags with the same id, append every name, no exit between registering and storing (TG1); tags come only from the Tags collection (TG2); at least one tag (TG3); unique declared tags and reused path tag (H1); precedence own > URL > automatic by the order of the source tests (TP1). Injectivity of the automatic tag name and titles are not decided.",
      TB, "DESIGN.md §4 C19")
claim("C20", "static analysis: memo-soundness rules (value footprint, effect accumulator), reject-only use of run-wide sets, global-state rules",
      "Decides: cached values depend on nothing their key omits (E3i: known finding F11), visited sets carry no caller-owned accumulator (E3ii: known finding F13), run-wide uniqueness/visited sets influence a run only by rejecting or skipping (NI), no package-level or option-shared state (G2, OP1). Coupling through the schema library's objects and entry-by-entry equality are not decided.",
      TB, "DESIGN.md §4 C20")
