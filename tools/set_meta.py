#!/usr/bin/env python3
# usage: set_meta.py <seed-id> caught <rule> <expect-key> | set_meta.py <seed-id> missed <reason>
import json,sys
d='/verif/seeded/'+sys.argv[1]+'/meta.json'
m=json.load(open(d))
if sys.argv[2]=='caught':
    m['caught_by']=sys.argv[3]; m['expect']=sys.argv[4]
else:
    m['caught_by']=None; m['not_caught_reason']=sys.argv[3]
json.dump(m,open(d,'w'),indent=1)
