#!/usr/bin/env python3
# usage: seed_table.py s5 s6  - prints DESIGN.md table rows for the seeds whose id has one of the given ordinals
import json,glob,sys,os,re
want=set(sys.argv[1:])
rows=[]
for d in sorted(glob.glob('/verif/seeded/*/meta.json')):
    m=json.load(open(d))
    sid=os.path.basename(os.path.dirname(d))
    mm=re.match(r'(C\d\d)-(s\d+)-',sid)
    if not mm or mm.group(2) not in want: continue
    needs=m.get('needs_to_manifest','').replace('|','/').replace('\n',' ')
    if len(needs)>230: needs=needs[:227]+'...'
    if m.get('caught_by'):
        rows.append('| %s-%s | %s | %s |  |'%(mm.group(1),mm.group(2),needs,m['caught_by']))
    else:
        r=m.get('not_caught_reason','').replace('|','/')
        if len(r)>200: r=r[:197]+'...'
        rows.append('| %s-%s | %s | — | **not caught**: %s |'%(mm.group(1),mm.group(2),needs,r))
print('\n'.join(rows))
