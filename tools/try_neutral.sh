#!/bin/bash
# usage: try_neutral.sh <diff> [props...]  - applies a behaviour-preserving diff to a scratch
# copy of /repo and runs the quick checks on it; prints the alarms (there should be none).
cd /verif || exit 2
DIFF=$1; shift
PROPS=${*:-$(seq -f 'C%02g' 1 20)}
export GOFLAGS=-mod=mod GOPROXY=off GOSUMDB=off GOTOOLCHAIN=local GOWORK=off
d=$(mktemp -d /tmp/jsneu.XXXXXX)
rsync -a --exclude .git /repo/ "$d/repo/"; mkdir -p "$d/verif"; cp known_findings.json "$d/verif/"
if ! (cd "$d/repo" && patch -p1 -s --no-backup-if-mismatch < "$DIFF") >/dev/null 2>&1; then echo "NEUTRAL $DIFF: does not apply"; rm -rf "$d"; exit 3; fi
bad=""
for p in $PROPS; do
	out=$(JSVET_MAX_SECONDS=120 timeout 200 bin/jsvet -prop "$p" -tier quick -repo "$d/repo" -verif "$d/verif" 2>&1); rc=$?
	if [ $rc -ne 0 ]; then bad="$bad $p"; echo "NEUTRAL $DIFF: $p alarms:"; printf '%s\n' "$out" | grep -E "violation rule=" | cut -c1-400 | head -6; fi
done
rm -rf "$d"
echo "NEUTRAL $DIFF: alarming props:${bad:- none}"
