#!/bin/bash
# usage: confirm_seed.sh <worktree> <diff> <demo_test.go> <pkgdir> <run-regex> <seed-id> <property> <needs...>
# Confirms in a scratch worktree that: the suite passes with the change, the demo fails
# with it and passes without it; then stores the seed under /verif/seeded/<seed-id>/.
set -u
export GOFLAGS=-mod=mod GOPROXY=off GOSUMDB=off GOTOOLCHAIN=local
WT=$1; DIFF=$2; DEMO=$3; PKG=$4; RUN=$5; ID=$6; PROP=$7; NEEDS=$8
git -C "$WT" checkout -q --detach "$(git -C /repo rev-parse HEAD)" && git -C "$WT" checkout -q -- . && git -C "$WT" clean -fdq
if ! git -C "$WT" apply --check "$DIFF"; then echo "SEED $ID: diff does not apply to current HEAD"; exit 3; fi
git -C "$WT" apply "$DIFF"
(cd "$WT" && go build ./... ) || { echo "SEED $ID: does not compile"; exit 3; }
suite=$(cd "$WT" && go test -vet=off -count=1 ./... 2>&1 | grep -c "^FAIL")
cp "$DEMO" "$WT/$PKG/zz_demo_test.go"
with=$(cd "$WT" && timeout 600 go test ${RACE:+-race} -vet=off -count=1 -run "$RUN" ./$PKG/ 2>&1 | tail -40)
withrc=$(echo "$with" | grep -cE "^(FAIL|panic:|--- FAIL)|fatal error|timed out")
git -C "$WT" checkout -q -- . 
without=$(cd "$WT" && timeout 600 go test ${RACE:+-race} -vet=off -count=1 -run "$RUN" ./$PKG/ 2>&1 | tail -5)
withoutok=$(echo "$without" | grep -c "^ok")
rm -f "$WT/$PKG/zz_demo_test.go"; git -C "$WT" clean -fdq
echo "SEED $ID: suite_fail_lines=$suite demo_with_change_fail_markers=$withrc demo_without_change_ok=$withoutok"
if [ "$suite" -eq 0 ] && [ "$withrc" -gt 0 ] && [ "$withoutok" -gt 0 ]; then
	d=/verif/seeded/$ID; mkdir -p "$d"
	cp "$DIFF" "$d/patch.diff"; cp "$DEMO" "$d/demo_test.go"
	python3 - "$d" "$ID" "$PROP" "$NEEDS" "$PKG" "$RUN" <<'PY'
import json,sys
d,i,p,needs,pkg,run=sys.argv[1:7]
json.dump({"id":i,"breaks_property":p,"needs_to_manifest":needs,
 "confirmed":"in a scratch worktree of /repo HEAD: (1) patch applies and compiles, (2) `go test -vet=off -count=1 ./...` passes with the patch, (3) demo_test.go copied to %s/ and run with `go test -run '%s' ./%s/` FAILS with the patch, (4) the same demo PASSES without it"%(pkg,run,pkg),
 "origin":"written by an independent sub-agent that saw only the property text and a scratch worktree"},open(d+"/meta.json","w"),indent=1)
PY
	echo "SEED $ID: confirmed and stored in $d"
else
	echo "SEED $ID: NOT confirmed"; echo "--- with:"; echo "$with" | tail -15; echo "--- without:"; echo "$without"
	exit 4
fi
