#!/bin/bash
# usage: try_seed_all.sh <diff>  - applies a change to a scratch copy of /repo and reports which properties' quick checks alarm
cd /verif || exit 2
DIFF=$1
d=$(mktemp -d /tmp/jsneu.XXXXXX)
rsync -a --exclude .git /repo/ "$d/repo/"; mkdir -p "$d/verif"; cp known_findings.json "$d/verif/"
if ! (cd "$d/repo" && patch -p1 -s --no-backup-if-mismatch < "$DIFF") >/dev/null 2>&1; then echo "does not apply"; rm -rf "$d"; exit 3; fi
for p in $(seq -f 'C%02g' 1 20); do
	out=$(JSVET_MAX_SECONDS=120 timeout 200 bin/jsvet -prop "$p" -tier quick -repo "$d/repo" -verif "$d/verif" 2>&1); rc=$?
	if [ $rc -ne 0 ]; then echo "$p: $(printf '%s\n' "$out" | grep -E 'violation rule=' | head -2 | cut -c1-200 | tr '\n' ' ')"; fi
done
rm -rf "$d"
