#!/usr/bin/env python3
"""Regenerates /verif/MANIFEST.json from the table below (claimed properties) and
properties.jsonl (everything else goes to not_applicable with its reason)."""
import json, os
V = os.path.dirname(os.path.dirname(os.path.abspath(__file__)))
props = [json.loads(l)['id'] for l in open(os.path.join(V, 'properties.jsonl'))]

# id -> (technique, level text, level note, design ref)
CLAIMS = {}
def claim(pid, technique, text, note, ref):
    CLAIMS[pid] = (technique, text, note, ref)

NOT_APPLICABLE = {}

exec(open(os.path.join(V, 'tools', 'claims.py')).read())

checks = []
for p in props:
    if p not in CLAIMS:
        continue
    t, text, note, ref = CLAIMS[p]
    checks.append({
        "property_id": p,
        "quick_cmd": "./check %s quick" % p,
        "thorough_cmd": "./check %s thorough" % p,
        "evidence_file": "/verif/evidence/%s.json" % p,
        "replay_cmd_template": "cat {path}",
        "engine": "jsvet",
        "level_claimed": {"category": "other", "text": text, "design_ref": ref},
        "level_note": note,
        "technique": t,
    })
na = [{"property_id": p, "reason": NOT_APPLICABLE.get(p, "check under construction; not yet claimed")} for p in props if p not in CLAIMS]
m = {
    "version": 1,
    "setup_cmd": "cd /verif/checker && GOFLAGS=-mod=mod GOPROXY=off GOSUMDB=off GOTOOLCHAIN=local GOWORK=off go build -o /verif/bin/jsvet ./cmd/jsvet",
    "hooks": {"guard": "verif", "enable": "none: static analysis reads the source as built; no hook is compiled into the library",
              "baseline_off_cmd": "cd /repo && go test -vet=off -count=1 ./...", "source_commits": [], "add_only": True},
    "engines": [{"name": "jsvet", "path": "/verif/checker", "serves_properties": sorted(CLAIMS),
                 "kind_free_text": "repository-specific static analyser: go/packages typed AST, go/cfg must-dataflow (edge dominance), go/ssa + VTA call graph (SCCs), scanner step functions extracted into a pushdown system and decided by post* saturation"}],
    "checks": checks,
    "not_applicable": na,
    "notes": "Every claim is level 'other': a structural necessary (where stated: sufficient) condition of the property, decided by static analysis of /repo's current source on every run; no check executes library code. The behavioural remainder of each property is listed as 'not decided' in DESIGN.md section 4. thorough = quick with a deeper automaton abstraction plus a self-test that every mutant patch under /verif/mutants/<id>/ is reported.",
}
json.dump(m, open(os.path.join(V, 'MANIFEST.json'), 'w'), indent=1)
print("claimed:", sorted(CLAIMS), "n/a:", [x['property_id'] for x in na])
