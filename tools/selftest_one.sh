#!/bin/sh
# usage: selftest_one.sh <mutant|neutral> <patch> <property> [expected-substring]
# Applies one variant to a scratch copy of $REPO, runs the property's quick check on it and
# prints one verdict line: KILLED|MISSED|STALE|SILENT|ALARM <patch> [details]
KIND=$1; PATCH=$2; PROP=$3; EXP=$4
VERIF=$(cd "$(dirname "$0")/.." && pwd)
REPO=${REPO:-/repo}
cd "$VERIF" || exit 2
d=$(mktemp -d /tmp/jsmut.XXXXXX)
trap 'rm -rf "$d"' EXIT
rsync -a --exclude .git "$REPO"/ "$d/repo/"
mkdir -p "$d/verif"
[ "$KIND" = neutral ] && cp known_findings.json "$d/verif/" 2>/dev/null
if ! (cd "$d/repo" && patch -p1 -s --no-backup-if-mismatch < "$VERIF/$PATCH") >/dev/null 2>&1; then
	echo "STALE $PATCH"; exit 0
fi
out=$(bin/jsvet -prop "$PROP" -tier quick -repo "$d/repo" -verif "$d/verif" 2>&1)
rc=$?
if [ "$KIND" = mutant ]; then
	if [ $rc -eq 1 ] && printf '%s' "$out" | grep -qF -- "$EXP"; then echo "KILLED $PATCH"; else echo "MISSED $PATCH (expected: $EXP)"; fi
else
	if [ $rc -eq 0 ]; then echo "SILENT $PATCH"; else echo "ALARM $PATCH $(printf '%s' "$out" | grep -E 'violation rule=' | head -3 | cut -c1-300 | tr '\n' ' ')"; fi
fi
