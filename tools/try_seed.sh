#!/bin/bash
# usage: try_seed.sh <prop> <diff>  - applies a seeded change to /repo, runs the quick check, reverts at once
cd /verif || exit 2
P=$1; D=$2
git -C /repo apply "$D" || { echo "SEED $D: does not apply"; exit 3; }
out=$(./check "$P" quick 2>&1); rc=$?
git -C /repo checkout -- . ; git -C /repo clean -fdq
echo "SEED $P $D rc=$rc"; printf '%s\n' "$out" | grep -E "violation rule=" | grep -v "known" | cut -c1-330 | head -6
