// Package cfgx builds go/cfg control-flow graphs for function bodies and answers the
// question the guard rules need: "which conditions are known to be true/false when
// control reaches this node?" — by edge dominance, never by execution.
package cfgx

import (
	"go/ast"
	"go/constant"
	"go/token"
	"go/types"

	"golang.org/x/tools/go/cfg"
)

// Fact is a boolean expression known to evaluate to Truth at some program point.
type Fact struct {
	Expr  ast.Expr
	Truth bool
	// Derived: not a condition written in this function but something a helper's outcome
	// implies (see Func.Expand). Rules that judge the vocabulary of the guards written at a
	// site ignore derived facts; rules that need a fact to hold accept them.
	Derived bool
}

// Func is the analysed form of one function body (a FuncDecl or a FuncLit).
type Func struct {
	Body *ast.BlockStmt
	Info *types.Info
	G    *cfg.CFG

	// Expand, when set, is asked for the facts that a fact implies beyond its own
	// syntax: what a helper's success (or a predicate's answer) establishes, expressed in
	// this function's terms. The results are decomposed like ordinary conditions.
	Expand    func(f *Func, fa Fact) []Fact
	expanding int

	idom    []int32 // immediate dominator by block index; -1 = none
	live    []bool
	where   map[ast.Node]loc // every node stored in a block
	boolDef map[types.Object]ast.Expr
	assigns map[types.Object]int
	plain   map[types.Object]int // assignments only (address-taking not counted)
	defs    map[types.Object]ast.Expr
}

type loc struct {
	b   *cfg.Block
	idx int
}

// New analyses a body. Nested function literals are opaque here; analyse them
// separately with New(lit.Body, ...).
func New(body *ast.BlockStmt, info *types.Info) *Func {
	f := &Func{Body: body, Info: info, where: map[ast.Node]loc{}, boolDef: map[types.Object]ast.Expr{}, assigns: map[types.Object]int{}, plain: map[types.Object]int{}}
	f.G = cfg.New(body, func(call *ast.CallExpr) bool { return mayReturn(call, info) })
	n := len(f.G.Blocks)
	f.live = make([]bool, n)
	for _, b := range f.G.Blocks {
		f.live[b.Index] = b.Live
		for i, nd := range b.Nodes {
			f.where[nd] = loc{b, i}
		}
	}
	f.computeDominators()
	f.collectAssignments()
	return f
}

func mayReturn(call *ast.CallExpr, info *types.Info) bool {
	switch fn := call.Fun.(type) {
	case *ast.Ident:
		if b, ok := info.Uses[fn].(*types.Builtin); ok && b.Name() == "panic" {
			return false
		}
	case *ast.SelectorExpr:
		if obj, ok := info.Uses[fn.Sel].(*types.Func); ok && obj.Pkg() != nil {
			if obj.Pkg().Path() == "os" && obj.Name() == "Exit" {
				return false
			}
		}
	}
	return true
}

func (f *Func) computeDominators() {
	n := len(f.G.Blocks)
	f.idom = make([]int32, n)
	for i := range f.idom {
		f.idom[i] = -1
	}
	if n == 0 {
		return
	}
	// reverse post-order over live blocks
	preds := make([][]int32, n)
	for _, b := range f.G.Blocks {
		if !b.Live {
			continue
		}
		for _, s := range b.Succs {
			preds[s.Index] = append(preds[s.Index], b.Index)
		}
	}
	order := []int32{}
	seen := make([]bool, n)
	var dfs func(b *cfg.Block)
	dfs = func(b *cfg.Block) {
		seen[b.Index] = true
		for _, s := range b.Succs {
			if !seen[s.Index] {
				dfs(s)
			}
		}
		order = append(order, b.Index)
	}
	dfs(f.G.Blocks[0])
	rpo := make([]int32, n)
	for i := range rpo {
		rpo[i] = -1
	}
	for i, j := 0, len(order)-1; i < j; i, j = i+1, j-1 {
		order[i], order[j] = order[j], order[i]
	}
	for i, b := range order {
		rpo[b] = int32(i)
	}
	f.idom[0] = 0
	intersect := func(a, b int32) int32 {
		for a != b {
			for rpo[a] > rpo[b] {
				a = f.idom[a]
			}
			for rpo[b] > rpo[a] {
				b = f.idom[b]
			}
		}
		return a
	}
	for changed := true; changed; {
		changed = false
		for _, b := range order[1:] {
			var nd int32 = -1
			for _, p := range preds[b] {
				if f.idom[p] == -1 {
					continue
				}
				if nd == -1 {
					nd = p
				} else {
					nd = intersect(p, nd)
				}
			}
			if nd != f.idom[b] {
				f.idom[b] = nd
				changed = true
			}
		}
	}
}

// Dominates reports whether block a dominates block b (both live).
func (f *Func) Dominates(a, b *cfg.Block) bool {
	if !a.Live || !b.Live {
		return false
	}
	x := b.Index
	for {
		if x == a.Index {
			return true
		}
		if x == 0 || f.idom[x] == -1 {
			return false
		}
		x = f.idom[x]
	}
}

func (f *Func) collectAssignments() {
	ast.Inspect(f.Body, func(n ast.Node) bool {
		switch s := n.(type) {
		case *ast.AssignStmt:
			for i, l := range s.Lhs {
				id, ok := l.(*ast.Ident)
				if !ok {
					continue
				}
				obj := f.Info.ObjectOf(id)
				if obj == nil {
					continue
				}
				f.assigns[obj]++
				f.plain[obj]++
				if len(s.Lhs) == len(s.Rhs) {
					if tv, ok := f.Info.Types[s.Rhs[i]]; ok && tv.Type != nil {
						if b, ok := tv.Type.Underlying().(*types.Basic); ok && b.Info()&types.IsBoolean != 0 {
							f.boolDef[obj] = s.Rhs[i]
						}
					}
				}
			}
		case *ast.IncDecStmt:
			if id, ok := s.X.(*ast.Ident); ok {
				if obj := f.Info.ObjectOf(id); obj != nil {
					f.assigns[obj] += 2
				}
			}
		case *ast.RangeStmt:
			for _, e := range []ast.Expr{s.Key, s.Value} {
				if id, ok := e.(*ast.Ident); ok {
					if obj := f.Info.ObjectOf(id); obj != nil {
						f.assigns[obj]++
					}
				}
			}
		case *ast.UnaryExpr:
			if s.Op == token.AND {
				if id, ok := s.X.(*ast.Ident); ok {
					if obj := f.Info.ObjectOf(id); obj != nil {
						f.assigns[obj] += 2 // address taken: may be written through the pointer
					}
				}
			}
		}
		return true
	})
}

// WrittenOnce is AssignedOnce without counting address-taking: the variable is assigned
// by at most one statement (it may still be written through a pointer taken of it).
func (f *Func) WrittenOnce(obj types.Object) bool { return f.plain[obj] <= 1 }

// AssignedOnce reports whether a local object is written at most once in this body
// (parameters: never), i.e. an expression rooted at it denotes one value throughout.
func (f *Func) AssignedOnce(obj types.Object) bool {
	return f.assigns[obj] <= 1
}

// Locate returns the block and the index of the block node that contains n
// (n may be a sub-expression of a stored node). ok=false when n is not part of this
// function's own control flow (e.g. inside a nested func literal) or in dead code.
func (f *Func) Locate(n ast.Node) (b *cfg.Block, idx int, top ast.Node, ok bool) {
	if l, found := f.where[n]; found {
		return l.b, l.idx, n, l.b.Live
	}
	var best ast.Node
	var bl loc
	for nd, l := range f.where {
		if nd.Pos() <= n.Pos() && n.End() <= nd.End() {
			if best == nil || (nd.End()-nd.Pos()) < (best.End()-best.Pos()) {
				best, bl = nd, l
			}
		}
	}
	if best == nil {
		return nil, 0, nil, false
	}
	// refuse nodes nested in a function literal inside best
	inLit := false
	ast.Inspect(best, func(x ast.Node) bool {
		if lit, ok := x.(*ast.FuncLit); ok && lit.Pos() <= n.Pos() && n.End() <= lit.End() && x != n {
			inLit = true
			return false
		}
		return true
	})
	if inLit {
		return nil, 0, nil, false
	}
	return bl.b, bl.idx, best, bl.b.Live
}

// FactsAt returns the facts that hold whenever control reaches node n: conditions
// of dominating branches (by edge dominance), decomposed through &&, || and !,
// through single-assignment boolean locals, plus the short-circuit context of n
// inside its own statement.  tagOf maps a case expression to its switch tag for
// tagged switches (facts then have the form tag == caseExpr as a synthetic BinaryExpr).
func (f *Func) FactsAt(n ast.Node) []Fact {
	b, idx, top, ok := f.Locate(n)
	if !ok {
		return nil
	}
	var facts []Fact
	// 1. dominating edges
	for _, d := range f.G.Blocks {
		if !d.Live || len(d.Succs) != 2 || len(d.Nodes) == 0 {
			continue
		}
		cond, ok := d.Nodes[len(d.Nodes)-1].(ast.Expr)
		if !ok || d.Kind == cfg.KindRangeLoop {
			continue
		}
		if d == b && idx == len(d.Nodes)-1 {
			continue // n is (inside) the condition itself
		}
		t, e := d.Succs[0], d.Succs[1]
		if t == e {
			continue
		}
		expr := f.caseAsComparison(d, cond)
		if f.edgeDominates(d, t, b) {
			facts = f.decompose(expr, true, facts, 0)
		}
		if f.edgeDominates(d, e, b) {
			facts = f.decompose(expr, false, facts, 0)
		}
	}
	// 2. short-circuit context inside the top node
	facts = f.shortCircuit(top, n, facts)
	return facts
}

// caseAsComparison turns the case expression of a tagged switch into `tag == e`.
func (f *Func) caseAsComparison(d *cfg.Block, cond ast.Expr) ast.Expr {
	if len(d.Succs) != 2 || d.Succs[0].Kind != cfg.KindSwitchCaseBody {
		return cond
	}
	cc, ok := d.Succs[0].Stmt.(*ast.CaseClause)
	if !ok {
		return cond
	}
	sw := f.switchOf(cc)
	if sw == nil || sw.Tag == nil {
		return cond
	}
	return &ast.BinaryExpr{X: sw.Tag, Op: token.EQL, Y: cond, OpPos: cond.Pos()}
}

func (f *Func) switchOf(cc *ast.CaseClause) *ast.SwitchStmt {
	var res *ast.SwitchStmt
	ast.Inspect(f.Body, func(n ast.Node) bool {
		if res != nil {
			return false
		}
		if sw, ok := n.(*ast.SwitchStmt); ok {
			for _, c := range sw.Body.List {
				if c == cc {
					res = sw
					return false
				}
			}
		}
		return true
	})
	return res
}

// edgeDominates: every path from entry to target passes through the edge d->s.
func (f *Func) edgeDominates(d, s, target *cfg.Block) bool {
	if !s.Live || !f.Dominates(s, target) {
		return false
	}
	// every predecessor of s other than d must itself be dominated by s (a back edge)
	for _, p := range f.G.Blocks {
		if !p.Live || p == d {
			continue
		}
		for _, q := range p.Succs {
			if q == s && !f.Dominates(s, p) {
				return false
			}
		}
	}
	// and d must not reach s through its other edge only... (d has s once: checked t!=e)
	return true
}

func (f *Func) decompose(e ast.Expr, truth bool, out []Fact, depth int) []Fact {
	return f.decomposeD(e, truth, out, depth, false)
}

func (f *Func) decomposeD(e ast.Expr, truth bool, out []Fact, depth int, derived bool) []Fact {
	if depth > 8 {
		return out
	}
	e = ast.Unparen(e)
	out = append(out, Fact{Expr: e, Truth: truth, Derived: derived})
	if f.Expand != nil && f.expanding < 3 && depth < 6 {
		f.expanding++
		extra := f.Expand(f, Fact{Expr: e, Truth: truth})
		f.expanding--
		for _, x := range extra {
			out = f.decomposeD(x.Expr, x.Truth, out, depth+1, true)
		}
	}
	switch x := e.(type) {
	case *ast.UnaryExpr:
		if x.Op == token.NOT {
			return f.decomposeD(x.X, !truth, out, depth+1, derived)
		}
	case *ast.BinaryExpr:
		if x.Op == token.LAND && truth {
			out = f.decomposeD(x.X, true, out, depth+1, derived)
			return f.decomposeD(x.Y, true, out, depth+1, derived)
		}
		if x.Op == token.LOR && !truth {
			out = f.decomposeD(x.X, false, out, depth+1, derived)
			return f.decomposeD(x.Y, false, out, depth+1, derived)
		}
	case *ast.Ident:
		if obj := f.Info.ObjectOf(x); obj != nil && f.assigns[obj] == 1 {
			if def, ok := f.boolDef[obj]; ok {
				return f.decomposeD(def, truth, out, depth+1, derived)
			}
		}
	}
	return out
}

// shortCircuit adds the facts implied by n's position inside top: the right operand
// of && runs only when the left is true, of || only when the left is false.
func (f *Func) shortCircuit(top, n ast.Node, out []Fact) []Fact {
	if top == n || top == nil {
		return out
	}
	var walk func(x ast.Node) bool
	walk = func(x ast.Node) bool {
		if x == nil || !(x.Pos() <= n.Pos() && n.End() <= x.End()) {
			return false
		}
		if be, ok := x.(*ast.BinaryExpr); ok && (be.Op == token.LAND || be.Op == token.LOR) {
			if be.Y.Pos() <= n.Pos() && n.End() <= be.Y.End() {
				out = f.decompose(be.X, be.Op == token.LAND, out, 0)
				walk(be.Y)
				return true
			}
			walk(be.X)
			return true
		}
		found := false
		ast.Inspect(x, func(c ast.Node) bool {
			if c == nil || c == x || found {
				return c == x
			}
			if c.Pos() <= n.Pos() && n.End() <= c.End() {
				found = true
				walk(c)
			}
			return false
		})
		return true
	}
	walk(top)
	return out
}

// Before calls fn for every block node that is executed before n on every path
// (nodes of dominating blocks, and earlier nodes of n's own block), in no
// particular order. Used for "an insert M[k]=v precedes the call" style rules.
func (f *Func) Before(n ast.Node, fn func(ast.Node)) {
	b, idx, _, ok := f.Locate(n)
	if !ok {
		return
	}
	for _, d := range f.G.Blocks {
		if !d.Live {
			continue
		}
		if d == b {
			for i := 0; i < idx; i++ {
				fn(d.Nodes[i])
			}
			continue
		}
		if f.Dominates(d, b) {
			for _, nd := range d.Nodes {
				fn(nd)
			}
		}
	}
}

// ---------------------------------------------------------------- expression identity

// SameExpr reports structural equality of two expressions with identifiers compared
// by the object they denote (not by spelling).
func SameExpr(info *types.Info, a, b ast.Expr) bool {
	a, b = ast.Unparen(a), ast.Unparen(b)
	switch x := a.(type) {
	case *ast.Ident:
		y, ok := b.(*ast.Ident)
		if !ok {
			return false
		}
		ox, oy := info.ObjectOf(x), info.ObjectOf(y)
		if ox == nil || oy == nil {
			return x.Name == y.Name
		}
		return ox == oy
	case *ast.SelectorExpr:
		y, ok := b.(*ast.SelectorExpr)
		if !ok {
			return false
		}
		if info.ObjectOf(x.Sel) != info.ObjectOf(y.Sel) {
			return false
		}
		return SameExpr(info, x.X, y.X)
	case *ast.StarExpr:
		y, ok := b.(*ast.StarExpr)
		return ok && SameExpr(info, x.X, y.X)
	case *ast.UnaryExpr:
		y, ok := b.(*ast.UnaryExpr)
		return ok && x.Op == y.Op && SameExpr(info, x.X, y.X)
	case *ast.BinaryExpr:
		y, ok := b.(*ast.BinaryExpr)
		return ok && x.Op == y.Op && SameExpr(info, x.X, y.X) && SameExpr(info, x.Y, y.Y)
	case *ast.IndexExpr:
		y, ok := b.(*ast.IndexExpr)
		return ok && SameExpr(info, x.X, y.X) && SameExpr(info, x.Index, y.Index)
	case *ast.CallExpr:
		y, ok := b.(*ast.CallExpr)
		if !ok || len(x.Args) != len(y.Args) || !SameExpr(info, x.Fun, y.Fun) {
			return false
		}
		for i := range x.Args {
			if !SameExpr(info, x.Args[i], y.Args[i]) {
				return false
			}
		}
		return true
	case *ast.BasicLit:
		y, ok := b.(*ast.BasicLit)
		return ok && x.Kind == y.Kind && x.Value == y.Value
	case *ast.TypeAssertExpr:
		y, ok := b.(*ast.TypeAssertExpr)
		return ok && SameExpr(info, x.X, y.X) && types.ExprString(x.Type) == types.ExprString(y.Type)
	}
	return false
}

// RootObj returns the variable an access path (x.f.g, *x, x[i]) is rooted at.
func RootObj(info *types.Info, e ast.Expr) types.Object {
	for {
		e = ast.Unparen(e)
		switch x := e.(type) {
		case *ast.Ident:
			return info.ObjectOf(x)
		case *ast.SelectorExpr:
			// package-qualified identifier?
			if id, ok := x.X.(*ast.Ident); ok {
				if _, isPkg := info.ObjectOf(id).(*types.PkgName); isPkg {
					return info.ObjectOf(x.Sel)
				}
			}
			e = x.X
		case *ast.StarExpr:
			e = x.X
		case *ast.IndexExpr:
			e = x.X
		case *ast.UnaryExpr:
			e = x.X
		case *ast.CallExpr:
			return nil
		default:
			return nil
		}
	}
}

// ---------------------------------------------------------------- must-dataflow

// MustAt decides, by a forward must-analysis over the CFG, whether on EVERY path
// from the function entry to node n some fact accepted by gen was established (by a
// branch edge whose condition implies it, or by a statement accepted by genStmt)
// and not invalidated afterwards by a node accepted by kill. gen receives the
// decomposed facts of an edge; genStmt and kill receive block nodes (statements or
// expressions) and may be nil.
func (f *Func) MustAt(n ast.Node, gen func(Fact) bool, genStmt func(ast.Node) bool, kill func(ast.Node) bool) bool {
	return f.MustAtInit(n, false, gen, genStmt, kill)
}

// MustAtInit is MustAt with the fact's value at the function entry given: with
// init=true and only a kill predicate it decides "no path from the entry to n passes a
// killing node" (the negation of may-reach).
func (f *Func) MustAtInit(n ast.Node, init bool, gen func(Fact) bool, genStmt func(ast.Node) bool, kill func(ast.Node) bool) bool {
	b, idx, top, ok := f.Locate(n)
	if !ok {
		return false
	}
	nb := len(f.G.Blocks)
	in := make([]bool, nb)
	for i := range in {
		in[i] = true // optimistic start for a greatest fixpoint
	}
	in[0] = init
	// transfer through the nodes of a block up to (not including) limit
	through := func(blk *cfg.Block, v bool, limit int) bool {
		for i, nd := range blk.Nodes {
			if i >= limit {
				break
			}
			if kill != nil && kill(nd) {
				v = false
			}
			if genStmt != nil && genStmt(nd) {
				v = true
			}
		}
		return v
	}
	edgeVal := func(p *cfg.Block, si int) bool {
		v := through(p, in[p.Index], len(p.Nodes))
		if len(p.Succs) == 2 && len(p.Nodes) > 0 && p.Kind != cfg.KindRangeLoop && p.Succs[0] != p.Succs[1] {
			if cond, ok := p.Nodes[len(p.Nodes)-1].(ast.Expr); ok {
				expr := f.caseAsComparison(p, cond)
				if gen != nil && f.edgeImplies(expr, si == 0, gen, 0) {
					v = true
				}
			}
		}
		return v
	}
	preds := make([][][2]int, nb) // block -> list of (pred index, succ slot)
	for _, p := range f.G.Blocks {
		if !p.Live {
			continue
		}
		for si, s := range p.Succs {
			preds[s.Index] = append(preds[s.Index], [2]int{int(p.Index), si})
		}
	}
	// the do-while idiom `for done := false; !done; done = f() { ... }`: the loop condition
	// holds on the first arrival, so the exit edge of the header is reached only from the post
	// statement - the value on that edge is computed from the post predecessor alone
	doWhile := f.doWhileHeaders()
	for changed := true; changed; {
		changed = false
		for _, blk := range f.G.Blocks {
			if !blk.Live || blk.Index == 0 {
				continue
			}
			v := true
			if len(preds[blk.Index]) == 0 {
				v = false
			}
			for _, pr := range preds[blk.Index] {
				p := f.G.Blocks[pr[0]]
				if post, isDW := doWhile[p.Index]; isDW && pr[1] == 1 {
					// exit edge of a do-while header: as if entered from the post block only
					saved := in[p.Index]
					alt := true
					for _, pp := range preds[p.Index] {
						if int32(pp[0]) == post {
							alt = edgeVal(f.G.Blocks[pp[0]], pp[1])
						}
					}
					in[p.Index] = alt
					ev := edgeVal(p, pr[1])
					in[p.Index] = saved
					if !ev {
						v = false
					}
					continue
				}
				if !edgeVal(p, pr[1]) {
					v = false
				}
			}
			if v != in[blk.Index] {
				in[blk.Index] = v
				changed = true
			}
		}
	}
	v := through(b, in[b.Index], idx)
	if v {
		return true
	}
	// short-circuit context inside n's own statement (x != nil && x.f ...)
	for _, fa := range f.shortCircuit(top, n, nil) {
		if gen != nil && gen(fa) {
			return true
		}
	}
	return false
}

// doWhileHeaders finds the loop headers of `for x := <bool const>; x / !x; x = ... { body }`
// whose condition is true on the first arrival and whose flag the body does not assign;
// it maps the header block to its post block.
func (f *Func) doWhileHeaders() map[int32]int32 {
	out := map[int32]int32{}
	for _, h := range f.G.Blocks {
		if !h.Live || h.Kind != cfg.KindForLoop || len(h.Succs) != 2 {
			continue
		}
		fs, ok := h.Stmt.(*ast.ForStmt)
		if !ok || fs.Init == nil || fs.Cond == nil || fs.Post == nil {
			continue
		}
		as, ok := fs.Init.(*ast.AssignStmt)
		if !ok || as.Tok != token.DEFINE || len(as.Lhs) != 1 || len(as.Rhs) != 1 {
			continue
		}
		id, ok := as.Lhs[0].(*ast.Ident)
		if !ok {
			continue
		}
		flag := f.Info.ObjectOf(id)
		tv, ok := f.Info.Types[as.Rhs[0]]
		if !ok || tv.Value == nil || tv.Value.Kind() != constant.Bool {
			continue
		}
		initVal := constant.BoolVal(tv.Value)
		cond := ast.Unparen(fs.Cond)
		first := false
		if u, ok := cond.(*ast.UnaryExpr); ok && u.Op == token.NOT {
			if cid, ok := ast.Unparen(u.X).(*ast.Ident); ok && f.Info.ObjectOf(cid) == flag {
				first = !initVal
			}
		} else if cid, ok := cond.(*ast.Ident); ok && f.Info.ObjectOf(cid) == flag {
			first = initVal
		}
		if !first {
			continue
		}
		// the body leaves the flag alone
		touched := false
		ast.Inspect(fs.Body, func(n ast.Node) bool {
			if a2, ok := n.(*ast.AssignStmt); ok {
				for _, l := range a2.Lhs {
					if lid, ok := l.(*ast.Ident); ok && f.Info.ObjectOf(lid) == flag {
						touched = true
					}
				}
			}
			return true
		})
		if touched {
			continue
		}
		for _, p := range f.G.Blocks {
			if p.Live && p.Kind == cfg.KindForPost && p.Stmt == h.Stmt {
				out[h.Index] = p.Index
			}
		}
	}
	return out
}

// edgeImplies: taking the branch on which e has the given truth value establishes a fact
// accepted by gen. Besides the conjunctive decomposition (A && B true gives A and B), a
// disjunctive outcome counts when EVERY alternative establishes such a fact: !(A && B)
// is !A or !B, (A || B) is A or B.
func (f *Func) edgeImplies(e ast.Expr, truth bool, gen func(Fact) bool, depth int) bool {
	for _, fa := range f.decompose(e, truth, nil, 0) {
		if gen(fa) {
			return true
		}
	}
	if depth > 4 {
		return false
	}
	switch x := ast.Unparen(e).(type) {
	case *ast.UnaryExpr:
		if x.Op == token.NOT {
			return f.edgeImplies(x.X, !truth, gen, depth+1)
		}
	case *ast.BinaryExpr:
		if (x.Op == token.LAND && !truth) || (x.Op == token.LOR && truth) {
			return f.edgeImplies(x.X, truth, gen, depth+1) && f.edgeImplies(x.Y, truth, gen, depth+1)
		}
	}
	return false
}

// Assigns reports whether node nd (a block node) assigns to an expression for
// which match returns true (plain assignment, define, op-assign, inc/dec, range).
// Function literals nested in nd are not entered.
func Assigns(nd ast.Node, match func(lhs ast.Expr) bool) bool {
	found := false
	ast.Inspect(nd, func(x ast.Node) bool {
		if found {
			return false
		}
		switch s := x.(type) {
		case *ast.FuncLit:
			return false
		case *ast.AssignStmt:
			for _, l := range s.Lhs {
				if match(l) {
					found = true
				}
			}
		case *ast.IncDecStmt:
			if match(s.X) {
				found = true
			}
		case *ast.RangeStmt:
			if s.Key != nil && match(s.Key) {
				found = true
			}
			if s.Value != nil && match(s.Value) {
				found = true
			}
			return false
		}
		return true
	})
	return found
}

// IsNilCheck matches facts meaning "e is not nil": (e != nil, true) or (e == nil, false).
func IsNilCheck(info *types.Info, fa Fact, e ast.Expr) bool {
	be, ok := ast.Unparen(fa.Expr).(*ast.BinaryExpr)
	if !ok || (be.Op != token.NEQ && be.Op != token.EQL) {
		return false
	}
	x, y := be.X, be.Y
	if isNilIdent(info, x) {
		x, y = y, x
	}
	if !isNilIdent(info, y) || !SameExpr(info, x, e) {
		return false
	}
	return (be.Op == token.NEQ) == fa.Truth
}

func isNilIdent(info *types.Info, e ast.Expr) bool {
	id, ok := ast.Unparen(e).(*ast.Ident)
	if !ok {
		return false
	}
	_, isNil := info.ObjectOf(id).(*types.Nil)
	return isNil
}

// Resolve follows single-assignment local aliases: for `x := e` (x written once)
// Resolve(x) = Resolve(e). Other expressions are returned unchanged.
func (f *Func) Resolve(e ast.Expr) ast.Expr {
	for i := 0; i < 8; i++ {
		id, ok := ast.Unparen(e).(*ast.Ident)
		if !ok {
			return e
		}
		obj := f.Info.ObjectOf(id)
		if obj == nil || f.assigns[obj] != 1 {
			return e
		}
		def := f.defOf(obj)
		if def == nil {
			return e
		}
		e = def
	}
	return e
}

func (f *Func) defOf(obj types.Object) ast.Expr {
	if f.defs == nil {
		f.defs = map[types.Object]ast.Expr{}
		ast.Inspect(f.Body, func(n ast.Node) bool {
			if s, ok := n.(*ast.AssignStmt); ok && len(s.Lhs) == len(s.Rhs) {
				for i, l := range s.Lhs {
					if id, ok := l.(*ast.Ident); ok {
						if o := f.Info.ObjectOf(id); o != nil {
							f.defs[o] = s.Rhs[i]
						}
					}
				}
			}
			return true
		})
	}
	return f.defs[obj]
}

// SameResolved is SameExpr after resolving local aliases on both sides at every level.
func (f *Func) SameResolved(a, b ast.Expr) bool {
	a, b = f.Resolve(a), f.Resolve(b)
	if SameExpr(f.Info, a, b) {
		return true
	}
	// resolve inner receivers: x.f vs y.f where x aliases y
	sa, ok1 := ast.Unparen(a).(*ast.SelectorExpr)
	sb, ok2 := ast.Unparen(b).(*ast.SelectorExpr)
	if ok1 && ok2 && f.Info.ObjectOf(sa.Sel) == f.Info.ObjectOf(sb.Sel) {
		return f.SameResolved(sa.X, sb.X)
	}
	return false
}

// DefOf returns the defining expression of a local that is assigned exactly once by a
// one-to-one assignment (x := e), or nil.
func (f *Func) DefOf(obj types.Object) ast.Expr {
	if obj == nil || f.assigns[obj] != 1 {
		return nil
	}
	return f.defOf(obj)
}

// TupleDefOf: obj is assigned exactly once, by `a, b, obj := call(...)` (or the comma-ok
// forms `v, obj := m[k]`, `v, obj := x.(T)`); it returns the right-hand side and obj's
// position among the left-hand sides.
func (f *Func) TupleDefOf(obj types.Object) (ast.Expr, int, bool) {
	if obj == nil || f.assigns[obj] != 1 {
		return nil, 0, false
	}
	var rhs ast.Expr
	idx := -1
	ast.Inspect(f.Body, func(n ast.Node) bool {
		s, ok := n.(*ast.AssignStmt)
		if !ok || len(s.Rhs) != 1 || len(s.Lhs) < 2 {
			return true
		}
		for i, l := range s.Lhs {
			if id, ok := l.(*ast.Ident); ok && f.Info.ObjectOf(id) == obj {
				rhs, idx = s.Rhs[0], i
			}
		}
		return true
	})
	return rhs, idx, rhs != nil
}

// Decompose returns the facts implied by e having the given truth value.
func (f *Func) Decompose(e ast.Expr, truth bool) []Fact { return f.decompose(e, truth, nil, 0) }

// AssignOf returns the single assignment statement that writes obj (nil when obj is
// written more than once or never by an assignment).
func (f *Func) AssignOf(obj types.Object) *ast.AssignStmt {
	if obj == nil || f.assigns[obj] != 1 {
		return nil
	}
	var out *ast.AssignStmt
	ast.Inspect(f.Body, func(n ast.Node) bool {
		s, ok := n.(*ast.AssignStmt)
		if !ok {
			return true
		}
		for _, l := range s.Lhs {
			if id, ok := l.(*ast.Ident); ok && f.Info.ObjectOf(id) == obj {
				out = s
			}
		}
		return true
	})
	return out
}
