package main

import (
	"fmt"
	"sort"

	"golang.org/x/tools/go/callgraph"
	"golang.org/x/tools/go/ssa"

	"verif/checker/load"
)

func main() {
	p, err := load.Load("/repo")
	if err != nil {
		panic(err)
	}
	cg := p.CallGraph()
	// repo-only graph
	idx := map[*ssa.Function]int{}
	var fns []*ssa.Function
	for f := range cg.Nodes {
		if f != nil && p.IsRepoFunc(f) {
			idx[f] = len(fns)
			fns = append(fns, f)
		}
	}
	adj := make([][]int, len(fns))
	for f, n := range cg.Nodes {
		if f == nil || !p.IsRepoFunc(f) {
			continue
		}
		for _, e := range n.Out {
			if j, ok := idx[e.Callee.Func]; ok {
				adj[idx[f]] = append(adj[idx[f]], j)
			}
		}
	}
	_ = callgraph.CalleesOf
	// tarjan
	n := len(fns)
	index := make([]int, n)
	low := make([]int, n)
	on := make([]bool, n)
	for i := range index {
		index[i] = -1
	}
	var stack []int
	cnt := 0
	var sccs [][]int
	var strong func(v int)
	strong = func(v int) {
		index[v], low[v] = cnt, cnt
		cnt++
		stack = append(stack, v)
		on[v] = true
		for _, w := range adj[v] {
			if index[w] == -1 {
				strong(w)
				if low[w] < low[v] {
					low[v] = low[w]
				}
			} else if on[w] && index[w] < low[v] {
				low[v] = index[w]
			}
		}
		if low[v] == index[v] {
			var comp []int
			for {
				w := stack[len(stack)-1]
				stack = stack[:len(stack)-1]
				on[w] = false
				comp = append(comp, w)
				if w == v {
					break
				}
			}
			self := false
			for _, w := range adj[v] {
				if w == v {
					self = true
				}
			}
			if len(comp) > 1 || self {
				sccs = append(sccs, comp)
			}
		}
	}
	for v := 0; v < n; v++ {
		if index[v] == -1 {
			strong(v)
		}
	}
	for _, comp := range sccs {
		var names []string
		for _, v := range comp {
			names = append(names, fns[v].String())
		}
		sort.Strings(names)
		fmt.Println(len(comp), names)
	}
}
