package main

import (
	"fmt"
	"os"
	"sort"

	"verif/checker/load"
	"verif/checker/scanpds"
)

func main() {
	root := "/repo"
	if len(os.Args) > 1 {
		root = os.Args[1]
	}
	p, err := load.Load(root)
	if err != nil {
		fmt.Println(err)
		os.Exit(2)
	}
	m, err := scanpds.Extract(p)
	if err != nil {
		fmt.Println(err)
		os.Exit(2)
	}
	for _, st := range m.States {
		for _, pa := range st.Paths {
			fmt.Println(m.Describe(st, pa))
		}
	}
	fmt.Println("states", len(m.States), "initial", m.States[m.Initial].Name)
	fmt.Println("begin", m.Begin, "end", m.End, "single", m.Single, "pair", m.PairOf)
	var ks []string
	for k, v := range m.Counts {
		ks = append(ks, fmt.Sprintf("%s=%d", k, v))
	}
	sort.Strings(ks)
	fmt.Println(ks, m.OpaquePreds)
	r := m.Analyse()
	fmt.Println("classes", r.Classes, "heads", r.Heads, "transitions", r.Transitions, "rules", r.Rules, "reach", len(r.ReachStates), "checkedPaths", r.CheckedPaths)
	fmt.Println("nodir lexemes", r.NoDirLexemes)
	var kws []string
	for k := range r.Keywords {
		if len(k) != 3 || k[0] < '1' || k[0] > '5' {
			kws = append(kws, k)
		}
	}
	sort.Strings(kws)
	fmt.Println("keywords", len(r.Keywords), kws)
	for _, f := range r.Findings {
		fmt.Println("FINDING", f.Key, p.Pos(f.Pos), f.Detail, "\n   trace:", f.Trace)
	}
	for _, pr := range m.Problems {
		fmt.Println("PROBLEM", p.Pos(pr.Pos), pr.Msg)
	}
}
