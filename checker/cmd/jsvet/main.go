// jsvet decides the statically checkable part of the properties C01..C20 of
// jsight-api-go-library by analysing the source under -repo. It never runs it.
package main

import (
	"flag"
	"fmt"
	"os"
	"path/filepath"
	"runtime"
	"runtime/debug"
	"sort"
	"strconv"
	"time"

	"verif/checker/load"
	"verif/checker/report"
	"verif/checker/rules"
)

func main() {
	prop := flag.String("prop", "", "property id (C01..C20)")
	tier := flag.String("tier", "quick", "quick|thorough")
	repo := flag.String("repo", "/repo", "repository root to analyse")
	verif := flag.String("verif", "", "verification directory (evidence, known findings); default: parent of the checker module")
	list := flag.Bool("list", false, "list properties with rules")
	dump := flag.Bool("dump", false, "print every obligation")
	flag.Parse()
	if *verif == "" {
		if wd, err := os.Getwd(); err == nil {
			*verif = wd
			for d := wd; d != "/"; d = filepath.Dir(d) {
				if _, err := os.Stat(filepath.Join(d, "properties.jsonl")); err == nil {
					*verif = d
					break
				}
			}
		}
	}
	if *list {
		var ids []string
		for id := range rules.Properties {
			ids = append(ids, id)
		}
		sort.Strings(ids)
		for _, id := range ids {
			fmt.Print(id, ":")
			for _, r := range rules.Properties[id].Rules {
				fmt.Print(" ", r.ID)
			}
			fmt.Println()
		}
		return
	}
	// resource watchdog: an analysis that does not converge is a failed check with a clear
	// message, never a machine brought down (limits: JSVET_MAX_SECONDS, JSVET_MAX_MB)
	go watchdog(*prop, *verif, envInt("JSVET_MAX_SECONDS", 600), envInt("JSVET_MAX_MB", 8192))
	spec, ok := rules.Properties[*prop]
	if !ok {
		fmt.Fprintf(os.Stderr, "unknown property %q\n", *prop)
		os.Exit(2)
	}
	if v := os.Getenv("VERIF_TIER"); v == "quick" || v == "thorough" {
		// the flag wins when given explicitly
		explicit := false
		flag.Visit(func(f *flag.Flag) { explicit = explicit || f.Name == "tier" })
		if !explicit {
			*tier = v
		}
	}
	seed, _ := strconv.ParseInt(os.Getenv("VERIF_SEED"), 10, 64)
	run := report.NewRun(*prop, *tier, seed)
	run.Trusted = spec.Trusted
	run.Assume = spec.Assume
	code := check(run, spec, *repo, *verif, *tier)
	if *dump {
		for _, o := range run.Obs {
			fmt.Printf("%-9s %s @%s :: %s\n", o.Verdict, o.Key, o.Pos, o.Detail)
		}
	}
	os.Exit(code)
}

func check(run *report.Run, spec *rules.PropSpec, repo, verif, tier string) (code int) {
	known, err := report.LoadKnown(filepath.Join(verif, "known_findings.json"))
	if err != nil {
		fmt.Println("cannot read known findings:", err)
		return 2
	}
	defer func() {
		if r := recover(); r != nil {
			// an analyser panic is a failed check, never a pass
			sc := run.Begin("internal", "analyser integrity", 0)
			sc.Undecided("panic", "-", fmt.Sprintf("analyser panic: %v\n%s", r, debug.Stack()))
			sc.End()
			code = run.Finish(verif, known, spec.Explanation)
		}
	}()
	p, err := load.Load(repo)
	if err != nil {
		sc := run.Begin("load", "the repository loads and type-checks", 1)
		sc.Undecided("load", "-", err.Error())
		sc.End()
		return run.Finish(verif, known, spec.Explanation)
	}
	nf := 0
	p.Funcs(func(_ *load.Pkg, _ *load.FuncDecl) { nf++ })
	run.FuncsAnalysed = nf
	run.Extra["packages_analysed"] = len(p.Repo)
	run.Extra["functions_in_scope"] = nf
	for _, n := range p.Normalised {
		run.Notes = append(run.Notes, "normalised: "+n)
		fmt.Fprintln(os.Stderr, "normalised:", n)
	}
	ctx := rules.NewCtx(p, run, tier)
	for _, r := range spec.Rules {
		r.Run(ctx)
	}
	return run.Finish(verif, known, spec.Explanation)
}

func envInt(name string, def int) int {
	if v, err := strconv.Atoi(os.Getenv(name)); err == nil && v > 0 {
		return v
	}
	return def
}

func watchdog(prop, verif string, maxSeconds, maxMB int) {
	start := time.Now()
	var ms runtime.MemStats
	for {
		time.Sleep(500 * time.Millisecond)
		runtime.ReadMemStats(&ms)
		mb := int(ms.Sys >> 20)
		el := int(time.Since(start).Seconds())
		if el > maxSeconds || mb > maxMB {
			fmt.Printf("  violation rule=RESOURCES key=RESOURCES:budget at -: UNDECIDED: the analysis did not finish within its budget (%d s of %d, %d MB of %d): a rule does not converge on this tree\n", el, maxSeconds, mb, maxMB)
			fmt.Printf("VIOLATION property=%s replay=%s\n", prop, filepath.Join(verif, "evidence", "replay", prop+".json"))
			os.Exit(1)
		}
	}
}
