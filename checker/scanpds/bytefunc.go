package scanpds

import (
	"go/ast"
	"go/constant"
	"go/token"
	"go/types"
)

// A pure function of one byte is decided by evaluating its syntax for each of the 256
// values of its parameter: if/else chains, switches, returns, comparisons, boolean
// connectives, byte arithmetic and calls of other such functions. Anything else (a loop, an
// assignment, a call that leaves the package) makes the function opaque; the shape
// recognisers remain as a fallback.

type byteEval struct {
	m     *Machine
	depth int
}

type bval struct {
	v  constant.Value
	ok bool
}

func (ev *byteEval) call(fd *ast.FuncDecl, args ...constant.Value) (constant.Value, bool) {
	if ev.depth > 6 || fd == nil || fd.Body == nil || fd.Recv != nil || fd.Type.Params == nil {
		return nil, false
	}
	ev.depth++
	defer func() { ev.depth-- }()
	env := map[types.Object]constant.Value{}
	i := 0
	for _, fl := range fd.Type.Params.List {
		for _, nm := range fl.Names {
			if i >= len(args) {
				return nil, false
			}
			env[ev.m.Pkg.TypesInfo.ObjectOf(nm)] = args[i]
			i++
		}
	}
	if i != len(args) || i == 0 {
		return nil, false
	}
	v, done, ok := ev.stmts(fd.Body.List, env)
	if !ok || !done {
		return nil, false
	}
	return v, true
}

// stmts: (value, returned, understood)
func (ev *byteEval) stmts(list []ast.Stmt, env map[types.Object]constant.Value) (constant.Value, bool, bool) {
	for _, st := range list {
		switch s := st.(type) {
		case *ast.ReturnStmt:
			if len(s.Results) != 1 {
				return nil, false, false
			}
			v, ok := ev.expr(s.Results[0], env)
			return v, true, ok
		case *ast.BlockStmt:
			if v, done, ok := ev.stmts(s.List, env); !ok || done {
				return v, done, ok
			}
		case *ast.IfStmt:
			if s.Init != nil {
				return nil, false, false
			}
			c, ok := ev.expr(s.Cond, env)
			if !ok || c.Kind() != constant.Bool {
				return nil, false, false
			}
			if constant.BoolVal(c) {
				if v, done, ok := ev.stmts(s.Body.List, env); !ok || done {
					return v, done, ok
				}
			} else if s.Else != nil {
				if v, done, ok := ev.stmts([]ast.Stmt{s.Else}, env); !ok || done {
					return v, done, ok
				}
			}
		case *ast.SwitchStmt:
			if s.Init != nil {
				return nil, false, false
			}
			var tag constant.Value
			if s.Tag != nil {
				t, ok := ev.expr(s.Tag, env)
				if !ok {
					return nil, false, false
				}
				tag = t
			}
			var chosen, deflt *ast.CaseClause
			for _, cl := range s.Body.List {
				cc := cl.(*ast.CaseClause)
				if cc.List == nil {
					deflt = cc
					continue
				}
				if chosen != nil {
					continue
				}
				for _, e := range cc.List {
					v, ok := ev.expr(e, env)
					if !ok {
						return nil, false, false
					}
					hit := false
					if tag != nil {
						hit = constant.Compare(tag, token.EQL, v)
					} else if v.Kind() == constant.Bool {
						hit = constant.BoolVal(v)
					} else {
						return nil, false, false
					}
					if hit {
						chosen = cc
						break
					}
				}
			}
			if chosen == nil {
				chosen = deflt
			}
			if chosen != nil {
				for _, b := range chosen.Body {
					if br, ok := b.(*ast.BranchStmt); ok && br.Tok == token.FALLTHROUGH {
						return nil, false, false
					}
				}
				if v, done, ok := ev.stmts(chosen.Body, env); !ok || done {
					return v, done, ok
				}
			}
		case *ast.EmptyStmt:
		default:
			return nil, false, false
		}
	}
	return nil, false, true
}

func (ev *byteEval) expr(e ast.Expr, env map[types.Object]constant.Value) (constant.Value, bool) {
	info := ev.m.Pkg.TypesInfo
	e = ast.Unparen(e)
	if tv, ok := info.Types[e]; ok && tv.Value != nil {
		return tv.Value, true
	}
	wrap := func(v constant.Value, at ast.Expr) (constant.Value, bool) {
		if v == nil || v.Kind() == constant.Unknown {
			return nil, false
		}
		if t := info.TypeOf(at); t != nil && v.Kind() == constant.Int {
			if b, ok := t.Underlying().(*types.Basic); ok {
				switch b.Kind() {
				case types.Uint8:
					n, exact := constant.Int64Val(v)
					if !exact {
						return nil, false
					}
					return constant.MakeInt64(n & 0xFF), true
				case types.Int, types.Int64, types.Int32, types.Uint, types.Uint32, types.Uint64, types.UntypedInt, types.UntypedRune:
				default:
					return nil, false
				}
			}
		}
		return v, true
	}
	switch x := e.(type) {
	case *ast.Ident:
		if v, ok := env[info.ObjectOf(x)]; ok {
			return v, true
		}
		switch x.Name {
		case "true":
			return constant.MakeBool(true), true
		case "false":
			return constant.MakeBool(false), true
		}
		return nil, false
	case *ast.UnaryExpr:
		v, ok := ev.expr(x.X, env)
		if !ok {
			return nil, false
		}
		if x.Op == token.NOT && v.Kind() == constant.Bool {
			return constant.MakeBool(!constant.BoolVal(v)), true
		}
		return nil, false
	case *ast.BinaryExpr:
		l, ok := ev.expr(x.X, env)
		if !ok {
			return nil, false
		}
		switch x.Op {
		case token.LOR, token.LAND:
			if l.Kind() != constant.Bool {
				return nil, false
			}
			if (x.Op == token.LOR) == constant.BoolVal(l) {
				return l, true
			}
			r, ok := ev.expr(x.Y, env)
			if !ok || r.Kind() != constant.Bool {
				return nil, false
			}
			return r, true
		}
		r, ok := ev.expr(x.Y, env)
		if !ok {
			return nil, false
		}
		switch x.Op {
		case token.EQL, token.NEQ, token.LSS, token.LEQ, token.GTR, token.GEQ:
			if l.Kind() != r.Kind() {
				return nil, false
			}
			if l.Kind() == constant.Bool && x.Op != token.EQL && x.Op != token.NEQ {
				return nil, false
			}
			return constant.MakeBool(constant.Compare(l, x.Op, r)), true
		case token.ADD, token.SUB:
			if l.Kind() != constant.Int || r.Kind() != constant.Int {
				return nil, false
			}
			return wrap(constant.BinaryOp(l, x.Op, r), x)
		}
		return nil, false
	case *ast.CallExpr:
		if len(x.Args) == 0 || x.Ellipsis != token.NoPos {
			return nil, false
		}
		var args []constant.Value
		for _, ae := range x.Args {
			a, ok := ev.expr(ae, env)
			if !ok {
				return nil, false
			}
			args = append(args, a)
		}
		if tv, ok := info.Types[x.Fun]; ok && tv.IsType() {
			if len(args) != 1 {
				return nil, false
			}
			return wrap(args[0], x)
		}
		callee := ev.m.callee(x)
		if callee == nil || callee.Pkg() != ev.m.Pkg.Types {
			return nil, false
		}
		sig := callee.Type().(*types.Signature)
		if sig.Recv() != nil || sig.Variadic() || sig.Params().Len() != len(args) {
			return nil, false
		}
		for i := 0; i < sig.Params().Len(); i++ {
			b, ok := sig.Params().At(i).Type().Underlying().(*types.Basic)
			if !ok || (b.Kind() != types.Uint8 && b.Kind() != types.Bool) {
				return nil, false
			}
		}
		return ev.call(ev.m.Prog.Decl(callee), args...)
	}
	return nil, false
}

// byteFuncSets evaluates fd for all 256 bytes. For a boolean function the set holds the
// bytes it accepts; for a byte->byte function the bytes b with f(b) == b, which is what
// `case f(c)` selects in `switch c`.
func (m *Machine) byteFuncSet(fd *ast.FuncDecl, boolean bool) (ByteSet, bool) {
	ev := &byteEval{m: m}
	var set ByteSet
	for b := 0; b < 256; b++ {
		v, ok := ev.call(fd, constant.MakeInt64(int64(b)))
		if !ok {
			return ByteSet{}, false
		}
		if boolean {
			if v.Kind() != constant.Bool {
				return ByteSet{}, false
			}
			if constant.BoolVal(v) {
				set.Add(byte(b))
			}
			continue
		}
		n, exact := constant.Int64Val(v)
		if v.Kind() != constant.Int || !exact {
			return ByteSet{}, false
		}
		if n == int64(b) {
			set.Add(byte(b))
		}
	}
	return set, true
}
