package scanpds

import (
	"fmt"
	"go/token"
	"sort"
	"strings"
)

// Ctrl is the finite control of the pushdown system: an abstraction of the event
// stack, of the distances the S1 rules need (all lower bounds, saturating), of
// whether core has a current directive, and of a pending same-byte redispatch.
type Ctrl struct {
	Open    int8  // index into Machine.beginIdx (+1); 0 = no open lexeme
	D       int8  // curIndex - begin position of the open lexeme (lower bound, -3..Sat)
	Cons    int8  // lower bound on curIndex (0..Sat)
	Gap     int8  // curIndex - end position of the last closed lexeme (lower bound, 0..Sat)
	Dir     int8  // 0: core has no current directive; 1: it has; 2: INCLUDE keyword seen, its file name parameter pending
	Pend    int16 // byte class that must be re-dispatched to the current step, or -1
	Ended   bool  // the EOF symbol has been consumed
	AtEOF   bool  // the open lexeme began on the end-of-input symbol itself (it spans no byte)
	AfterNL bool  // the last consumed byte was a line end read with no lexeme open (start of a line)
	NoEOF   bool  // the next symbol cannot be end of input (the read position was just moved back onto a consumed byte)
}

// Sat is the saturation bound of the distance counters.
var Sat int8 = 3

func sat(v int) int8 {
	if v > int(Sat) {
		return Sat
	}
	if v < -int(Sat) {
		return -Sat
	}
	return int8(v)
}

// Finding is a violated S1 rule with the construct and a witness.
type Finding struct {
	Rule   string
	State  string
	Key    string // stable key: rule + state + arm description
	Pos    token.Pos
	Detail string
	Trace  string
}

// Result of the pushdown analysis.
type Result struct {
	Findings      []Finding
	Heads         int // reachable (control, top-of-stack) pairs
	Transitions   int // transitions of the post* automaton
	Rules         int // pushdown rules generated
	Classes       int
	ReachStates   map[int]bool
	NoDirLexemes  map[string]bool      // lexeme kinds completed while core has no current directive
	PopTargets    map[int]map[int]bool // state that pops -> states it may resume
	UnderComment  map[int]bool         // states that may be resumed by the comment sub-machine
	EOFOpen       map[string]string    // event kind open when EOF is consumed -> witness
	CommentStates map[int]bool
	KeywordAt     map[token.Pos]map[string]bool // KeywordEnd effect site -> spelled keywords
	Keywords      map[string]bool
	CheckedPaths  int
}

type pdsRule struct {
	to   int   // control id
	word []int // 0, 1 or 2 stack symbols (top first)
	via  string
	from int // state id the rule was generated from
}

type trans struct {
	p, g, q int
}

// Analyse runs K2 (keyword spelling) and the post* reachability with all S1 checks.
func (m *Machine) Analyse() *Result {
	r := &Result{ReachStates: map[int]bool{}, NoDirLexemes: map[string]bool{}, PopTargets: map[int]map[int]bool{},
		UnderComment: map[int]bool{}, EOFOpen: map[string]string{}, CommentStates: map[int]bool{},
		KeywordAt: map[token.Pos]map[string]bool{}, Keywords: map[string]bool{}}
	a := &analysis{m: m, r: r}
	a.classes()
	a.commentStates()
	a.keywords()
	a.run()
	sort.Slice(r.Findings, func(i, j int) bool { return r.Findings[i].Key < r.Findings[j].Key })
	return r
}

type analysis struct {
	m *Machine
	r *Result

	classSets []ByteSet // byte classes (partition of 0..255)
	eofClass  int
	beginIdx  map[string]int8 // begin event const -> Open value
	beginName []string

	ctrls       []Ctrl
	ctrlID      map[Ctrl]int
	ruleMemo    map[[2]int][]pdsRule
	seenFinding map[string]bool

	parent map[trans]string // witness: how a transition was first derived
}

func (a *analysis) finding(rule string, st *State, p *Path, detail string, c Ctrl, via string) {
	key := fmt.Sprintf("%s:%s[%s]", rule, st.Name, p.Guards)
	if a.seenFinding[key] {
		return
	}
	a.seenFinding[key] = true
	a.r.Findings = append(a.r.Findings, Finding{Rule: rule, State: st.Name, Key: key, Pos: p.Pos,
		Detail: detail + " — arm: " + a.m.Describe(st, *p) + fmt.Sprintf(" — abstract control: %s", a.ctrlString(c)), Trace: via})
}

func (a *analysis) ctrlString(c Ctrl) string {
	open := "none"
	if c.Open > 0 {
		open = a.beginName[c.Open-1]
	}
	return fmt.Sprintf("open=%s sinceBegin>=%d consumed>=%d gap>=%d directive=%d", open, c.D, c.Cons, c.Gap, c.Dir)
}

func (a *analysis) classes() {
	// partition induced by all path sets
	var sets []ByteSet
	seen := map[ByteSet]bool{}
	for _, st := range a.m.States {
		for _, p := range st.Paths {
			if !seen[p.Set] {
				seen[p.Set] = true
				sets = append(sets, p.Set)
			}
		}
	}
	sig := map[string][]byte{}
	var order []string
	for b := 0; b < 256; b++ {
		var sb strings.Builder
		for _, s := range sets {
			if s.Has(byte(b)) {
				sb.WriteByte('1')
			} else {
				sb.WriteByte('0')
			}
		}
		k := sb.String()
		if b == 0 {
			k = "EOF" // the end-of-input symbol is always its own class
		}
		if _, ok := sig[k]; !ok {
			order = append(order, k)
		}
		sig[k] = append(sig[k], byte(b))
	}
	for _, k := range order {
		a.classSets = append(a.classSets, Of(sig[k]...))
		if k == "EOF" {
			a.eofClass = len(a.classSets) - 1
		}
	}
	a.r.Classes = len(a.classSets)
	a.beginIdx = map[string]int8{}
	var names []string
	for b := range a.m.Begin {
		names = append(names, b)
	}
	sort.Strings(names)
	for i, b := range names {
		a.beginIdx[b] = int8(i + 1)
	}
	a.beginName = names
	a.ctrlID = map[Ctrl]int{}
	a.ruleMemo = map[[2]int][]pdsRule{}
	a.seenFinding = map[string]bool{}
	a.parent = map[trans]string{}
}

// commentStates: the sub-machine entered by the helper that pushes the current step
// (startComment): states reachable from its target by gotos, without popping.
func (a *analysis) commentStates() {
	var work []int
	for _, st := range a.m.States {
		for _, p := range st.Paths {
			pushedCur := false
			for _, e := range p.Effects {
				if e.Kind == EPushCur {
					pushedCur = true
				}
				if e.Kind == EGoto && pushedCur {
					if !a.r.CommentStates[e.Fn] {
						a.r.CommentStates[e.Fn] = true
						work = append(work, e.Fn)
					}
				}
			}
		}
	}
	for len(work) > 0 {
		s := work[len(work)-1]
		work = work[:len(work)-1]
		for _, p := range a.m.States[s].Paths {
			for _, e := range p.Effects {
				if e.Kind == EGoto && !a.r.CommentStates[e.Fn] {
					a.r.CommentStates[e.Fn] = true
					work = append(work, e.Fn)
				}
			}
		}
		for _, in := range a.m.States[s].Inlines {
			if !a.r.CommentStates[in] {
				a.r.CommentStates[in] = true
				work = append(work, in)
			}
		}
	}
}

// keywords enumerates every string spelled between a KeywordBegin event and the
// KeywordEnd event (rule K2), recording for each KeywordEnd site what it ends.
func (a *analysis) keywords() {
	m := a.m
	kwBegin := ""
	for e, b := range m.PairOf {
		if m.LexKind[e] == "Keyword" {
			kwBegin = b
		}
	}
	if kwBegin == "" {
		m.problem(token.NoPos, "K2: no Keyword lexeme kind in the event tables")
		return
	}
	type item struct {
		state int
		str   string
	}
	seen := map[item]bool{}
	const budget = 200000 // trie nodes; the real keyword trie has a few hundred
	exhausted := false
	var walk func(it item, depth int)
	walk = func(it item, depth int) {
		if depth > 40 || seen[it] || exhausted {
			return
		}
		if len(seen) >= budget {
			exhausted = true
			m.problem(token.NoPos, "K2: the keyword trie does not close after %d nodes (a keyword state without a resolved successor?)", budget)
			return
		}
		seen[it] = true
		for pi := range m.States[it.state].Paths {
			p := &m.States[it.state].Paths[pi]
			if p.Out == OutErr {
				continue
			}
			if p.Set.Count() > 16 {
				m.problem(p.Pos, "K2: state %s accepts %d bytes inside a keyword", m.States[it.state].Name, p.Set.Count())
				continue
			}
			next := it.state
			ended := false
			var endPos token.Pos
			for _, e := range p.Effects {
				switch e.Kind {
				case EGoto:
					next = e.Fn
				case EEvent:
					if m.PairOf[e.Ev] == kwBegin {
						ended = true
						endPos = e.Pos
						if e.Off != 0 {
							m.problem(e.Pos, "K2: keyword end with a non-zero offset")
						}
					}
				}
			}
			for _, b := range p.Set.Bytes() {
				str := it.str + string(rune(b))
				if ended {
					if a.r.KeywordAt[endPos] == nil {
						a.r.KeywordAt[endPos] = map[string]bool{}
					}
					a.r.KeywordAt[endPos][str] = true
					a.r.Keywords[str] = true
					continue
				}
				if p.Out == OutRedispatch {
					m.problem(p.Pos, "K2: redispatch inside a keyword in %s", m.States[it.state].Name)
					continue
				}
				walk(item{next, str}, depth+1)
			}
		}
	}
	for _, st := range m.States {
		for pi := range st.Paths {
			p := &st.Paths[pi]
			began := false
			next := st.ID
			for _, e := range p.Effects {
				if e.Kind == EEvent && e.Ev == kwBegin {
					began = true
					if e.Off != 0 {
						m.problem(e.Pos, "K2: keyword begin with a non-zero offset")
					}
				}
				if e.Kind == EGoto {
					next = e.Fn
				}
			}
			if !began || p.Out != OutNil {
				continue
			}
			for _, b := range p.Set.Bytes() {
				walk(item{next, string(rune(b))}, 0)
			}
		}
	}
}

func (a *analysis) intern(c Ctrl) int {
	if id, ok := a.ctrlID[c]; ok {
		return id
	}
	id := len(a.ctrls)
	a.ctrls = append(a.ctrls, c)
	a.ctrlID[c] = id
	return id
}

// includeKeyword is the spelling of the directive the core consumes itself together
// with its parameter (set by the caller from the directive table; default INCLUDE).
var IncludeKeyword = "INCLUDE"

// rulesFor generates the pushdown rules for head (control p, top symbol g) and runs
// every S1 check on each arm that is applicable there.
func (a *analysis) rulesFor(pid, g int, via string) []pdsRule {
	key := [2]int{pid, g}
	if rs, ok := a.ruleMemo[key]; ok {
		return rs
	}
	m := a.m
	bottom := len(m.States)
	var out []pdsRule
	c := a.ctrls[pid]
	if g == bottom || c.Ended {
		a.ruleMemo[key] = nil
		return nil
	}
	st := m.States[g]
	a.r.ReachStates[g] = true
	for cls := range a.classSets {
		if c.Pend >= 0 && int(c.Pend) != cls {
			continue
		}
		if c.NoEOF && cls == a.eofClass {
			continue
		}
		cset := a.classSets[cls]
		for pi := range st.Paths {
			p := &st.Paths[pi]
			if !cset.SubsetOf(p.Set) {
				if !cset.And(p.Set).Empty() {
					m.problem(p.Pos, "byte class %s straddles arm %s of %s", cset, p.Set, st.Name)
				}
				continue
			}
			a.r.CheckedPaths++
			nc, word, ok := a.apply(st, p, c, cls, via)
			if !ok {
				continue
			}
			out = append(out, pdsRule{to: a.intern(nc), word: word, via: st.Name + ":" + strings.ReplaceAll(cset.String(), " ", ","), from: st.ID})
		}
	}
	a.r.Rules += len(out)
	a.ruleMemo[key] = out
	return out
}

// apply executes one arm abstractly. ok=false when the arm ends the run (error).
func (a *analysis) apply(st *State, p *Path, c Ctrl, cls int, via string) (Ctrl, []int, bool) {
	m := a.m
	isEOF := cls == a.eofClass
	cur := st.ID
	var pushed []int // pushed in this arm, last is top of stepStack
	popped := false
	nc := c
	nc.Pend = -1
	nc.NoEOF = false
	libLen := false
	// W3: at the start of a line, outside lexemes and comments, a blank or a further line end
	// is never an error
	if c.AfterNL && c.Open == 0 && !a.r.CommentStates[st.ID] && p.Out == OutErr && a.classSets[cls].SubsetOf(Of(' ', '\t', '\n', '\r')) {
		a.finding("W3", st, p, fmt.Sprintf("a blank or empty line (byte %s) right after a line end, outside any lexeme, is rejected: inserting a blank line or indenting this line changes the verdict", a.classSets[cls]), c, via)
	}
	rewind := 0
	jump := false
	events := 0
	for _, e := range p.Effects {
		switch e.Kind {
		case EGoto:
			if popped {
				// step assigned after a real pop in the same arm: not expressible as one rule
				m.problem(e.Pos, "%s: goto after pop in one arm", st.Name)
			}
			cur = e.Fn
		case EPush:
			pushed = append(pushed, e.Fn)
		case EPushCur:
			pushed = append(pushed, cur)
		case EPopGoto:
			if len(pushed) > 0 {
				cur = pushed[len(pushed)-1]
				pushed = pushed[:len(pushed)-1]
			} else {
				if popped {
					m.problem(e.Pos, "%s: two pops in one arm", st.Name)
				}
				popped = true
			}
		case EReadBack:
			e.Off += rewind // an earlier rewind in the same arm shifts what curIndex-k denotes
			if int(nc.Cons) < e.Off {
				a.finding("S1d", st, p, fmt.Sprintf("data[curIndex-%d] is read when only %d byte(s) are known to have been consumed: unsigned underflow / index out of range", e.Off, nc.Cons), c, via)
			}
		case ERewind:
			if int(nc.Cons) < e.Off+rewind {
				a.finding("S1d", st, p, fmt.Sprintf("curIndex -= %d when only %d byte(s) are known to have been consumed: unsigned underflow", e.Off, nc.Cons), c, via)
			}
			rewind += e.Off
		case EJump:
			jump = true
		case ELibLen:
			libLen = true
			if nc.Cons < 1 {
				a.finding("S1d", st, p, "the library length helper computes Len()-1 on the whole file as an unsigned value; it is reachable before any byte was consumed, i.e. possibly on an empty file", c, via)
			}
		case EEvent:
			events++
			e.Off += rewind // position = (curIndex - rewound so far) - k
			if jump {
				m.problem(e.Pos, "%s: lexeme event after a library jump in one arm (offset unknown)", st.Name)
			}
			if int(nc.Cons) < e.Off {
				a.finding("S1d", st, p, fmt.Sprintf("event position curIndex-%d computed when only %d byte(s) are known to have been consumed: unsigned underflow", e.Off, nc.Cons), c, via)
			}
			switch {
			case m.Begin[e.Ev]:
				if nc.Open != 0 {
					a.finding("S1b", st, p, fmt.Sprintf("begin event %s while lexeme %s is still open (nested lexemes: the event stack would pair them wrongly)", e.Ev, a.beginName[nc.Open-1]), c, via)
				}
				if int(nc.Gap) <= e.Off {
					a.finding("S1f", st, p, fmt.Sprintf("lexeme %s begins at curIndex-%d but the previous lexeme ended only %d byte(s) back: lexemes overlap or are out of order", e.Ev, e.Off, nc.Gap), c, via)
				}
				nc.Open = a.beginIdx[e.Ev]
				nc.D = int8(e.Off)
				nc.AtEOF = isEOF && e.Off == 0
			case m.End[e.Ev]:
				if nc.Open == 0 {
					a.finding("S1b", st, p, fmt.Sprintf("end event %s with no open lexeme: the event stack is popped empty (panic \"Reading from empty stack\")", e.Ev), c, via)
					return nc, nil, false
				}
				if a.beginName[nc.Open-1] != m.PairOf[e.Ev] {
					// processLexemeEvent reports "Ending lexeme event does not match beginning event": an error path
					return nc, nil, false
				}
				if int(nc.D) < e.Off-1 {
					a.finding("S1c", st, p, fmt.Sprintf("lexeme %s ends at curIndex-%d but began only %d byte(s) back: end+1 < begin, Lexeme.Value() slices [begin:end+1] out of range", m.LexKind[e.Ev], e.Off, nc.D), c, via)
				}
				if e.Off == 0 && isEOF {
					a.finding("S1c", st, p, fmt.Sprintf("lexeme %s ends AT the end-of-input position: its last byte lies outside the input", m.LexKind[e.Ev]), c, via)
				}
				if !a.lexemeDone(&nc, m.LexKind[e.Ev], e.Pos) {
					return nc, nil, false
				}
				nc.Open = 0
				nc.D = 0
				nc.AtEOF = false
				nc.Gap = int8(e.Off)
			case m.Single[e.Ev]:
				if nc.Open != 0 {
					a.finding("S1b", st, p, fmt.Sprintf("single event %s while lexeme %s is open", e.Ev, a.beginName[nc.Open-1]), c, via)
				}
				if int(nc.Gap) <= e.Off {
					a.finding("S1f", st, p, fmt.Sprintf("single lexeme %s at curIndex-%d overlaps the previous lexeme (ended %d byte(s) back)", e.Ev, e.Off, nc.Gap), c, via)
				}
				if e.Off == 0 && isEOF {
					a.finding("S1c", st, p, fmt.Sprintf("lexeme %s placed at the end-of-input position", e.Ev), c, via)
				}
				if !a.lexemeDone(&nc, m.LexKind[e.Ev], e.Pos) {
					return nc, nil, false
				}
				nc.Gap = int8(e.Off)
			default:
				m.problem(e.Pos, "event %s is neither begin, end nor single", e.Ev)
			}
		}
	}
	if p.Out == OutErr {
		return nc, nil, false
	}
	if libLen && jump && isEOF {
		// trusted base: the library's Len() never exceeds the number of bytes that are
		// left, so on the end-of-input symbol (nothing left) the len > 0 arm is not taken
		return nc, nil, false
	}
	// S1g: a byte consumed silently outside any lexeme must be trivia
	if p.Out == OutNil && rewind == 0 && events == 0 && c.Open == 0 && !a.r.CommentStates[st.ID] {
		if !a.classSets[cls].SubsetOf(Trivia) {
			a.finding("S1g", st, p, fmt.Sprintf("bytes %s are consumed outside any lexeme and outside a comment without any event: user content is silently dropped", a.classSets[cls]), c, via)
		}
	}
	// stack word
	var word []int
	if popped {
		if len(pushed) != 0 || cur != st.ID && false {
			m.problem(p.Pos, "%s: push after pop in one arm", st.Name)
		}
		word = nil
	} else {
		word = []int{cur}
		for i := len(pushed) - 1; i >= 0; i-- {
			word = append(word, pushed[i])
		}
		if len(word) > 2 {
			m.problem(p.Pos, "%s: more than one push in one arm (word length %d)", st.Name, len(word))
			word = word[:2]
		}
	}
	// advance
	switch {
	case p.Out == OutRedispatch:
		nc.Pend = int16(cls)
		if rewind != 0 || jump {
			m.problem(p.Pos, "%s: read position changed on a redispatching arm", st.Name)
		}
	case rewind == 1 && !jump:
		// curIndex-- then Next's curIndex++ : the same byte is read again by the new step
		nc.Pend = int16(cls)
	default:
		adv := 1 - rewind // jump adds >= 0
		if isEOF && adv >= 1 {
			nc.Ended = true
			if nc.Open != 0 && !nc.AtEOF {
				k := a.beginName[nc.Open-1]
				a.r.EOFOpen[k+"@"+st.Name] = st.Name
				a.finding("S1i", st, p, fmt.Sprintf("end of input is accepted while lexeme %s is still open: everything since its begin is dropped without a diagnostic", k), c, via)
			}
		}
		if adv < 1 {
			nc.NoEOF = true
		}
		nc.AfterNL = adv >= 1 && nc.Open == 0 && (a.classSets[cls].SubsetOf(Of('\n', '\r')) || (c.AfterNL && a.classSets[cls].SubsetOf(Of(' ', '\t'))))
		nc.Cons = sat(int(nc.Cons) + adv)
		if nc.Cons < 0 {
			nc.Cons = 0
		}
		nc.Gap = sat(int(nc.Gap) + adv)
		if nc.Open != 0 {
			nc.D = sat(int(nc.D) + adv)
		}
	}
	return nc, word, true
}

// Trivia is the set of bytes that may be skipped outside lexemes and comments:
// blanks, line ends, the end-of-input symbol, the comment sign and the annotation
// delimiters.
var Trivia = Of(0, ' ', '\t', '\n', '\r', '#', '/', '*')

// lexemeDone tracks whether core has a current directive when a lexeme is handed to
// it (rule S1h). It returns false when core stops the run at this lexeme.
func (a *analysis) lexemeDone(nc *Ctrl, kind string, pos token.Pos) bool {
	switch nc.Dir {
	case 0:
		a.r.NoDirLexemes[kind] = true
	case 2:
		// the lexeme after the INCLUDE keyword is fetched by the include handler itself:
		// a Parameter is the file name, anything else is "required parameter not specified".
		// Either way core has no current directive when this scanner is resumed.
		nc.Dir = 0
		return kind == "Parameter"
	}
	switch kind {
	case "Keyword":
		nc.Dir = 1
		if kws := a.r.KeywordAt[pos]; kws[IncludeKeyword] {
			if len(kws) != 1 {
				a.m.problem(pos, "keyword end site shared between %s and other keywords", IncludeKeyword)
			}
			nc.Dir = 2
		}
	case "ContextExplicitClosing":
		nc.Dir = 0
	}
	return true
}

// run is post* saturation (Schwoon's algorithm) from <c0, initial ⊥>.
func (a *analysis) run() {
	m := a.m
	bottom := len(m.States)
	c0 := a.intern(Ctrl{Gap: Sat, Pend: -1})
	// automaton states: control ids are P-states; extra states are numbered from base
	const finalQ = -1
	nextExtra := -2
	midState := map[[2]int]int{} // (p', γ1) -> q
	rel := map[trans]bool{}
	relByQ := map[int][]trans{}  // transitions leaving automaton state q (for ε-combination)
	epsInto := map[int][]int{}   // q -> control states p with (p, ε, q) in rel
	epsOrigin := map[trans]int{} // (p, ε, q) -> state whose arm popped
	var work []trans
	add := func(t trans, why string) {
		if rel[t] {
			return
		}
		if _, ok := a.parent[t]; !ok {
			a.parent[t] = why
		}
		work = append(work, t)
	}
	const eps = -1000
	sInit := nextExtra
	nextExtra--
	add(trans{c0, m.Initial, sInit}, "start")
	// (sInit, ⊥, final)
	t0 := trans{sInit, bottom, finalQ}
	rel[t0] = true
	relByQ[sInit] = append(relByQ[sInit], t0)

	// breadth first: the first derivation recorded for a transition is a shortest one,
	// which keeps the witnesses in reports short
	for head := 0; head < len(work); head++ {
		t := work[head]
		if rel[t] {
			continue
		}
		rel[t] = true
		relByQ[t.p] = append(relByQ[t.p], t)
		why := a.parent[t]
		if t.g != eps {
			if t.p >= 0 { // a control state: head (p, γ)
				if t.g == bottom {
					// the step stack was popped empty: ⊥ became the current step
					a.r.Findings = append(a.r.Findings, Finding{Rule: "S1a", State: "-", Key: "S1a:empty-pop:" + lastState(why),
						Detail: "stepStack.Pop() is reachable with an empty step stack (panic \"Reading from empty stack\"); derivation: " + why})
					continue
				}
				for _, r := range a.rulesFor(t.p, t.g, why) {
					nwhy := shorten(why + " " + r.via)
					switch len(r.word) {
					case 0:
						et := trans{r.to, eps, t.q}
						if _, ok := epsOrigin[et]; !ok {
							epsOrigin[et] = r.from
						}
						add(et, nwhy)
					case 1:
						add(trans{r.to, r.word[0], t.q}, nwhy)
					case 2:
						k := [2]int{r.to, r.word[0]}
						q, ok := midState[k]
						if !ok {
							q = nextExtra
							nextExtra--
							midState[k] = q
						}
						add(trans{r.to, r.word[0], q}, nwhy)
						t2 := trans{q, r.word[1], t.q}
						if !rel[t2] {
							rel[t2] = true
							relByQ[q] = append(relByQ[q], t2)
							for _, pp := range epsInto[q] {
								add(trans{pp, r.word[1], t.q}, nwhy+" (resume)")
								a.notePop(epsOrigin[trans{pp, eps, q}], r.word[1])
							}
						}
					}
				}
			}
		} else {
			// (p, ε, q): combine with every (q, γ', q')
			epsInto[t.q] = append(epsInto[t.q], t.p)
			for _, t2 := range relByQ[t.q] {
				if t2.g == eps {
					continue
				}
				add(trans{t.p, t2.g, t2.q}, why+" (resume)")
				a.notePop(epsOrigin[t], t2.g)
			}
		}
	}
	heads := map[[2]int]bool{}
	for t := range rel {
		if t.p >= 0 && t.g != eps {
			heads[[2]int{t.p, t.g}] = true
		}
	}
	a.r.Heads = len(heads)
	a.r.Transitions = len(rel)
}

func (a *analysis) notePop(popper, resumed int) {
	if resumed >= len(a.m.States) {
		return
	}
	if a.r.PopTargets[popper] == nil {
		a.r.PopTargets[popper] = map[int]bool{}
	}
	a.r.PopTargets[popper][resumed] = true
	if a.r.CommentStates[popper] {
		a.r.UnderComment[resumed] = true
	}
}

func lastState(why string) string {
	f := strings.Fields(why)
	for i := len(f) - 1; i >= 0; i-- {
		if j := strings.Index(f[i], ":"); j > 0 && strings.HasPrefix(f[i], "state") {
			return f[i][:j]
		}
	}
	return "?"
}

func shorten(s string) string {
	f := strings.Fields(s)
	if len(f) > 40 {
		f = append([]string{"…"}, f[len(f)-40:]...)
	}
	return strings.Join(f, " ")
}

// ---------------------------------------------------------------- S1e progress

// Cycle is a cycle of steps whose net consumption is not positive.
type Cycle struct {
	States []string
	Weight int
}

// Progress checks rule S1e: in the graph of steps, weighted by the net number of
// bytes consumed by each arm (consume +1, same-byte redispatch 0, curIndex-=k then
// +1, library jump >= +1), every cycle has positive weight, so Scanner.Next's loop
// cannot spin. Pop edges go to exactly the states post* found resumable.
func (m *Machine) Progress(r *Result) []Cycle {
	type edge struct {
		from, to, w int
	}
	var edges []edge
	for _, st := range m.States {
		if !r.ReachStates[st.ID] {
			continue
		}
		for _, p := range st.Paths {
			if p.Out == OutErr {
				continue
			}
			cur := st.ID
			popped := false
			var pushed []int
			rew := 0
			for _, e := range p.Effects {
				switch e.Kind {
				case EGoto:
					cur = e.Fn
				case EPush:
					pushed = append(pushed, e.Fn)
				case EPushCur:
					pushed = append(pushed, cur)
				case EPopGoto:
					if len(pushed) > 0 {
						cur = pushed[len(pushed)-1]
						pushed = pushed[:len(pushed)-1]
					} else {
						popped = true
					}
				case ERewind:
					rew += e.Off
				}
			}
			w := 1 - rew
			if p.Out == OutRedispatch {
				w = 0
			}
			if popped {
				for t := range r.PopTargets[st.ID] {
					edges = append(edges, edge{st.ID, t, w})
				}
			} else {
				edges = append(edges, edge{st.ID, cur, w})
			}
		}
	}
	n := len(m.States)
	// scaled weights: w' = w*(n+1) - 1 ; a cycle with total w <= 0 becomes negative,
	// a cycle with total w >= 1 stays positive (simple cycles have at most n edges).
	dist := make([]int, n)
	pred := make([]int, n)
	for i := range pred {
		pred[i] = -1
	}
	var last int = -1
	for it := 0; it < n; it++ {
		last = -1
		for _, e := range edges {
			nw := e.w*(n+1) - 1
			if dist[e.from]+nw < dist[e.to] {
				dist[e.to] = dist[e.from] + nw
				pred[e.to] = e.from
				last = e.to
			}
		}
		if last == -1 {
			break
		}
	}
	if last == -1 {
		return nil
	}
	// walk back n steps to land inside the cycle
	x := last
	for i := 0; i < n; i++ {
		x = pred[x]
	}
	var cyc []string
	total := 0
	for y := x; ; {
		cyc = append(cyc, m.States[y].Name)
		py := pred[y]
		best := 1 << 30
		for _, e := range edges {
			if e.from == py && e.to == y && e.w < best {
				best = e.w
			}
		}
		total += best
		y = py
		if y == x {
			break
		}
	}
	return []Cycle{{States: cyc, Weight: total}}
}
