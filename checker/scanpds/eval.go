package scanpds

import (
	"fmt"
	"go/ast"
	"go/token"
	"go/types"
	"strings"
)

// The step functions of the scanner (and every helper of package scanner they call) are
// interpreted abstractly: the input byte is a set of bytes that conditions split, the
// scanner's control fields (step, stepStack, finds, curIndex) are tracked as effects, and
// everything else is an opaque value. The interpreter is a small general one: functions of
// the package are inlined with their parameters bound to abstract values (a state function
// handed over as an argument, a boolean computed by the caller, the input byte under another
// name), helpers may return values (a step chosen by a switch, a (handled, error) pair),
// locals are kept per execution frame.

// vkind is the kind of an abstract value.
type vkind uint8

const (
	vUnknown    vkind = iota // a data value without meaning for the machine
	vNil                     // the nil constant
	vBool                    // a known boolean (b)
	vState                   // a step function (st)
	vStepCur                 // the value of s.step
	vPopped                  // the result of s.stepStack.Pop()
	vEvent                   // a lexeme event constant (ev)
	vByte                    // the current input byte
	vConstByte               // a byte constant (kb)
	vFunc                    // a named function of the package that is not a step (fn)
	vErr                     // an error that was constructed: certainly non-nil
	vLibErr                  // the error result of a library length call: may be nil
	vLen                     // the length result of a library length call
	vScanner                 // the scanner itself
	vPos                     // s.curIndex - off
	vRedispatch              // the result of s.step(s, c)
	vInt                     // a known integer constant (off)
)

type val struct {
	k   vkind
	b   bool
	st  int
	ev  string
	fn  *types.Func
	off int
	kb  byte
}

// frame is an abstract execution of a prefix of a function body.
type frame struct {
	set    ByteSet
	eff    []Effect
	may    bool
	guards []string
	libErr bool // inside `if <lib error> != nil`
	env    map[types.Object]val
	// site: the position, in the step function itself, of the call through which a helper
	// was entered; effects made inside helpers are attributed to it, so that a shared helper
	// (`s.keywordFound(next)`) still gives every state its own effect sites
	site token.Pos
}

func (f frame) with(set ByteSet, g string) frame {
	n := frame{set: set, eff: append([]Effect(nil), f.eff...), may: f.may, guards: append([]string(nil), f.guards...), libErr: f.libErr, env: f.env, site: f.site}
	if g != "" {
		n.guards = append(n.guards, g)
	}
	return n
}

// bind returns a frame whose environment maps obj to v (environments are never mutated).
func (f frame) bind(obj types.Object, v val) frame {
	if obj == nil {
		return f
	}
	ne := make(map[types.Object]val, len(f.env)+1)
	for k, x := range f.env {
		ne[k] = x
	}
	ne[obj] = v
	n := f.with(f.set, "")
	n.env = ne
	return n
}

// result is one way a function activation returns.
type result struct {
	f    frame
	vals []val
	pos  token.Pos
}

// fnctx is the activation being interpreted.
type fnctx struct {
	fd    *ast.FuncDecl
	depth int
}

const maxInline = 12

// evalFunc interprets a step function for the bytes in set and renders its returns as paths.
func (m *Machine) evalFunc(fd *ast.FuncDecl, set ByteSet, prefix *frame, inlined bool, why string) []Path {
	start := frame{set: set}
	if prefix != nil {
		start = prefix.with(set, why)
	}
	args := []val{}
	sig, _ := m.Pkg.TypesInfo.Defs[fd.Name].(*types.Func)
	if sig != nil {
		ps := sig.Type().(*types.Signature).Params()
		for i := 0; i < ps.Len(); i++ {
			t := ps.At(i).Type()
			switch {
			case isByte(t):
				args = append(args, val{k: vByte})
			case isScannerPtr(m, t):
				args = append(args, val{k: vScanner})
			default:
				args = append(args, val{})
			}
		}
	}
	res := m.activate(fd, val{k: vScanner}, args, start, 0)
	var out []Path
	for _, r := range res {
		if r.f.set.Empty() {
			continue
		}
		out = append(out, m.toPath(fd, r))
	}
	return out
}

func isScannerPtr(m *Machine, t types.Type) bool {
	p, ok := t.(*types.Pointer)
	return ok && p.Elem() == m.scannerT
}

// toPath renders a return of a step function.
func (m *Machine) toPath(fd *ast.FuncDecl, r result) Path {
	out := OutNil
	if len(r.vals) != 1 {
		m.problem(r.pos, "return with %d results in a step function", len(r.vals))
	} else {
		switch r.vals[0].k {
		case vNil:
			out = OutNil
		case vErr:
			out = OutErr
		case vLibErr:
			if !r.f.libErr {
				m.problem(r.pos, "library error variable returned outside its != nil guard")
			}
			out = OutErr
		case vRedispatch:
			out = OutRedispatch
		default:
			m.problem(r.pos, "a step function returns a value the interpreter cannot classify as nil, an error or a redispatch")
		}
	}
	f := r.f
	return Path{Set: f.set, Effects: f.eff, Out: out, May: f.may, Guards: strings.Join(f.guards, " & "), Pos: r.pos, LibErr: f.libErr && out == OutErr}
}

// activate interprets the body of fd with its receiver and parameters bound and returns
// every way it returns. A function without results that runs off its end returns there.
func (m *Machine) activate(fd *ast.FuncDecl, recv val, args []val, f frame, depth int) []result {
	m.inlineDepth++
	defer func() { m.inlineDepth-- }()
	if m.inlineDepth > maxInline {
		m.problem(fd.Pos(), "inlining depth exceeded at %s (recursive same-byte dispatch?)", fd.Name.Name)
		return nil
	}
	info := m.Pkg.TypesInfo
	// a fresh environment: the callee sees only its own parameters
	callerEnv := f.env
	f.env = nil
	if fd.Recv != nil && len(fd.Recv.List) == 1 && len(fd.Recv.List[0].Names) == 1 {
		f = f.bind(info.ObjectOf(fd.Recv.List[0].Names[0]), recv)
	}
	i := 0
	for _, fl := range fd.Type.Params.List {
		if len(fl.Names) == 0 {
			i++
			continue
		}
		for _, nm := range fl.Names {
			v := val{}
			if i < len(args) {
				v = args[i]
			}
			if nm.Name != "_" {
				f = f.bind(info.ObjectOf(nm), v)
			}
			i++
		}
	}
	// named results start as zero values
	if fd.Type.Results != nil {
		for _, fl := range fd.Type.Results.List {
			for _, nm := range fl.Names {
				f = f.bind(info.ObjectOf(nm), m.zeroOf(info.TypeOf(fl.Type)))
			}
		}
	}
	ctx := &fnctx{fd: fd, depth: depth}
	fall, rets := m.block(fd.Body.List, []frame{f}, ctx)
	for _, g := range fall {
		if g.set.Empty() {
			continue
		}
		if fd.Type.Results != nil && len(fd.Type.Results.List) > 0 {
			m.problem(fd.End(), "%s: control falls off the end of the function", fd.Name.Name)
			continue
		}
		rets = append(rets, result{f: g, pos: fd.End()})
	}
	// back in the caller: its environment again
	for k := range rets {
		rets[k].f.env = callerEnv
	}
	return rets
}

func (m *Machine) zeroOf(t types.Type) val {
	if t == nil {
		return val{}
	}
	switch u := t.Underlying().(type) {
	case *types.Basic:
		if u.Info()&types.IsBoolean != 0 {
			return val{k: vBool, b: false}
		}
	case *types.Pointer, *types.Signature, *types.Interface, *types.Map, *types.Slice:
		return val{k: vNil}
	}
	return val{}
}

// block interprets statements in order: the frames that fall through and the returns.
func (m *Machine) block(stmts []ast.Stmt, in []frame, ctx *fnctx) (fall []frame, rets []result) {
	cur := in
	for _, st := range stmts {
		var next []frame
		for _, f := range cur {
			if f.set.Empty() {
				continue
			}
			fl, rs := m.stmt(st, f, ctx)
			next = append(next, fl...)
			rets = append(rets, rs...)
		}
		cur = next
		if len(cur) == 0 {
			break
		}
	}
	return cur, rets
}

func (m *Machine) stmt(st ast.Stmt, f frame, ctx *fnctx) (fall []frame, rets []result) {
	info := m.Pkg.TypesInfo
	switch s := st.(type) {
	case *ast.ReturnStmt:
		return nil, m.ret(s, f, ctx)

	case *ast.ExprStmt:
		call, ok := ast.Unparen(s.X).(*ast.CallExpr)
		if !ok {
			m.problem(s.Pos(), "unsupported expression statement")
			return []frame{f}, nil
		}
		for _, r := range m.call(call, f, ctx) {
			fall = append(fall, r.f)
		}
		return fall, nil

	case *ast.IncDecStmt:
		if m.isCurIndex(s.X, f) && s.Tok == token.DEC {
			f.eff = append(f.eff, Effect{Kind: ERewind, Off: 1, Pos: s.Pos()})
			m.Counts["rewind"]++
			return []frame{f}, nil
		}
		if id, ok := ast.Unparen(s.X).(*ast.Ident); ok {
			if _, isLocal := f.env[info.ObjectOf(id)]; isLocal || info.ObjectOf(id) != nil && info.ObjectOf(id).Parent() != m.Pkg.Types.Scope() {
				return []frame{f.bind(info.ObjectOf(id), val{})}, nil
			}
		}
		m.problem(s.Pos(), "unsupported inc/dec statement")
		return []frame{f}, nil

	case *ast.AssignStmt:
		return m.assign(s, f, ctx), nil

	case *ast.IfStmt:
		cur := []frame{f}
		if s.Init != nil {
			fl, rs := m.stmt(s.Init, f, ctx)
			if len(rs) != 0 {
				m.problem(s.Pos(), "unsupported if-init")
				return nil, rs
			}
			cur = fl
		}
		for _, g := range cur {
			if g.set.Empty() {
				continue
			}
			tfs, ffs := m.cond(s.Cond, g, ctx)
			for _, tf := range tfs {
				if tf.set.Empty() {
					continue
				}
				fl, rs := m.block(s.Body.List, []frame{tf}, ctx)
				fall = append(fall, fl...)
				rets = append(rets, rs...)
			}
			for _, ff := range ffs {
				if ff.set.Empty() {
					continue
				}
				switch e := s.Else.(type) {
				case nil:
					fall = append(fall, ff)
				case *ast.BlockStmt:
					fl, rs := m.block(e.List, []frame{ff}, ctx)
					fall = append(fall, fl...)
					rets = append(rets, rs...)
				case *ast.IfStmt:
					fl, rs := m.stmt(e, ff, ctx)
					fall = append(fall, fl...)
					rets = append(rets, rs...)
				}
			}
		}
		return fall, rets

	case *ast.SwitchStmt:
		if s.Init != nil {
			m.problem(s.Pos(), "unsupported switch init")
		}
		m.Counts["switch"]++
		if s.Tag == nil {
			return m.taglessSwitch(s, f, ctx)
		}
		var outF []frame
		for _, tv := range m.expr(s.Tag, f, ctx) {
			if tv.v.k != vByte {
				m.problem(s.Pos(), "switch on something other than the input byte")
				outF = append(outF, tv.f)
				continue
			}
			fl, rs := m.byteSwitch(s, tv.f, ctx)
			outF = append(outF, fl...)
			rets = append(rets, rs...)
		}
		return outF, rets

	case *ast.BlockStmt:
		return m.block(s.List, []frame{f}, ctx)

	case *ast.EmptyStmt:
		return []frame{f}, nil

	case *ast.DeclStmt:
		gd, ok := s.Decl.(*ast.GenDecl)
		if !ok || gd.Tok != token.VAR {
			return []frame{f}, nil
		}
		cur := []frame{f}
		for _, sp := range gd.Specs {
			vs, ok := sp.(*ast.ValueSpec)
			if !ok {
				continue
			}
			for k, nm := range vs.Names {
				var next []frame
				for _, g := range cur {
					if k < len(vs.Values) {
						for _, ev := range m.expr(vs.Values[k], g, ctx) {
							next = append(next, ev.f.bind(info.ObjectOf(nm), ev.v))
						}
					} else {
						next = append(next, g.bind(info.ObjectOf(nm), m.zeroOf(info.TypeOf(nm))))
					}
				}
				cur = next
			}
		}
		return cur, nil
	}
	m.problem(st.Pos(), "unsupported statement %T in a step function", st)
	return []frame{f}, nil
}

// isCurIndex: e is <scanner>.curIndex
func (m *Machine) isCurIndex(e ast.Expr, f frame) bool { return m.isFieldOfS(e, f, m.curField) }

func (m *Machine) isFieldOfS(e ast.Expr, f frame, field *types.Var) bool {
	sel, ok := ast.Unparen(e).(*ast.SelectorExpr)
	if !ok || m.Pkg.TypesInfo.ObjectOf(sel.Sel) != field {
		return false
	}
	id, ok := ast.Unparen(sel.X).(*ast.Ident)
	return ok && f.env[m.Pkg.TypesInfo.ObjectOf(id)].k == vScanner
}

func (m *Machine) constInt(e ast.Expr) (int, bool) {
	if k, ok := m.constByte(e); ok {
		return int(k), true
	}
	return 0, false
}

type exprVal struct {
	f frame
	v val
}

// expr evaluates an expression; a call inside it may split the frame and add effects.
func (m *Machine) expr(e ast.Expr, f frame, ctx *fnctx) []exprVal {
	info := m.Pkg.TypesInfo
	e = ast.Unparen(e)
	one := func(v val) []exprVal { return []exprVal{{f, v}} }
	switch x := e.(type) {
	case *ast.Ident:
		obj := info.ObjectOf(x)
		if v, ok := f.env[obj]; ok {
			return one(v)
		}
		switch x.Name {
		case "nil":
			if obj == types.Universe.Lookup("nil") {
				return one(val{k: vNil})
			}
		case "true", "false":
			if obj == types.Universe.Lookup(x.Name) {
				return one(val{k: vBool, b: x.Name == "true"})
			}
		}
		if fo, ok := obj.(*types.Func); ok {
			if sid, isState := m.ByObj[fo]; isState {
				return one(val{k: vState, st: sid})
			}
			return one(val{k: vFunc, fn: fo})
		}
		if ev, ok := m.eventConst(x); ok {
			return one(val{k: vEvent, ev: ev})
		}
		if k, ok := m.constByte(x); ok {
			return one(val{k: vConstByte, kb: k})
		}
		if k, ok := m.constInt(x); ok {
			return one(val{k: vInt, off: k})
		}
		return one(val{})
	case *ast.BasicLit:
		if k, ok := m.constByte(x); ok {
			return one(val{k: vConstByte, kb: k})
		}
		if k, ok := m.constInt(x); ok {
			return one(val{k: vInt, off: k})
		}
		return one(val{})
	case *ast.SelectorExpr:
		if m.isFieldOfS(x, f, m.stepField) {
			return one(val{k: vStepCur})
		}
		if m.isFieldOfS(x, f, m.curField) {
			return one(val{k: vPos, off: 0})
		}
		// a method value / qualified function
		if fo, ok := info.ObjectOf(x.Sel).(*types.Func); ok {
			if sid, isState := m.ByObj[fo]; isState {
				return one(val{k: vState, st: sid})
			}
			return one(val{k: vFunc, fn: fo})
		}
		if k, ok := m.constByte(x); ok {
			return one(val{k: vConstByte, kb: k})
		}
		return one(val{})
	case *ast.UnaryExpr:
		if x.Op == token.NOT {
			var out []exprVal
			for _, ev := range m.expr(x.X, f, ctx) {
				v := ev.v
				if v.k == vBool {
					v.b = !v.b
				} else {
					v = val{}
				}
				out = append(out, exprVal{ev.f, v})
			}
			return out
		}
		return one(val{})
	case *ast.BinaryExpr:
		if x.Op == token.SUB {
			var out []exprVal
			for _, ev := range m.expr(x.X, f, ctx) {
				v := val{}
				if k, ok := m.constInt(x.Y); ok && ev.v.k == vPos {
					v = val{k: vPos, off: ev.v.off + k}
				} else if ev.v.k == vPos {
					// the distance is a parameter of a helper bound to a constant
					if id, isID := ast.Unparen(x.Y).(*ast.Ident); isID {
						if b, bound := ev.f.env[info.ObjectOf(id)]; bound {
							switch b.k {
							case vInt:
								v = val{k: vPos, off: ev.v.off + b.off}
							case vConstByte:
								v = val{k: vPos, off: ev.v.off + int(b.kb)}
							}
						}
					}
				}
				out = append(out, exprVal{ev.f, v})
			}
			return out
		}
		return one(val{})
	case *ast.CallExpr:
		// conversion
		if tv, ok := info.Types[x.Fun]; ok && tv.IsType() && len(x.Args) == 1 {
			return m.expr(x.Args[0], f, ctx)
		}
		var out []exprVal
		for _, r := range m.call(x, f, ctx) {
			v := val{}
			if len(r.vals) >= 1 {
				v = r.vals[0]
			}
			out = append(out, exprVal{r.f, v})
		}
		return out
	}
	return one(val{})
}

// call evaluates a call: the scanner's own primitives become effects, functions of the
// package are inlined, anything else yields opaque values.
func (m *Machine) call(call *ast.CallExpr, f frame, ctx *fnctx) []result {
	info := m.Pkg.TypesInfo
	pos := call.Pos()
	// s.step(s, c): dynamic same-byte redispatch
	if m.isFieldOfS(call.Fun, f, m.stepField) {
		if !m.argsAreSC(call, f, ctx) {
			m.problem(pos, "s.step called with unexpected arguments")
		}
		m.Counts["redispatch-dynamic"]++
		return []result{{f: f, vals: []val{{k: vRedispatch}}, pos: pos}}
	}
	var callee *types.Func
	// a call through a local that holds a function
	if id, ok := ast.Unparen(call.Fun).(*ast.Ident); ok {
		if v, bound := f.env[info.ObjectOf(id)]; bound {
			switch v.k {
			case vState:
				// `s.step = x; return x(s, c)` through a step-valued variable is the
				// dynamic dispatch `s.step(s, c)` spelled differently
				if last, ok := lastGoto(f); ok && last == v.st && m.argsAreSC(call, f, ctx) {
					m.Counts["redispatch-dynamic"]++
					return []result{{f: f, vals: []val{{k: vRedispatch}}, pos: pos}}
				}
				callee = m.States[v.st].Obj
			case vFunc:
				callee = v.fn
			case vPopped:
				// `next := s.stepStack.Pop(); s.step = next; return next(s, c)`: the popped
				// step was made current, calling it is the dynamic dispatch
				if lastStepIsPop(f) && m.argsAreSC(call, f, ctx) {
					m.Counts["redispatch-dynamic"]++
					return []result{{f: f, vals: []val{{k: vRedispatch}}, pos: pos}}
				}
				m.problem(pos, "a popped step is called without having been made the current step")
				return []result{{f: f, vals: m.opaqueResults(info.TypeOf(call)), pos: pos}}
			default:
				m.problem(pos, "return of a call through an unresolved function value")
				return []result{{f: f, vals: m.opaqueResults(info.TypeOf(call)), pos: pos}}
			}
		}
	}
	// a call through the result of a helper: `s.leave()(s, c)` where the helper made a step
	// current and handed it back
	if inner, ok := ast.Unparen(call.Fun).(*ast.CallExpr); ok && callee == nil {
		var out []result
		for _, ev := range m.expr(inner, f, ctx) {
			g := ev.f
			okDispatch := false
			switch ev.v.k {
			case vStepCur:
				okDispatch = true
			case vPopped:
				okDispatch = lastStepIsPop(g)
			case vState:
				last, has := lastGoto(g)
				okDispatch = has && last == ev.v.st
			}
			if okDispatch && m.argsAreSC(call, g, ctx) {
				m.Counts["redispatch-dynamic"]++
				out = append(out, result{f: g, vals: []val{{k: vRedispatch}}, pos: pos})
			} else {
				m.problem(pos, "return of a call through an unresolved function value")
				out = append(out, result{f: g, vals: m.opaqueResults(info.TypeOf(call)), pos: pos})
			}
		}
		return out
	}
	if callee == nil {
		callee = m.callee(call)
	}
	if callee == nil {
		m.problem(pos, "return of a call through an unresolved function value")
		return []result{{f: f, vals: m.opaqueResults(info.TypeOf(call)), pos: pos}}
	}
	recvExpr := func() ast.Expr {
		if sel, ok := ast.Unparen(call.Fun).(*ast.SelectorExpr); ok {
			return sel.X
		}
		return nil
	}
	switch callee {
	case m.found:
		var out []result
		for _, ev := range m.expr(call.Args[0], f, ctx) {
			g := ev.f
			if ev.v.k != vEvent {
				m.problem(pos, "unsupported call statement %s", types.ExprString(call.Fun))
			} else {
				g.eff = append(g.eff, Effect{Kind: EEvent, Ev: ev.v.ev, Off: 0, Pos: effPos(g, pos)})
				m.Counts["event"]++
			}
			out = append(out, result{f: g, pos: pos})
		}
		return out
	case m.foundAt:
		var out []result
		for _, pv := range m.expr(call.Args[0], f, ctx) {
			for _, ev := range m.expr(call.Args[1], pv.f, ctx) {
				g := ev.f
				if pv.v.k != vPos || ev.v.k != vEvent {
					m.problem(pos, "unsupported call statement %s", types.ExprString(call.Fun))
				} else {
					g.eff = append(g.eff, Effect{Kind: EEvent, Ev: ev.v.ev, Off: pv.v.off, Pos: effPos(g, pos)})
					m.Counts["event"]++
				}
				out = append(out, result{f: g, pos: pos})
			}
		}
		return out
	case m.push:
		if r := recvExpr(); r == nil || !m.isFieldOfS(r, f, m.stackField) {
			break
		}
		var out []result
		for _, ev := range m.expr(call.Args[0], f, ctx) {
			g := ev.f
			switch ev.v.k {
			case vState:
				g.eff = append(g.eff, Effect{Kind: EPush, Fn: ev.v.st, Pos: pos})
				m.Counts["push"]++
			case vStepCur:
				g.eff = append(g.eff, Effect{Kind: EPushCur, Pos: pos})
				m.Counts["push"]++
			default:
				m.problem(pos, "unsupported call statement %s", types.ExprString(call.Fun))
			}
			out = append(out, result{f: g, pos: pos})
		}
		return out
	case m.pop:
		if r := recvExpr(); r != nil && m.isFieldOfS(r, f, m.stackField) {
			return []result{{f: f, vals: []val{{k: vPopped}}, pos: pos}}
		}
	}
	if m.isErrorOnly(callee) {
		return []result{{f: f, vals: []val{{k: vErr}}, pos: pos}}
	}
	if m.isLibLen(callee) {
		g := f.with(f.set, "")
		g.eff = append(g.eff, Effect{Kind: ELibLen, Pos: pos})
		m.Counts["liblen"]++
		return []result{{f: g, vals: []val{{k: vLen}, {k: vLibErr}}, pos: pos}}
	}
	fd := m.Prog.Decl(callee)
	if fd == nil || callee.Pkg() != m.Pkg.Types {
		// outside the package: opaque data
		return []result{{f: f, vals: m.opaqueResults(info.TypeOf(call)), pos: pos}}
	}
	// a pure bool method used as a predicate is opaque (data-dependent)
	if m.isOpaquePredicate(callee, call, f) {
		m.OpaquePreds[callee.Name()]++
		m.FuncsSeen[callee.Name()] = true
		return []result{{f: f, vals: []val{{}}, pos: pos}}
	}
	// inline: evaluate the arguments left to right
	type partial struct {
		f    frame
		args []val
	}
	parts := []partial{{f: f}}
	for _, a := range call.Args {
		var next []partial
		for _, p := range parts {
			for _, ev := range m.expr(a, p.f, ctx) {
				next = append(next, partial{f: ev.f, args: append(append([]val(nil), p.args...), ev.v)})
			}
		}
		parts = next
	}
	recv := val{}
	if r := recvExpr(); r != nil {
		if rv := m.expr(r, f, ctx); len(rv) == 1 {
			recv = rv[0].v
		}
	}
	sid, isState := m.ByObj[callee]
	var out []result
	for _, p := range parts {
		if isState {
			// a step called directly: it must receive the scanner and the current byte
			if len(p.args) != 2 || p.args[0].k != vScanner || p.args[1].k != vByte {
				m.problem(pos, "call to %s passes a byte other than the current input byte", callee.Name())
				continue
			}
			m.Counts["redispatch-static"]++
			if m.curState != nil {
				dup := false
				for _, x := range m.curState.Inlines {
					dup = dup || x == sid
				}
				if !dup {
					m.curState.Inlines = append(m.curState.Inlines, sid)
				}
			}
		}
		m.FuncsSeen[callee.Name()] = true
		g := p.f.with(p.f.set, "→"+callee.Name())
		entered := false
		if !isState && g.site == token.NoPos {
			g.site = pos
			entered = true
		}
		rs := m.activate(fd, recv, p.args, g, ctx.depth+1)
		if entered {
			for k := range rs {
				rs[k].f.site = token.NoPos
			}
		}
		out = append(out, rs...)
	}
	return out
}

// lastGoto: the state the frame last assigned to s.step, if that is its latest control effect.
func lastGoto(f frame) (int, bool) {
	for i := len(f.eff) - 1; i >= 0; i-- {
		switch f.eff[i].Kind {
		case EGoto:
			return f.eff[i].Fn, true
		case EPopGoto:
			return 0, false
		}
	}
	return 0, false
}

// lastStepIsPop: the most recent change of the current step in this frame is
// `s.step = <value popped from the step stack>`.
func lastStepIsPop(f frame) bool {
	for i := len(f.eff) - 1; i >= 0; i-- {
		switch f.eff[i].Kind {
		case EGoto:
			return false
		case EPopGoto:
			return true
		}
	}
	return false
}

// effPos: where an effect is attributed (see frame.site).
func effPos(f frame, pos token.Pos) token.Pos {
	if f.site != token.NoPos {
		return f.site
	}
	return pos
}

func (m *Machine) opaqueResults(t types.Type) []val {
	if tup, ok := t.(*types.Tuple); ok {
		return make([]val, tup.Len())
	}
	return []val{{}}
}

// argsAreSC: the arguments are the scanner and the current input byte.
func (m *Machine) argsAreSC(call *ast.CallExpr, f frame, ctx *fnctx) bool {
	if len(call.Args) != 2 {
		return false
	}
	a := m.expr(call.Args[0], f, ctx)
	b := m.expr(call.Args[1], f, ctx)
	return len(a) == 1 && len(b) == 1 && a[0].v.k == vScanner && b[0].v.k == vByte
}

// isOpaquePredicate: a function or method of the package that returns one bool, takes neither
// the input byte nor anything derived from it, and does not touch the machine (itself or
// through what it calls): its answer depends on the data, not on the control state.
func (m *Machine) isOpaquePredicate(callee *types.Func, call *ast.CallExpr, f frame) bool {
	sig := callee.Type().(*types.Signature)
	if sig.Results().Len() != 1 {
		return false
	}
	b, ok := sig.Results().At(0).Type().Underlying().(*types.Basic)
	if !ok || b.Kind() != types.Bool {
		return false
	}
	if _, isPred := m.predSets[callee]; isPred {
		return false
	}
	for i := 0; i < sig.Params().Len(); i++ {
		if isByte(sig.Params().At(i).Type()) {
			return false
		}
	}
	return m.isPureDeep(callee, 0)
}

// isPureDeep: neither the function nor anything of the package it calls writes a control
// field of the scanner or emits/pushes/pops.
func (m *Machine) isPureDeep(f *types.Func, depth int) bool {
	if depth > 6 {
		return false
	}
	if !m.isPureMethod(f) {
		return false
	}
	fd := m.Prog.Decl(f)
	if fd == nil {
		return false
	}
	pure := true
	ast.Inspect(fd.Body, func(n ast.Node) bool {
		if call, ok := n.(*ast.CallExpr); ok {
			if c := m.callee(call); c != nil && c != f && c.Pkg() == m.Pkg.Types && m.Prog.Decl(c) != nil {
				if !m.isPureDeep(c, depth+1) {
					pure = false
				}
			}
		}
		return pure
	})
	return pure
}

func (m *Machine) assign(s *ast.AssignStmt, f frame, ctx *fnctx) []frame {
	info := m.Pkg.TypesInfo
	// s.step = X
	if len(s.Lhs) == 1 && len(s.Rhs) == 1 && s.Tok == token.ASSIGN && m.isFieldOfS(s.Lhs[0], f, m.stepField) {
		var out []frame
		for _, ev := range m.expr(s.Rhs[0], f, ctx) {
			g := ev.f
			switch ev.v.k {
			case vState:
				g.eff = append(g.eff, Effect{Kind: EGoto, Fn: ev.v.st, Pos: s.Pos()})
				m.Counts["goto"]++
			case vPopped:
				g.eff = append(g.eff, Effect{Kind: EPopGoto, Pos: s.Pos()})
				m.Counts["pop"]++
			case vStepCur:
				// s.step = s.step
			default:
				m.problem(s.Pos(), "s.step assigned from an expression that is neither a state nor stepStack.Pop()")
			}
			out = append(out, g)
		}
		return out
	}
	// s.curIndex -= K  /  s.curIndex += Index(len - 1)
	if len(s.Lhs) == 1 && len(s.Rhs) == 1 && m.isCurIndex(s.Lhs[0], f) {
		switch s.Tok {
		case token.SUB_ASSIGN:
			if k, ok := m.constByte(s.Rhs[0]); ok {
				f.eff = append(f.eff, Effect{Kind: ERewind, Off: int(k), Pos: s.Pos()})
				m.Counts["rewind"]++
				return []frame{f}
			}
		case token.ADD_ASSIGN:
			if m.isLenMinusOne(s.Rhs[0], f) {
				f.eff = append(f.eff, Effect{Kind: EJump, Pos: s.Pos()})
				m.Counts["jump"]++
				return []frame{f}
			}
		}
		m.problem(s.Pos(), "unsupported write to the read position")
		return []frame{f}
	}
	// writes to other fields of the scanner are outside the model
	for _, l := range s.Lhs {
		if sel, ok := ast.Unparen(l).(*ast.SelectorExpr); ok {
			if id, ok := ast.Unparen(sel.X).(*ast.Ident); ok && f.env[info.ObjectOf(id)].k == vScanner {
				m.problem(s.Pos(), "unsupported assignment in a step function: %s", types.ExprString(l))
				return []frame{f}
			}
		}
	}
	// locals:  a, b := call(...)   /   x := e, y := e2   /  x = e
	lhsObj := func(e ast.Expr) types.Object {
		if id, ok := ast.Unparen(e).(*ast.Ident); ok && id.Name != "_" {
			return info.ObjectOf(id)
		}
		return nil
	}
	for _, l := range s.Lhs {
		if _, ok := ast.Unparen(l).(*ast.Ident); !ok {
			m.problem(s.Pos(), "unsupported assignment in a step function: %s", types.ExprString(l))
			return []frame{f}
		}
	}
	if s.Tok != token.DEFINE && s.Tok != token.ASSIGN {
		// op-assign on a local: the value becomes opaque
		if o := lhsObj(s.Lhs[0]); o != nil {
			return []frame{f.bind(o, val{})}
		}
		return []frame{f}
	}
	if len(s.Rhs) == 1 && len(s.Lhs) > 1 {
		call, ok := ast.Unparen(s.Rhs[0]).(*ast.CallExpr)
		if !ok {
			// v, ok := m[k] / x.(T): opaque
			g := f
			for _, l := range s.Lhs {
				g = g.bind(lhsObj(l), val{})
			}
			return []frame{g}
		}
		var out []frame
		for _, r := range m.call(call, f, ctx) {
			g := r.f
			for i, l := range s.Lhs {
				v := val{}
				if i < len(r.vals) {
					v = r.vals[i]
				}
				g = g.bind(lhsObj(l), v)
			}
			out = append(out, g)
		}
		return out
	}
	cur := []frame{f}
	for i, l := range s.Lhs {
		if i >= len(s.Rhs) {
			break
		}
		var next []frame
		for _, g := range cur {
			// a named condition (`unterminated := IsNewLine(c) || c == EOF`): the frames are
			// split here, so that a later test of the name is exact for each byte set
			if m.isConditionShape(s.Rhs[i]) {
				t, fl := m.cond(s.Rhs[i], g, ctx)
				for _, x := range t {
					if !x.set.Empty() {
						next = append(next, x.bind(lhsObj(l), val{k: vBool, b: true}))
					}
				}
				for _, x := range fl {
					if !x.set.Empty() {
						next = append(next, x.bind(lhsObj(l), val{k: vBool, b: false}))
					}
				}
				continue
			}
			for _, ev := range m.expr(s.Rhs[i], g, ctx) {
				next = append(next, ev.f.bind(lhsObj(l), ev.v))
			}
		}
		cur = next
	}
	return cur
}

// isConditionShape: a boolean expression built with !, &&, ||, == or != (a comparison of
// the current byte, a byte-class predicate, or a combination of those).
func (m *Machine) isConditionShape(e ast.Expr) bool {
	t := m.Pkg.TypesInfo.TypeOf(e)
	if t == nil {
		return false
	}
	if b, ok := t.Underlying().(*types.Basic); !ok || b.Info()&types.IsBoolean == 0 {
		return false
	}
	switch x := ast.Unparen(e).(type) {
	case *ast.UnaryExpr:
		return x.Op == token.NOT
	case *ast.BinaryExpr:
		switch x.Op {
		case token.LAND, token.LOR, token.EQL, token.NEQ:
			return true
		}
	case *ast.CallExpr:
		if callee := m.callee(x); callee != nil {
			_, ok := m.predSets[callee]
			return ok
		}
	}
	return false
}

// isLenMinusOne: Index(v - 1) with v a library length.
func (m *Machine) isLenMinusOne(e ast.Expr, f frame) bool {
	e = ast.Unparen(e)
	if call, ok := e.(*ast.CallExpr); ok && len(call.Args) == 1 {
		if tv, ok := m.Pkg.TypesInfo.Types[call.Fun]; ok && tv.IsType() {
			e = ast.Unparen(call.Args[0])
		}
	}
	be, ok := e.(*ast.BinaryExpr)
	if !ok || be.Op != token.SUB {
		return false
	}
	id, ok := ast.Unparen(be.X).(*ast.Ident)
	if !ok || f.env[m.Pkg.TypesInfo.ObjectOf(id)].k != vLen {
		return false
	}
	k, ok := m.constByte(be.Y)
	return ok && k == 1
}

// ret interprets a return statement.
func (m *Machine) ret(s *ast.ReturnStmt, f frame, ctx *fnctx) []result {
	info := m.Pkg.TypesInfo
	if len(s.Results) == 0 {
		// a bare return: the named results, if any
		var vals []val
		if ctx.fd.Type.Results != nil {
			for _, fl := range ctx.fd.Type.Results.List {
				for _, nm := range fl.Names {
					vals = append(vals, f.env[info.ObjectOf(nm)])
				}
			}
		}
		return []result{{f: f, vals: vals, pos: s.Pos()}}
	}
	// return f(...) handing on all the results of one call
	if len(s.Results) == 1 {
		if call, ok := ast.Unparen(s.Results[0]).(*ast.CallExpr); ok {
			if tv, isConv := info.Types[call.Fun]; !isConv || !tv.IsType() {
				rs := m.call(call, f, ctx)
				for i := range rs {
					rs[i].pos = s.Pos()
				}
				return rs
			}
		}
	}
	type partial struct {
		f    frame
		vals []val
	}
	parts := []partial{{f: f}}
	for _, e := range s.Results {
		var next []partial
		for _, p := range parts {
			// a boolean expression in value position
			if t := info.TypeOf(e); t != nil {
				if b, ok := t.Underlying().(*types.Basic); ok && b.Info()&types.IsBoolean != 0 {
					if _, isIdent := ast.Unparen(e).(*ast.Ident); !isIdent {
						tf, ff := m.cond(e, p.f, ctx)
						for _, g := range tf {
							next = append(next, partial{g, append(append([]val(nil), p.vals...), val{k: vBool, b: true})})
						}
						for _, g := range ff {
							next = append(next, partial{g, append(append([]val(nil), p.vals...), val{k: vBool, b: false})})
						}
						continue
					}
				}
			}
			for _, ev := range m.expr(e, p.f, ctx) {
				next = append(next, partial{ev.f, append(append([]val(nil), p.vals...), ev.v)})
			}
		}
		parts = next
	}
	var out []result
	for _, p := range parts {
		if !p.f.set.Empty() {
			out = append(out, result{f: p.f, vals: p.vals, pos: s.Pos()})
		}
	}
	return out
}

// ---------------------------------------------------------------- conditions

// cond splits frame f on a boolean expression into the frames where it is true and
// those where it is false (several each, because && and || short-circuit and because a
// helper called inside the condition may itself branch).
func (m *Machine) cond(e ast.Expr, f frame, ctx *fnctx) (tf, ff []frame) {
	info := m.Pkg.TypesInfo
	e = ast.Unparen(e)
	desc := types.ExprString(e)
	opaque := func(g frame) ([]frame, []frame) {
		a := g.with(g.set, desc)
		a.may = true
		b := g.with(g.set, "!("+desc+")")
		b.may = true
		return []frame{a}, []frame{b}
	}
	isByteVar := func(x ast.Expr, g frame) bool {
		id, ok := ast.Unparen(x).(*ast.Ident)
		return ok && g.env[info.ObjectOf(id)].k == vByte
	}
	byValue := func(x ast.Expr, g frame) (t, fl []frame) {
		for _, ev := range m.expr(x, g, ctx) {
			switch {
			case ev.v.k == vBool && ev.v.b:
				t = append(t, ev.f)
			case ev.v.k == vBool:
				fl = append(fl, ev.f)
			default:
				a, b := opaque(ev.f)
				t = append(t, a...)
				fl = append(fl, b...)
			}
		}
		return
	}
	switch x := e.(type) {
	case *ast.UnaryExpr:
		if x.Op == token.NOT {
			a, b := m.cond(x.X, f, ctx)
			return b, a
		}
	case *ast.BinaryExpr:
		switch x.Op {
		case token.LAND:
			t1, f1 := m.cond(x.X, f, ctx)
			ff = append(ff, f1...)
			for _, g := range t1 {
				if g.set.Empty() {
					continue
				}
				t2, f2 := m.cond(x.Y, g, ctx)
				tf = append(tf, t2...)
				ff = append(ff, f2...)
			}
			return tf, ff
		case token.LOR:
			t1, f1 := m.cond(x.X, f, ctx)
			tf = append(tf, t1...)
			for _, g := range f1 {
				if g.set.Empty() {
					continue
				}
				t2, f2 := m.cond(x.Y, g, ctx)
				tf = append(tf, t2...)
				ff = append(ff, f2...)
			}
			return tf, ff
		case token.EQL, token.NEQ:
			l, r := x.X, x.Y
			if !isByteVar(l, f) && isByteVar(r, f) {
				l, r = r, l
			}
			// c == K / c != K
			if isByteVar(l, f) {
				if k, ok := m.constByte(r); ok {
					eq, ne := "c=="+Of(k).String(), "c!="+Of(k).String()
					in := f.with(f.set.And(Of(k)), eq)
					out := f.with(f.set.Minus(Of(k)), ne)
					if x.Op == token.EQL {
						return []frame{in}, []frame{out}
					}
					return []frame{out}, []frame{in}
				}
			}
			// comparison with nil
			if tv, ok := info.Types[r]; ok && tv.IsNil() || func() bool { tv2, ok2 := info.Types[l]; return ok2 && tv2.IsNil() }() {
				other := l
				if tv, ok := info.Types[l]; ok && tv.IsNil() {
					other = r
				}
				var isNil, notNil []frame
				for _, ev := range m.expr(other, f, ctx) {
					switch ev.v.k {
					case vNil:
						isNil = append(isNil, ev.f)
					case vState, vFunc, vErr, vScanner, vPopped, vStepCur:
						notNil = append(notNil, ev.f)
					case vLibErr:
						a, b := opaque(ev.f)
						a[0].libErr = true
						notNil = append(notNil, a...)
						isNil = append(isNil, b...)
					default:
						a, b := opaque(ev.f)
						notNil = append(notNil, a...)
						isNil = append(isNil, b...)
					}
				}
				if x.Op == token.EQL {
					return isNil, notNil
				}
				return notNil, isNil
			}
			// s.data[s.curIndex-K] == 'x'  : data-dependent, records a read-back
			if ix, ok := ast.Unparen(x.X).(*ast.IndexExpr); ok && m.isFieldOfS(ix.X, f, m.dataField) {
				if pv := m.expr(ix.Index, f, ctx); len(pv) == 1 && pv[0].v.k == vPos {
					if _, ok := m.constByte(x.Y); ok {
						g := f.with(f.set, "")
						g.eff = append(g.eff, Effect{Kind: EReadBack, Off: pv[0].v.off, Pos: ix.Pos()})
						m.OpaquePreds["data[curIndex-k]"]++
						return opaque(g)
					}
				}
			}
			// two known booleans / bool == const
			if tl := info.TypeOf(x.X); tl != nil {
				if b, ok := tl.Underlying().(*types.Basic); ok && b.Info()&types.IsBoolean != 0 {
					lv, rv := m.expr(x.X, f, ctx), m.expr(x.Y, f, ctx)
					if len(lv) == 1 && len(rv) == 1 && lv[0].v.k == vBool && rv[0].v.k == vBool {
						same := lv[0].v.b == rv[0].v.b
						if (x.Op == token.EQL) == same {
							return []frame{f}, nil
						}
						return nil, []frame{f}
					}
				}
			}
			return opaque(f)
		case token.GTR, token.GEQ, token.LSS, token.LEQ:
			// len > 0 on a library length: data-dependent
			return opaque(f)
		}
	case *ast.CallExpr:
		callee := m.callee(x)
		if callee != nil {
			// IsNewLine(c) / isWhitespace(c)
			if set, ok := m.predSets[callee]; ok && len(x.Args) == 1 && isByteVar(x.Args[0], f) {
				return []frame{f.with(f.set.And(set), desc)}, []frame{f.with(f.set.Minus(set), "!"+desc)}
			}
		}
		// a conversion bool(x) or any other call: by the value it yields
		return byValue(x, f)
	case *ast.Ident, *ast.SelectorExpr:
		return byValue(e, f)
	}
	m.problem(e.Pos(), "unsupported condition %s", desc)
	return opaque(f)
}

// ---------------------------------------------------------------- switches

func (m *Machine) caseSet(e ast.Expr, f frame) (ByteSet, bool) {
	e = ast.Unparen(e)
	if k, ok := m.constByte(e); ok {
		return Of(k), true
	}
	if call, ok := e.(*ast.CallExpr); ok && len(call.Args) == 1 {
		if set, ok := m.helperSets[m.callee(call)]; ok {
			if id, ok := ast.Unparen(call.Args[0]).(*ast.Ident); ok && f.env[m.Pkg.TypesInfo.ObjectOf(id)].k == vByte {
				return set, true
			}
		}
	}
	return ByteSet{}, false
}

func (m *Machine) byteSwitch(s *ast.SwitchStmt, f frame, ctx *fnctx) (fall []frame, rets []result) {
	rest := f.set
	var deflt *ast.CaseClause
	for _, c := range s.Body.List {
		cc := c.(*ast.CaseClause)
		if cc.List == nil {
			deflt = cc
			continue
		}
		var arm ByteSet
		var names []string
		for _, e := range cc.List {
			set, ok := m.caseSet(e, f)
			if !ok {
				m.problem(e.Pos(), "unsupported case expression %s", types.ExprString(e))
				continue
			}
			arm = arm.Or(set)
			names = append(names, types.ExprString(e))
		}
		take := rest.And(arm)
		rest = rest.Minus(arm)
		if take.Empty() {
			continue
		}
		fl, rs := m.caseBody(cc.Body, f.with(take, "case "+strings.Join(names, ",")), ctx)
		fall = append(fall, fl...)
		rets = append(rets, rs...)
	}
	if !rest.Empty() {
		if deflt != nil {
			fl, rs := m.caseBody(deflt.Body, f.with(rest, "default"), ctx)
			fall = append(fall, fl...)
			rets = append(rets, rs...)
		} else {
			fall = append(fall, f.with(rest, "no-case"))
		}
	}
	return fall, rets
}

func (m *Machine) caseBody(body []ast.Stmt, f frame, ctx *fnctx) ([]frame, []result) {
	for _, st := range body {
		if br, ok := st.(*ast.BranchStmt); ok {
			m.problem(br.Pos(), "unsupported branch statement %s in a case body", br.Tok)
		}
	}
	return m.block(body, []frame{f}, ctx)
}

func (m *Machine) taglessSwitch(s *ast.SwitchStmt, f frame, ctx *fnctx) (fall []frame, rets []result) {
	cur := []frame{f}
	var deflt *ast.CaseClause
	for _, c := range s.Body.List {
		cc := c.(*ast.CaseClause)
		if cc.List == nil {
			deflt = cc
			continue
		}
		// case a, b:  == a || b
		var tAll, nextCur []frame
		for _, g := range cur {
			rest := []frame{g}
			for _, e := range cc.List {
				var r2 []frame
				for _, h := range rest {
					if h.set.Empty() {
						continue
					}
					tf, ff := m.cond(e, h, ctx)
					tAll = append(tAll, tf...)
					r2 = append(r2, ff...)
				}
				rest = r2
			}
			nextCur = append(nextCur, rest...)
		}
		for _, tf := range tAll {
			if tf.set.Empty() {
				continue
			}
			fl, rs := m.caseBody(cc.Body, tf, ctx)
			fall = append(fall, fl...)
			rets = append(rets, rs...)
		}
		cur = nextCur
	}
	for _, g := range cur {
		if g.set.Empty() {
			continue
		}
		if deflt != nil {
			fl, rs := m.caseBody(deflt.Body, g, ctx)
			fall = append(fall, fl...)
			rets = append(rets, rs...)
		} else {
			fall = append(fall, g)
		}
	}
	return fall, rets
}

// isLibLen: a function or method of package scanner returning (length, error) that does not
// touch the machine (no step/stack/finds/curIndex writes) and hands back what a library
// method named Len answered: it asks the schema library for the length of the value that
// starts at the read position.
func (m *Machine) isLibLen(f *types.Func) bool {
	if v, ok := m.libLen[f]; ok {
		return v
	}
	res := false
	m.libLen[f] = false
	defer func() { m.libLen[f] = res }()
	if f.Pkg() != m.Pkg.Types {
		return false
	}
	sig := f.Type().(*types.Signature)
	if sig.Results().Len() != 2 {
		return false
	}
	if b, ok := sig.Results().At(0).Type().Underlying().(*types.Basic); !ok || b.Info()&types.IsInteger == 0 {
		return false
	}
	et := sig.Results().At(1).Type()
	if !types.Identical(et, m.jerrPtr) && !types.Identical(et, types.Universe.Lookup("error").Type()) {
		return false
	}
	if _, isState := m.ByObj[f]; isState {
		return false
	}
	fd := m.Prog.Decl(f)
	if fd == nil {
		return false
	}
	pure, asksLib := true, false
	ast.Inspect(fd.Body, func(n ast.Node) bool {
		switch x := n.(type) {
		case *ast.AssignStmt:
			for _, l := range x.Lhs {
				if sel, ok := l.(*ast.SelectorExpr); ok {
					if v, ok := m.Pkg.TypesInfo.ObjectOf(sel.Sel).(*types.Var); ok && v.IsField() {
						if v == m.stepField || v == m.stackField || v == m.curField || v == m.findsField {
							pure = false
						}
					}
				}
			}
		case *ast.IncDecStmt:
			pure = false
		case *ast.CallExpr:
			c := m.callee(x)
			if c == m.found || c == m.foundAt || c == m.push || c == m.pop {
				pure = false
			}
			if c != nil && c.Pkg() != m.Pkg.Types && c.Name() == "Len" {
				asksLib = true
			}
			if c != nil && c != f && c.Pkg() == m.Pkg.Types && m.isLibLen(c) {
				asksLib = true
			}
		}
		return true
	})
	res = pure && asksLib
	if res {
		m.FuncsSeen[f.Name()] = true
		// the extent of a body is the library's on every path: each success return hands out
		// the first result of a library Len() (or of another length helper), not a length
		// computed by hand (a shortcut "up to the first ]" knows nothing of strings and comments)
		info := m.Pkg.TypesInfo
		fromLib := func(e ast.Expr) bool {
			e = ast.Unparen(e)
			isLen := func(call *ast.CallExpr) bool {
				c := m.callee(call)
				return c != nil && ((c.Pkg() != m.Pkg.Types && c.Name() == "Len") || (c != f && c.Pkg() == m.Pkg.Types && m.isLibLen(c)))
			}
			if call, ok := e.(*ast.CallExpr); ok {
				return isLen(call)
			}
			id, ok := e.(*ast.Ident)
			if !ok {
				return false
			}
			obj := info.ObjectOf(id)
			found, other := false, false
			ast.Inspect(fd.Body, func(n ast.Node) bool {
				as, ok := n.(*ast.AssignStmt)
				if !ok {
					return true
				}
				for i, l := range as.Lhs {
					if lid, ok := l.(*ast.Ident); ok && info.ObjectOf(lid) == obj {
						if len(as.Rhs) == 1 && i == 0 {
							if call, ok := ast.Unparen(as.Rhs[0]).(*ast.CallExpr); ok && isLen(call) {
								found = true
								continue
							}
						}
						other = true
					}
				}
				return true
			})
			return found && !other
		}
		ast.Inspect(fd.Body, func(n ast.Node) bool {
			if _, isLit := n.(*ast.FuncLit); isLit {
				return false
			}
			ret, ok := n.(*ast.ReturnStmt)
			if !ok || len(ret.Results) != 2 {
				return true
			}
			if tv, has := info.Types[ret.Results[1]]; !has || !tv.IsNil() {
				return true
			}
			if !fromLib(ret.Results[0]) {
				m.problem(ret.Pos(), "the length helper %s returns a length that does not come from the library (%s): the body lexeme is not the value the library delimits", f.Name(), types.ExprString(ret.Results[0]))
			}
			return true
		})
	}
	return res
}

func (m *Machine) eventConst(e ast.Expr) (string, bool) {
	id, ok := ast.Unparen(e).(*ast.Ident)
	if !ok {
		return "", false
	}
	c, ok := m.Pkg.TypesInfo.ObjectOf(id).(*types.Const)
	if !ok {
		return "", false
	}
	for _, n := range m.EventConsts {
		if n == c.Name() {
			return n, true
		}
	}
	return "", false
}

// isErrorOnly: every return of f constructs an error (a call to jerr.NewJApiError or
// to another error-only function) and f has no machine effects.
func (m *Machine) isErrorOnly(f *types.Func) bool {
	switch m.errorOnly[f] {
	case 1:
		return true
	case 2:
		return false
	}
	m.errorOnly[f] = 2 // cycle guard
	sig := f.Type().(*types.Signature)
	if sig.Results().Len() != 1 || !types.Identical(sig.Results().At(0).Type(), m.jerrPtr) {
		return false
	}
	if f.Pkg() != nil && strings.HasSuffix(f.Pkg().Path(), "/jerr") {
		// the constructor itself: returns &JApiError{...}
		fd := m.Prog.Decl(f)
		if fd == nil {
			return false
		}
		ok := true
		n := 0
		ast.Inspect(fd.Body, func(x ast.Node) bool {
			if r, isRet := x.(*ast.ReturnStmt); isRet {
				n++
				if len(r.Results) != 1 {
					ok = false
					return true
				}
				res := ast.Unparen(r.Results[0])
				// a local that was bound once to a fresh object and then only filled field by field
				if id, isID := res.(*ast.Ident); isID {
					obj := m.Prog.PkgOfDecl(fd).TypesInfo.ObjectOf(id)
					var def ast.Expr
					assigns := 0
					ast.Inspect(fd.Body, func(y ast.Node) bool {
						if as, isAs := y.(*ast.AssignStmt); isAs {
							for i, l := range as.Lhs {
								if lid, isL := l.(*ast.Ident); isL && m.Prog.PkgOfDecl(fd).TypesInfo.ObjectOf(lid) == obj {
									assigns++
									if len(as.Lhs) == len(as.Rhs) {
										def = as.Rhs[i]
									}
								}
							}
						}
						return true
					})
					if assigns == 1 && def != nil {
						res = ast.Unparen(def)
					}
				}
				fresh := false
				switch v := res.(type) {
				case *ast.UnaryExpr:
					if v.Op == token.AND {
						_, fresh = v.X.(*ast.CompositeLit)
					}
				case *ast.CallExpr:
					if fid, isF := v.Fun.(*ast.Ident); isF && fid.Name == "new" {
						fresh = true
					}
				}
				if !fresh {
					ok = false
				}
			}
			return true
		})
		if ok && n > 0 {
			m.errorOnly[f] = 1
			return true
		}
		return false
	}
	if f.Pkg() != m.Pkg.Types {
		return false
	}
	if _, isState := m.ByObj[f]; isState {
		return false
	}
	fd := m.Prog.Decl(f)
	if fd == nil {
		return false
	}
	ok := true
	n := 0
	ast.Inspect(fd.Body, func(x ast.Node) bool {
		switch y := x.(type) {
		case *ast.ReturnStmt:
			n++
			if len(y.Results) != 1 {
				ok = false
				return true
			}
			call, isCall := ast.Unparen(y.Results[0]).(*ast.CallExpr)
			if !isCall {
				ok = false
				return true
			}
			c := m.callee(call)
			if c == nil || !m.isErrorOnly(c) {
				ok = false
			}
		case *ast.AssignStmt:
			for _, l := range y.Lhs {
				if sel, isSel := l.(*ast.SelectorExpr); isSel {
					if v, isVar := m.Pkg.TypesInfo.ObjectOf(sel.Sel).(*types.Var); isVar && v.IsField() {
						ok = false // writes scanner state
					}
				}
			}
		case *ast.IncDecStmt:
			ok = false
		}
		return true
	})
	if ok && n > 0 {
		m.errorOnly[f] = 1
		m.FuncsSeen[f.Name()] = true
		return true
	}
	return false
}

var pureMemo = map[*types.Func]bool{}

func (m *Machine) isPureMethod(f *types.Func) bool {
	if v, ok := pureMemo[f]; ok {
		return v
	}
	fd := m.Prog.Decl(f)
	res := fd != nil
	if fd != nil {
		ast.Inspect(fd.Body, func(n ast.Node) bool {
			switch x := n.(type) {
			case *ast.AssignStmt:
				for _, l := range x.Lhs {
					if sel, ok := l.(*ast.SelectorExpr); ok {
						if v, ok := m.Pkg.TypesInfo.ObjectOf(sel.Sel).(*types.Var); ok && v.IsField() {
							res = false
						}
					}
				}
			case *ast.IncDecStmt:
				if _, ok := x.X.(*ast.SelectorExpr); ok {
					res = false
				}
			case *ast.CallExpr:
				if c := m.callee(x); c == m.found || c == m.foundAt || c == m.push || c == m.pop {
					res = false
				}
			}
			return true
		})
	}
	pureMemo[f] = res
	return res
}

// Describe renders a path for reports.
func (m *Machine) Describe(st *State, p Path) string {
	var effs []string
	for _, e := range p.Effects {
		switch e.Kind {
		case EGoto:
			effs = append(effs, "step="+m.States[e.Fn].Name)
		case EPush:
			effs = append(effs, "push("+m.States[e.Fn].Name+")")
		case EPushCur:
			effs = append(effs, "push(step)")
		case EPopGoto:
			effs = append(effs, "step=pop()")
		case EEvent:
			effs = append(effs, fmt.Sprintf("%s@cur-%d", e.Ev, e.Off))
		case ERewind:
			effs = append(effs, fmt.Sprintf("cur-=%d", e.Off))
		case EJump:
			effs = append(effs, "cur+=len-1")
		case EReadBack:
			effs = append(effs, fmt.Sprintf("read data[cur-%d]", e.Off))
		case ELibLen:
			effs = append(effs, "len=lib.Len()")
		}
	}
	out := map[Outcome]string{OutNil: "consume", OutErr: "error", OutRedispatch: "redispatch"}[p.Out]
	return fmt.Sprintf("%s on %s [%s] : %s -> %s", st.Name, p.Set, p.Guards, strings.Join(effs, "; "), out)
}
