package scanpds

import (
	"fmt"
	"go/ast"
	"go/token"
	"go/types"
	"strings"
)

// frame is an abstract execution of a prefix of a function body.
type frame struct {
	set    ByteSet
	eff    []Effect
	may    bool
	guards []string
	libErr bool // inside `if <lib error> != nil`
}

func (f frame) with(set ByteSet, g string) frame {
	n := frame{set: set, eff: append([]Effect(nil), f.eff...), may: f.may, guards: append([]string(nil), f.guards...), libErr: f.libErr}
	if g != "" {
		n.guards = append(n.guards, g)
	}
	return n
}

// fnctx is the lexical context of the function being interpreted.
type fnctx struct {
	fd      *ast.FuncDecl
	cObj    types.Object // the byte parameter (nil when the function has none or it is blank)
	sObj    types.Object // the *Scanner parameter / receiver
	lenVars map[types.Object]bool
	errVars map[types.Object]bool
	depth   int
}

const maxInline = 12

// evalFunc interprets fd for the bytes in set. prefix carries effects accumulated by
// the caller when fd is inlined (return stateX(s, c)).
func (m *Machine) evalFunc(fd *ast.FuncDecl, set ByteSet, prefix *frame, inlined bool, why string) []Path {
	m.inlineDepth++
	defer func() { m.inlineDepth-- }()
	if m.inlineDepth > maxInline {
		m.problem(fd.Pos(), "inlining depth exceeded at %s (recursive same-byte dispatch?)", fd.Name.Name)
		return nil
	}
	ctx := &fnctx{fd: fd, lenVars: map[types.Object]bool{}, errVars: map[types.Object]bool{}}
	info := m.Pkg.TypesInfo
	if fd.Recv != nil && len(fd.Recv.List) == 1 && len(fd.Recv.List[0].Names) == 1 {
		ctx.sObj = info.ObjectOf(fd.Recv.List[0].Names[0])
	}
	for _, fl := range fd.Type.Params.List {
		for _, nm := range fl.Names {
			obj := info.ObjectOf(nm)
			if obj == nil {
				continue
			}
			if isByte(obj.Type()) && nm.Name != "_" {
				ctx.cObj = obj
			}
			if p, ok := obj.Type().(*types.Pointer); ok && p.Elem() == m.scannerT {
				ctx.sObj = obj
			}
		}
	}
	start := frame{set: set}
	if prefix != nil {
		start = prefix.with(set, why)
	}
	fall, done := m.block(fd.Body.List, []frame{start}, ctx)
	for _, f := range fall {
		if !f.set.Empty() {
			m.problem(fd.End(), "%s: control falls off the end of the function", fd.Name.Name)
		}
	}
	return done
}

func (m *Machine) finish(f frame, out Outcome, pos token.Pos) Path {
	return Path{Set: f.set, Effects: f.eff, Out: out, May: f.may, Guards: strings.Join(f.guards, " & "), Pos: pos, LibErr: f.libErr && out == OutErr}
}

// block interprets statements in order. It returns the frames that fall through and
// the completed paths.
func (m *Machine) block(stmts []ast.Stmt, in []frame, ctx *fnctx) (fall []frame, done []Path) {
	cur := in
	for _, st := range stmts {
		var next []frame
		for _, f := range cur {
			if f.set.Empty() {
				continue
			}
			fl, dn := m.stmt(st, f, ctx)
			next = append(next, fl...)
			done = append(done, dn...)
		}
		cur = next
		if len(cur) == 0 {
			break
		}
	}
	return cur, done
}

func (m *Machine) stmt(st ast.Stmt, f frame, ctx *fnctx) (fall []frame, done []Path) {
	info := m.Pkg.TypesInfo
	switch s := st.(type) {
	case *ast.ReturnStmt:
		return nil, m.ret(s, f, ctx)

	case *ast.ExprStmt:
		call, ok := s.X.(*ast.CallExpr)
		if !ok {
			m.problem(s.Pos(), "unsupported expression statement")
			return []frame{f}, nil
		}
		if !m.callEffect(call, &f, ctx) {
			m.problem(s.Pos(), "unsupported call statement %s", types.ExprString(call.Fun))
		}
		return []frame{f}, nil

	case *ast.IncDecStmt:
		if m.isField(s.X, ctx, m.curField) && s.Tok == token.DEC {
			f.eff = append(f.eff, Effect{Kind: ERewind, Off: 1, Pos: s.Pos()})
			m.Counts["rewind"]++
			return []frame{f}, nil
		}
		m.problem(s.Pos(), "unsupported inc/dec statement")
		return []frame{f}, nil

	case *ast.AssignStmt:
		return m.assign(s, f, ctx), nil

	case *ast.IfStmt:
		if s.Init != nil {
			fl, dn := m.stmt(s.Init, f, ctx)
			if len(dn) != 0 || len(fl) != 1 {
				m.problem(s.Pos(), "unsupported if-init")
				return nil, dn
			}
			f = fl[0]
		}
		tfs, ffs := m.cond(s.Cond, f, ctx)
		var out []frame
		for _, tf := range tfs {
			if tf.set.Empty() {
				continue
			}
			fl, dn := m.block(s.Body.List, []frame{tf}, ctx)
			out = append(out, fl...)
			done = append(done, dn...)
		}
		for _, ff := range ffs {
			if ff.set.Empty() {
				continue
			}
			switch e := s.Else.(type) {
			case nil:
				out = append(out, ff)
			case *ast.BlockStmt:
				fl, dn := m.block(e.List, []frame{ff}, ctx)
				out = append(out, fl...)
				done = append(done, dn...)
			case *ast.IfStmt:
				fl, dn := m.stmt(e, ff, ctx)
				out = append(out, fl...)
				done = append(done, dn...)
			}
		}
		return out, done

	case *ast.SwitchStmt:
		if s.Init != nil {
			m.problem(s.Pos(), "unsupported switch init")
		}
		m.Counts["switch"]++
		if s.Tag == nil {
			return m.taglessSwitch(s, f, ctx)
		}
		id, ok := ast.Unparen(s.Tag).(*ast.Ident)
		if !ok || ctx.cObj == nil || info.ObjectOf(id) != ctx.cObj {
			m.problem(s.Pos(), "switch on something other than the input byte")
			return []frame{f}, nil
		}
		return m.byteSwitch(s, f, ctx)

	case *ast.BlockStmt:
		return m.block(s.List, []frame{f}, ctx)

	case *ast.EmptyStmt:
		return []frame{f}, nil

	case *ast.DeclStmt:
		// `var msg string` style declarations have no effect on the machine
		return []frame{f}, nil
	}
	m.problem(st.Pos(), "unsupported statement %T in a step function", st)
	return []frame{f}, nil
}

func (m *Machine) isField(e ast.Expr, ctx *fnctx, field *types.Var) bool {
	sel, ok := ast.Unparen(e).(*ast.SelectorExpr)
	if !ok {
		return false
	}
	if m.Pkg.TypesInfo.ObjectOf(sel.Sel) != field {
		return false
	}
	id, ok := ast.Unparen(sel.X).(*ast.Ident)
	return ok && ctx.sObj != nil && m.Pkg.TypesInfo.ObjectOf(id) == ctx.sObj
}

// curMinus recognises s.curIndex (k=0) and s.curIndex-K.
func (m *Machine) curMinus(e ast.Expr, ctx *fnctx) (int, bool) {
	e = ast.Unparen(e)
	if m.isField(e, ctx, m.curField) {
		return 0, true
	}
	if be, ok := e.(*ast.BinaryExpr); ok && be.Op == token.SUB && m.isField(be.X, ctx, m.curField) {
		if k, ok := m.constByte(be.Y); ok {
			return int(k), true
		}
	}
	return 0, false
}

func (m *Machine) stateOf(e ast.Expr) (int, bool) {
	id, ok := ast.Unparen(e).(*ast.Ident)
	if !ok {
		return 0, false
	}
	fo, ok := m.Pkg.TypesInfo.ObjectOf(id).(*types.Func)
	if !ok {
		return 0, false
	}
	sid, ok := m.ByObj[fo]
	return sid, ok
}

func (m *Machine) isPopCall(e ast.Expr, ctx *fnctx) bool {
	call, ok := ast.Unparen(e).(*ast.CallExpr)
	if !ok || m.callee(call) != m.pop {
		return false
	}
	sel, ok := call.Fun.(*ast.SelectorExpr)
	return ok && m.isField(sel.X, ctx, m.stackField)
}

func (m *Machine) assign(s *ast.AssignStmt, f frame, ctx *fnctx) []frame {
	info := m.Pkg.TypesInfo
	// s.step = X | s.step = s.stepStack.Pop()
	if len(s.Lhs) == 1 && len(s.Rhs) == 1 && s.Tok == token.ASSIGN && m.isField(s.Lhs[0], ctx, m.stepField) {
		if sid, ok := m.stateOf(s.Rhs[0]); ok {
			f.eff = append(f.eff, Effect{Kind: EGoto, Fn: sid, Pos: s.Pos()})
			m.Counts["goto"]++
			return []frame{f}
		}
		if m.isPopCall(s.Rhs[0], ctx) {
			f.eff = append(f.eff, Effect{Kind: EPopGoto, Pos: s.Pos()})
			m.Counts["pop"]++
			return []frame{f}
		}
		m.problem(s.Pos(), "s.step assigned from an expression that is neither a state nor stepStack.Pop()")
		return []frame{f}
	}
	// s.curIndex -= K  /  s.curIndex += Index(len - 1)
	if len(s.Lhs) == 1 && len(s.Rhs) == 1 && m.isField(s.Lhs[0], ctx, m.curField) {
		switch s.Tok {
		case token.SUB_ASSIGN:
			if k, ok := m.constByte(s.Rhs[0]); ok {
				f.eff = append(f.eff, Effect{Kind: ERewind, Off: int(k), Pos: s.Pos()})
				m.Counts["rewind"]++
				return []frame{f}
			}
		case token.ADD_ASSIGN:
			// Index(v - 1) with v a library length variable, inside `if v > 0`
			if m.isLenMinusOne(s.Rhs[0], ctx) {
				f.eff = append(f.eff, Effect{Kind: EJump, Pos: s.Pos()})
				m.Counts["jump"]++
				return []frame{f}
			}
		}
		m.problem(s.Pos(), "unsupported write to the read position")
		return []frame{f}
	}
	// v, je := s.readXWithJsc()
	if len(s.Lhs) == 2 && len(s.Rhs) == 1 && s.Tok == token.DEFINE {
		if call, ok := s.Rhs[0].(*ast.CallExpr); ok {
			if callee := m.callee(call); callee != nil && m.isLibLen(callee) {
				if a, ok := s.Lhs[0].(*ast.Ident); ok {
					ctx.lenVars[info.ObjectOf(a)] = true
				}
				if b, ok := s.Lhs[1].(*ast.Ident); ok {
					ctx.errVars[info.ObjectOf(b)] = true
				}
				f.eff = append(f.eff, Effect{Kind: ELibLen, Pos: s.Pos()})
				m.Counts["liblen"]++
				return []frame{f}
			}
		}
	}
	m.problem(s.Pos(), "unsupported assignment in a step function: %s", types.ExprString(s.Lhs[0]))
	return []frame{f}
}

func (m *Machine) isLenMinusOne(e ast.Expr, ctx *fnctx) bool {
	e = ast.Unparen(e)
	if call, ok := e.(*ast.CallExpr); ok && len(call.Args) == 1 {
		// conversion
		if tv, ok := m.Pkg.TypesInfo.Types[call.Fun]; ok && tv.IsType() {
			e = ast.Unparen(call.Args[0])
		}
	}
	be, ok := e.(*ast.BinaryExpr)
	if !ok || be.Op != token.SUB {
		return false
	}
	id, ok := ast.Unparen(be.X).(*ast.Ident)
	if !ok || !ctx.lenVars[m.Pkg.TypesInfo.ObjectOf(id)] {
		return false
	}
	k, ok := m.constByte(be.Y)
	return ok && k == 1
}

// isLibLen: a Scanner method returning (uint, *JApiError) that does not touch the
// machine (no step/stack/finds/curIndex writes): it asks the schema library for the
// length of the value starting at the read position.
func (m *Machine) isLibLen(f *types.Func) bool {
	if v, ok := m.libLen[f]; ok {
		return v
	}
	res := false
	defer func() { m.libLen[f] = res }()
	sig := f.Type().(*types.Signature)
	if sig.Recv() == nil || recvNamed(f) != m.scannerT || sig.Results().Len() != 2 || sig.Params().Len() != 0 {
		return false
	}
	if b, ok := sig.Results().At(0).Type().Underlying().(*types.Basic); !ok || b.Info()&types.IsInteger == 0 {
		return false
	}
	if !types.Identical(sig.Results().At(1).Type(), m.jerrPtr) {
		return false
	}
	fd := m.Prog.Decl(f)
	if fd == nil {
		return false
	}
	pure := true
	ast.Inspect(fd.Body, func(n ast.Node) bool {
		switch x := n.(type) {
		case *ast.AssignStmt:
			for _, l := range x.Lhs {
				if sel, ok := l.(*ast.SelectorExpr); ok {
					if v, ok := m.Pkg.TypesInfo.ObjectOf(sel.Sel).(*types.Var); ok && v.IsField() {
						if v == m.stepField || v == m.stackField || v == m.curField || v == m.findsField {
							pure = false
						}
					}
				}
			}
		case *ast.IncDecStmt:
			pure = false
		case *ast.CallExpr:
			if c := m.callee(x); c == m.found || c == m.foundAt || c == m.push || c == m.pop {
				pure = false
			}
		}
		return true
	})
	res = pure
	m.FuncsSeen[f.Name()] = true
	return res
}

// callEffect handles calls used as statements: found, foundAt, stepStack.Push.
func (m *Machine) callEffect(call *ast.CallExpr, f *frame, ctx *fnctx) bool {
	callee := m.callee(call)
	switch callee {
	case m.found:
		if ev, ok := m.eventConst(call.Args[0]); ok {
			f.eff = append(f.eff, Effect{Kind: EEvent, Ev: ev, Off: 0, Pos: call.Pos()})
			m.Counts["event"]++
			return true
		}
	case m.foundAt:
		k, ok1 := m.curMinus(call.Args[0], ctx)
		ev, ok2 := m.eventConst(call.Args[1])
		if ok1 && ok2 {
			f.eff = append(f.eff, Effect{Kind: EEvent, Ev: ev, Off: k, Pos: call.Pos()})
			m.Counts["event"]++
			return true
		}
	case m.push:
		sel, ok := call.Fun.(*ast.SelectorExpr)
		if !ok || !m.isField(sel.X, ctx, m.stackField) {
			return false
		}
		if sid, ok := m.stateOf(call.Args[0]); ok {
			f.eff = append(f.eff, Effect{Kind: EPush, Fn: sid, Pos: call.Pos()})
			m.Counts["push"]++
			return true
		}
		if m.isField(call.Args[0], ctx, m.stepField) {
			f.eff = append(f.eff, Effect{Kind: EPushCur, Pos: call.Pos()})
			m.Counts["push"]++
			return true
		}
	}
	return false
}

func (m *Machine) eventConst(e ast.Expr) (string, bool) {
	id, ok := ast.Unparen(e).(*ast.Ident)
	if !ok {
		return "", false
	}
	c, ok := m.Pkg.TypesInfo.ObjectOf(id).(*types.Const)
	if !ok {
		return "", false
	}
	for _, n := range m.EventConsts {
		if n == c.Name() {
			return n, true
		}
	}
	return "", false
}

// ret interprets a return statement.
func (m *Machine) ret(s *ast.ReturnStmt, f frame, ctx *fnctx) []Path {
	info := m.Pkg.TypesInfo
	if len(s.Results) != 1 {
		m.problem(s.Pos(), "return with %d results in a step function", len(s.Results))
		return nil
	}
	r := ast.Unparen(s.Results[0])
	if id, ok := r.(*ast.Ident); ok {
		if id.Name == "nil" && info.ObjectOf(id) == types.Universe.Lookup("nil") {
			return []Path{m.finish(f, OutNil, s.Pos())}
		}
		if ctx.errVars[info.ObjectOf(id)] {
			if !f.libErr {
				m.problem(s.Pos(), "library error variable returned outside its != nil guard")
			}
			return []Path{m.finish(f, OutErr, s.Pos())}
		}
		m.problem(s.Pos(), "return of unsupported identifier %s", id.Name)
		return nil
	}
	call, ok := r.(*ast.CallExpr)
	if !ok {
		m.problem(s.Pos(), "unsupported return expression")
		return nil
	}
	// return s.step(s, c): dynamic same-byte redispatch
	if m.isField(call.Fun, ctx, m.stepField) {
		if !m.passesSC(call, ctx, 0) {
			m.problem(s.Pos(), "s.step called with unexpected arguments")
		}
		m.Counts["redispatch-dynamic"]++
		return []Path{m.finish(f, OutRedispatch, s.Pos())}
	}
	callee := m.callee(call)
	if callee == nil {
		m.problem(s.Pos(), "return of a call through an unresolved function value")
		return nil
	}
	if m.isErrorOnly(callee) {
		return []Path{m.finish(f, OutErr, s.Pos())}
	}
	// static same-byte redispatch / helper inlining
	fd := m.Prog.Decl(callee)
	if fd == nil || callee.Pkg() != m.Pkg.Types {
		m.problem(s.Pos(), "return of a call to %s which is outside package scanner", callee.Name())
		return nil
	}
	sig := callee.Type().(*types.Signature)
	if sig.Results().Len() != 1 || !types.Identical(sig.Results().At(0).Type(), m.jerrPtr) {
		m.problem(s.Pos(), "return of a call to %s with an unexpected result type", callee.Name())
		return nil
	}
	// the callee's byte parameter (if any and if it is used) must receive our c
	off := 0
	if sig.Recv() == nil {
		off = 1 // first parameter is the scanner
		if len(call.Args) == 0 || !m.isS(call.Args[0], ctx) {
			m.problem(s.Pos(), "call to %s does not pass the scanner first", callee.Name())
			return nil
		}
	} else {
		sel, ok := call.Fun.(*ast.SelectorExpr)
		if !ok || !m.isS(sel.X, ctx) {
			m.problem(s.Pos(), "method %s called on something other than the scanner", callee.Name())
			return nil
		}
	}
	if !m.passesSC(call, ctx, off) {
		m.problem(s.Pos(), "call to %s passes a byte other than the current input byte", callee.Name())
		return nil
	}
	if sid, isState := m.ByObj[callee]; isState {
		m.Counts["redispatch-static"]++
		if m.curState != nil {
			dup := false
			for _, x := range m.curState.Inlines {
				dup = dup || x == sid
			}
			if !dup {
				m.curState.Inlines = append(m.curState.Inlines, sid)
			}
		}
	}
	m.FuncsSeen[callee.Name()] = true
	return m.evalFunc(fd, f.set, &f, true, "→"+callee.Name())
}

func (m *Machine) isS(e ast.Expr, ctx *fnctx) bool {
	id, ok := ast.Unparen(e).(*ast.Ident)
	return ok && ctx.sObj != nil && m.Pkg.TypesInfo.ObjectOf(id) == ctx.sObj
}

// passesSC checks that every byte-typed argument from index off on is the current byte.
func (m *Machine) passesSC(call *ast.CallExpr, ctx *fnctx, off int) bool {
	for i, a := range call.Args {
		tv, ok := m.Pkg.TypesInfo.Types[a]
		if !ok {
			return false
		}
		if isByte(tv.Type) && tv.Value == nil {
			id, ok := ast.Unparen(a).(*ast.Ident)
			if !ok || ctx.cObj == nil || m.Pkg.TypesInfo.ObjectOf(id) != ctx.cObj {
				return false
			}
		}
		if p, ok := tv.Type.(*types.Pointer); ok && p.Elem() == m.scannerT {
			if !m.isS(a, ctx) || (i != 0 && off == 1) {
				return false
			}
		}
	}
	return true
}

// isErrorOnly: every return of f constructs an error (a call to jerr.NewJApiError or
// to another error-only function) and f has no machine effects.
func (m *Machine) isErrorOnly(f *types.Func) bool {
	switch m.errorOnly[f] {
	case 1:
		return true
	case 2:
		return false
	}
	m.errorOnly[f] = 2 // cycle guard
	sig := f.Type().(*types.Signature)
	if sig.Results().Len() != 1 || !types.Identical(sig.Results().At(0).Type(), m.jerrPtr) {
		return false
	}
	if f.Pkg() != nil && strings.HasSuffix(f.Pkg().Path(), "/jerr") {
		// the constructor itself: returns &JApiError{...}
		fd := m.Prog.Decl(f)
		if fd == nil {
			return false
		}
		ok := true
		n := 0
		ast.Inspect(fd.Body, func(x ast.Node) bool {
			if r, isRet := x.(*ast.ReturnStmt); isRet {
				n++
				if len(r.Results) != 1 {
					ok = false
					return true
				}
				u, isU := ast.Unparen(r.Results[0]).(*ast.UnaryExpr)
				if !isU || u.Op != token.AND {
					ok = false
				} else if _, isCL := u.X.(*ast.CompositeLit); !isCL {
					ok = false
				}
			}
			return true
		})
		if ok && n > 0 {
			m.errorOnly[f] = 1
			return true
		}
		return false
	}
	if f.Pkg() != m.Pkg.Types {
		return false
	}
	if _, isState := m.ByObj[f]; isState {
		return false
	}
	fd := m.Prog.Decl(f)
	if fd == nil {
		return false
	}
	ok := true
	n := 0
	ast.Inspect(fd.Body, func(x ast.Node) bool {
		switch y := x.(type) {
		case *ast.ReturnStmt:
			n++
			if len(y.Results) != 1 {
				ok = false
				return true
			}
			call, isCall := ast.Unparen(y.Results[0]).(*ast.CallExpr)
			if !isCall {
				ok = false
				return true
			}
			c := m.callee(call)
			if c == nil || !m.isErrorOnly(c) {
				ok = false
			}
		case *ast.AssignStmt:
			for _, l := range y.Lhs {
				if sel, isSel := l.(*ast.SelectorExpr); isSel {
					if v, isVar := m.Pkg.TypesInfo.ObjectOf(sel.Sel).(*types.Var); isVar && v.IsField() {
						ok = false // writes scanner state
					}
				}
			}
		case *ast.IncDecStmt:
			ok = false
		}
		return true
	})
	if ok && n > 0 {
		m.errorOnly[f] = 1
		m.FuncsSeen[f.Name()] = true
		return true
	}
	return false
}

// ---------------------------------------------------------------- conditions

// cond splits frame f on a boolean expression into the frames where it is true and
// those where it is false (several each, because && and || short-circuit: the effects
// of the right operand exist only on the sub-frames that evaluated it).
func (m *Machine) cond(e ast.Expr, f frame, ctx *fnctx) (tf, ff []frame) {
	info := m.Pkg.TypesInfo
	e = ast.Unparen(e)
	desc := types.ExprString(e)
	opaque := func(g frame) ([]frame, []frame) {
		a := g.with(g.set, desc)
		a.may = true
		b := g.with(g.set, "!("+desc+")")
		b.may = true
		return []frame{a}, []frame{b}
	}
	switch x := e.(type) {
	case *ast.UnaryExpr:
		if x.Op == token.NOT {
			a, b := m.cond(x.X, f, ctx)
			return b, a
		}
	case *ast.BinaryExpr:
		switch x.Op {
		case token.LAND:
			t1, f1 := m.cond(x.X, f, ctx)
			ff = append(ff, f1...)
			for _, g := range t1 {
				if g.set.Empty() {
					continue
				}
				t2, f2 := m.cond(x.Y, g, ctx)
				tf = append(tf, t2...)
				ff = append(ff, f2...)
			}
			return tf, ff
		case token.LOR:
			t1, f1 := m.cond(x.X, f, ctx)
			tf = append(tf, t1...)
			for _, g := range f1 {
				if g.set.Empty() {
					continue
				}
				t2, f2 := m.cond(x.Y, g, ctx)
				tf = append(tf, t2...)
				ff = append(ff, f2...)
			}
			return tf, ff
		case token.EQL, token.NEQ:
			// c == K / c != K
			if id, ok := ast.Unparen(x.X).(*ast.Ident); ok && ctx.cObj != nil && info.ObjectOf(id) == ctx.cObj {
				if k, ok := m.constByte(x.Y); ok {
					eq, ne := "c=="+Of(k).String(), "c!="+Of(k).String()
					in := f.with(f.set.And(Of(k)), eq)
					out := f.with(f.set.Minus(Of(k)), ne)
					if x.Op == token.EQL {
						return []frame{in}, []frame{out}
					}
					return []frame{out}, []frame{in}
				}
			}
			// je != nil on a library error variable
			if id, ok := ast.Unparen(x.X).(*ast.Ident); ok && ctx.errVars[info.ObjectOf(id)] {
				if nid, ok := ast.Unparen(x.Y).(*ast.Ident); ok && nid.Name == "nil" {
					a, b := opaque(f)
					if x.Op == token.NEQ {
						a[0].libErr = true
					} else {
						b[0].libErr = true
					}
					return a, b
				}
			}
			// s.data[s.curIndex-K] == 'x'  : data-dependent, records a read-back
			if ix, ok := ast.Unparen(x.X).(*ast.IndexExpr); ok && m.isField(ix.X, ctx, m.dataField) {
				if k, ok := m.curMinus(ix.Index, ctx); ok {
					if _, ok := m.constByte(x.Y); ok {
						g := f.with(f.set, "")
						g.eff = append(g.eff, Effect{Kind: EReadBack, Off: k, Pos: ix.Pos()})
						m.OpaquePreds["data[curIndex-k]"]++
						return opaque(g)
					}
				}
			}
		case token.GTR:
			// len > 0 on a library length variable
			if id, ok := ast.Unparen(x.X).(*ast.Ident); ok && ctx.lenVars[info.ObjectOf(id)] {
				if k, ok := m.constByte(x.Y); ok && k == 0 {
					return opaque(f)
				}
			}
		}
	case *ast.CallExpr:
		callee := m.callee(x)
		if callee != nil {
			// IsNewLine(c) / isWhitespace(c)
			if set, ok := m.predSets[callee]; ok && len(x.Args) == 1 {
				if id, ok := ast.Unparen(x.Args[0]).(*ast.Ident); ok && ctx.cObj != nil && info.ObjectOf(id) == ctx.cObj {
					return []frame{f.with(f.set.And(set), desc)}, []frame{f.with(f.set.Minus(set), "!"+desc)}
				}
			}
			// opaque predicate: a bool method of the scanner with no parameters that does not touch the machine
			sig := callee.Type().(*types.Signature)
			if sig.Recv() != nil && recvNamed(callee) == m.scannerT && sig.Params().Len() == 0 && sig.Results().Len() == 1 {
				if b, ok := sig.Results().At(0).Type().Underlying().(*types.Basic); ok && b.Kind() == types.Bool {
					if sel, ok := x.Fun.(*ast.SelectorExpr); ok && m.isS(sel.X, ctx) && m.isPureMethod(callee) {
						m.OpaquePreds[callee.Name()]++
						m.FuncsSeen[callee.Name()] = true
						return opaque(f)
					}
				}
			}
		}
	}
	m.problem(e.Pos(), "unsupported condition %s", desc)
	return opaque(f)
}

var pureMemo = map[*types.Func]bool{}

func (m *Machine) isPureMethod(f *types.Func) bool {
	if v, ok := pureMemo[f]; ok {
		return v
	}
	fd := m.Prog.Decl(f)
	res := fd != nil
	if fd != nil {
		ast.Inspect(fd.Body, func(n ast.Node) bool {
			switch x := n.(type) {
			case *ast.AssignStmt:
				for _, l := range x.Lhs {
					if sel, ok := l.(*ast.SelectorExpr); ok {
						if v, ok := m.Pkg.TypesInfo.ObjectOf(sel.Sel).(*types.Var); ok && v.IsField() {
							res = false
						}
					}
				}
			case *ast.IncDecStmt:
				if _, ok := x.X.(*ast.SelectorExpr); ok {
					res = false
				}
			case *ast.CallExpr:
				if c := m.callee(x); c == m.found || c == m.foundAt || c == m.push || c == m.pop {
					res = false
				}
			}
			return true
		})
	}
	pureMemo[f] = res
	return res
}

// ---------------------------------------------------------------- switches

func (m *Machine) caseSet(e ast.Expr, ctx *fnctx) (ByteSet, bool) {
	e = ast.Unparen(e)
	if k, ok := m.constByte(e); ok {
		return Of(k), true
	}
	if call, ok := e.(*ast.CallExpr); ok && len(call.Args) == 1 {
		if set, ok := m.helperSets[m.callee(call)]; ok {
			if id, ok := ast.Unparen(call.Args[0]).(*ast.Ident); ok && ctx.cObj != nil && m.Pkg.TypesInfo.ObjectOf(id) == ctx.cObj {
				return set, true
			}
		}
	}
	return ByteSet{}, false
}

func (m *Machine) byteSwitch(s *ast.SwitchStmt, f frame, ctx *fnctx) (fall []frame, done []Path) {
	rest := f.set
	var deflt *ast.CaseClause
	for _, c := range s.Body.List {
		cc := c.(*ast.CaseClause)
		if cc.List == nil {
			deflt = cc
			continue
		}
		var arm ByteSet
		var names []string
		for _, e := range cc.List {
			set, ok := m.caseSet(e, ctx)
			if !ok {
				m.problem(e.Pos(), "unsupported case expression %s", types.ExprString(e))
				continue
			}
			arm = arm.Or(set)
			names = append(names, types.ExprString(e))
		}
		take := rest.And(arm)
		rest = rest.Minus(arm)
		if take.Empty() {
			continue
		}
		fl, dn := m.caseBody(cc.Body, f.with(take, "case "+strings.Join(names, ",")), ctx)
		fall = append(fall, fl...)
		done = append(done, dn...)
	}
	if !rest.Empty() {
		if deflt != nil {
			fl, dn := m.caseBody(deflt.Body, f.with(rest, "default"), ctx)
			fall = append(fall, fl...)
			done = append(done, dn...)
		} else {
			fall = append(fall, f.with(rest, "no-case"))
		}
	}
	return fall, done
}

func (m *Machine) caseBody(body []ast.Stmt, f frame, ctx *fnctx) ([]frame, []Path) {
	for _, st := range body {
		if br, ok := st.(*ast.BranchStmt); ok {
			m.problem(br.Pos(), "unsupported branch statement %s in a case body", br.Tok)
		}
	}
	return m.block(body, []frame{f}, ctx)
}

func (m *Machine) taglessSwitch(s *ast.SwitchStmt, f frame, ctx *fnctx) (fall []frame, done []Path) {
	cur := []frame{f}
	var deflt *ast.CaseClause
	for _, c := range s.Body.List {
		cc := c.(*ast.CaseClause)
		if cc.List == nil {
			deflt = cc
			continue
		}
		// case a, b:  == a || b
		var tAll, nextCur []frame
		for _, g := range cur {
			rest := []frame{g}
			for _, e := range cc.List {
				var r2 []frame
				for _, h := range rest {
					if h.set.Empty() {
						continue
					}
					tf, ff := m.cond(e, h, ctx)
					tAll = append(tAll, tf...)
					r2 = append(r2, ff...)
				}
				rest = r2
			}
			nextCur = append(nextCur, rest...)
		}
		for _, tf := range tAll {
			if tf.set.Empty() {
				continue
			}
			fl, dn := m.caseBody(cc.Body, tf, ctx)
			fall = append(fall, fl...)
			done = append(done, dn...)
		}
		cur = nextCur
	}
	for _, g := range cur {
		if g.set.Empty() {
			continue
		}
		if deflt != nil {
			fl, dn := m.caseBody(deflt.Body, g, ctx)
			fall = append(fall, fl...)
			done = append(done, dn...)
		} else {
			fall = append(fall, g)
		}
	}
	return fall, done
}

// Describe renders a path for reports.
func (m *Machine) Describe(st *State, p Path) string {
	var effs []string
	for _, e := range p.Effects {
		switch e.Kind {
		case EGoto:
			effs = append(effs, "step="+m.States[e.Fn].Name)
		case EPush:
			effs = append(effs, "push("+m.States[e.Fn].Name+")")
		case EPushCur:
			effs = append(effs, "push(step)")
		case EPopGoto:
			effs = append(effs, "step=pop()")
		case EEvent:
			effs = append(effs, fmt.Sprintf("%s@cur-%d", e.Ev, e.Off))
		case ERewind:
			effs = append(effs, fmt.Sprintf("cur-=%d", e.Off))
		case EJump:
			effs = append(effs, "cur+=len-1")
		case EReadBack:
			effs = append(effs, fmt.Sprintf("read data[cur-%d]", e.Off))
		case ELibLen:
			effs = append(effs, "len=lib.Len()")
		}
	}
	out := map[Outcome]string{OutNil: "consume", OutErr: "error", OutRedispatch: "redispatch"}[p.Out]
	return fmt.Sprintf("%s on %s [%s] : %s -> %s", st.Name, p.Set, p.Guards, strings.Join(effs, "; "), out)
}
