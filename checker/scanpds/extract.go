// Package scanpds extracts the scanner's byte-level state machine from the typed
// syntax of package scanner and analyses it as a pushdown system.  No scanner code
// is executed: every step function is read as a list of guarded arms by set algebra
// on byte sets.
package scanpds

import (
	"fmt"
	"go/ast"
	"go/constant"
	"go/token"
	"go/types"
	"sort"
	"strings"

	"golang.org/x/tools/go/packages"

	"verif/checker/cfgx"
	"verif/checker/load"
)

// ---------------------------------------------------------------- byte sets

// ByteSet is a set of input symbols 0..255; symbol 0 stands for end of input only
// (Scanner.Next rejects a real NUL byte before any step function runs).
type ByteSet [4]uint64

func (s ByteSet) Has(b byte) bool { return s[b>>6]&(1<<(b&63)) != 0 }
func (s *ByteSet) Add(b byte)     { s[b>>6] |= 1 << (b & 63) }
func (s ByteSet) And(o ByteSet) ByteSet {
	return ByteSet{s[0] & o[0], s[1] & o[1], s[2] & o[2], s[3] & o[3]}
}
func (s ByteSet) Or(o ByteSet) ByteSet {
	return ByteSet{s[0] | o[0], s[1] | o[1], s[2] | o[2], s[3] | o[3]}
}
func (s ByteSet) Minus(o ByteSet) ByteSet {
	return ByteSet{s[0] &^ o[0], s[1] &^ o[1], s[2] &^ o[2], s[3] &^ o[3]}
}
func (s ByteSet) Empty() bool             { return s[0]|s[1]|s[2]|s[3] == 0 }
func (s ByteSet) SubsetOf(o ByteSet) bool { return s.Minus(o).Empty() }
func (s ByteSet) Count() int {
	n := 0
	for i := 0; i < 256; i++ {
		if s.Has(byte(i)) {
			n++
		}
	}
	return n
}
func (s ByteSet) Bytes() []byte {
	var r []byte
	for i := 0; i < 256; i++ {
		if s.Has(byte(i)) {
			r = append(r, byte(i))
		}
	}
	return r
}
func Full() ByteSet { return ByteSet{^uint64(0), ^uint64(0), ^uint64(0), ^uint64(0)} }
func Of(bs ...byte) ByteSet {
	var s ByteSet
	for _, b := range bs {
		s.Add(b)
	}
	return s
}

func (s ByteSet) String() string {
	if s == Full() {
		return "ANY"
	}
	n := s.Count()
	neg := false
	show := s
	if n > 128 {
		neg = true
		show = Full().Minus(s)
	}
	var parts []string
	for _, b := range show.Bytes() {
		switch {
		case b == 0:
			parts = append(parts, "EOF")
		case b == '\n':
			parts = append(parts, `\n`)
		case b == '\r':
			parts = append(parts, `\r`)
		case b == '\t':
			parts = append(parts, `\t`)
		case b == ' ':
			parts = append(parts, "SP")
		case b > 32 && b < 127:
			parts = append(parts, string(rune(b)))
		default:
			parts = append(parts, fmt.Sprintf("0x%02x", b))
		}
	}
	if len(parts) > 24 {
		parts = append(parts[:24], "…")
	}
	if neg {
		return "ANY-{" + strings.Join(parts, " ") + "}"
	}
	return "{" + strings.Join(parts, " ") + "}"
}

// ---------------------------------------------------------------- model

type EffectKind int

const (
	EGoto     EffectKind = iota // s.step = F
	EPush                       // s.stepStack.Push(F)
	EPushCur                    // s.stepStack.Push(s.step)
	EPopGoto                    // s.step = s.stepStack.Pop()
	EEvent                      // s.found / s.foundAt: event Ev at curIndex-Off
	ERewind                     // s.curIndex -= N
	EJump                       // s.curIndex += len-1 under len>0 (symbolic, >= 0)
	EReadBack                   // s.data[s.curIndex-N] is read
	ELibLen                     // a library length call on the rest of the input
)

type Effect struct {
	Kind EffectKind
	Fn   int    // state id for EGoto / EPush
	Ev   string // event constant name for EEvent
	Off  int    // offset k (position = curIndex-k) for EEvent; N for ERewind/EReadBack
	Pos  token.Pos
}

type Outcome int

const (
	OutNil        Outcome = iota // return nil: byte consumed
	OutErr                       // returns a non-nil error
	OutRedispatch                // return s.step(s, c): same byte goes to the (new) current step
)

// Path is one guarded arm of a step function after inlining static calls.
type Path struct {
	Set     ByteSet
	Effects []Effect
	Out     Outcome
	May     bool   // depends on an opaque (data-dependent) predicate
	Guards  string // human readable description of the arms taken
	Pos     token.Pos
	LibErr  bool // OutErr caused by a library length error
}

type State struct {
	ID    int
	Name  string
	Obj   *types.Func
	Decl  *ast.FuncDecl
	Paths []Path
	// Inlines are the states whose bodies this state calls directly with the same byte
	Inlines []int
}

// Machine is the extracted scanner.
type Machine struct {
	Prog     *load.Program
	Pkg      *packages.Package
	States   []*State
	ByObj    map[*types.Func]int
	Initial  int // the step stored by the constructor
	Problems []Problem

	// event classification read from the LexemeEventType predicates
	Begin, End, Single map[string]bool
	PairOf             map[string]string // end const -> begin const (same ToLexemeType)
	LexKind            map[string]string // event const -> LexemeType const name
	EventConsts        []string

	// anchors
	scannerT   *types.Named
	stepField  *types.Var
	stackField *types.Var
	curField   *types.Var
	dataField  *types.Var
	findsField *types.Var
	stepSig    *types.Signature
	jerrPtr    types.Type

	foundAt, found *types.Func
	push, pop      *types.Func
	helperSets     map[*types.Func]ByteSet // caseNewLine -> NL etc (case helpers)
	predSets       map[*types.Func]ByteSet // IsNewLine, isWhitespace
	errorOnly      map[*types.Func]int     // 0 unknown, 1 yes, 2 no
	libLen         map[*types.Func]bool
	inlineDepth    int
	eventStackT    *types.Named
	eventProc      *types.Func
	curState       *State
	FuncsSeen      map[string]bool
	OpaquePreds    map[string]int
	Counts         map[string]int
}

type Problem struct {
	Pos token.Pos
	Msg string
}

func (m *Machine) problem(pos token.Pos, format string, a ...any) {
	m.Problems = append(m.Problems, Problem{pos, fmt.Sprintf(format, a...)})
}

func (m *Machine) StateByName(n string) *State {
	for _, s := range m.States {
		if s.Name == n {
			return s
		}
	}
	return nil
}

// Extract builds the machine from package scanner.
func Extract(prog *load.Program) (*Machine, error) {
	pk := prog.Pkg("scanner")
	if pk == nil {
		return nil, fmt.Errorf("unresolved anchor: package scanner")
	}
	m := &Machine{Prog: prog, Pkg: pk, ByObj: map[*types.Func]int{}, helperSets: map[*types.Func]ByteSet{},
		predSets: map[*types.Func]ByteSet{}, errorOnly: map[*types.Func]int{}, libLen: map[*types.Func]bool{},
		FuncsSeen: map[string]bool{}, OpaquePreds: map[string]int{}, Counts: map[string]int{},
		Begin: map[string]bool{}, End: map[string]bool{}, Single: map[string]bool{}, PairOf: map[string]string{}, LexKind: map[string]string{}}
	if err := m.resolveAnchors(); err != nil {
		return nil, err
	}
	if err := m.readEventTables(); err != nil {
		return nil, err
	}
	// states: every package-level function whose signature is the step signature
	var objs []*types.Func
	scope := pk.Types.Scope()
	for _, name := range scope.Names() {
		f, ok := scope.Lookup(name).(*types.Func)
		if !ok {
			continue
		}
		if types.Identical(f.Type(), m.stepSig) && prog.Decl(f) != nil {
			objs = append(objs, f)
		}
	}
	sort.Slice(objs, func(i, j int) bool { return objs[i].Name() < objs[j].Name() })
	for i, o := range objs {
		m.States = append(m.States, &State{ID: i, Name: o.Name(), Obj: o, Decl: prog.Decl(o)})
		m.ByObj[o] = i
	}
	if len(m.States) == 0 {
		return nil, fmt.Errorf("unresolved anchor: no function of step-function type in package scanner")
	}
	for _, st := range m.States {
		m.FuncsSeen[st.Name] = true
		m.curState = st
		st.Paths = m.evalFunc(st.Decl, Full(), nil, false, "")
		if len(st.Paths) == 0 {
			m.problem(st.Decl.Pos(), "state %s has no paths", st.Name)
		}
		// the arms of one state must partition the alphabet (may-paths may overlap)
		var cover ByteSet
		for _, p := range st.Paths {
			cover = cover.Or(p.Set)
		}
		if cover != Full() {
			m.problem(st.Decl.Pos(), "state %s: arms do not cover bytes %s", st.Name, Full().Minus(cover))
		}
	}
	if err := m.findInitial(); err != nil {
		return nil, err
	}
	return m, nil
}

func (m *Machine) resolveAnchors() error {
	pk := m.Pkg
	// the Scanner type: the named struct type with a field of function type
	// func(*T, byte) *jerr.JApiError
	for _, name := range pk.Types.Scope().Names() {
		tn, ok := pk.Types.Scope().Lookup(name).(*types.TypeName)
		if !ok {
			continue
		}
		named, ok := tn.Type().(*types.Named)
		if !ok {
			continue
		}
		st, ok := named.Underlying().(*types.Struct)
		if !ok {
			continue
		}
		for i := 0; i < st.NumFields(); i++ {
			f := st.Field(i)
			sig, ok := f.Type().Underlying().(*types.Signature)
			if !ok || sig.Params().Len() != 2 || sig.Results().Len() != 1 {
				continue
			}
			p0, ok := sig.Params().At(0).Type().(*types.Pointer)
			if !ok || p0.Elem() != named {
				continue
			}
			if b, ok := sig.Params().At(1).Type().Underlying().(*types.Basic); !ok || b.Kind() != types.Uint8 {
				continue
			}
			m.scannerT, m.stepField, m.stepSig = named, f, sig
			m.jerrPtr = sig.Results().At(0).Type()
		}
	}
	if m.scannerT == nil {
		return fmt.Errorf("unresolved anchor: scanner struct with a step-function field")
	}
	st := m.scannerT.Underlying().(*types.Struct)
	for i := 0; i < st.NumFields(); i++ {
		f := st.Field(i)
		switch t := f.Type().Underlying().(type) {
		case *types.Slice:
			if types.Identical(t.Elem().Underlying(), m.stepSig) {
				m.stackField = f
			}
		}
	}
	if m.stackField == nil {
		return fmt.Errorf("unresolved anchor: step stack field ([]stepFunc) of %s", m.scannerT)
	}
	// push / pop: methods of the stack type
	stackNamed, _ := m.stackField.Type().(*types.Named)
	if stackNamed == nil {
		return fmt.Errorf("unresolved anchor: named step stack type")
	}
	for i := 0; i < stackNamed.NumMethods(); i++ {
		mt := stackNamed.Method(i)
		sig := mt.Type().(*types.Signature)
		if !mt.Exported() {
			continue
		}
		if sig.Params().Len() == 1 && sig.Results().Len() == 0 {
			m.push = mt
		}
		if sig.Params().Len() == 0 && sig.Results().Len() == 1 {
			m.pop = mt
		}
	}
	if m.push == nil || m.pop == nil {
		return fmt.Errorf("unresolved anchor: Push/Pop methods of %s", stackNamed)
	}
	// curIndex: the field that Next() increments; data: the field indexed by it; finds: appended in foundAt
	for i := 0; i < m.scannerT.NumMethods(); i++ {
		mt := m.scannerT.Method(i)
		fd := m.Prog.Decl(mt)
		if fd == nil {
			continue
		}
		sig := mt.Type().(*types.Signature)
		// foundAt: (Index, EventType) with body  s.X = append(s.X, ...)
		if sig.Params().Len() == 2 && sig.Results().Len() == 0 && len(fd.Body.List) <= 3 {
			// straight-line body one statement of which is  s.X = append(s.X, ...)
			for _, st := range fd.Body.List {
				as, ok := st.(*ast.AssignStmt)
				if !ok || len(as.Rhs) != 1 || len(as.Lhs) != 1 {
					continue
				}
				if call, ok := as.Rhs[0].(*ast.CallExpr); ok {
					if id, ok := call.Fun.(*ast.Ident); ok && id.Name == "append" {
						if sel, ok := as.Lhs[0].(*ast.SelectorExpr); ok {
							if v, ok := pk.TypesInfo.ObjectOf(sel.Sel).(*types.Var); ok && v.IsField() {
								m.foundAt, m.findsField = mt, v
							}
						}
					}
				}
			}
		}
	}
	if m.foundAt == nil {
		return fmt.Errorf("unresolved anchor: the Scanner method that appends a lexeme event (foundAt)")
	}
	for i := 0; i < m.scannerT.NumMethods(); i++ {
		mt := m.scannerT.Method(i)
		fd := m.Prog.Decl(mt)
		if fd == nil || mt == m.foundAt {
			continue
		}
		sig := mt.Type().(*types.Signature)
		// found: (EventType) with body s.foundAt(s.F, t)
		if sig.Params().Len() == 1 && sig.Results().Len() == 0 && len(fd.Body.List) == 1 {
			if es, ok := fd.Body.List[0].(*ast.ExprStmt); ok {
				if call, ok := es.X.(*ast.CallExpr); ok && m.callee(call) == m.foundAt && len(call.Args) == 2 {
					if sel, ok := call.Args[0].(*ast.SelectorExpr); ok {
						if v, ok := pk.TypesInfo.ObjectOf(sel.Sel).(*types.Var); ok && v.IsField() {
							m.found, m.curField = mt, v
						}
					}
				}
			}
		}
	}
	if m.found == nil || m.curField == nil {
		return fmt.Errorf("unresolved anchor: the Scanner method found(t) = foundAt(s.<index>, t)")
	}
	// data field: a field of byte-slice type indexed by the index field somewhere in the package
	for i := 0; i < st.NumFields(); i++ {
		f := st.Field(i)
		if sl, ok := f.Type().Underlying().(*types.Slice); ok {
			if b, ok := sl.Elem().Underlying().(*types.Basic); ok && b.Kind() == types.Uint8 {
				m.dataField = f
			}
		}
	}
	if m.dataField == nil {
		return fmt.Errorf("unresolved anchor: scanner data field")
	}
	// byte-class helpers, recognised by shape
	for _, name := range pk.Types.Scope().Names() {
		f, ok := pk.Types.Scope().Lookup(name).(*types.Func)
		if !ok {
			continue
		}
		fd := m.Prog.Decl(f)
		if fd == nil {
			continue
		}
		sig := f.Type().(*types.Signature)
		if sig.Recv() != nil || sig.Params().Len() != 1 || sig.Results().Len() != 1 {
			continue
		}
		if !isByte(sig.Params().At(0).Type()) {
			continue
		}
		if b, ok := sig.Results().At(0).Type().Underlying().(*types.Basic); ok && b.Kind() == types.Bool {
			if set, ok := m.byteFuncSet(fd, true); ok {
				m.predSets[f] = set
			} else if set, ok := m.boolPredShape(fd); ok {
				m.predSets[f] = set
			}
		}
	}
	for _, name := range pk.Types.Scope().Names() {
		f, ok := pk.Types.Scope().Lookup(name).(*types.Func)
		if !ok {
			continue
		}
		fd := m.Prog.Decl(f)
		if fd == nil {
			continue
		}
		sig := f.Type().(*types.Signature)
		if sig.Recv() != nil || sig.Params().Len() != 1 || sig.Results().Len() != 1 {
			continue
		}
		if isByte(sig.Params().At(0).Type()) && isByte(sig.Results().At(0).Type()) {
			if set, ok := m.byteFuncSet(fd, false); ok {
				m.helperSets[f] = set
			} else if set, ok := m.caseHelperShape(fd); ok {
				m.helperSets[f] = set
			}
		}
	}
	return nil
}

func isByte(t types.Type) bool {
	b, ok := t.Underlying().(*types.Basic)
	return ok && b.Kind() == types.Uint8
}

func (m *Machine) callee(call *ast.CallExpr) *types.Func {
	switch fn := ast.Unparen(call.Fun).(type) {
	case *ast.Ident:
		f, _ := m.Pkg.TypesInfo.ObjectOf(fn).(*types.Func)
		return f
	case *ast.SelectorExpr:
		f, _ := m.Pkg.TypesInfo.ObjectOf(fn.Sel).(*types.Func)
		return f
	}
	return nil
}

// boolPredShape recognises  func p(c byte) bool { return c == K1 || c == K2 ... }
func (m *Machine) boolPredShape(fd *ast.FuncDecl) (ByteSet, bool) {
	if len(fd.Body.List) != 1 || len(fd.Type.Params.List) != 1 || len(fd.Type.Params.List[0].Names) != 1 {
		return ByteSet{}, false
	}
	ret, ok := fd.Body.List[0].(*ast.ReturnStmt)
	if !ok || len(ret.Results) != 1 {
		return ByteSet{}, false
	}
	param := m.Pkg.TypesInfo.ObjectOf(fd.Type.Params.List[0].Names[0])
	var set ByteSet
	var walk func(e ast.Expr) bool
	walk = func(e ast.Expr) bool {
		e = ast.Unparen(e)
		be, ok := e.(*ast.BinaryExpr)
		if !ok {
			return false
		}
		if be.Op == token.LOR {
			return walk(be.X) && walk(be.Y)
		}
		if be.Op != token.EQL {
			return false
		}
		id, ok := ast.Unparen(be.X).(*ast.Ident)
		if !ok || m.Pkg.TypesInfo.ObjectOf(id) != param {
			return false
		}
		b, ok := m.constByte(be.Y)
		if !ok {
			return false
		}
		set.Add(b)
		return true
	}
	if !walk(ret.Results[0]) {
		return ByteSet{}, false
	}
	return set, true
}

// caseHelperShape recognises
//
//	func h(c byte) byte { if pred(c) { return c } else { return other(c) } }
//
// with other(b) != b for every b (shape-checked), so that `case h(c)` in a
// `switch c` is taken exactly for the bytes of pred.
func (m *Machine) caseHelperShape(fd *ast.FuncDecl) (ByteSet, bool) {
	if len(fd.Body.List) != 1 || len(fd.Type.Params.List) != 1 || len(fd.Type.Params.List[0].Names) != 1 {
		return ByteSet{}, false
	}
	ifs, ok := fd.Body.List[0].(*ast.IfStmt)
	if !ok || ifs.Init != nil || ifs.Else == nil {
		return ByteSet{}, false
	}
	param := m.Pkg.TypesInfo.ObjectOf(fd.Type.Params.List[0].Names[0])
	call, ok := ast.Unparen(ifs.Cond).(*ast.CallExpr)
	if !ok || len(call.Args) != 1 {
		return ByteSet{}, false
	}
	if id, ok := call.Args[0].(*ast.Ident); !ok || m.Pkg.TypesInfo.ObjectOf(id) != param {
		return ByteSet{}, false
	}
	set, ok := m.predSets[m.callee(call)]
	if !ok {
		return ByteSet{}, false
	}
	// then: return c
	if len(ifs.Body.List) != 1 {
		return ByteSet{}, false
	}
	r1, ok := ifs.Body.List[0].(*ast.ReturnStmt)
	if !ok || len(r1.Results) != 1 {
		return ByteSet{}, false
	}
	if id, ok := r1.Results[0].(*ast.Ident); !ok || m.Pkg.TypesInfo.ObjectOf(id) != param {
		return ByteSet{}, false
	}
	// else: return other(c)
	eb, ok := ifs.Else.(*ast.BlockStmt)
	if !ok || len(eb.List) != 1 {
		return ByteSet{}, false
	}
	r2, ok := eb.List[0].(*ast.ReturnStmt)
	if !ok || len(r2.Results) != 1 {
		return ByteSet{}, false
	}
	oc, ok := r2.Results[0].(*ast.CallExpr)
	if !ok || len(oc.Args) != 1 {
		return ByteSet{}, false
	}
	if id, ok := oc.Args[0].(*ast.Ident); !ok || m.Pkg.TypesInfo.ObjectOf(id) != param {
		return ByteSet{}, false
	}
	if !m.neverIdentityShape(m.Prog.Decl(m.callee(oc))) {
		return ByteSet{}, false
	}
	return set, true
}

// neverIdentityShape recognises  func o(b byte) byte { if b == K { return K2 } else { return b + 1 } }
// with K2 != K and K = 255 (so b+1 never wraps onto b): o(b) != b for all b.
func (m *Machine) neverIdentityShape(fd *ast.FuncDecl) bool {
	if fd == nil || len(fd.Body.List) != 1 || len(fd.Type.Params.List) != 1 || len(fd.Type.Params.List[0].Names) != 1 {
		return false
	}
	param := m.Pkg.TypesInfo.ObjectOf(fd.Type.Params.List[0].Names[0])
	ifs, ok := fd.Body.List[0].(*ast.IfStmt)
	if !ok || ifs.Else == nil {
		return false
	}
	be, ok := ast.Unparen(ifs.Cond).(*ast.BinaryExpr)
	if !ok || be.Op != token.EQL {
		return false
	}
	if id, ok := be.X.(*ast.Ident); !ok || m.Pkg.TypesInfo.ObjectOf(id) != param {
		return false
	}
	k, ok := m.constByte(be.Y)
	if !ok || k != 255 || len(ifs.Body.List) != 1 {
		return false
	}
	r1, ok := ifs.Body.List[0].(*ast.ReturnStmt)
	if !ok || len(r1.Results) != 1 {
		return false
	}
	k2, ok := m.constByte(r1.Results[0])
	if !ok || k2 == k {
		return false
	}
	eb, ok := ifs.Else.(*ast.BlockStmt)
	if !ok || len(eb.List) != 1 {
		return false
	}
	r2, ok := eb.List[0].(*ast.ReturnStmt)
	if !ok || len(r2.Results) != 1 {
		return false
	}
	add, ok := ast.Unparen(r2.Results[0]).(*ast.BinaryExpr)
	if !ok || add.Op != token.ADD {
		return false
	}
	if id, ok := add.X.(*ast.Ident); !ok || m.Pkg.TypesInfo.ObjectOf(id) != param {
		return false
	}
	one, ok := m.constByte(add.Y)
	return ok && one == 1
}

func (m *Machine) constByte(e ast.Expr) (byte, bool) {
	tv, ok := m.Pkg.TypesInfo.Types[e]
	if !ok || tv.Value == nil {
		return 0, false
	}
	if tv.Value.Kind() != constant.Int {
		return 0, false
	}
	v, ok := constant.Int64Val(tv.Value)
	if !ok || v < 0 || v > 255 {
		return 0, false
	}
	return byte(v), true
}

func (m *Machine) findInitial() error {
	// the constructor: a function returning *Scanner whose composite literal sets the step field
	m.Initial = -1
	for _, f := range m.Pkg.Syntax {
		ast.Inspect(f, func(n ast.Node) bool {
			cl, ok := n.(*ast.CompositeLit)
			if !ok {
				return true
			}
			tv, ok := m.Pkg.TypesInfo.Types[cl]
			if !ok || !types.Identical(tv.Type, m.scannerT) {
				return true
			}
			for _, el := range cl.Elts {
				kv, ok := el.(*ast.KeyValueExpr)
				if !ok {
					continue
				}
				if id, ok := kv.Key.(*ast.Ident); ok && m.Pkg.TypesInfo.ObjectOf(id) == m.stepField {
					if vid, ok := kv.Value.(*ast.Ident); ok {
						if fo, ok := m.Pkg.TypesInfo.ObjectOf(vid).(*types.Func); ok {
							if id, ok := m.ByObj[fo]; ok && !m.Prog.IsTestFile(f) {
								m.Initial = id
							}
						}
					}
				}
			}
			return true
		})
	}
	if m.Initial < 0 {
		return fmt.Errorf("unresolved anchor: initial step in the Scanner constructor")
	}
	return nil
}

// ---------------------------------------------------------------- event tables

func (m *Machine) readEventTables() error {
	// the event type: second parameter of foundAt
	sig := m.foundAt.Type().(*types.Signature)
	evT, ok := sig.Params().At(1).Type().(*types.Named)
	if !ok {
		return fmt.Errorf("unresolved anchor: lexeme event type")
	}
	for _, name := range m.Pkg.Types.Scope().Names() {
		c, ok := m.Pkg.Types.Scope().Lookup(name).(*types.Const)
		if ok && types.Identical(c.Type(), evT) {
			m.EventConsts = append(m.EventConsts, c.Name())
		}
	}
	if len(m.EventConsts) == 0 {
		return fmt.Errorf("unresolved anchor: lexeme event constants")
	}
	// predicates: methods of the event type returning bool whose body is switch e { case A,B: return true default: return false }
	type predT struct {
		name string
		set  map[string]bool
	}
	var preds []predT
	for i := 0; i < evT.NumMethods(); i++ {
		mt := evT.Method(i)
		fd := m.Prog.Decl(mt)
		if fd == nil {
			continue
		}
		msig := mt.Type().(*types.Signature)
		if msig.Params().Len() != 0 || msig.Results().Len() != 1 {
			continue
		}
		res := msig.Results().At(0).Type()
		if b, ok := res.Underlying().(*types.Basic); ok && b.Kind() == types.Bool {
			if set, ok := m.switchTrueSet(fd); ok {
				preds = append(preds, predT{mt.Name(), set})
			}
			continue
		}
		// ToLexemeType: switch e { case A,B: return K ... default: panic }
		if _, ok := res.(*types.Named); ok && len(fd.Body.List) == 1 {
			if sw, ok := fd.Body.List[0].(*ast.SwitchStmt); ok {
				for _, c := range sw.Body.List {
					cc := c.(*ast.CaseClause)
					if len(cc.Body) != 1 {
						continue
					}
					ret, ok := cc.Body[0].(*ast.ReturnStmt)
					if !ok || len(ret.Results) != 1 {
						continue
					}
					rid, ok := ret.Results[0].(*ast.Ident)
					if !ok {
						continue
					}
					for _, e := range cc.List {
						if id, ok := e.(*ast.Ident); ok {
							m.LexKind[id.Name] = rid.Name
						}
					}
				}
			}
		}
	}
	// classify: the scanner's processLexemeEvent uses IsBeginning / IsEnding / IsSingle in that role;
	// we take the roles from how Next's helper uses them: the predicate guarding stack.Push is "begin",
	// the one guarding stack.Pop is "end", the remaining one "single".
	var procDecl *ast.FuncDecl
	for i := 0; i < m.scannerT.NumMethods(); i++ {
		fd := m.Prog.Decl(m.scannerT.Method(i))
		if fd == nil {
			continue
		}
		nPred := 0
		ast.Inspect(fd.Body, func(n ast.Node) bool {
			if call, ok := n.(*ast.CallExpr); ok {
				if f := m.callee(call); f != nil {
					for _, p := range preds {
						if f.Name() == p.name && recvNamed(f) == evT {
							nPred++
						}
					}
				}
			}
			return true
		})
		if nPred >= 2 {
			procDecl = fd
			m.eventProc = m.scannerT.Method(i)
		}
	}
	if procDecl == nil {
		return fmt.Errorf("unresolved anchor: the Scanner method that dispatches on begin/end/single event predicates")
	}
	// roles by dataflow: the predicate that is known true where the event stack is pushed is
	// "begin", the one known true where it is popped is "end", the remaining one "single"
	// (whether the dispatch is a tagless switch, an if chain or guard clauses)
	role := map[string]string{}
	cf := cfgx.New(procDecl.Body, m.Pkg.TypesInfo)
	predOf := func(fa cfgx.Fact) string {
		call, ok := ast.Unparen(fa.Expr).(*ast.CallExpr)
		if !ok || !fa.Truth {
			return ""
		}
		f := m.callee(call)
		if f == nil || recvNamed(f) != evT {
			return ""
		}
		for _, p := range preds {
			if p.name == f.Name() {
				return p.name
			}
		}
		return ""
	}
	ast.Inspect(procDecl.Body, func(n ast.Node) bool {
		c2, ok := n.(*ast.CallExpr)
		if !ok {
			return true
		}
		g := m.callee(c2)
		if g == nil {
			return true
		}
		gs := g.Type().(*types.Signature)
		kind := ""
		// the event stack: a method taking one event and returning nothing pushes,
		// one taking nothing and returning an event pops
		if gs.Recv() != nil && gs.Params().Len() == 1 && gs.Results().Len() == 0 && recvNamed(g) != m.scannerT && recvNamed(g) != evT {
			if types.Identical(gs.Params().At(0).Type(), m.eventStructType()) || true {
				kind = "begin"
			}
		}
		if gs.Recv() != nil && gs.Params().Len() == 0 && gs.Results().Len() == 1 && recvNamed(g) != m.scannerT && recvNamed(g) != evT {
			kind = "end"
		}
		if kind == "" {
			return true
		}
		for _, fa := range cf.FactsAt(c2) {
			if pn := predOf(fa); pn != "" {
				role[pn] = kind
				if kind == "begin" {
					m.eventStackT = recvNamed(g)
				}
			}
		}
		return true
	})
	for _, p := range preds {
		if role[p.name] == "" {
			role[p.name] = "single"
		}
	}
	for _, p := range preds {
		switch role[p.name] {
		case "begin":
			for k := range p.set {
				m.Begin[k] = true
			}
		case "end":
			for k := range p.set {
				m.End[k] = true
			}
		case "single":
			for k := range p.set {
				m.Single[k] = true
			}
		}
	}
	if len(m.Begin) == 0 || len(m.End) == 0 {
		return fmt.Errorf("unresolved anchor: begin/end event predicates (roles %v)", role)
	}
	for e := range m.End {
		for b := range m.Begin {
			if m.LexKind[e] != "" && m.LexKind[e] == m.LexKind[b] {
				m.PairOf[e] = b
			}
		}
	}
	return nil
}

// eventStructType is a placeholder for the element type of the event stack (not needed to
// tell push from pop: the shapes of the two methods differ).
func (m *Machine) eventStructType() types.Type { return types.Typ[types.Invalid] }

func recvNamed(f *types.Func) *types.Named {
	sig := f.Type().(*types.Signature)
	if sig.Recv() == nil {
		return nil
	}
	t := sig.Recv().Type()
	if p, ok := t.(*types.Pointer); ok {
		t = p.Elem()
	}
	n, _ := t.(*types.Named)
	return n
}

func (m *Machine) switchTrueSet(fd *ast.FuncDecl) (map[string]bool, bool) {
	if len(fd.Body.List) != 1 {
		return nil, false
	}
	sw, ok := fd.Body.List[0].(*ast.SwitchStmt)
	if !ok {
		return nil, false
	}
	set := map[string]bool{}
	for _, c := range sw.Body.List {
		cc := c.(*ast.CaseClause)
		if len(cc.Body) != 1 {
			return nil, false
		}
		ret, ok := cc.Body[0].(*ast.ReturnStmt)
		if !ok || len(ret.Results) != 1 {
			return nil, false
		}
		id, ok := ret.Results[0].(*ast.Ident)
		if !ok {
			return nil, false
		}
		if id.Name == "true" {
			for _, e := range cc.List {
				eid, ok := e.(*ast.Ident)
				if !ok {
					return nil, false
				}
				set[eid.Name] = true
			}
		}
	}
	return set, true
}

// IsLibLenFunc reports whether f was classified as a pure library-length helper
// (a Scanner method returning (length, error) that the step functions call).
func (m *Machine) IsLibLenFunc(f *types.Func) bool { return m.libLen[f] }

// IsStepStackType / IsEventStackType / IsEventProcessor expose the roles the
// extractor resolved, for rules that discharge explicit panics against the automaton.
func (m *Machine) IsStepStackType(n *types.Named) bool {
	st, _ := m.stackField.Type().(*types.Named)
	return st != nil && n == st
}
func (m *Machine) IsEventStackType(n *types.Named) bool {
	return m.eventStackT != nil && n == m.eventStackT
}
func (m *Machine) IsEventProcessor(f *types.Func) bool { return f != nil && f == m.eventProc }

// StepField / DataField: the fields of the scanner that hold the current step function
// and the input bytes (anchors for rules outside this package).
func (m *Machine) StepField() *types.Var { return m.stepField }
func (m *Machine) DataField() *types.Var { return m.dataField }
