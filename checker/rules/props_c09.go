package rules

func init() {
	reg("C09", &PropSpec{
		Rules:       []Rule{r("J1", RuleJ1), r("ID1", RuleID1), r("ID2", RuleID2), r("X1", RuleX1), r("TG", RuleTG), r("M1", RuleM1), r("D4", RuleD4), r("RV1", RuleRV1), r("TI1", RuleTI1), r("UP1", RuleUP1), r("MB1", RuleMB1)},
		Explanation: "Decided: the text form of each structured map key is injective (J1: one Sprintf with at most one free-form operand; today JsonRpcInteractionId has two - known finding F12); every interaction is stored under the id it was built from and copies id/protocol/method/path from it (ID1); serialisation switches list every declared notation/method so serialising an accepted catalog has no failure arm a declared constant reaches (X1); tags and interactions are registered together, tag names come from members of the Tags collection, no interaction is left without a tag (TG); every model field is serialised (M1); ordered collections serialise in insertion order with one entry per key (D4); the validation stage checks every response, not a chosen one (RV1); Title() returns Info.Title itself (TI1). Not decided: UTF-8 validity of names, equality of indented and compact forms (encoding/json), existence of every used type beyond the library's own rejection. MarshalText of every interaction id is []byte(String()) of its receiver (ID2).",
		Trusted:     trustedCommon,
	})
	reg("C19", &PropSpec{
		Rules:       []Rule{r("TG", RuleTG), r("H1", RuleH1), r("TP1", RuleTP1), r("R3", RuleR3), r("R4", RuleR4), r("TN1", RuleTN1)},
		Explanation: "Decided: sibling agreement of the two interaction creators with the tag resolver (same id, every name appended, no exit between registering and storing), tag names only from members of the Tags collection, at least one tag per interaction (TG1-3); declared tags are unique and the automatic path tag is reused, never duplicated (H1); the tag chooser consults its three sources in the stated precedence: own Tags child, else the enclosing URL's Tags, else the path tag (TP1, order of the source tests in the CFG). Not decided: injectivity of the automatic tag name over all strings, titles. A hoisted method keeps no Parent (R4, R3); the automatic tag name is injective on all first segments - byte-wise homomorphism whose images are a uniquely decodable code (TN1).",
		Trusted:     trustedCommon,
	})
	reg("C04", &PropSpec{
		Rules:       []Rule{r("K1", RuleK1), r("M1", RuleM1), r("D4", RuleD4), r("K2", RuleK2), r("ID1", RuleID1), r("ID2", RuleID2), r("X1", RuleX1), r("R3", RuleR3), r("R4", RuleR4), r("H3", RuleH3), r("K2p", RuleK2p), r("TW1", RuleTW1), r("TP1", RuleTP1), r("NI", RuleNI("uniqURLPath", "similarPaths", "onlyOneProtocolIntoURL"))},
		Explanation: "Whole-document equality with a model is not statically decidable. Decided necessary conditions: every directive kind has a consumer (K1: a kind without one is silently dropped); every field of the catalog model is serialised (M1); collections keep and serialise source order (D4); every directive of the table can be spelled to the scanner and nothing else can (K2); interactions are stored under the id they were built from (ID1); total serialisation switches (X1). Not decided: which interaction a child attaches to (C06), that values are copied unchanged, 'nothing else'. Also decided: key text == id text (ID2), no stale pre-walk value in the resolver (R3), a directive sits in exactly one place of the tree (R4), once-only slots are tested on themselves (H3), every descent into Children is unconditional up to kind tests (TW1), the description look-ahead agrees with the keyword set (K2p).",
		Trusted:     trustedCommon,
	})
}
