package rules

import (
	"fmt"
	"go/ast"
	"go/constant"
	"go/token"
	"go/types"
	"reflect"
	"sort"
	"strconv"
	"strings"

	"verif/checker/cfgx"
)

// ---------------------------------------------------------------- J1 injective key text

// RuleJ1: distinct map keys never render to the same JSON key.
func RuleJ1(c *Ctx) {
	sc := c.Run.Begin("J1", "the text form of every structured key of a serialised collection is injective: its String() is one Sprintf whose operands are at most one free-form string plus members of literal sets that do not contain the separator; implementations of one key interface start with distinct literal prefixes", 1)
	defer sc.End()
	pk := c.P.Pkg("catalog")
	if pk == nil {
		sc.Undecided("anchors", "-", "unresolved anchor: package catalog")
		return
	}
	info := pk.TypesInfo
	type keyT struct {
		named  *types.Named
		prefix string
	}
	var keys []keyT
	for _, name := range pk.Types.Scope().Names() {
		tn, ok := pk.Types.Scope().Lookup(name).(*types.TypeName)
		if !ok {
			continue
		}
		named, ok := tn.Type().(*types.Named)
		if !ok {
			continue
		}
		if _, isStruct := named.Underlying().(*types.Struct); !isStruct {
			continue
		}
		var mt, str *types.Func
		for i := 0; i < named.NumMethods(); i++ {
			switch named.Method(i).Name() {
			case "MarshalText":
				mt = named.Method(i)
			case "String":
				str = named.Method(i)
			}
		}
		if mt == nil || str == nil {
			continue
		}
		fd := c.P.Decl(str)
		key := named.Obj().Name()
		pos := c.P.Pos(fd.Pos())
		// MarshalText must be []byte(x.String())
		mfd := c.P.Decl(mt)
		usesString := false
		ast.Inspect(mfd.Body, func(n ast.Node) bool {
			if call, ok := n.(*ast.CallExpr); ok && Callee(info, call) == str {
				usesString = true
			}
			return true
		})
		if !usesString {
			sc.Undecided(key, pos, "MarshalText does not use String()")
			continue
		}
		// the key text: `return fmt.Sprintf(format, operands...)` or a concatenation of literals
		// and operands; locals that are assigned once stand for their definitions
		var ret *ast.ReturnStmt
		straight := true
		for i, st := range fd.Body.List {
			if r, isRet := st.(*ast.ReturnStmt); isRet && i == len(fd.Body.List)-1 {
				ret = r
				continue
			}
			if as, isAs := st.(*ast.AssignStmt); isAs && as.Tok == token.DEFINE {
				continue
			}
			straight = false
		}
		if ret == nil || !straight || len(ret.Results) != 1 {
			sc.Undecided(key, pos, "String() is not local definitions followed by a single return")
			continue
		}
		scf := c.CFG(pk, fd.Body)
		var format string
		var operands []ast.Expr
		if call, ok := ast.Unparen(ret.Results[0]).(*ast.CallExpr); ok && isPkgFunc(info, call, "fmt", "Sprintf") && len(call.Args) >= 1 {
			ftv, ok := info.Types[call.Args[0]]
			if !ok || ftv.Value == nil {
				sc.Undecided(key, pos, "format is not a constant")
				continue
			}
			format, _ = strconv.Unquote(ftv.Value.ExactString())
			for _, a := range call.Args[1:] {
				operands = append(operands, scf.Resolve(a))
			}
		} else {
			okConcat := true
			var flat func(e ast.Expr)
			flat = func(e ast.Expr) {
				e = ast.Unparen(e)
				if tv, ok := info.Types[e]; ok && tv.Value != nil && tv.Value.Kind() == constant.String {
					format += strings.ReplaceAll(constant.StringVal(tv.Value), "%", "%%")
					return
				}
				if be, ok := e.(*ast.BinaryExpr); ok && be.Op == token.ADD {
					flat(be.X)
					flat(be.Y)
					return
				}
				if r := scf.Resolve(e); r != e {
					flat(r)
					return
				}
				if t := info.TypeOf(e); t != nil {
					if bt, ok := t.Underlying().(*types.Basic); ok && bt.Info()&types.IsString != 0 {
						format += "%s"
						operands = append(operands, e)
						return
					}
				}
				okConcat = false
			}
			flat(ret.Results[0])
			if !okConcat || len(operands) == 0 {
				sc.Undecided(key, pos, "String() is neither fmt.Sprintf(format, ...) nor a concatenation of strings")
				continue
			}
		}
		pieces := strings.Split(format, "%s")
		if len(pieces) != len(operands)+1 {
			sc.Undecided(key, pos, "format uses verbs other than %s")
			continue
		}
		call := &ast.CallExpr{Args: append([]ast.Expr{nil}, operands...)}
		free := 0
		var descr []string
		bad := ""
		for i, a := range call.Args[1:] {
			set, isFinite := c.literalSetOf(pk, a)
			sepBefore, sepAfter := pieces[i], pieces[i+1]
			if isFinite {
				for _, lit := range set {
					for _, sep := range []string{sepBefore, sepAfter} {
						if sep != "" && strings.Contains(lit, strings.TrimSpace(sep)) && strings.TrimSpace(sep) != "" {
							bad = fmt.Sprintf("literal %q of operand %d contains the separator", lit, i+1)
						}
						if strings.ContainsAny(lit, " ") && strings.Contains(sep, " ") {
							bad = fmt.Sprintf("literal %q of operand %d contains the separator", lit, i+1)
						}
					}
				}
				descr = append(descr, fmt.Sprintf("%s∈{%s}", types.ExprString(a), strings.Join(set, ",")))
			} else {
				free++
				descr = append(descr, types.ExprString(a)+"=free-form")
			}
			if i > 0 && sepBefore == "" {
				bad = "two operands are adjacent without a separator"
			}
		}
		keys = append(keys, keyT{named, pieces[0]})
		detail := fmt.Sprintf("format %q: %s", format, strings.Join(descr, "; "))
		switch {
		case bad != "":
			sc.Violation(key, pos, bad+" — "+detail)
		case free > 1:
			sc.Violation(key, pos, fmt.Sprintf("%d free-form operands in one key text (%s): two different keys can render to the same JSON object key, which is then written twice", free, detail))
		default:
			sc.Holds(key, pos, detail)
		}
	}
	// prefixes of the implementations are pairwise non-prefixes
	for i := range keys {
		for j := range keys {
			if i < j && (strings.HasPrefix(keys[i].prefix, keys[j].prefix) || strings.HasPrefix(keys[j].prefix, keys[i].prefix)) {
				sc.Violation("prefix:"+keys[i].named.Obj().Name()+"/"+keys[j].named.Obj().Name(), "-", fmt.Sprintf("key texts of different key types start with %q and %q: keys of different kinds can collide", keys[i].prefix, keys[j].prefix))
			}
		}
	}
	if len(keys) >= 2 {
		sc.Holds("prefixes", "-", "key kinds are told apart by distinct literal prefixes")
	}
}

// literalSetOf: the expression is X.String() (or a field whose type has such a
// String) where every return of String hands out a string constant or an element of a
// package-level table of string constants that nothing in the repository writes.
func (c *Ctx) literalSetOf(pk *pkgT, e ast.Expr) ([]string, bool) {
	info := pk.TypesInfo
	call, ok := ast.Unparen(e).(*ast.CallExpr)
	if !ok {
		return nil, false
	}
	f := Callee(info, call)
	if f == nil || f.Name() != "String" {
		return nil, false
	}
	fd := c.P.Decl(f)
	if fd == nil {
		return nil, false
	}
	fpk := c.P.PkgOfDecl(fd)
	finfo := fpk.TypesInfo
	var set []string
	good := true
	inspectNoLit(fd.Body, func(x ast.Node) bool {
		ret, isRet := x.(*ast.ReturnStmt)
		if !isRet {
			return true
		}
		if len(ret.Results) != 1 {
			good = false
			return true
		}
		r := ast.Unparen(ret.Results[0])
		if tv, ok := finfo.Types[r]; ok && tv.Value != nil {
			v, _ := strconv.Unquote(tv.Value.ExactString())
			set = append(set, v)
			return true
		}
		if ix, ok := r.(*ast.IndexExpr); ok {
			if id, ok := ast.Unparen(ix.X).(*ast.Ident); ok {
				if tab, ok := finfo.ObjectOf(id).(*types.Var); ok {
					if vals, ok := c.constStringTable(tab); ok {
						set = append(set, vals...)
						return true
					}
				}
			}
		}
		good = false
		return true
	})
	if !good {
		return nil, false
	}
	sort.Strings(set)
	return set, len(set) > 0
}

// constStringTable: tab is a package-level variable initialised with a composite literal
// (array, slice or map) whose element values are all string constants, and no function of
// the repository assigns it, assigns one of its elements or takes its address. Returns the
// element values (the zero value "" included for an array with gaps).
func (c *Ctx) constStringTable(tab *types.Var) ([]string, bool) {
	if tab.Pkg() == nil || tab.Parent() != tab.Pkg().Scope() {
		return nil, false
	}
	var lit *ast.CompositeLit
	var tpk *pkgT
	for _, pk := range c.P.Repo {
		if pk.Types != tab.Pkg() {
			continue
		}
		tpk = pk
		for _, f := range pk.Syntax {
			for _, d := range f.Decls {
				gd, ok := d.(*ast.GenDecl)
				if !ok {
					continue
				}
				for _, sp := range gd.Specs {
					vs, ok := sp.(*ast.ValueSpec)
					if !ok {
						continue
					}
					for i, nm := range vs.Names {
						if pk.TypesInfo.Defs[nm] == types.Object(tab) && i < len(vs.Values) {
							lit, _ = ast.Unparen(vs.Values[i]).(*ast.CompositeLit)
						}
					}
				}
			}
		}
	}
	if lit == nil {
		return nil, false
	}
	var vals []string
	for _, el := range lit.Elts {
		v := el
		if kv, ok := el.(*ast.KeyValueExpr); ok {
			v = kv.Value
		}
		tv, ok := tpk.TypesInfo.Types[v]
		if !ok || tv.Value == nil || tv.Value.Kind() != constant.String {
			return nil, false
		}
		vals = append(vals, constant.StringVal(tv.Value))
	}
	if arr, ok := tab.Type().Underlying().(*types.Array); ok && int(arr.Len()) > len(lit.Elts) {
		vals = append(vals, "")
	}
	written := false
	c.P.Funcs(func(pk *pkgT, fd *ast.FuncDecl) {
		info := pk.TypesInfo
		isTab := func(e ast.Expr) bool {
			for {
				switch x := ast.Unparen(e).(type) {
				case *ast.IndexExpr:
					e = x.X
					continue
				case *ast.SliceExpr:
					e = x.X
					continue
				case *ast.Ident:
					return info.ObjectOf(x) == types.Object(tab)
				case *ast.SelectorExpr:
					return info.ObjectOf(x.Sel) == types.Object(tab)
				}
				return false
			}
		}
		ast.Inspect(fd.Body, func(x ast.Node) bool {
			switch y := x.(type) {
			case *ast.AssignStmt:
				for _, l := range y.Lhs {
					if isTab(l) {
						written = true
					}
				}
			case *ast.IncDecStmt:
				if isTab(y.X) {
					written = true
				}
			case *ast.UnaryExpr:
				if y.Op == token.AND && isTab(y.X) {
					written = true
				}
			case *ast.CallExpr:
				// handed to a function as a slice or map: the callee could write through it
				for _, a := range y.Args {
					if isTab(a) {
						if _, isIdx := ast.Unparen(a).(*ast.IndexExpr); !isIdx {
							if _, isArr := tab.Type().Underlying().(*types.Array); !isArr {
								written = true
							}
						}
					}
				}
			}
			return true
		})
	})
	if written {
		return nil, false
	}
	return vals, true
}

// ---------------------------------------------------------------- ID1 key == id

// RuleID1: an interaction is stored under the id it was built from.
func RuleID1(c *Ctx) {
	sc := c.Run.Begin("ID1", "every interaction is stored under the very id its constructor received, and the constructor copies id, protocol, method and path from that id", 1)
	defer sc.End()
	pk := c.P.Pkg("catalog")
	fld := c.Field("catalog", "Catalog", "Interactions")
	if pk == nil || fld == nil {
		sc.Undecided("anchors", "-", "unresolved anchor: catalog.Catalog.Interactions")
		return
	}
	info := pk.TypesInfo
	n := 0
	c.eachCall(func(cs callSite) {
		if cs.Pk != pk {
			return
		}
		f := Callee(info, cs.Call)
		if f == nil || f.Name() != "Set" || !fieldSel(info, Recv(cs.Call), fld) {
			return
		}
		n++
		key := fmt.Sprintf("%s#%d", c.P.DeclName(cs.Decl), n)
		cf := c.CFG(cs.Pk, cs.Body)
		k, v := cs.Call.Args[0], cs.Call.Args[1]
		// key and value handed in by the caller: the obligation is the callers'
		if ki, vi := paramExprIndex(info, cs.Decl, cf.Resolve(k)), paramExprIndex(info, cs.Decl, cf.Resolve(v)); cs.Lit == nil && ki >= 0 && vi >= 0 {
			if self, _ := info.Defs[cs.Decl.Name].(*types.Func); self != nil {
				sites := c.callSitesOf(self)
				bad := ""
				for _, up := range sites {
					if up.Pk != pk || ki >= len(up.Call.Args) || vi >= len(up.Call.Args) {
						bad = c.P.Pos(up.Call.Pos())
						break
					}
					ucf := c.CFG(up.Pk, up.Body)
					uk, uv := up.Call.Args[ki], up.Call.Args[vi]
					uctor, ok := ast.Unparen(ucf.Resolve(uv)).(*ast.CallExpr)
					if !ok || len(uctor.Args) == 0 || !ucf.SameResolved(uctor.Args[0], uk) || !id1CtorCopies(c, info, uctor) {
						bad = c.P.Pos(up.Call.Pos())
						break
					}
				}
				switch {
				case len(sites) == 0:
					sc.Holds(key, c.P.Pos(cs.Call.Pos()), "helper without callers")
				case bad == "":
					sc.Holds(key, c.P.Pos(cs.Call.Pos()), fmt.Sprintf("key and interaction are parameters; at all %d call sites the interaction is built from the id passed as the key", len(sites)))
				default:
					sc.Violation(key, c.P.Pos(cs.Call.Pos()), "key and interaction are parameters, and the call at "+bad+" passes an interaction that was not built from the id it passes as the key: its id/path/method fields can disagree with its key")
				}
				return
			}
		}
		ctor, ok := ast.Unparen(cf.Resolve(v)).(*ast.CallExpr)
		if !ok || len(ctor.Args) == 0 || !cfgx.SameExpr(info, ctor.Args[0], k) {
			sc.Violation(key, c.P.Pos(cs.Call.Pos()), "the interaction stored under "+types.ExprString(k)+" was not built from that id: its id/path/method fields can disagree with its key")
			return
		}
		// the constructor: Id: id.String(), Protocol: const, path/method from id fields
		cfn := Callee(info, ctor)
		cfd := c.P.Decl(cfn)
		if cfd == nil {
			sc.Undecided(key, c.P.Pos(cs.Call.Pos()), "constructor not found")
			return
		}
		idParam := info.ObjectOf(cfd.Type.Params.List[0].Names[0])
		fromID := map[string]bool{}
		ast.Inspect(cfd.Body, func(x ast.Node) bool {
			kv, ok := x.(*ast.KeyValueExpr)
			if !ok {
				return true
			}
			kid, ok := kv.Key.(*ast.Ident)
			if !ok {
				return true
			}
			val := ast.Unparen(kv.Value)
			if call, ok := val.(*ast.CallExpr); ok {
				if r := Recv(call); r != nil {
					val = r
				}
			}
			if cfgx.RootObj(info, val) == idParam {
				fromID[kid.Name] = true
			}
			return true
		})
		need := []string{"Id", "PathVal"}
		var missing []string
		for _, nm := range need {
			if !fromID[nm] {
				missing = append(missing, nm)
			}
		}
		if len(missing) == 0 {
			var got []string
			for k := range fromID {
				got = append(got, k)
			}
			sort.Strings(got)
			sc.Holds(key, c.P.Pos(cs.Call.Pos()), "key = the id the constructor copies "+strings.Join(got, ",")+" from")
		} else {
			sc.Violation(key, c.P.Pos(cs.Call.Pos()), "constructor "+cfn.Name()+" does not take "+strings.Join(missing, ",")+" from its id: the entry disagrees with its key")
		}
	})
}

// paramExprIndex: the index of the parameter of fd that e names, or -1.
func paramExprIndex(info *types.Info, fd *ast.FuncDecl, e ast.Expr) int {
	id, ok := ast.Unparen(e).(*ast.Ident)
	if !ok || fd == nil || fd.Type.Params == nil {
		return -1
	}
	obj := info.ObjectOf(id)
	i := 0
	for _, fl := range fd.Type.Params.List {
		for _, nm := range fl.Names {
			if info.ObjectOf(nm) == obj {
				return i
			}
			i++
		}
	}
	return -1
}

// id1CtorCopies: the constructor called by ctor takes Id and PathVal from its first parameter.
func id1CtorCopies(c *Ctx, info *types.Info, ctor *ast.CallExpr) bool {
	cfd := c.P.Decl(Callee(info, ctor))
	if cfd == nil || cfd.Type.Params == nil || len(cfd.Type.Params.List) == 0 || len(cfd.Type.Params.List[0].Names) == 0 {
		return false
	}
	idParam := info.ObjectOf(cfd.Type.Params.List[0].Names[0])
	fromID := map[string]bool{}
	ast.Inspect(cfd.Body, func(x ast.Node) bool {
		kv, ok := x.(*ast.KeyValueExpr)
		if !ok {
			return true
		}
		kid, ok := kv.Key.(*ast.Ident)
		if !ok {
			return true
		}
		val := ast.Unparen(kv.Value)
		if call, ok := val.(*ast.CallExpr); ok {
			if r := Recv(call); r != nil {
				val = r
			}
		}
		if cfgx.RootObj(info, val) == idParam {
			fromID[kid.Name] = true
		}
		return true
	})
	return fromID["Id"] && fromID["PathVal"]
}

// ---------------------------------------------------------------- M1 serialisation covers the model

// m1InternalField: fields that are not part of the exchange format, by type - a collection
// of source directives (consumed while building the model) or a key->position index.
func m1InternalField(f *types.Var) string {
	t := f.Type()
	if p, ok := t.(*types.Pointer); ok {
		t = p.Elem()
	}
	if n, ok := t.(*types.Named); ok && n.Obj().Pkg() != nil && strings.HasSuffix(n.Obj().Pkg().Path(), "/directive") && !f.Exported() {
		return "internal: source directives, consumed while the model is built"
	}
	if mp, ok := t.Underlying().(*types.Map); ok && !f.Exported() {
		if b, ok := mp.Elem().Underlying().(*types.Basic); ok && b.Info()&types.IsInteger != 0 {
			return "derived: key -> position index over the data slice"
		}
	}
	return ""
}

// RuleM1: hand-written MarshalJSON methods serialise every field.
func RuleM1(c *Ctx) {
	sc := c.Run.Begin("M1", "every field of a catalog type with a hand-written MarshalJSON is read somewhere in that method's call tree (same-type helpers included), and every exported field of a tag-serialised struct carries a json tag; a field that is declared but never written out is silently lost", 1)
	defer sc.End()
	pk := c.P.Pkg("catalog")
	if pk == nil {
		sc.Undecided("anchors", "-", "unresolved anchor: package catalog")
		return
	}
	info := pk.TypesInfo
	colls := map[*types.Named]bool{}
	for _, oc := range c.orderedCollections() {
		colls[oc.named] = true
	}
	for _, name := range pk.Types.Scope().Names() {
		tn, ok := pk.Types.Scope().Lookup(name).(*types.TypeName)
		if !ok {
			continue
		}
		named, ok := tn.Type().(*types.Named)
		if !ok || colls[named] {
			continue
		}
		st, ok := named.Underlying().(*types.Struct)
		if !ok {
			continue
		}
		var mj *types.Func
		for i := 0; i < named.NumMethods(); i++ {
			if named.Method(i).Name() == "MarshalJSON" {
				mj = named.Method(i)
			}
		}
		if mj == nil {
			// tag-driven serialisation: exported fields need a tag (possibly "-")
			tagged := false
			for i := 0; i < st.NumFields(); i++ {
				if _, ok := reflect.StructTag(st.Tag(i)).Lookup("json"); ok {
					tagged = true
				}
			}
			if !tagged {
				continue // not a serialised type
			}
			for i := 0; i < st.NumFields(); i++ {
				f := st.Field(i)
				key := named.Obj().Name() + "." + f.Name()
				if !f.Exported() {
					continue
				}
				if _, ok := reflect.StructTag(st.Tag(i)).Lookup("json"); ok {
					sc.Holds(key, c.P.Pos(f.Pos()), "json tag "+reflect.StructTag(st.Tag(i)).Get("json"))
				} else {
					sc.Violation(key, c.P.Pos(f.Pos()), "exported field of a tag-serialised struct has no json tag: it is written under its Go name, outside the exchange format")
				}
			}
			continue
		}
		// fields read in MarshalJSON and the same-type methods it calls
		read := map[*types.Var]bool{}
		seen := map[*types.Func]bool{}
		var visit func(f *types.Func)
		visit = func(f *types.Func) {
			if seen[f] {
				return
			}
			seen[f] = true
			fd := c.P.Decl(f)
			if fd == nil {
				return
			}
			ast.Inspect(fd.Body, func(n ast.Node) bool {
				switch x := n.(type) {
				case *ast.SelectorExpr:
					if v, ok := info.ObjectOf(x.Sel).(*types.Var); ok && v.IsField() {
						read[v] = true
					}
				case *ast.CallExpr:
					if g := Callee(info, x); g != nil && recvNamedOf(g) == named {
						visit(g)
					}
				}
				return true
			})
		}
		visit(mj)
		for i := 0; i < st.NumFields(); i++ {
			f := st.Field(i)
			key := named.Obj().Name() + "." + f.Name()
			if n, ok := f.Type().(*types.Named); ok && n.Obj().Pkg() != nil && n.Obj().Pkg().Path() == "sync" {
				continue
			}
			switch {
			case read[f]:
				sc.Holds(key, c.P.Pos(f.Pos()), "read by MarshalJSON")
			case m1InternalField(f) != "":
				sc.Exception(key, c.P.Pos(f.Pos()), m1InternalField(f))
			default:
				sc.Violation(key, c.P.Pos(f.Pos()), "the field is never read while serialising "+named.Obj().Name()+": what the document declares there does not reach the JSON")
			}
		}
	}
}

// ---------------------------------------------------------------- TG1..TG3 tags

// RuleTG: tags and interactions reference each other, tags resolve, at least one tag.
func RuleTG(c *Ctx) {
	sc := c.Run.Begin("TG", "every function that creates an interaction and stores it obtains its tag names from the tag resolver with the same id, appends every returned name, and has no error exit between resolving and storing (TG1); the resolver registers the interaction in each tag it returns (mutual reference); tag names come only from tags fetched from the Tags collection or created and stored by the path-tag helper (TG2); the tag list is never empty (TG3)", 1)
	defer sc.End()
	pk := c.P.Pkg("catalog")
	inter := c.Field("catalog", "Catalog", "Interactions")
	tagsF := c.Field("catalog", "Catalog", "Tags")
	if pk == nil || inter == nil || tagsF == nil {
		sc.Undecided("anchors", "-", "unresolved anchor: catalog.Catalog.Interactions/Tags")
		return
	}
	info := pk.TypesInfo
	// the resolver, by role: the Catalog method that takes the interaction's id and, in one
	// loop over the chosen tags, calls a method of *Tag (registers the id in the tag)
	tagNameT := c.Named("catalog", "TagName")
	_ = tagNameT
	tagNamed := c.Named("catalog", "Tag")
	idIface := c.Named("catalog", "InteractionID")
	var resolver *types.Func
	cat := c.Named("catalog", "Catalog")
	nRes := 0
	for i := 0; i < cat.NumMethods(); i++ {
		m := cat.Method(i)
		md := c.P.Decl(m)
		if md == nil {
			continue
		}
		sig := m.Type().(*types.Signature)
		takesID := false
		for j := 0; j < sig.Params().Len(); j++ {
			if idIface != nil && types.Identical(sig.Params().At(j).Type(), idIface) {
				takesID = true
			}
		}
		if !takesID {
			continue
		}
		regs := false
		ast.Inspect(md.Body, func(x ast.Node) bool {
			body := loopBody(x)
			if body == nil {
				return true
			}
			ast.Inspect(body, func(y ast.Node) bool {
				if call, ok := y.(*ast.CallExpr); ok {
					if g := Callee(info, call); g != nil && recvNamedOf(g) == tagNamed && tagNamed != nil {
						regs = true
					}
				}
				return true
			})
			return true
		})
		if regs {
			resolver = m
			nRes++
		}
	}
	if resolver == nil || nRes != 1 {
		sc.Undecided("resolver", "-", "unresolved anchor: the Catalog method that registers an interaction id in its tags")
		return
	}
	// shape of the resolver: does it append the names to an interaction it is given?
	rfd0 := c.P.Decl(resolver)
	appendParam := -1 // index of the resolver's parameter whose tag-name appender is called in the loop
	ast.Inspect(rfd0.Body, func(x ast.Node) bool {
		lb := loopBody(x)
		if lb == nil {
			return true
		}
		ast.Inspect(lb, func(y ast.Node) bool {
			call, ok := y.(*ast.CallExpr)
			if !ok {
				return true
			}
			g := Callee(info, call)
			if g == nil || !strings.Contains(strings.ToLower(g.Name()), "tag") || recvNamedOf(g) == tagNamed {
				return true
			}
			if rid, ok := ast.Unparen(Recv(call)).(*ast.Ident); ok {
				if idx := paramIndexOf(info, rfd0, info.ObjectOf(rid)); idx >= 0 {
					appendParam = idx
				}
			}
			return true
		})
		return true
	})
	// TG1: creators
	n := 0
	c.eachCall(func(cs callSite) {
		if cs.Pk != pk {
			return
		}
		f := Callee(info, cs.Call)
		if f == nil || f.Name() != "Set" || !fieldSel(info, Recv(cs.Call), inter) {
			return
		}
		n++
		key := fmt.Sprintf("TG1:%s", c.P.DeclName(cs.Decl))
		cf := c.CFG(cs.Pk, cs.Body)
		id := cs.Call.Args[0]
		// a call to the resolver with the same id precedes, and its names are appended in a range
		var rcall *ast.CallExpr
		cf.Before(cs.Call, func(nd ast.Node) {
			ast.Inspect(nd, func(x ast.Node) bool {
				if call, ok := x.(*ast.CallExpr); ok && Callee(info, call) == resolver {
					rcall = call
				}
				return true
			})
		})
		sameID := false
		if rcall != nil {
			for _, a := range rcall.Args {
				if cfgx.SameExpr(info, a, id) {
					sameID = true
				}
			}
		}
		if rcall == nil || !sameID {
			sc.Violation(key, c.P.Pos(cs.Call.Pos()), "the interaction is stored without its tags having been resolved with the same id: tag groups and interaction tags disagree")
			return
		}
		// every returned name is appended: a range over the result whose body calls the append helper
		appended := false
		ast.Inspect(cs.Body, func(x ast.Node) bool {
			lb := loopBody(x)
			if lb == nil || x.Pos() < rcall.End() || x.End() > cs.Call.Pos() {
				return true
			}
			// the loop runs over the resolver's result: ranged over, or indexed in a counted loop
			var over *ast.Ident
			if rs, ok := x.(*ast.RangeStmt); ok {
				over, _ = ast.Unparen(rs.X).(*ast.Ident)
			} else {
				ast.Inspect(lb, func(y ast.Node) bool {
					if ix, ok := y.(*ast.IndexExpr); ok {
						if id, ok := ast.Unparen(ix.X).(*ast.Ident); ok && tupleDefCall(cf, info, id, 0) == rcall {
							over = id
						}
					}
					return true
				})
			}
			if id := over; id != nil {
				if def := tupleDefCall(cf, info, id, 0); def == rcall {
					ast.Inspect(lb, func(y ast.Node) bool {
						if call, ok := y.(*ast.CallExpr); ok {
							if g := Callee(info, call); g != nil && strings.Contains(strings.ToLower(g.Name()), "tag") {
								appended = true
							}
						}
						return true
					})
				}
			}
			return true
		})
		// or the resolver appends them itself, to the very interaction that is stored here
		if !appended && appendParam >= 0 && appendParam < len(rcall.Args) && len(cs.Call.Args) == 2 {
			if cf.SameResolved(rcall.Args[appendParam], cs.Call.Args[1]) {
				appended = true
			}
		}
		// no return between the resolver's error check and the Set
		exits := 0
		ast.Inspect(cs.Body, func(x ast.Node) bool {
			if ret, ok := x.(*ast.ReturnStmt); ok && ret.Pos() > rcall.End() && ret.End() < cs.Call.Pos() {
				// the resolver's own error return is allowed: it directly follows in `if je != nil`
				exits++
			}
			return true
		})
		switch {
		case !appended:
			sc.Violation(key, c.P.Pos(cs.Call.Pos()), "the tag names returned by the resolver are not all appended to the interaction: tags list the interaction but the interaction does not list the tags")
		case exits > 1:
			sc.Violation(key, c.P.Pos(cs.Call.Pos()), "an error exit lies between registering the interaction in its tags and storing it: on that path tags reference an interaction that does not exist")
		default:
			sc.Holds(key, c.P.Pos(cs.Call.Pos()), "tags resolved with the same id, every name appended, no exit before the interaction is stored")
		}
	})
	// the resolver registers the id in each tag it returns
	rfd := c.P.Decl(resolver)
	registers := false
	regOver, appOver := map[string]bool{}, map[string]bool{}
	ast.Inspect(rfd.Body, func(x ast.Node) bool {
		over, lb := loopOver(info, x)
		if lb == nil {
			return true
		}
		ast.Inspect(lb, func(y ast.Node) bool {
			// filling a pre-sized result by index: names[i] = tags[i].Name
			if as, ok := y.(*ast.AssignStmt); ok && len(as.Lhs) == 1 && len(as.Rhs) == 1 {
				if ix, ok := ast.Unparen(as.Lhs[0]).(*ast.IndexExpr); ok {
					if _, isSl := info.TypeOf(ix.X).Underlying().(*types.Slice); isSl {
						if sel, ok := ast.Unparen(as.Rhs[0]).(*ast.SelectorExpr); ok {
							if v, ok := info.ObjectOf(sel.Sel).(*types.Var); ok && v.IsField() && fieldOwner(tagNamed, v) {
								appOver[over] = true
							}
						}
					}
				}
			}
			if call, ok := y.(*ast.CallExpr); ok {
				if g := Callee(info, call); g != nil && recvNamedOf(g) != nil && recvNamedOf(g).Obj().Name() == "Tag" {
					regOver[over] = true
				}
				if id, ok := call.Fun.(*ast.Ident); ok && id.Name == "append" {
					appOver[over] = true
				}
				if g := Callee(info, call); g != nil && appendParam >= 0 && strings.Contains(strings.ToLower(g.Name()), "tag") && recvNamedOf(g) != tagNamed {
					appOver[over] = true
				}
			}
			return true
		})
		return true
	})
	for over := range regOver {
		if appOver[over] {
			registers = true // one loop, or two loops over the same list of tags
		}
	}
	// every tag the directive names is carried: the registering loops skip no element
	skip := ""
	ast.Inspect(rfd.Body, func(x ast.Node) bool {
		over, lb := loopOver(info, x)
		if lb == nil || !(regOver[over] || appOver[over]) {
			return true
		}
		ast.Inspect(lb, func(y ast.Node) bool {
			switch b := y.(type) {
			case *ast.FuncLit:
				return false
			case *ast.BranchStmt:
				if b.Tok == token.CONTINUE || b.Tok == token.BREAK {
					skip = b.Tok.String() + " at " + c.P.Pos(b.Pos())
				}
			}
			return true
		})
		return true
	})
	if skip != "" {
		sc.Violation("TG1:resolver:every-tag", c.P.Pos(rfd.Pos()), "the loop that registers the interaction in its tags and collects their names skips elements ("+skip+"): a tag named in the Tags directive is not carried by the interaction (two declared tags that share a title, for instance)")
	} else {
		sc.Holds("TG1:resolver:every-tag", c.P.Pos(rfd.Pos()), "the registering loops skip no element")
	}
	if registers {
		sc.Holds("TG1:resolver", c.P.Pos(rfd.Pos()), "for every tag: the interaction id is registered in the tag and the tag's name is returned (one loop)")
	} else {
		sc.Violation("TG1:resolver", c.P.Pos(rfd.Pos()), "the tag resolver no longer registers the interaction in each tag whose name it returns")
	}
	// TG2: *Tag values handed out come from Tags.Get (found) or are stored by the creating helper
	tagT := c.Named("catalog", "Tag")
	c.P.Funcs(func(p *pkgT, fd *ast.FuncDecl) {
		if p != pk || fd.Type.Results == nil {
			return
		}
		self, _ := info.Defs[fd.Name].(*types.Func)
		sig := self.Type().(*types.Signature)
		returnsTags := false
		for i := 0; i < sig.Results().Len(); i++ {
			t := sig.Results().At(i).Type()
			if sl, ok := t.(*types.Slice); ok {
				t = sl.Elem()
			}
			if pt, ok := t.(*types.Pointer); ok && types.Identical(pt.Elem(), tagT) {
				returnsTags = true
			}
		}
		if !returnsTags || recvNamedOf(self) != cat {
			return
		}
		cf := c.CFG(pk, fd.Body)
		// every *Tag that flows to a result: from Tags.Get with ok, from a callee that returns tags, or stored via Tags.Set
		bad := ""
		ast.Inspect(fd.Body, func(x ast.Node) bool {
			var vals []ast.Expr
			switch s := x.(type) {
			case *ast.ReturnStmt:
				if len(s.Results) > 0 {
					vals = append(vals, s.Results[0])
				}
			case *ast.CallExpr:
				if id, ok := s.Fun.(*ast.Ident); ok && id.Name == "append" && len(s.Args) == 2 {
					if pt, ok := info.TypeOf(s.Args[1]).(*types.Pointer); ok && types.Identical(pt.Elem(), tagT) {
						vals = append(vals, s.Args[1])
					}
				}
			}
			for _, v := range vals {
				pt, ok := info.TypeOf(v).(*types.Pointer)
				if !ok || !types.Identical(pt.Elem(), tagT) {
					// slices / composite of calls: check elements
					if cl, ok := ast.Unparen(v).(*ast.CompositeLit); ok {
						for _, el := range cl.Elts {
							if call, ok := ast.Unparen(el).(*ast.CallExpr); ok {
								if g := Callee(info, call); g == nil || recvNamedOf(g) != cat {
									bad = "a tag created outside the collection is returned at " + c.P.Pos(el.Pos())
								}
							}
						}
					}
					continue
				}
				id, ok := ast.Unparen(v).(*ast.Ident)
				if !ok {
					continue
				}
				if call := tupleDefCall(cf, info, id, 0); call != nil {
					if g := Callee(info, call); g != nil && g.Name() == "Get" && fieldSel(info, Recv(call), tagsF) {
						continue
					}
					// a helper of the catalog that itself returns tags is judged on its own
					// (it is one of the functions this loop visits)
					if g := Callee(info, call); g != nil && recvNamedOf(g) == cat && c.P.Decl(g) != nil {
						gs := g.Type().(*types.Signature)
						if gs.Results().Len() >= 1 {
							if gp, ok := gs.Results().At(0).Type().(*types.Pointer); ok && types.Identical(gp.Elem(), tagT) {
								continue
							}
						}
					}
				}
				// created here: must be stored with Tags.Set before being returned
				stored := false
				cf.Before(x, func(nd ast.Node) {
					ast.Inspect(nd, func(y ast.Node) bool {
						if call, ok := y.(*ast.CallExpr); ok {
							if g := Callee(info, call); g != nil && g.Name() == "Set" && fieldSel(info, Recv(call), tagsF) && len(call.Args) == 2 && cfgx.SameExpr(info, call.Args[1], id) {
								stored = true
							}
						}
						return true
					})
				})
				if !stored {
					bad = "tag " + id.Name + " is returned at " + c.P.Pos(v.Pos()) + " without having been fetched from or stored into the Tags collection"
				}
			}
			return true
		})
		key := "TG2:" + fd.Name.Name
		if bad == "" {
			sc.Holds(key, c.P.Pos(fd.Pos()), "every tag handed out is a member of the Tags collection")
		} else {
			sc.Violation(key, c.P.Pos(fd.Pos()), bad+": interactions would reference a tag the catalog does not contain")
		}
	})
	// TG3: the function choosing the tags never returns an empty list without an error
	c.P.Funcs(func(p *pkgT, fd *ast.FuncDecl) {
		if p != pk {
			return
		}
		self, _ := info.Defs[fd.Name].(*types.Func)
		sig := self.Type().(*types.Signature)
		if sig.Results().Len() != 2 || recvNamedOf(self) != cat {
			return
		}
		sl, ok := sig.Results().At(0).Type().(*types.Slice)
		if !ok {
			return
		}
		pt, ok := sl.Elem().(*types.Pointer)
		if !ok || !types.Identical(pt.Elem(), tagT) {
			return
		}
		bad := ""
		ast.Inspect(fd.Body, func(x ast.Node) bool {
			ret, ok := x.(*ast.ReturnStmt)
			if !ok || len(ret.Results) != 2 {
				return true
			}
			if tv, has := info.Types[ret.Results[1]]; !has || !tv.IsNil() {
				return true // error return
			}
			switch r := ast.Unparen(ret.Results[0]).(type) {
			case *ast.CompositeLit:
				if len(r.Elts) == 0 {
					bad = "returns an empty literal at " + c.P.Pos(ret.Pos())
				}
			case *ast.Ident:
				// built in a loop over the directive's names: the directive check demands at least one name
				if !c.requiresNames(pk, fd) {
					bad = "returns a list built from the Tags directive without requiring at least one name"
				}
			}
			return true
		})
		key := "TG3:" + fd.Name.Name
		if bad == "" {
			sc.Holds(key, c.P.Pos(fd.Pos()), "a successful return carries at least one tag")
		} else {
			sc.Violation(key, c.P.Pos(fd.Pos()), bad+": an interaction could end up with no tag")
		}
	})
}

// requiresNames: every success return of fd is reached only after the directive was found
// to have at least one unnamed parameter - by a test in fd itself or by a helper whose nil
// returns are all behind that test and whose result fd checks.
func (c *Ctx) requiresNames(pk *pkgT, fd *ast.FuncDecl) bool {
	info := pk.TypesInfo
	hasNames := func(fa cfgx.Fact) bool {
		call, ok := ast.Unparen(fa.Expr).(*ast.CallExpr)
		if !ok {
			return false
		}
		h := Callee(info, call)
		if h == nil || !strings.Contains(h.Name(), "UnnamedParameter") {
			return false
		}
		if b, isB := h.Type().(*types.Signature).Results().At(0).Type().Underlying().(*types.Basic); !isB || b.Kind() != types.Bool {
			return false
		}
		return fa.Truth
	}
	successReturnsBehind := func(gd *ast.FuncDecl, gen func(cfgx.Fact) bool) bool {
		gpk := c.P.PkgOfDecl(gd)
		if gpk == nil {
			return false
		}
		cf := c.CFG(gpk, gd.Body)
		n, ok := 0, true
		inspectNoLit(gd.Body, func(x ast.Node) bool {
			ret, isRet := x.(*ast.ReturnStmt)
			if !isRet || len(ret.Results) == 0 {
				return true
			}
			if tv, has := gpk.TypesInfo.Types[ret.Results[len(ret.Results)-1]]; !has || !tv.IsNil() {
				return true
			}
			n++
			if !cf.MustAt(ret, gen, nil, nil) {
				ok = false
			}
			return true
		})
		return ok && n > 0
	}
	cf := c.CFG(pk, fd.Body)
	gen := func(fa cfgx.Fact) bool {
		if hasNames(fa) {
			return true
		}
		// helper(d) returned nil
		be, ok := ast.Unparen(fa.Expr).(*ast.BinaryExpr)
		if !ok || !((be.Op == token.NEQ && !fa.Truth) || (be.Op == token.EQL && fa.Truth)) {
			return false
		}
		x := be.X
		if isNilIdentExpr(info, x) {
			x = be.Y
		}
		call, ok := ast.Unparen(cf.Resolve(x)).(*ast.CallExpr)
		if !ok {
			return false
		}
		g := Callee(info, call)
		gd := c.P.Decl(g)
		return gd != nil && gd != fd && successReturnsBehind(gd, hasNames)
	}
	return successReturnsBehind(fd, gen)
}

// RuleTP1: precedence of the three tag sources.
func RuleTP1(c *Ctx) {
	sc := c.Run.Begin("TP1", "the function choosing an interaction's tags tests its sources in the order: the interaction's own Tags child, then the Tags child of the enclosing URL, then the automatic path tag; each earlier source, when present, returns before the later ones are consulted", 1)
	defer sc.End()
	pk := c.P.Pkg("catalog")
	if pk == nil {
		sc.Undecided("anchors", "-", "unresolved anchor: package catalog")
		return
	}
	info := pk.TypesInfo
	tagT := c.Named("catalog", "Tag")
	cat := c.Named("catalog", "Catalog")
	found := false
	c.P.Funcs(func(p *pkgT, fd *ast.FuncDecl) {
		if p != pk {
			return
		}
		self, _ := info.Defs[fd.Name].(*types.Func)
		sig := self.Type().(*types.Signature)
		if sig.Results().Len() != 2 || recvNamedOf(self) != cat {
			return
		}
		sl, ok := sig.Results().At(0).Type().(*types.Slice)
		if !ok {
			return
		}
		pt, ok := sl.Elem().(*types.Pointer)
		if !ok || !types.Identical(pt.Elem(), tagT) {
			return
		}
		// the three sources: a lookup among the interaction's own children, a lookup among the
		// children of its Parent (the enclosing URL), and the return that builds the path tag
		// (a composite literal). The two lookups may stand in the chooser itself or, together,
		// in a finder it calls. Precedence is decided by dataflow: the parent lookup is made
		// only where the own lookup's result was nil, and the path tag is returned only where
		// the parent lookup (or the finder) found nothing.
		dirT := c.Named("directive", "Directive")
		returnsDir := func(g *types.Func) bool {
			gsig := g.Type().(*types.Signature)
			if gsig.Results().Len() < 1 || gsig.Results().Len() > 2 {
				return false
			}
			rp, ok := gsig.Results().At(0).Type().(*types.Pointer)
			return ok && dirT != nil && types.Identical(rp.Elem(), dirT)
		}
		viaParent := func(gd *ast.FuncDecl, call *ast.CallExpr, g *types.Func) bool {
			// the callee walks to the Parent itself ...
			uses := false
			if cd := c.P.Decl(g); cd != nil {
				ast.Inspect(cd.Body, func(y ast.Node) bool {
					if sel, ok := y.(*ast.SelectorExpr); ok && sel.Sel.Name == "Parent" {
						uses = true
					}
					return true
				})
			}
			if uses {
				return true
			}
			// ... or it is handed something reached through Parent
			gcf := c.CFG(pk, gd.Body)
			for _, a := range call.Args {
				ast.Inspect(a, func(y ast.Node) bool {
					switch z := y.(type) {
					case *ast.SelectorExpr:
						if z.Sel.Name == "Parent" {
							uses = true
						}
					case *ast.Ident:
						if def := gcf.DefOf(info.ObjectOf(z)); def != nil {
							ast.Inspect(def, func(w ast.Node) bool {
								if s2, ok := w.(*ast.SelectorExpr); ok && s2.Sel.Name == "Parent" {
									uses = true
								}
								return true
							})
						}
					}
					return true
				})
			}
			return uses
		}
		lookupsIn := func(gd *ast.FuncDecl) (own, parent *ast.CallExpr) {
			ast.Inspect(gd.Body, func(x ast.Node) bool {
				call, ok := x.(*ast.CallExpr)
				if !ok {
					return true
				}
				g := Callee(info, call)
				cd := c.P.Decl(g)
				if g == nil || cd == nil || c.P.PkgOfDecl(cd) != pk || !returnsDir(g) {
					return true
				}
				if viaParent(gd, call, g) {
					parent = call
				} else {
					own = call
				}
				return true
			})
			return
		}
		holdersIn := func(gd *ast.FuncDecl, call *ast.CallExpr) map[types.Object]bool {
			out := map[types.Object]bool{}
			ast.Inspect(gd.Body, func(x ast.Node) bool {
				as, ok := x.(*ast.AssignStmt)
				if !ok || len(as.Rhs) != 1 || ast.Unparen(as.Rhs[0]) != ast.Expr(call) {
					return true
				}
				for _, l := range as.Lhs {
					if id, ok := l.(*ast.Ident); ok && id.Name != "_" {
						out[info.ObjectOf(id)] = true
					}
				}
				return true
			})
			return out
		}
		absentOf := func(vars map[types.Object]bool) func(cfgx.Fact) bool {
			return func(fa cfgx.Fact) bool {
				// a found-flag that is false
				if id, ok := ast.Unparen(fa.Expr).(*ast.Ident); ok && !fa.Truth && vars[info.ObjectOf(id)] {
					return true
				}
				be, ok := ast.Unparen(fa.Expr).(*ast.BinaryExpr)
				if !ok || !((be.Op == token.EQL && fa.Truth) || (be.Op == token.NEQ && !fa.Truth)) {
					return false
				}
				x := be.X
				if isNilIdentExpr(info, x) {
					x = be.Y
				} else if !isNilIdentExpr(info, be.Y) {
					return false
				}
				id, ok := ast.Unparen(x).(*ast.Ident)
				return ok && vars[info.ObjectOf(id)]
			}
		}
		var pathRet *ast.ReturnStmt
		ast.Inspect(fd.Body, func(x ast.Node) bool {
			if ret, ok := x.(*ast.ReturnStmt); ok && len(ret.Results) == 2 {
				if _, isLit := ast.Unparen(ret.Results[0]).(*ast.CompositeLit); isLit {
					pathRet = ret
				}
			}
			return true
		})
		if pathRet == nil {
			return
		}
		// where do the two lookups stand?
		orderFn := fd
		ownCall, parentCall := lookupsIn(fd)
		var finderCall *ast.CallExpr
		if ownCall == nil || parentCall == nil {
			ownCall, parentCall = nil, nil
			ast.Inspect(fd.Body, func(x ast.Node) bool {
				call, ok := x.(*ast.CallExpr)
				if !ok || finderCall != nil {
					return true
				}
				g := Callee(info, call)
				gd := c.P.Decl(g)
				if g == nil || gd == nil || c.P.PkgOfDecl(gd) != pk || !returnsDir(g) {
					return true
				}
				if o, p2 := lookupsIn(gd); o != nil && p2 != nil {
					finderCall, orderFn, ownCall, parentCall = call, gd, o, p2
				}
				return true
			})
		}
		if ownCall == nil || parentCall == nil {
			return
		}
		found = true
		key := fd.Name.Name
		ocf := c.CFG(pk, orderFn.Body)
		cf := c.CFG(pk, fd.Body)
		lastSource := holdersIn(fd, parentCall)
		if finderCall != nil {
			lastSource = holdersIn(fd, finderCall)
		}
		switch {
		case !ocf.MustAt(parentCall, absentOf(holdersIn(orderFn, ownCall)), nil, nil):
			sc.Violation(key, c.P.Pos(parentCall.Pos()), "the enclosing URL's Tags are consulted without the interaction's own Tags having been found absent: explicit Tags no longer win over the URL's")
		case !cf.MustAt(pathRet, absentOf(lastSource), nil, nil):
			sc.Violation(key, c.P.Pos(pathRet.Pos()), "the automatic path tag is returned without the own and the URL-level Tags having been found absent: the automatic tag is used although Tags are declared")
		default:
			sc.Holds(key, c.P.Pos(fd.Pos()), "sources consulted in the order own Tags, enclosing URL's Tags, path tag: each later source only where the earlier ones were absent")
		}
	})
	if !found {
		sc.Undecided("chooser", "-", "unresolved anchor: the tag chooser with its three sources")
	}
}

// RuleRV1: the validation stage looks at every response, not at a chosen one.
func RuleRV1(c *Ctx) {
	sc := c.Run.Begin("RV1", "every loop over an interaction's Responses in core visits all of them (no success return or break inside), and in the validation stage every use of Responses is such a loop (a check that indexes one response lets the others through unchecked)", 1)
	defer sc.End()
	pk := c.P.Pkg("core")
	resp := c.Field("catalog", "HTTPInteraction", "Responses")
	later := c.laterStages()
	if pk == nil || resp == nil || len(later) == 0 {
		sc.Undecided("anchors", "-", "unresolved anchor: HTTPInteraction.Responses / pipeline stages")
		return
	}
	validate := later[len(later)-1]
	info := pk.TypesInfo
	n := 0
	// every range over the responses, anywhere in core, visits all of them: no success
	// return and no break inside the loop body
	c.P.Funcs(func(p *pkgT, fd *ast.FuncDecl) {
		if p != pk {
			return
		}
		ast.Inspect(fd.Body, func(x ast.Node) bool {
			rs, ok := x.(*ast.RangeStmt)
			if !ok {
				return true
			}
			sel, ok := ast.Unparen(rs.X).(*ast.SelectorExpr)
			if !ok || info.ObjectOf(sel.Sel) != resp {
				return true
			}
			n++
			key := fmt.Sprintf("all:%s#%d", c.P.DeclName(fd), n)
			bad := ""
			ast.Inspect(rs.Body, func(y ast.Node) bool {
				switch s := y.(type) {
				case *ast.FuncLit:
					return false
				case *ast.ReturnStmt:
					if len(s.Results) == 0 {
						bad = "bare return at " + c.P.Pos(s.Pos())
					} else if tv, has := info.Types[s.Results[len(s.Results)-1]]; has && tv.IsNil() {
						bad = "return nil at " + c.P.Pos(s.Pos())
					}
				case *ast.BranchStmt:
					if s.Tok.String() == "break" {
						bad = "break at " + c.P.Pos(s.Pos())
					}
				}
				return true
			})
			if bad == "" {
				sc.Holds(key, c.P.Pos(rs.Pos()), "the loop body leaves early only with an error")
			} else {
				sc.Violation(key, c.P.Pos(rs.Pos()), "the loop over all responses of an interaction is left early with success ("+bad+"): the remaining responses are neither processed (allOf inheritance, header checks) nor validated")
			}
			return true
		})
	})
	for _, f := range reachStatic(c.P, pk, []*types.Func{validate}) {
		fd := c.P.Decl(f)
		ranged := map[ast.Expr]bool{}
		ast.Inspect(fd.Body, func(x ast.Node) bool {
			if rs, ok := x.(*ast.RangeStmt); ok {
				ranged[ast.Unparen(rs.X)] = true
			}
			return true
		})
		// len(X.Responses) inside the size arguments of make(...) only sizes a buffer
		sizing := map[ast.Expr]bool{}
		ast.Inspect(fd.Body, func(x ast.Node) bool {
			call, ok := x.(*ast.CallExpr)
			if !ok {
				return true
			}
			if id, ok := call.Fun.(*ast.Ident); ok && id.Name == "make" && len(call.Args) >= 2 {
				for _, a := range call.Args[1:] {
					ast.Inspect(a, func(y ast.Node) bool {
						if lc, ok := y.(*ast.CallExpr); ok {
							if lid, ok := lc.Fun.(*ast.Ident); ok && lid.Name == "len" && len(lc.Args) == 1 {
								sizing[ast.Unparen(lc.Args[0])] = true
							}
						}
						return true
					})
				}
			}
			return true
		})
		ast.Inspect(fd.Body, func(x ast.Node) bool {
			sel, ok := x.(*ast.SelectorExpr)
			if !ok || info.ObjectOf(sel.Sel) != resp {
				return true
			}
			if sizing[sel] {
				return true
			}
			n++
			key := fmt.Sprintf("%s#%d", c.P.DeclName(fd), n)
			if ranged[sel] {
				sc.Holds(key, c.P.Pos(sel.Pos()), "ranges over all responses")
			} else {
				sc.Violation(key, c.P.Pos(sel.Pos()), "the validation stage picks responses by index or length instead of ranging over all of them: a response without a body (or with a bad header schema) that is not the chosen one is accepted and serialised with a null body")
			}
			return true
		})
	}
}

// RuleTI1: Title() is info.title.
func RuleTI1(c *Ctx) {
	sc := c.Run.Begin("TI1", "the API's Title() getter returns the catalog's Info.Title field itself (or the empty string), untransformed", 1)
	defer sc.End()
	f := c.Func("kit", "JApi.Title")
	title := c.Field("catalog", "Info", "Title")
	fd := c.P.Decl(f)
	if fd == nil || title == nil {
		sc.Undecided("anchors", "-", "unresolved anchor: kit.JApi.Title / catalog.Info.Title")
		return
	}
	info := c.P.PkgOfDecl(fd).TypesInfo
	ok := true
	n := 0
	ast.Inspect(fd.Body, func(x ast.Node) bool {
		ret, isRet := x.(*ast.ReturnStmt)
		if !isRet || len(ret.Results) != 1 {
			return true
		}
		n++
		r := ast.Unparen(ret.Results[0])
		if tv, has := info.Types[r]; has && tv.Value != nil && tv.Value.ExactString() == `""` {
			return true
		}
		if sel, isSel := r.(*ast.SelectorExpr); isSel && info.ObjectOf(sel.Sel) == title {
			return true
		}
		ok = false
		return true
	})
	if ok && n > 0 {
		sc.Holds("kit.JApi.Title", c.P.Pos(fd.Pos()), "returns Info.Title or \"\"")
	} else {
		sc.Violation("kit.JApi.Title", c.P.Pos(fd.Pos()), "Title() returns something other than the Info.Title field itself: it can differ from info.title in the JSON")
	}
}

// RuleID2: the JSON key of an interaction is its id text. For every type that implements
// the InteractionID interface, MarshalText returns exactly []byte(x.String()) for its own
// receiver: the `id` field of an interaction is built from String(), the object key and the
// tag's interaction list from MarshalText(), and the two must be one text.
func RuleID2(c *Ctx) {
	sc := c.Run.Begin("ID2", "MarshalText of every InteractionID implementation returns []byte(receiver.String()) untransformed, so the key under which an interaction is serialised equals its id field", 1)
	defer sc.End()
	pk := c.P.Pkg("catalog")
	iface := c.Named("catalog", "InteractionID")
	if pk == nil || iface == nil {
		sc.Undecided("anchors", "-", "unresolved anchor: catalog.InteractionID")
		return
	}
	it, ok := iface.Underlying().(*types.Interface)
	if !ok {
		sc.Undecided("anchors", "-", "catalog.InteractionID is not an interface")
		return
	}
	info := pk.TypesInfo
	n := 0
	for _, nm := range pk.Types.Scope().Names() {
		tn, ok := pk.Types.Scope().Lookup(nm).(*types.TypeName)
		if !ok {
			continue
		}
		named, ok := tn.Type().(*types.Named)
		if !ok || named == iface {
			continue
		}
		if !types.Implements(named, it) && !types.Implements(types.NewPointer(named), it) {
			continue
		}
		var mt, str *types.Func
		for i := 0; i < named.NumMethods(); i++ {
			switch named.Method(i).Name() {
			case "MarshalText":
				mt = named.Method(i)
			case "String":
				str = named.Method(i)
			}
		}
		fd := c.P.Decl(mt)
		if fd == nil || str == nil {
			continue
		}
		n++
		key := named.Obj().Name()
		cf := c.CFG(pk, fd.Body)
		var recvObj types.Object
		if fd.Recv != nil && len(fd.Recv.List) == 1 && len(fd.Recv.List[0].Names) == 1 {
			recvObj = info.ObjectOf(fd.Recv.List[0].Names[0])
		}
		bad := ""
		rets := 0
		inspectNoLit(fd.Body, func(x ast.Node) bool {
			ret, isRet := x.(*ast.ReturnStmt)
			if !isRet || len(ret.Results) != 2 {
				return true
			}
			if tv, has := info.Types[ret.Results[1]]; !has || !tv.IsNil() {
				return true
			}
			rets++
			e := ast.Unparen(cf.Resolve(ret.Results[0]))
			okShape := false
			if conv, isCall := e.(*ast.CallExpr); isCall && len(conv.Args) == 1 {
				if tv, isT := info.Types[conv.Fun]; isT && tv.IsType() {
					if inner, isCall2 := ast.Unparen(cf.Resolve(conv.Args[0])).(*ast.CallExpr); isCall2 && Callee(info, inner) == str {
						if id, isId := ast.Unparen(Recv(inner)).(*ast.Ident); isId && info.ObjectOf(id) == recvObj {
							okShape = true
						}
					}
				}
			}
			if !okShape {
				bad = types.ExprString(ret.Results[0])
			}
			return true
		})
		switch {
		case rets == 0:
			sc.Undecided(key, c.P.Pos(fd.Pos()), "MarshalText has no success return")
		case bad == "":
			sc.Holds(key, c.P.Pos(fd.Pos()), "MarshalText returns []byte(String()) of its receiver")
		default:
			sc.Violation(key, c.P.Pos(fd.Pos()), "MarshalText returns "+bad+" instead of the untransformed String() of its receiver: the object key (and the tag's interaction list) can differ from the interaction's own id field")
		}
	}
	if n == 0 {
		sc.Undecided("impls", "-", "no implementation of InteractionID found")
	}
}

// ---------------------------------------------------------------- UP1

// RuleUP1: an update keeps the element. The collections of the catalog are changed in place
// through `X.Update(key, func(v T) T { ...; return v })`: the callback hands back the very
// element it was given (or a `*v` copy of it), so everything the element has accumulated -
// the interaction groups of a tag, the responses of an interaction - survives a later
// change of one field. A callback that returns a freshly constructed element replaces the
// entry and silently drops the rest.
func RuleUP1(c *Ctx) {
	sc := c.Run.Begin("UP1", "every callback given to an Update method of a catalog collection returns the element it received (or a copy made from it), never a freshly constructed one", 1)
	defer sc.End()
	n := 0
	perFn := map[*ast.FuncDecl]int{}
	c.eachCall(func(cs callSite) {
		info := cs.Pk.TypesInfo
		f := Callee(info, cs.Call)
		if f == nil || f.Name() != "Update" || c.P.Decl(f) == nil || len(cs.Call.Args) != 2 {
			return
		}
		sig := f.Type().(*types.Signature)
		if sig.Recv() == nil || sig.Params().Len() != 2 {
			return
		}
		cbT, ok := sig.Params().At(1).Type().Underlying().(*types.Signature)
		if !ok || cbT.Params().Len() != 1 || cbT.Results().Len() != 1 || !types.Identical(cbT.Params().At(0).Type(), cbT.Results().At(0).Type()) {
			return
		}
		binfo := info
		bpk := cs.Pk
		body, ftype, in, okf := c.funcValueOf(cs.Pk, c.CFG(cs.Pk, cs.Body), cs.Call.Args[1])
		if okf {
			binfo, bpk = in.TypesInfo, in
		}
		n++
		perFn[cs.Decl]++
		key := fmt.Sprintf("%s#%d", c.P.DeclName(cs.Decl), perFn[cs.Decl])
		pos := c.P.Pos(cs.Call.Pos())
		if body == nil || len(ftype.Params.List) != 1 || len(ftype.Params.List[0].Names) != 1 {
			sc.Undecided(key, pos, "the Update callback is not a function literal or a declared function with a named parameter")
			return
		}
		param := binfo.ObjectOf(ftype.Params.List[0].Names[0])
		cf := c.CFG(bpk, body)
		fromParam := func(e ast.Expr) bool {
			e = ast.Unparen(cf.Resolve(e))
			if ta, ok := e.(*ast.TypeAssertExpr); ok {
				e = ast.Unparen(cf.Resolve(ta.X))
			}
			if id, ok := e.(*ast.Ident); ok && binfo.ObjectOf(id) == param {
				return true
			}
			// &cp with cp := *v
			if u, ok := e.(*ast.UnaryExpr); ok && u.Op == token.AND {
				if id, ok := ast.Unparen(u.X).(*ast.Ident); ok {
					if def := cf.DefOf(binfo.ObjectOf(id)); def != nil {
						if st, ok := ast.Unparen(def).(*ast.StarExpr); ok {
							if pid, ok := ast.Unparen(st.X).(*ast.Ident); ok && binfo.ObjectOf(pid) == param {
								return true
							}
						}
					}
				}
			}
			return false
		}
		bad := ""
		rets := 0
		inspectNoLit(body, func(nd ast.Node) bool {
			ret, ok := nd.(*ast.ReturnStmt)
			if !ok || len(ret.Results) != 1 {
				return true
			}
			rets++
			if !fromParam(ret.Results[0]) {
				bad = types.ExprString(ret.Results[0])
			}
			return true
		})
		if bad == "" && rets > 0 {
			sc.Holds(key, pos, fmt.Sprintf("the callback returns its own argument (%d return(s))", rets))
		} else {
			sc.Violation(key, pos, "the Update callback returns "+bad+", not the element it was given: the entry is replaced and everything it had collected (the interactions listed under a tag, the parts of an interaction) is dropped")
		}
	})
	if n == 0 {
		sc.Undecided("sites", "-", "no Update call with a callback found")
	}
}

// ---------------------------------------------------------------- MB1

// RuleMB1: the mandatory parts of an interaction are demanded unconditionally. Every request
// and every response of the catalog has a body (C09); the model allows the slot to stay nil
// while the tree is built, and the validation stage is what refuses it. For each mandatory
// slot (table below) some rejection in package core has a condition that `holder != nil &&
// holder.Slot == nil` implies: a conjunction of the slot's nil test with nil tests of the
// holder chain only (and comma-ok results of type assertions around it). A rejection that
// also asks for something else ("and no headers either") lets an interaction without the
// part through whenever that something else is present.
func RuleMB1(c *Ctx) {
	sc := c.Run.Begin("MB1", "for each mandatory part of an interaction (request body, response body) package core has a rejection whose condition is the part's nil test together with nil tests of its holder chain only", 2)
	defer sc.End()
	pk := c.P.Pkg("core")
	if pk == nil {
		sc.Undecided("anchors", "-", "unresolved anchor: package core")
		return
	}
	// the mandatory slots: frozen from the statement of C09 ("every request and response has
	// a body") and from the two rejections present on the confirmed tree
	slots := []struct{ typ, field string }{
		{"HTTPRequest", "HTTPRequestBody"},
		{"HTTPResponse", "Body"},
	}
	info := pk.TypesInfo
	for _, sl := range slots {
		fld := c.Field("catalog", sl.typ, sl.field)
		key := sl.typ + "." + sl.field
		if fld == nil {
			sc.Undecided(key, "-", "unresolved anchor: catalog."+key)
			continue
		}
		good, near := "", ""
		nearWhy := ""
		c.P.Funcs(func(p *pkgT, fd *ast.FuncDecl) {
			if p != pk {
				return
			}
			ast.Inspect(fd.Body, func(n ast.Node) bool {
				ret, ok := n.(*ast.ReturnStmt)
				if !ok || len(ret.Results) == 0 {
					return true
				}
				last := ret.Results[len(ret.Results)-1]
				if tv, has := info.Types[last]; !has || tv.IsNil() {
					return true
				}
				if _, isCall := ast.Unparen(last).(*ast.CallExpr); !isCall {
					return true // `return err`: somebody else's verdict
				}
				if t := info.TypeOf(last); t == nil || !isErrorLike(t) {
					return true
				}
				body := innermostBody(fd, ret)
				cf := c.CFG(pk, body.body)
				facts := cf.FactsAt(ret)
				var slotExpr ast.Expr
				for _, fa := range facts {
					be, ok := ast.Unparen(fa.Expr).(*ast.BinaryExpr)
					if !ok || !((be.Op == token.EQL && fa.Truth) || (be.Op == token.NEQ && !fa.Truth)) {
						continue
					}
					x := be.X
					if isNilIdentExpr(info, x) {
						x = be.Y
					} else if !isNilIdentExpr(info, be.Y) {
						continue
					}
					if sel, ok := ast.Unparen(x).(*ast.SelectorExpr); ok && info.ObjectOf(sel.Sel) == types.Object(fld) {
						slotExpr = x
					}
				}
				if slotExpr == nil {
					return true
				}
				extra := ""
				for _, fa := range facts {
					if fa.Derived {
						continue
					}
					e := ast.Unparen(fa.Expr)
					switch x := e.(type) {
					case *ast.BinaryExpr:
						if x.Op == token.LAND || x.Op == token.LOR {
							if x.Op == token.LAND && fa.Truth || x.Op == token.LOR && !fa.Truth {
								continue // decomposed into its parts, which are in the list
							}
							extra = types.ExprString(e)
							continue
						}
						if (x.Op == token.EQL || x.Op == token.NEQ) && (isNilIdentExpr(info, x.X) || isNilIdentExpr(info, x.Y)) {
							if pa1NilOnPrefix(info, cf, fa, slotExpr) {
								continue
							}
						}
						extra = types.ExprString(e)
					case *ast.Ident:
						if def := cf.Resolve(x); def != ast.Expr(x) {
							continue // a named condition: its parts are in the list
						}
						if _, _, isTuple := cf.TupleDefOf(info.ObjectOf(x)); isTuple {
							continue // comma-ok of a type assertion
						}
						extra = types.ExprString(e)
					case *ast.UnaryExpr:
						continue
					default:
						extra = types.ExprString(e)
					}
				}
				if extra == "" {
					good = c.P.Pos(ret.Pos())
				} else if near == "" {
					near, nearWhy = c.P.Pos(ret.Pos()), extra
				}
				return true
			})
		})
		switch {
		case good != "":
			sc.Holds(key, good, "refused when absent, whatever else the holder has")
		case near != "":
			sc.Violation(key, near, "the only rejection of a missing "+key+" also depends on `"+nearWhy+"`: an interaction without this part is accepted whenever that other condition fails, and is serialised without it")
		default:
			sc.Violation(key, "-", "no rejection of a missing "+key+" found in package core: interactions without this mandatory part are accepted")
		}
	}
}

// ---------------------------------------------------------------- JM1

// RuleJM1: the document handed out is the encoder's output. A function that returns
// ([]byte, error) and gets the bytes from encoding/json (Marshal, MarshalIndent) returns
// them as they are: the call itself, the variable that received its first result, or a
// conversion-free alias of it. Text substitutions on encoded JSON work on bytes, not on
// tokens: undoing `&` also rewrites the escaped backslash of `\\u0026` and the result
// is no longer JSON, returned with a nil error.
func RuleJM1(c *Ctx) {
	sc := c.Run.Begin("JM1", "every function returning ([]byte, error) that obtains the bytes from encoding/json returns them untouched", 2)
	defer sc.End()
	n := 0
	c.P.Funcs(func(pk *pkgT, fd *ast.FuncDecl) {
		info := pk.TypesInfo
		self, _ := info.Defs[fd.Name].(*types.Func)
		if self == nil || strings.HasPrefix(fd.Name.Name, "Marshal") || strings.HasPrefix(fd.Name.Name, "marshal") {
			return // a marshaller composes its output from encoded parts by design
		}
		sig := self.Type().(*types.Signature)
		if sig.Results().Len() != 2 || !isErrorType(sig.Results().At(1).Type()) {
			return
		}
		if sl, ok := sig.Results().At(0).Type().Underlying().(*types.Slice); !ok || !isByte(sl.Elem()) {
			return
		}
		isJSON := func(e ast.Expr) bool {
			call, ok := ast.Unparen(e).(*ast.CallExpr)
			if !ok {
				return false
			}
			g := Callee(info, call)
			return g != nil && g.Pkg() != nil && g.Pkg().Path() == "encoding/json" && strings.HasPrefix(g.Name(), "Marshal")
		}
		uses := false
		ast.Inspect(fd.Body, func(x ast.Node) bool {
			if e, ok := x.(ast.Expr); ok && isJSON(e) {
				uses = true
			}
			return true
		})
		if !uses {
			return
		}
		n++
		cf := c.CFG(pk, fd.Body)
		bad := ""
		inspectNoLit(fd.Body, func(x ast.Node) bool {
			ret, ok := x.(*ast.ReturnStmt)
			if !ok || len(ret.Results) == 0 {
				return true
			}
			if len(ret.Results) == 1 {
				if !isJSON(ret.Results[0]) {
					bad = types.ExprString(ret.Results[0])
				}
				return true
			}
			r := ast.Unparen(cf.Resolve(ret.Results[0]))
			if tv, has := info.Types[r]; has && tv.IsNil() {
				return true
			}
			if id, ok := r.(*ast.Ident); ok {
				if rhs, idx, ok := cf.TupleDefOf(info.ObjectOf(id)); ok && idx == 0 && isJSON(rhs) {
					return true
				}
			}
			bad = types.ExprString(ret.Results[0])
			return true
		})
		key := c.P.DeclName(fd)
		if bad == "" {
			sc.Holds(key, c.P.Pos(fd.Pos()), "returns the encoder's bytes as they are")
		} else {
			sc.Violation(key, c.P.Pos(fd.Pos()), "the bytes obtained from encoding/json are returned as "+bad+", not as they are: a substitution on encoded text can turn valid JSON into invalid JSON (an escaped backslash before the rewritten sequence) with a nil error")
		}
	})
	if n == 0 {
		sc.Undecided("sites", "-", "no function returning the bytes of encoding/json found")
	}
}

// ---------------------------------------------------------------- ST1

// RuleST1: a string-typed name prints as itself. For every named type of the catalog whose
// underlying type is string and which has a String() method (Path, TagName, ...), the method
// is `return string(x)`: these values are map keys, parts of interaction ids and JSON
// fields at the same time, and a String() that normalises (collapses `//`, trims, lowers)
// makes the key text disagree with the stored value - two different paths print as one key.
func RuleST1(c *Ctx) {
	sc := c.Run.Begin("ST1", "the String() method of every string-typed name of the catalog returns the value unchanged", 1)
	defer sc.End()
	pk := c.P.Pkg("catalog")
	if pk == nil {
		sc.Undecided("anchors", "-", "unresolved anchor: package catalog")
		return
	}
	info := pk.TypesInfo
	n := 0
	for _, name := range pk.Types.Scope().Names() {
		tn, ok := pk.Types.Scope().Lookup(name).(*types.TypeName)
		if !ok {
			continue
		}
		named, ok := tn.Type().(*types.Named)
		if !ok {
			continue
		}
		if b, ok := named.Underlying().(*types.Basic); !ok || b.Info()&types.IsString == 0 {
			continue
		}
		var str *types.Func
		for i := 0; i < named.NumMethods(); i++ {
			if named.Method(i).Name() == "String" {
				str = named.Method(i)
			}
		}
		fd := c.P.Decl(str)
		if str == nil || fd == nil || fd.Recv == nil || len(fd.Recv.List) != 1 || len(fd.Recv.List[0].Names) != 1 {
			continue
		}
		n++
		recv := info.ObjectOf(fd.Recv.List[0].Names[0])
		ok2 := false
		if len(fd.Body.List) == 1 {
			if ret, isRet := fd.Body.List[0].(*ast.ReturnStmt); isRet && len(ret.Results) == 1 {
				e := ast.Unparen(ret.Results[0])
				if call, isCall := e.(*ast.CallExpr); isCall && len(call.Args) == 1 {
					if tv, isT := info.Types[call.Fun]; isT && tv.IsType() {
						e = ast.Unparen(call.Args[0])
					}
				}
				if id, isId := e.(*ast.Ident); isId && info.ObjectOf(id) == recv {
					ok2 = true
				}
			}
		}
		if ok2 {
			sc.Holds(name, c.P.Pos(fd.Pos()), "returns the value itself")
		} else {
			sc.Violation(name, c.P.Pos(fd.Pos()), name+".String() does more than convert: the text used in ids and map keys is no longer the stored value, so values that differ only in what the method normalises away share one key while the interaction's own field keeps the raw text")
		}
	}
	if n == 0 {
		sc.Undecided("types", "-", "no string-typed name with a String() method in package catalog")
	}
}

// ---------------------------------------------------------------- MW1

// RuleMW1: a conditional copy in a hand-written marshaller carries its own field only. The
// marshallers of package catalog fill a local wire struct field by field from the receiver
// (`data.Note = c.Note`) and hand it to the encoder. Some copies are conditional on the
// copied field itself (`if c.Rules != nil && c.Rules.Len() != 0 { data.Rules = ... }`,
// `if len(c.Children) == 0 { ... } else { data.Children = c.Children }`). The copy of
// ANOTHER field placed inside such an if-statement - one whose condition reads field H, whose
// branches copy H, and which does not read the other field - makes that field vanish from
// the output for some values of H: a property's inheritedFrom mark written only when the
// property has children. (A switch on the type's discriminant - the schema notation - is a
// choice between variants, not a conditional copy, and is not judged.)
func RuleMW1(c *Ctx) {
	sc := c.Run.Begin("MW1", "in the call tree of every hand-written MarshalJSON of package catalog, no copy `wire.F = recv.G...` into the local wire structure sits inside the conditional copy of another field (an if whose condition reads recv.H and whose branches copy recv.H)", 5)
	defer sc.End()
	pk := c.P.Pkg("catalog")
	if pk == nil {
		sc.Undecided("anchors", "-", "unresolved anchor: package catalog")
		return
	}
	info := pk.TypesInfo
	var roots []*types.Func
	c.P.Funcs(func(p *pkgT, fd *ast.FuncDecl) {
		if p == pk && fd.Recv != nil && fd.Name.Name == "MarshalJSON" {
			if f, ok := info.Defs[fd.Name].(*types.Func); ok {
				roots = append(roots, f)
			}
		}
	})
	for _, f := range reachStatic(c.P, pk, roots) {
		fd := c.P.Decl(f)
		if fd == nil || fd.Recv == nil || len(fd.Recv.List) != 1 || len(fd.Recv.List[0].Names) != 1 || c.P.PkgOfDecl(fd) != pk {
			continue
		}
		recv := info.ObjectOf(fd.Recv.List[0].Names[0])
		// fieldOfRecv: the first field selected from the receiver in e, "" when e does not read it
		fieldsOfRecv := func(e ast.Node) map[string]bool {
			out := map[string]bool{}
			ast.Inspect(e, func(x ast.Node) bool {
				if sel, ok := x.(*ast.SelectorExpr); ok {
					if id, ok := ast.Unparen(sel.X).(*ast.Ident); ok && info.ObjectOf(id) == recv {
						if _, isField := info.ObjectOf(sel.Sel).(*types.Var); isField {
							out[sel.Sel.Name] = true
						}
					}
				}
				return true
			})
			return out
		}
		var conds []*ast.IfStmt
		k := 0
		var walk func(n ast.Node)
		walkList := func(l []ast.Stmt) {
			for _, st := range l {
				walk(st)
			}
		}
		walk = func(n ast.Node) {
			switch s := n.(type) {
			case *ast.BlockStmt:
				walkList(s.List)
			case *ast.IfStmt:
				conds = append(conds, s)
				walk(s.Body)
				if s.Else != nil {
					walk(s.Else)
				}
				conds = conds[:len(conds)-1]
			case *ast.SwitchStmt:
				for _, cl := range s.Body.List {
					walkList(cl.(*ast.CaseClause).Body)
				}
			case *ast.ForStmt:
				walk(s.Body)
			case *ast.RangeStmt:
				walk(s.Body)
			case *ast.AssignStmt:
				if len(s.Lhs) != 1 || len(s.Rhs) != 1 || s.Tok != token.ASSIGN {
					return
				}
				lsel, ok := ast.Unparen(s.Lhs[0]).(*ast.SelectorExpr)
				if !ok {
					return
				}
				wid, ok := ast.Unparen(lsel.X).(*ast.Ident)
				if !ok {
					return
				}
				wobj, ok := info.ObjectOf(wid).(*types.Var)
				if !ok || wobj == recv || wobj.Parent() == pk.Types.Scope() {
					return
				}
				if _, isStruct := wobj.Type().Underlying().(*types.Struct); !isStruct {
					return
				}
				src := fieldsOfRecv(s.Rhs[0])
				if len(src) == 0 {
					return
				}
				k++
				key := fmt.Sprintf("%s:%s#%d", c.P.DeclName(fd), lsel.Sel.Name, k)
				bad := ""
				for _, ifs := range conds {
					reads := fieldsOfRecv(ifs.Cond)
					shared := false
					for g := range src {
						if reads[g] {
							shared = true
						}
					}
					if shared || len(reads) == 0 {
						continue
					}
					// is this if-statement the conditional copy of a field its condition reads?
					own := false
					ast.Inspect(ifs, func(y ast.Node) bool {
						as, ok := y.(*ast.AssignStmt)
						if !ok || as == s || len(as.Lhs) != 1 || len(as.Rhs) != 1 {
							return true
						}
						if _, isSel := ast.Unparen(as.Lhs[0]).(*ast.SelectorExpr); !isSel {
							return true
						}
						for h := range fieldsOfRecv(as.Rhs[0]) {
							if reads[h] {
								own = true
							}
						}
						return true
					})
					if own {
						bad = types.ExprString(ifs.Cond)
					}
				}
				if bad == "" {
					sc.Holds(key, c.P.Pos(s.Pos()), fmt.Sprintf("not inside the conditional copy of another field (%d enclosing if-statements)", len(conds)))
				} else {
					var names []string
					for g := range src {
						names = append(names, g)
					}
					sort.Strings(names)
					sc.Violation(key, c.P.Pos(s.Pos()), "the field "+strings.Join(names, ",")+" reaches the wire structure only under `"+bad+"`, a condition that does not read it: for some values of another field it is silently left out of the JSON")
				}
			}
		}
		walk(fd.Body)
	}
}

// loopBody: the body of a for or range statement, nil for anything else.
func loopBody(n ast.Node) *ast.BlockStmt {
	switch l := n.(type) {
	case *ast.RangeStmt:
		return l.Body
	case *ast.ForStmt:
		return l.Body
	}
	return nil
}

// loopOver: what a loop runs over - the ranged expression, or X of a counted loop whose
// condition compares the counter with len(X) - and its body.
func loopOver(info *types.Info, n ast.Node) (string, *ast.BlockStmt) {
	switch l := n.(type) {
	case *ast.RangeStmt:
		return types.ExprString(l.X), l.Body
	case *ast.ForStmt:
		if be, ok := ast.Unparen(l.Cond).(*ast.BinaryExpr); ok {
			for _, side := range []ast.Expr{be.X, be.Y} {
				if x, isLen := lengthExpr(info, side); isLen {
					return types.ExprString(x), l.Body
				}
			}
		}
		return "", l.Body
	}
	return "", nil
}
