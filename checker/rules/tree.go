package rules

import (
	"fmt"
	"go/ast"
	"go/token"
	"go/types"
	"strings"

	"verif/checker/cfgx"
)

// resolverFunc: the one function that stores a non-nil Directive.Parent.
func (c *Ctx) resolverFunc() (*types.Func, []string) {
	parent := c.Field("directive", "Directive", "Parent")
	dirT := c.Named("directive", "Directive")
	core := c.P.Pkg("core")
	// by role: the function of core that receives the root list by address
	// (a parameter of type *[]*Directive) and decides where a directive goes
	var byRole []*types.Func
	if core != nil && dirT != nil {
		c.P.Funcs(func(pk *pkgT, fd *ast.FuncDecl) {
			if pk != core {
				return
			}
			f, _ := pk.TypesInfo.Defs[fd.Name].(*types.Func)
			if f == nil {
				return
			}
			sig := f.Type().(*types.Signature)
			for i := 0; i < sig.Params().Len(); i++ {
				if pt, ok := sig.Params().At(i).Type().(*types.Pointer); ok {
					if sl, ok := pt.Elem().Underlying().(*types.Slice); ok {
						if ep, ok := sl.Elem().(*types.Pointer); ok && types.Identical(ep.Elem(), dirT) {
							byRole = append(byRole, f)
						}
					}
				}
			}
		})
	}
	var found []*types.Func
	var notes []string
	c.P.Funcs(func(pk *pkgT, fd *ast.FuncDecl) {
		info := pk.TypesInfo
		ast.Inspect(fd.Body, func(n ast.Node) bool {
			as, ok := n.(*ast.AssignStmt)
			if !ok {
				return true
			}
			for i, l := range as.Lhs {
				if !fieldSel(info, l, parent) || i >= len(as.Rhs) {
					continue
				}
				if tv, ok := info.Types[as.Rhs[i]]; ok && tv.IsNil() {
					continue // clearing the link (copy without parent)
				}
				if f, ok := info.Defs[fd.Name].(*types.Func); ok {
					found = append(found, f)
					notes = append(notes, c.P.Pos(as.Pos()))
				}
			}
			return true
		})
	})
	if len(found) == 0 {
		return nil, nil
	}
	// the root of the family: among the functions that take the root list by address, the
	// one that is not called by another of them
	var root *types.Func
	for _, r := range byRole {
		calledByOther := false
		for _, cs := range c.callSitesOf(r) {
			caller := declObj(cs)
			for _, o := range byRole {
				if o != r && caller == o {
					calledByOther = true
				}
			}
		}
		if !calledByOther {
			if root != nil {
				root = nil
				break
			}
			root = r
		}
	}
	if root != nil {
		fam := c.familyOf(root)
		for _, f := range found {
			if !fam[f] {
				return nil, notes
			}
		}
		return root, notes
	}
	for _, f := range found[1:] {
		if f != found[0] {
			return nil, notes
		}
	}
	return found[0], notes
}

// familyOf: root plus the unexported functions of its package that it reaches statically
// and that nobody outside the family calls (helpers extracted from it).
func (c *Ctx) familyOf(root *types.Func) map[*types.Func]bool {
	fam := map[*types.Func]bool{root: true}
	rd := c.P.Decl(root)
	if rd == nil {
		return fam
	}
	pk := c.P.PkgOfDecl(rd)
	cand := reachStatic(c.P, pk, []*types.Func{root})
	for changed := true; changed; {
		changed = false
		for _, f := range cand {
			if fam[f] || f.Exported() {
				continue
			}
			sites := c.callSitesOf(f)
			if len(sites) == 0 || c.usedAsValue(f) {
				continue
			}
			all := true
			for _, cs := range sites {
				if caller := declObj(cs); caller == nil || !fam[caller] {
					all = false
				}
			}
			if all {
				fam[f] = true
				changed = true
			}
		}
	}
	return fam
}

// resolverFamily returns the context resolver and its family of helpers.
func (c *Ctx) resolverFamily() (*types.Func, map[*types.Func]bool) {
	r, _ := c.resolverFunc()
	if r == nil {
		return nil, nil
	}
	return r, c.familyOf(r)
}

// RuleR1: one resolver builds the tree in both phases.
func RuleR1(c *Ctx) {
	sc := c.Run.Begin("R1", "exactly one function links a directive to its parent; every Parent store, every AppendChild and every insert into a root directive list happens in it, and both tree-building phases (after scanning, after PASTE expansion) call it", 1)
	defer sc.End()
	resolver, sites := c.resolverFunc()
	if resolver == nil {
		if len(sites) > 0 {
			sc.Violation("resolver", sites[0], "Directive.Parent is linked in more than one function ("+strings.Join(sites, ", ")+"): the tree after PASTE expansion is no longer built by the same resolution as the tree after scanning")
		} else {
			sc.Undecided("resolver", "-", "unresolved anchor: no function stores a non-nil Directive.Parent")
		}
		return
	}
	sc.Holds("resolver", sites[0], "the single context resolver is "+resolver.Name())
	fam := c.familyOf(resolver)
	appendChild := c.Func("directive", "Directive.AppendChild")
	children := c.Field("directive", "Directive", "Children")
	roots := []*types.Var{c.Field("core", "JApiCore", "directives"), c.Field("core", "JApiCore", "directivesWithPastes")}
	n := 0
	c.P.Funcs(func(pk *pkgT, fd *ast.FuncDecl) {
		info := pk.TypesInfo
		self, _ := info.Defs[fd.Name].(*types.Func)
		inResolver := fam[self]
		ast.Inspect(fd.Body, func(x ast.Node) bool {
			switch s := x.(type) {
			case *ast.CallExpr:
				if f := Callee(info, s); f != nil && f == appendChild {
					n++
					key := fmt.Sprintf("AppendChild:%s#%d", c.P.DeclName(fd), n)
					if inResolver {
						sc.Holds(key, c.P.Pos(s.Pos()), "in the resolver")
					} else {
						sc.Violation(key, c.P.Pos(s.Pos()), "a child is attached outside the context resolver: this directive bypasses the nearest-admitting-parent walk")
					}
				}
			case *ast.AssignStmt:
				for i, l := range s.Lhs {
					if i >= len(s.Rhs) {
						continue
					}
					// stores into Children outside AppendChild / the copy helper
					if fieldSel(info, l, children) && self != appendChild {
						if tv, ok := info.Types[s.Rhs[i]]; ok && tv.IsNil() {
							continue
						}
						n++
						sc.Violation(fmt.Sprintf("Children:%s#%d", c.P.DeclName(fd), n), c.P.Pos(s.Pos()), "Directive.Children is assigned outside AppendChild: the tree is edited behind the resolver's back")
					}
					// inserts into the root lists
					for _, rf := range roots {
						if rf == nil || !fieldSel(info, l, rf) {
							continue
						}
						n++
						key := fmt.Sprintf("root:%s:%s#%d", rf.Name(), c.P.DeclName(fd), n)
						switch rootStoreKind(info, l, s.Rhs[i]) {
						case "make", "remove":
							sc.Holds(key, c.P.Pos(s.Pos()), "initialisation / removal, not an insert")
						default:
							if inResolver {
								sc.Holds(key, c.P.Pos(s.Pos()), "in the resolver")
							} else {
								sc.Violation(key, c.P.Pos(s.Pos()), "a directive is inserted into the root list "+rf.Name()+" outside the context resolver")
							}
						}
					}
				}
			case *ast.UnaryExpr:
				// &core.directives handed out: only to the resolver
				if s.Op == token.AND {
					for _, rf := range roots {
						if rf != nil && fieldSel(info, s.X, rf) {
							n++
							key := fmt.Sprintf("rootptr:%s:%s#%d", rf.Name(), c.P.DeclName(fd), n)
							call := enclosingCall(fd.Body, s)
							if call != nil && Callee(info, call) == resolver {
								sc.Holds(key, c.P.Pos(s.Pos()), "root list handed to the resolver only")
							} else {
								sc.Violation(key, c.P.Pos(s.Pos()), "the address of root list "+rf.Name()+" escapes to something other than the resolver")
							}
						}
					}
				}
			}
			return true
		})
	})
	// both phases call the resolver: its call sites lie in at least two functions, one
	// reachable from the scan stage and one from the later stages
	callers := c.callSitesOf(resolver)
	scan := c.scanStage()
	later := c.laterStages()
	fromScan, fromLater := false, false
	for _, cs := range callers {
		f := declObj(cs)
		if f == nil {
			continue
		}
		if scan != nil && (f == scan || c.reachFromAny([]*types.Func{scan}, f) != "") {
			fromScan = true
		}
		if len(later) > 0 && c.reachFromAny(later, f) != "" {
			fromLater = true
		}
	}
	if fromScan && fromLater {
		sc.Holds("phases", c.P.Pos(c.P.Decl(resolver).Pos()), fmt.Sprintf("%d call sites; reached from the scan stage and from the paste-expansion stage", len(callers)))
	} else {
		sc.Violation("phases", c.P.Pos(c.P.Decl(resolver).Pos()), fmt.Sprintf("the resolver is not used by both tree-building phases (scan=%v, paste expansion=%v): pasted directives would be nested by different rules than written ones", fromScan, fromLater))
	}
}

func rootStoreKind(info *types.Info, lhs ast.Expr, rhs ast.Expr) string {
	call, ok := ast.Unparen(rhs).(*ast.CallExpr)
	if !ok {
		return "other"
	}
	if id, ok := call.Fun.(*ast.Ident); ok {
		if id.Name == "make" {
			return "make"
		}
		if id.Name == "append" && len(call.Args) == 2 && call.Ellipsis.IsValid() {
			// append(l[:i], l[i+1:]...) removes an element
			a, ok1 := call.Args[0].(*ast.SliceExpr)
			b, ok2 := call.Args[1].(*ast.SliceExpr)
			if ok1 && ok2 && cfgx.SameExpr(info, a.X, lhs) && cfgx.SameExpr(info, b.X, lhs) {
				return "remove"
			}
		}
	}
	return "other"
}

// RuleR2: the parenthesis protocol is wired end to end.
func RuleR2(c *Ctx) {
	sc := c.Run.Begin("R2", "HasExplicitContext is set only by the handler of the '(' lexeme; the ')' handler reaches the walk that stops at it; the scan stage cannot return success without the unclosed-context test having failed to find one", 1)
	defer sc.End()
	pk := c.P.Pkg("core")
	flag := c.Field("directive", "Directive", "HasExplicitContext")
	_, handlers, _ := c.lexemeDispatch()
	if pk == nil || flag == nil || len(handlers) == 0 {
		sc.Undecided("anchors", "-", "unresolved anchor: Directive.HasExplicitContext / lexeme dispatch")
		return
	}
	// stores of the flag
	openers := map[*types.Func]bool{}
	for _, f := range reachStatic(c.P, pk, handlers["ContextExplicitOpening"]) {
		openers[f] = true
	}
	n := 0
	c.P.Funcs(func(p *pkgT, fd *ast.FuncDecl) {
		info := p.TypesInfo
		ast.Inspect(fd.Body, func(x ast.Node) bool {
			as, ok := x.(*ast.AssignStmt)
			if !ok {
				return true
			}
			for _, l := range as.Lhs {
				if !fieldSel(info, l, flag) {
					continue
				}
				n++
				key := fmt.Sprintf("set:%s#%d", c.P.DeclName(fd), n)
				self, _ := info.Defs[fd.Name].(*types.Func)
				if openers[self] {
					sc.Holds(key, c.P.Pos(as.Pos()), "set by the '(' handler")
				} else {
					sc.Violation(key, c.P.Pos(as.Pos()), "HasExplicitContext is written outside the handler of the '(' lexeme: a context becomes (or stops being) a parenthesised boundary without a parenthesis")
				}
			}
			return true
		})
	})
	if n == 0 {
		sc.Violation("set", "-", "nothing sets HasExplicitContext: explicit contexts are never opened")
	}
	// the ')' handler reaches a reader of the flag that also moves along Parent
	closerReads := false
	for _, f := range reachStatic(c.P, pk, handlers["ContextExplicitClosing"]) {
		fd := c.P.Decl(f)
		reads, walks := false, false
		ast.Inspect(fd.Body, func(x ast.Node) bool {
			if sel, ok := x.(*ast.SelectorExpr); ok {
				if pk.TypesInfo.ObjectOf(sel.Sel) == flag {
					reads = true
				}
				if v, ok := pk.TypesInfo.ObjectOf(sel.Sel).(*types.Var); ok && v.Name() == "Parent" && v.IsField() {
					walks = true
				}
			}
			return true
		})
		if reads && walks {
			closerReads = true
		}
	}
	if closerReads {
		sc.Holds("close", "-", "the ')' handler reaches the walk up the Parent chain that stops at the flagged directive")
	} else {
		sc.Violation("close", "-", "the ')' handler no longer reaches a walk over Parent that tests HasExplicitContext: ')' cannot find the context it closes")
	}
	// end of input: success of the scan stage requires the unclosed test to be negative
	unclosed := c.Func("core", "JApiCore.HasUnclosedExplicitContext")
	scan := c.scanStage()
	if unclosed == nil || scan == nil {
		sc.Undecided("eof", "-", "unresolved anchor: HasUnclosedExplicitContext / scan stage")
		return
	}
	// E: the function that calls it; every `return nil` of E is dominated by the call being false
	var eofFn *types.Func
	for _, cs := range c.callSitesOf(unclosed) {
		info := cs.Pk.TypesInfo
		cf := c.CFG(cs.Pk, cs.Body)
		f := declObj(cs)
		ok := true
		nRet := 0
		ast.Inspect(cs.Body, func(x ast.Node) bool {
			ret, isRet := x.(*ast.ReturnStmt)
			if !isRet || len(ret.Results) != 1 {
				return true
			}
			if tv, has := info.Types[ret.Results[0]]; !has || !tv.IsNil() {
				return true
			}
			nRet++
			gen := func(fa cfgx.Fact) bool {
				call, isCall := ast.Unparen(fa.Expr).(*ast.CallExpr)
				return isCall && Callee(info, call) == unclosed && !fa.Truth
			}
			if !cf.MustAt(ret, gen, nil, nil) {
				ok = false
			}
			return true
		})
		if ok && nRet > 0 {
			eofFn = f
			sc.Holds("eof:"+f.Name(), c.P.Pos(cs.Call.Pos()), "returns nil only when no explicit context is left open")
		} else {
			sc.Violation("eof:"+f.Name(), c.P.Pos(cs.Call.Pos()), "end of input can be accepted while a parenthesised context is still open")
		}
	}
	if eofFn == nil {
		sc.Violation("eof", "-", "HasUnclosedExplicitContext is never consulted")
		return
	}
	// the scan stage returns nil only after eofFn returned nil
	sfd := c.P.Decl(scan)
	spk := c.P.PkgOfDecl(sfd)
	scf := c.CFG(spk, sfd.Body)
	okAll := true
	ast.Inspect(sfd.Body, func(x ast.Node) bool {
		if _, isLit := x.(*ast.FuncLit); isLit {
			return false
		}
		ret, isRet := x.(*ast.ReturnStmt)
		if !isRet || len(ret.Results) != 1 {
			return true
		}
		if tv, has := spk.TypesInfo.Types[ret.Results[0]]; !has || !tv.IsNil() {
			return true
		}
		gen := func(fa cfgx.Fact) bool {
			be, isBe := ast.Unparen(fa.Expr).(*ast.BinaryExpr)
			if !isBe {
				return false
			}
			id, isId := ast.Unparen(be.X).(*ast.Ident)
			if !isId {
				return false
			}
			def, isCall := ast.Unparen(scf.Resolve(id)).(*ast.CallExpr)
			if !isCall || Callee(spk.TypesInfo, def) != eofFn {
				return false
			}
			return (be.Op == token.NEQ && !fa.Truth) || (be.Op == token.EQL && fa.Truth)
		}
		if !scf.MustAt(ret, gen, nil, nil) {
			okAll = false
		}
		return true
	})
	if okAll {
		sc.Holds("eof:scan", c.P.Pos(sfd.Pos()), "the scan stage returns success only after the end-of-input test succeeded")
	} else {
		sc.Violation("eof:scan", c.P.Pos(sfd.Pos()), "the scan stage can return success without the end-of-input test")
	}
}

// RuleR3: inside the resolver's walk, every test about the candidate context reads
// the candidate afresh.
func RuleR3(c *Ctx) {
	sc := c.Run.Begin("R3", "in the loop that walks outwards over candidate contexts, no value computed before the loop from the candidate (the loop-variant field) is used inside it: every admissibility test refers to the current candidate, not to the one the walk started from", 1)
	defer sc.End()
	resolver, _ := c.resolverFunc()
	fd := c.P.Decl(resolver)
	if fd == nil {
		sc.Undecided("resolver", "-", "unresolved anchor: the context resolver")
		return
	}
	pk := c.P.PkgOfDecl(fd)
	info := pk.TypesInfo
	n := 0
	ast.Inspect(fd.Body, func(x ast.Node) bool {
		fs, ok := x.(*ast.ForStmt)
		if !ok {
			return true
		}
		// loop-variant fields: struct fields assigned in the loop body
		variant := map[*types.Var]bool{}
		ast.Inspect(fs.Body, func(y ast.Node) bool {
			if as, ok := y.(*ast.AssignStmt); ok {
				for _, l := range as.Lhs {
					if sel, ok := ast.Unparen(l).(*ast.SelectorExpr); ok {
						if v, ok := info.ObjectOf(sel.Sel).(*types.Var); ok && v.IsField() {
							variant[v] = true
						}
					}
				}
			}
			return true
		})
		if len(variant) == 0 {
			return true
		}
		n++
		mentionsVariant := func(e ast.Node) bool {
			found := false
			ast.Inspect(e, func(y ast.Node) bool {
				if sel, ok := y.(*ast.SelectorExpr); ok {
					if v, ok := info.ObjectOf(sel.Sel).(*types.Var); ok && variant[v] {
						found = true
					}
				}
				return !found
			})
			return found
		}
		// locals defined before the loop from the variant field
		stale := map[types.Object]string{}
		ast.Inspect(fd.Body, func(y ast.Node) bool {
			as, ok := y.(*ast.AssignStmt)
			if !ok || as.Pos() >= fs.Pos() {
				return true
			}
			for i, l := range as.Lhs {
				if id, ok := l.(*ast.Ident); ok && i < len(as.Rhs) && mentionsVariant(as.Rhs[i]) {
					stale[info.ObjectOf(id)] = c.P.Pos(as.Pos())
				}
			}
			return true
		})
		bad := ""
		ast.Inspect(fs.Body, func(y ast.Node) bool {
			if id, ok := y.(*ast.Ident); ok {
				if where, isStale := stale[info.ObjectOf(id)]; isStale {
					bad = fmt.Sprintf("%s (computed at %s, before the walk) is used at %s", id.Name, where, c.P.Pos(id.Pos()))
				}
			}
			return true
		})
		key := fmt.Sprintf("%s:walk#%d", c.P.DeclName(fd), n)
		if bad == "" {
			sc.Holds(key, c.P.Pos(fs.Pos()), "every test inside the walk reads the current candidate")
		} else {
			sc.Violation(key, c.P.Pos(fs.Pos()), bad+": the walk moves the candidate context outwards, but this value still describes the context it started from — a directive can be placed (or refused) by the rule for the wrong candidate")
		}
		return true
	})
	if n == 0 {
		sc.Undecided("walk", c.P.Pos(fd.Pos()), "no loop that moves a candidate field found in the resolver")
	}
}

// RuleR4: the resolver leaves a directive in exactly one place. At every success return
// of the context resolver the directive was either (a) linked - its Parent was set AND
// that same parent appended it to its children - or (b) inserted into the root list with
// no Parent store and no AppendChild on any path to that return. A hoisted directive
// that keeps a Parent pointer to a URL which does not list it (or a child listed by a
// parent it does not point to) inherits that URL's path-independent attributes (Tags)
// while being catalogued as a root interaction.
func RuleR4(c *Ctx) {
	sc := c.Run.Begin("R4", "at every success return of the context resolver the directive is linked (Parent set and appended to that parent's children) or rooted (inserted into the root list, Parent untouched), never a mixture and never neither", 1)
	defer sc.End()
	resolver, fam := c.resolverFamily()
	parent := c.Field("directive", "Directive", "Parent")
	appendChild := c.Func("directive", "Directive.AppendChild")
	if resolver == nil || parent == nil || appendChild == nil {
		sc.Undecided("anchors", "-", "unresolved anchor: context resolver / Directive.Parent / Directive.AppendChild")
		return
	}
	fd := c.P.Decl(resolver)
	pk := c.P.PkgOfDecl(fd)
	info := pk.TypesInfo
	cf := c.CFG(pk, fd.Body)
	name := c.P.DeclName(fd)
	// direct events in a node, for any function of the family (root-list parameters are
	// the parameters of type *[]T of the function the node belongs to)
	rootParamsOf := func(d *ast.FuncDecl) map[types.Object]bool {
		out := map[types.Object]bool{}
		for _, fl := range d.Type.Params.List {
			for _, id := range fl.Names {
				if pt, ok := info.ObjectOf(id).Type().(*types.Pointer); ok {
					if _, isSlice := pt.Elem().Underlying().(*types.Slice); isSlice {
						out[info.ObjectOf(id)] = true
					}
				}
			}
		}
		return out
	}
	directStore := func(nd ast.Node) bool {
		hit := false
		inspectNoLit(nd, func(x ast.Node) bool {
			as, ok := x.(*ast.AssignStmt)
			if !ok {
				return true
			}
			for i, l := range as.Lhs {
				if !fieldSel(info, l, parent) || i >= len(as.Rhs) {
					continue
				}
				if tv, ok := info.Types[as.Rhs[i]]; ok && tv.IsNil() {
					continue
				}
				hit = true
			}
			return true
		})
		return hit
	}
	directAppend := func(nd ast.Node) bool {
		hit := false
		inspectNoLit(nd, func(x ast.Node) bool {
			if call, ok := x.(*ast.CallExpr); ok && Callee(info, call) == appendChild {
				hit = true
			}
			return true
		})
		return hit
	}
	directRoot := func(rootParams map[types.Object]bool) func(ast.Node) bool {
		return func(nd ast.Node) bool {
			return cfgx.Assigns(nd, func(lhs ast.Expr) bool {
				st, ok := ast.Unparen(lhs).(*ast.StarExpr)
				if !ok {
					return false
				}
				id, ok := ast.Unparen(st.X).(*ast.Ident)
				return ok && rootParams[info.ObjectOf(id)]
			})
		}
	}
	// summaries of the helpers of the family: what they do on every path (statements at
	// the top level of the body) and what they may do (anywhere in the body)
	type summ struct{ mustS, mayS, mustA, mayA, mustR, mayR bool }
	sums := map[*types.Func]summ{}
	for f := range fam {
		if f == resolver {
			continue
		}
		hd := c.P.Decl(f)
		if hd == nil || c.P.PkgOfDecl(hd) != pk {
			continue
		}
		var sm summ
		dr := directRoot(rootParamsOf(hd))
		sm.mayS, sm.mayA, sm.mayR = directStore(hd.Body), directAppend(hd.Body), dr(hd.Body)
		for _, st := range hd.Body.List {
			if _, isRet := st.(*ast.ReturnStmt); isRet {
				break
			}
			switch st.(type) {
			case *ast.IfStmt, *ast.ForStmt, *ast.RangeStmt, *ast.SwitchStmt, *ast.TypeSwitchStmt, *ast.SelectStmt, *ast.BlockStmt:
				continue
			}
			sm.mustS = sm.mustS || directStore(st)
			sm.mustA = sm.mustA || directAppend(st)
			sm.mustR = sm.mustR || dr(st)
		}
		sums[f] = sm
	}
	viaHelper := func(nd ast.Node, pick func(summ) bool) bool {
		hit := false
		inspectNoLit(nd, func(x ast.Node) bool {
			if call, ok := x.(*ast.CallExpr); ok {
				if g := Callee(info, call); g != nil {
					if sm, ok := sums[g]; ok && pick(sm) {
						hit = true
					}
				}
			}
			return true
		})
		return hit
	}
	rootOfResolver := directRoot(rootParamsOf(fd))
	mustStore := func(nd ast.Node) bool { return directStore(nd) || viaHelper(nd, func(s summ) bool { return s.mustS }) }
	mayStore := func(nd ast.Node) bool { return directStore(nd) || viaHelper(nd, func(s summ) bool { return s.mayS }) }
	mustAppend := func(nd ast.Node) bool { return directAppend(nd) || viaHelper(nd, func(s summ) bool { return s.mustA }) }
	mayAppend := func(nd ast.Node) bool { return directAppend(nd) || viaHelper(nd, func(s summ) bool { return s.mayA }) }
	mustRoot := func(nd ast.Node) bool {
		return rootOfResolver(nd) || viaHelper(nd, func(s summ) bool { return s.mustR })
	}
	mayRoot := func(nd ast.Node) bool {
		return rootOfResolver(nd) || viaHelper(nd, func(s summ) bool { return s.mayR })
	}
	// the parent that is stored is the parent that lists the child - judged in each function
	// of the family that appends a child
	nPair := 0
	for f := range fam {
		hd := c.P.Decl(f)
		if hd == nil || c.P.PkgOfDecl(hd) != pk {
			continue
		}
		hcf := c.CFG(pk, hd.Body)
		var storeRHS, appendRecv []ast.Expr
		ast.Inspect(hd.Body, func(x ast.Node) bool {
			switch st := x.(type) {
			case *ast.AssignStmt:
				for i, l := range st.Lhs {
					if fieldSel(info, l, parent) && i < len(st.Rhs) {
						if tv, ok := info.Types[st.Rhs[i]]; ok && tv.IsNil() {
							continue
						}
						storeRHS = append(storeRHS, st.Rhs[i])
					}
				}
			case *ast.CallExpr:
				if Callee(info, st) == appendChild {
					if sel, ok := ast.Unparen(st.Fun).(*ast.SelectorExpr); ok {
						appendRecv = append(appendRecv, sel.X)
					}
				}
			}
			return true
		})
		for i, r := range appendRecv {
			same := false
			for _, st := range storeRHS {
				if hcf.SameResolved(r, st) {
					same = true
				}
			}
			nPair++
			key := fmt.Sprintf("pair:%s#%d", c.P.DeclName(hd), i+1)
			if same {
				sc.Holds(key, c.P.Pos(r.Pos()), "the directive is appended to the children of the value stored in its Parent")
			} else {
				sc.Violation(key, c.P.Pos(r.Pos()), "a directive is appended to the children of "+types.ExprString(r)+", which is not what any Parent store of that function writes: Parent and Children disagree")
			}
		}
	}
	nRet := 0
	ast.Inspect(fd.Body, func(x ast.Node) bool {
		if _, isLit := x.(*ast.FuncLit); isLit {
			return false
		}
		ret, ok := x.(*ast.ReturnStmt)
		if !ok || len(ret.Results) != 1 {
			return true
		}
		if tv, has := info.Types[ret.Results[0]]; !has || !tv.IsNil() {
			return true
		}
		nRet++
		must := func(p func(ast.Node) bool) bool { return cf.MustAt(ret, nil, p, nil) }
		may := func(p func(ast.Node) bool) bool { return !cf.MustAtInit(ret, true, nil, nil, p) }
		mustS, mayS := must(mustStore), may(mayStore)
		mustA, mayA := must(mustAppend), may(mayAppend)
		mustR, mayR := must(mustRoot), may(mayRoot)
		key := fmt.Sprintf("exit:%s#%d", name, nRet)
		switch {
		case mustS && mustA && !mayR:
			sc.Holds(key, c.P.Pos(ret.Pos()), "linked: Parent stored and AppendChild called on every path, no root insert")
		case mustR && !mayS && !mayA:
			sc.Holds(key, c.P.Pos(ret.Pos()), "rooted: inserted into the root list, Parent never stored, never appended as a child")
		default:
			sc.Violation(key, c.P.Pos(ret.Pos()), fmt.Sprintf("the resolver can return success with the directive in an inconsistent place (Parent stored: must=%v may=%v; appended as child: must=%v may=%v; inserted as root: must=%v may=%v): a directive that keeps a Parent which does not list it inherits that parent's Tags/path context while catalogued elsewhere, or is listed twice, or nowhere", mustS, mayS, mustA, mayA, mustR, mayR))
		}
		return true
	})
	if nRet == 0 {
		sc.Violation("exit", c.P.Pos(fd.Pos()), "the resolver has no success return")
	}
	if nPair == 0 {
		sc.Violation("pair", c.P.Pos(fd.Pos()), "no function of the resolver's family appends a child")
	}
}

// inspectNoLit is ast.Inspect that does not enter function literals.
func inspectNoLit(n ast.Node, fn func(ast.Node) bool) {
	ast.Inspect(n, func(x ast.Node) bool {
		if _, isLit := x.(*ast.FuncLit); isLit {
			return false
		}
		return fn(x)
	})
}

// RuleR5: outside the resolver the current context only moves outwards. Every store into
// the core's current-context field that is not in the context resolver assigns nil or a
// `.Parent` selection: closing a parenthesised directive leaves its parent current. A
// context restored from a value saved earlier (before the resolver moved it) points into
// a sibling's finished subtree whenever placing the directive needed a walk upwards.
func RuleR5(c *Ctx) {
	sc := c.Run.Begin("R5", "outside the context resolver the current-context field is assigned only nil or a .Parent selection (the context moves outwards along Parent links; only the resolver moves it inwards)", 1)
	defer sc.End()
	resolver, _ := c.resolverFunc()
	parent := c.Field("directive", "Directive", "Parent")
	if resolver == nil || parent == nil {
		sc.Undecided("anchors", "-", "unresolved anchor: context resolver / Directive.Parent")
		return
	}
	// the current-context field: the field of JApiCore that the resolver assigns the
	// directive it places to
	rfd := c.P.Decl(resolver)
	rpk := c.P.PkgOfDecl(rfd)
	dirT := c.Named("directive", "Directive")
	coreT := c.Named("core", "JApiCore")
	var ctxField *types.Var
	var famBodies []ast.Node
	for f := range c.familyOf(resolver) {
		if d := c.P.Decl(f); d != nil {
			famBodies = append(famBodies, d.Body)
		}
	}
	for _, fb := range famBodies {
		ast.Inspect(fb, func(n ast.Node) bool {
			as, ok := n.(*ast.AssignStmt)
			if !ok || len(as.Lhs) != 1 {
				return true
			}
			if sel, ok := ast.Unparen(as.Lhs[0]).(*ast.SelectorExpr); ok {
				if f, ok := rpk.TypesInfo.ObjectOf(sel.Sel).(*types.Var); ok && f.IsField() && coreT != nil && fieldOwner(coreT, f) {
					if p, ok := f.Type().(*types.Pointer); ok && dirT != nil && types.Identical(p.Elem(), dirT) {
						ctxField = f
					}
				}
			}
			return true
		})
	}
	if ctxField == nil {
		sc.Undecided("anchors", c.P.Pos(rfd.Pos()), "the resolver assigns no *Directive field of JApiCore")
		return
	}
	perFn := map[*ast.FuncDecl]int{}
	r5fam := c.familyOf(resolver)
	c.P.Funcs(func(pk *pkgT, fd *ast.FuncDecl) {
		info := pk.TypesInfo
		self, _ := info.Defs[fd.Name].(*types.Func)
		if self == resolver || r5fam[self] {
			return
		}
		cf := c.CFG(pk, fd.Body)
		ast.Inspect(fd.Body, func(n ast.Node) bool {
			as, ok := n.(*ast.AssignStmt)
			if !ok {
				return true
			}
			for i, l := range as.Lhs {
				if !fieldSel(info, l, ctxField) || i >= len(as.Rhs) {
					continue
				}
				perFn[fd]++
				key := fmt.Sprintf("%s#%d", c.P.DeclName(fd), perFn[fd])
				rhs := ast.Unparen(cf.Resolve(as.Rhs[i]))
				if tv, ok := info.Types[rhs]; ok && tv.IsNil() {
					sc.Holds(key, c.P.Pos(as.Pos()), "reset to the root context")
					continue
				}
				if sel, ok := rhs.(*ast.SelectorExpr); ok && info.ObjectOf(sel.Sel) == parent {
					sc.Holds(key, c.P.Pos(as.Pos()), "moves outwards: "+types.ExprString(rhs))
					continue
				}
				sc.Violation(key, c.P.Pos(as.Pos()), "the current context is set to "+types.ExprString(as.Rhs[i])+" outside the resolver, which is neither nil nor the Parent of a directive: after a parenthesised directive the next one starts its walk from a stale place (inside a previous sibling's finished subtree) and is attached to, or admitted by, the wrong directive")
			}
			return true
		})
	})
	// leaving a context is decided with its parenthesis in view: every step outwards
	// (`ctx = X.Parent`), in the resolver and outside it, is taken on a path on which a
	// HasExplicitContext flag was tested - an open `(` is a barrier the walk stops at (the
	// resolver), the thing a `)` looks for (the closing handler), or what tells a pasted
	// parenthesised block from an open one (the paste pass)
	flag := c.Field("directive", "Directive", "HasExplicitContext")
	if flag == nil {
		sc.Undecided("boundary", "-", "unresolved anchor: Directive.HasExplicitContext")
		return
	}
	perFn2 := map[*ast.FuncDecl]int{}
	c.P.Funcs(func(pk *pkgT, fd *ast.FuncDecl) {
		info := pk.TypesInfo
		ast.Inspect(fd.Body, func(n ast.Node) bool {
			as, ok := n.(*ast.AssignStmt)
			if !ok {
				return true
			}
			for i, l := range as.Lhs {
				if !fieldSel(info, l, ctxField) || i >= len(as.Rhs) {
					continue
				}
				body := innermostBody(fd, as)
				cf := c.CFG(pk, body.body)
				rhs := ast.Unparen(cf.Resolve(as.Rhs[i]))
				sel, ok := rhs.(*ast.SelectorExpr)
				if !ok || info.ObjectOf(sel.Sel) != types.Object(parent) {
					continue
				}
				perFn2[fd]++
				key := fmt.Sprintf("boundary:%s#%d", c.P.DeclName(fd), perFn2[fd])
				asked := func(fa cfgx.Fact) bool {
					found := false
					ast.Inspect(fa.Expr, func(y ast.Node) bool {
						if s2, ok := y.(*ast.SelectorExpr); ok && info.ObjectOf(s2.Sel) == types.Object(flag) {
							found = true
						}
						return !found
					})
					return found
				}
				// a value of the flag saved in a local just before (`was := ctx.HasExplicitContext`)
				savedFlag := func(nd ast.Node) bool {
					a2, ok := nd.(*ast.AssignStmt)
					if !ok {
						return false
					}
					for _, r := range a2.Rhs {
						if s2, ok := ast.Unparen(r).(*ast.SelectorExpr); ok && info.ObjectOf(s2.Sel) == types.Object(flag) {
							return true
						}
					}
					return false
				}
				byFinder := false
				if call, ok := ast.Unparen(cf.Resolve(sel.X)).(*ast.CallExpr); ok {
					if gd := c.P.Decl(Callee(info, call)); gd != nil && gd.Body != nil {
						ginfo := c.P.PkgOfDecl(gd).TypesInfo
						ast.Inspect(gd.Body, func(y ast.Node) bool {
							if s2, ok := y.(*ast.SelectorExpr); ok && ginfo.ObjectOf(s2.Sel) == types.Object(flag) {
								byFinder = true
							}
							return !byFinder
						})
					}
				}
				if byFinder {
					sc.Holds(key, c.P.Pos(as.Pos()), "the directive that is left was picked by a finder that looks at the parenthesis flag")
				} else if cf.MustAt(as, asked, savedFlag, nil) {
					sc.Holds(key, c.P.Pos(as.Pos()), "the step outwards is taken with the parenthesis flag in view")
				} else {
					sc.Violation(key, c.P.Pos(as.Pos()), "the context is moved outwards ("+types.ExprString(as.Rhs[i])+") without the HasExplicitContext flag having been looked at: the walk leaves a directive whose `(` is still open, so a directive written inside the parentheses is attached outside them and the unclosed parenthesis is no longer noticed")
				}
			}
			return true
		})
	})
}

// RuleR2c: the `)` handler succeeds only after it found a parenthesised context. In the
// function that walks the Parent chain for the flagged directive every success return is
// behind the fact "HasExplicitContext is true" (tested there, or by a helper whose non-nil
// results are all behind that fact).
func RuleR2c(c *Ctx) {
	sc := c.Run.Begin("R2c", "the function that closes a parenthesised context returns success only after a directive with HasExplicitContext was found on the walk", 1)
	defer sc.End()
	pk := c.P.Pkg("core")
	flag := c.Field("directive", "Directive", "HasExplicitContext")
	_, handlers, _ := c.lexemeDispatch()
	if pk == nil || flag == nil || len(handlers) == 0 {
		sc.Undecided("anchors", "-", "unresolved anchor: Directive.HasExplicitContext / lexeme dispatch")
		return
	}
	info := pk.TypesInfo
	hasFlag := func(fa cfgx.Fact) bool {
		sel, ok := ast.Unparen(fa.Expr).(*ast.SelectorExpr)
		return ok && info.ObjectOf(sel.Sel) == flag && fa.Truth
	}
	mentionsFlag := func(fd *ast.FuncDecl) bool {
		hit := false
		ast.Inspect(fd.Body, func(n ast.Node) bool {
			if sel, ok := n.(*ast.SelectorExpr); ok && info.ObjectOf(sel.Sel) == flag {
				hit = true
			}
			return true
		})
		return hit
	}
	// a finder: every non-nil result is behind the fact
	finder := func(g *types.Func) bool {
		gd := c.P.Decl(g)
		if gd == nil || c.P.PkgOfDecl(gd) != pk || !mentionsFlag(gd) {
			return false
		}
		cf := c.CFG(pk, gd.Body)
		ok, n := true, 0
		inspectNoLit(gd.Body, func(x ast.Node) bool {
			ret, isRet := x.(*ast.ReturnStmt)
			if !isRet || len(ret.Results) != 1 {
				return true
			}
			if tv, has := info.Types[ret.Results[0]]; has && tv.IsNil() {
				return true
			}
			n++
			// ... or, on the paths where the fact is missing, the result is known to be nil
			res := ret.Results[0]
			orNil := func(fa cfgx.Fact) bool {
				if hasFlag(fa) {
					return true
				}
				be, isBin := ast.Unparen(fa.Expr).(*ast.BinaryExpr)
				if !isBin || !((be.Op == token.EQL && fa.Truth) || (be.Op == token.NEQ && !fa.Truth)) {
					return false
				}
				x := be.X
				if isNilIdentExpr(info, x) {
					x = be.Y
				} else if !isNilIdentExpr(info, be.Y) {
					return false
				}
				return cfgx.SameExpr(info, x, res)
			}
			if !cf.MustAt(ret, orNil, nil, nil) {
				ok = false
			}
			return true
		})
		return ok && n > 0
	}
	n := 0
	resolver, _ := c.resolverFunc()
	inResolver := map[*types.Func]bool{}
	if resolver != nil {
		for _, f := range reachStatic(c.P, pk, []*types.Func{resolver}) {
			inResolver[f] = true
		}
		for f := range c.familyOf(resolver) {
			inResolver[f] = true
		}
	}
	for _, f := range reachStatic(c.P, pk, handlers["ContextExplicitClosing"]) {
		fd := c.P.Decl(f)
		if fd == nil || inResolver[f] {
			continue // placing the pending directive is the resolver's business (R1-R4)
		}
		sig := f.Type().(*types.Signature)
		if sig.Results().Len() != 1 || !isErrorLike(sig.Results().At(0).Type()) {
			continue
		}
		cf := c.CFG(pk, fd.Body)
		// does this function decide the closing? it tests the flag itself or calls a finder
		usesFinder := false
		ast.Inspect(fd.Body, func(x ast.Node) bool {
			if call, ok := x.(*ast.CallExpr); ok {
				if g := Callee(info, call); g != nil && g != f && finder(g) {
					usesFinder = true
				}
			}
			return true
		})
		if !mentionsFlag(fd) && !usesFinder {
			continue
		}
		gen := func(fa cfgx.Fact) bool {
			if hasFlag(fa) {
				return true
			}
			be, ok := ast.Unparen(fa.Expr).(*ast.BinaryExpr)
			if !ok || !((be.Op == token.NEQ && fa.Truth) || (be.Op == token.EQL && !fa.Truth)) {
				return false
			}
			x := be.X
			if isNilIdentExpr(info, x) {
				x = be.Y
			}
			call, ok := ast.Unparen(cf.Resolve(x)).(*ast.CallExpr)
			if !ok {
				return false
			}
			g := Callee(info, call)
			return g != nil && finder(g)
		}
		bad := ""
		rets := 0
		inspectNoLit(fd.Body, func(x ast.Node) bool {
			ret, isRet := x.(*ast.ReturnStmt)
			if !isRet || len(ret.Results) != 1 {
				return true
			}
			if tv, has := info.Types[ret.Results[0]]; !has || !tv.IsNil() {
				return true
			}
			rets++
			if !cf.MustAt(ret, gen, nil, nil) {
				bad = c.P.Pos(ret.Pos())
			}
			return true
		})
		if rets == 0 {
			continue
		}
		n++
		key := c.P.DeclName(fd)
		if bad == "" {
			sc.Holds(key, c.P.Pos(fd.Pos()), fmt.Sprintf("%d success return(s), each after a directive with HasExplicitContext was found", rets))
		} else {
			sc.Violation(key, c.P.Pos(fd.Pos()), "the success return at "+bad+" can be reached without a parenthesised context having been found: a stray `)` (after the `)` that closed a top-level block, or before any directive) is accepted")
		}
	}
	if n == 0 {
		sc.Undecided("closer", "-", "no function under the `)` handler decides on HasExplicitContext")
	}
}

// RuleTW1: a walk over the directive tree goes into every subtree. Where a function
// recurses (directly or through one other function) on the children of a directive, the
// recursive call is reached under nothing but tests of those children (nil / length), tests
// of the directive's kind, type assertions and error checks. A test of anything else - the
// directive's Parent, its position, its parameters - prunes subtrees by where they sit, so
// a Path under a method inside a URL block is never collected.
func RuleTW1(c *Ctx) {
	sc := c.Run.Begin("TW1", "every recursive descent into Directive.Children is guarded only by tests of the children themselves, of the directive's kind, and by error checks", 1)
	defer sc.End()
	children := c.Field("directive", "Directive", "Children")
	enumT := c.Named("directive", "Enumeration")
	if children == nil || enumT == nil {
		sc.Undecided("anchors", "-", "unresolved anchor: Directive.Children / directive.Enumeration")
		return
	}
	perFn := map[*ast.FuncDecl]int{}
	c.P.Funcs(func(pk *pkgT, fd *ast.FuncDecl) {
		if pk != c.P.Pkg("core") {
			return
		}
		info := pk.TypesInfo
		self, _ := info.Defs[fd.Name].(*types.Func)
		if self == nil {
			return
		}
		// range variables over a Children slice
		childVars := map[types.Object]ast.Expr{}
		ast.Inspect(fd.Body, func(n ast.Node) bool {
			if rs, ok := n.(*ast.RangeStmt); ok && rs.Value != nil {
				if sel, ok := ast.Unparen(rs.X).(*ast.SelectorExpr); ok && info.ObjectOf(sel.Sel) == children {
					if id, ok := rs.Value.(*ast.Ident); ok {
						childVars[info.ObjectOf(id)] = sel
					}
				}
			}
			return true
		})
		ast.Inspect(fd.Body, func(n ast.Node) bool {
			call, ok := n.(*ast.CallExpr)
			if !ok {
				return true
			}
			g := Callee(info, call)
			if g == nil || c.P.Decl(g) == nil {
				return true
			}
			// recursion: g is self, or g (statically) calls self
			rec := g == self
			if !rec {
				gd := c.P.Decl(g)
				for _, h := range staticCallees(c.P, c.P.PkgOfDecl(gd).TypesInfo, gd.Body) {
					if h == self {
						rec = true
					}
				}
			}
			if !rec {
				return true
			}
			// an argument that is E.Children or a range variable over E.Children
			var owner ast.Expr
			for _, a := range call.Args {
				a = ast.Unparen(a)
				if sel, ok := a.(*ast.SelectorExpr); ok && info.ObjectOf(sel.Sel) == children {
					owner = sel
				}
				if id, ok := a.(*ast.Ident); ok {
					if src, ok := childVars[info.ObjectOf(id)]; ok {
						owner = src
					}
				}
			}
			if owner == nil {
				return true
			}
			perFn[fd]++
			key := fmt.Sprintf("%s#%d", c.P.DeclName(fd), perFn[fd])
			body := innermostBody(fd, call)
			cf := c.CFG(pk, body.body)
			bad := ""
			for _, fa := range cf.FactsAt(call) {
				if fa.Derived {
					continue
				}
				if !tw1Allowed(info, cf, fa, children, enumT) {
					bad = fmt.Sprintf("%s is %v", types.ExprString(fa.Expr), fa.Truth)
				}
			}
			if bad == "" {
				sc.Holds(key, c.P.Pos(call.Pos()), "descends into "+types.ExprString(owner)+" under tests of the children, of the kind and of errors only")
			} else {
				sc.Violation(key, c.P.Pos(call.Pos()), "the descent into "+types.ExprString(owner)+" is conditional on "+bad+", which is neither a test of the children nor of the directive's kind: subtrees are pruned by where they sit, and the directives below (a Path under a method inside a URL block) are never visited")
			}
			return true
		})
	})
}

func tw1Allowed(info *types.Info, cf *cfgx.Func, fa cfgx.Fact, children *types.Var, enumT *types.Named) bool {
	e := ast.Unparen(fa.Expr)
	mentionsChildren := func(x ast.Node) bool {
		hit := false
		ast.Inspect(x, func(n ast.Node) bool {
			if sel, ok := n.(*ast.SelectorExpr); ok && info.ObjectOf(sel.Sel) == children {
				hit = true
			}
			return true
		})
		return hit
	}
	isKind := func(x ast.Expr) bool {
		t := info.TypeOf(x)
		return t != nil && types.Identical(t, enumT)
	}
	switch x := e.(type) {
	case *ast.BinaryExpr:
		switch x.Op {
		case token.LAND, token.LOR:
			return tw1Allowed(info, cf, cfgx.Fact{Expr: x.X, Truth: fa.Truth}, children, enumT) && tw1Allowed(info, cf, cfgx.Fact{Expr: x.Y, Truth: fa.Truth}, children, enumT)
		case token.EQL, token.NEQ, token.LSS, token.GTR, token.LEQ, token.GEQ:
			if mentionsChildren(x) {
				return true
			}
			if isKind(x.X) || isKind(x.Y) {
				return true
			}
			// error checks, loop bounds (i != len(dd))
			if isNilIdentExpr(info, x.X) || isNilIdentExpr(info, x.Y) {
				for _, side := range []ast.Expr{x.X, x.Y} {
					if t := info.TypeOf(side); t != nil && isErrorLike(t) {
						return true
					}
				}
				return false
			}
			for _, side := range []ast.Expr{x.X, x.Y} {
				if _, isLen := lengthExpr(info, side); isLen {
					return true
				}
			}
			return false
		}
	case *ast.UnaryExpr:
		if x.Op == token.NOT {
			return tw1Allowed(info, cf, cfgx.Fact{Expr: x.X, Truth: !fa.Truth}, children, enumT)
		}
	case *ast.CallExpr:
		// predicates on the kind: d.Type().IsX()
		if sel, ok := x.Fun.(*ast.SelectorExpr); ok && isKind(sel.X) {
			return true
		}
	case *ast.Ident:
		if def := cf.Resolve(x); def != ast.Expr(x) {
			return tw1Allowed(info, cf, cfgx.Fact{Expr: def, Truth: fa.Truth}, children, enumT)
		}
		// ok of a type assertion / comma-ok
		if _, _, ok := cf.TupleDefOf(info.ObjectOf(x)); ok {
			return true
		}
	}
	return false
}

// ---------------------------------------------------------------- R6

// RuleR6: whether a directive's own children are in parentheses does not decide where it
// goes. In the context resolver (and its family) no error return is reached under a
// condition that reads HasExplicitContext of the directive being placed (the resolver's
// *Directive parameter): the flag of the directives on the context chain is a barrier, the
// flag of the incoming one only says how ITS children were written - a rewriting the surface
// property quantifies over.
func RuleR6(c *Ctx) {
	sc := c.Run.Begin("R6", "in the context resolver no rejection depends on the HasExplicitContext flag of the directive being placed", 1)
	defer sc.End()
	resolver, _ := c.resolverFunc()
	flag := c.Field("directive", "Directive", "HasExplicitContext")
	dirT := c.Named("directive", "Directive")
	if resolver == nil || flag == nil || dirT == nil {
		sc.Undecided("anchors", "-", "unresolved anchor: context resolver / HasExplicitContext")
		return
	}
	n := 0
	for f := range c.familyOf(resolver) {
		fd := c.P.Decl(f)
		if fd == nil {
			continue
		}
		pk := c.P.PkgOfDecl(fd)
		info := pk.TypesInfo
		// the directive being placed: a parameter of type *Directive
		placed := map[types.Object]bool{}
		for _, fl := range fd.Type.Params.List {
			for _, nm := range fl.Names {
				if o := info.ObjectOf(nm); o != nil {
					if pt, ok := o.Type().(*types.Pointer); ok && types.Identical(pt.Elem(), dirT) {
						placed[o] = true
					}
				}
			}
		}
		// a helper's parameter that its callers fill with something other than their own
		// parameter (the current context read from the core, say) is not the placed one
		if f != resolver {
			idx := 0
			for _, fl := range fd.Type.Params.List {
				for _, nm := range fl.Names {
					o := info.ObjectOf(nm)
					i := idx
					idx++
					if !placed[o] {
						continue
					}
					for _, cs := range c.callSitesOf(f) {
						if i >= len(cs.Call.Args) {
							continue
						}
						ccf := c.CFG(cs.Pk, cs.Body)
						arg, _ := ast.Unparen(ccf.Resolve(cs.Call.Args[i])).(*ast.Ident)
						isParam := false
						if arg != nil && cs.Decl != nil {
							ao := cs.Pk.TypesInfo.ObjectOf(arg)
							for _, cfl := range cs.Decl.Type.Params.List {
								for _, cnm := range cfl.Names {
									if cs.Pk.TypesInfo.ObjectOf(cnm) == ao {
										isParam = true
									}
								}
							}
						}
						if !isParam {
							delete(placed, o)
						}
					}
				}
			}
		}
		if len(placed) == 0 {
			continue
		}
		cf := c.CFG(pk, fd.Body)
		k := 0
		inspectNoLit(fd.Body, func(x ast.Node) bool {
			ret, ok := x.(*ast.ReturnStmt)
			if !ok || len(ret.Results) == 0 {
				return true
			}
			last := ret.Results[len(ret.Results)-1]
			if tv, has := info.Types[last]; !has || tv.IsNil() {
				return true
			}
			if _, isCall := ast.Unparen(last).(*ast.CallExpr); !isCall {
				return true
			}
			n++
			k++
			key := fmt.Sprintf("%s#%d", c.P.DeclName(fd), k)
			bad := ""
			for _, fa := range cf.FactsAt(ret) {
				ast.Inspect(fa.Expr, func(y ast.Node) bool {
					if sel, ok := y.(*ast.SelectorExpr); ok && info.ObjectOf(sel.Sel) == types.Object(flag) {
						if id, ok := ast.Unparen(sel.X).(*ast.Ident); ok && placed[info.ObjectOf(id)] {
							bad = types.ExprString(fa.Expr)
						}
					}
					return true
				})
			}
			if bad == "" {
				sc.Holds(key, c.P.Pos(ret.Pos()), "does not depend on the placed directive's own parentheses")
			} else {
				sc.Violation(key, c.P.Pos(ret.Pos()), "the rejection is reached under `"+bad+"`, which reads the HasExplicitContext flag of the directive being placed: the same directive with its children written without parentheses is accepted, with them it is refused")
			}
			return true
		})
	}
	if n == 0 {
		sc.Undecided("sites", "-", "no rejection in the context resolver")
	}
}

// ---------------------------------------------------------------- R2w

// RuleR2w: who asks about open parentheses asks at every level. A function of core that
// walks the Parent chain in a loop (the loop assigns `x = x.Parent`) and reads
// HasExplicitContext reads it inside that loop, for every directive it passes. A walk that
// climbs first and looks at the flag of the directive it ends on sees one level only: an
// open `(` on an inner directive whose ancestors are implicit contexts is no longer noticed
// at the end of input.
func RuleR2w(c *Ctx) {
	sc := c.Run.Begin("R2w", "every loop of core that walks the Parent chain in a function that reads HasExplicitContext reads the flag inside the loop", 2)
	defer sc.End()
	pk := c.P.Pkg("core")
	flag := c.Field("directive", "Directive", "HasExplicitContext")
	parent := c.Field("directive", "Directive", "Parent")
	if pk == nil || flag == nil || parent == nil {
		sc.Undecided("anchors", "-", "unresolved anchor: Directive.HasExplicitContext / Parent")
		return
	}
	info := pk.TypesInfo
	n := 0
	c.P.Funcs(func(p *pkgT, fd *ast.FuncDecl) {
		if p != pk {
			return
		}
		readsFlag := func(nd ast.Node) bool {
			hit := false
			ast.Inspect(nd, func(y ast.Node) bool {
				if sel, ok := y.(*ast.SelectorExpr); ok && info.ObjectOf(sel.Sel) == types.Object(flag) {
					hit = true
				}
				// a finder or predicate of core that reads the flag counts too
				if call, ok := y.(*ast.CallExpr); ok {
					if gd := c.P.Decl(Callee(info, call)); gd != nil && gd != fd && c.P.PkgOfDecl(gd) == pk {
						ast.Inspect(gd.Body, func(z ast.Node) bool {
							if s2, ok := z.(*ast.SelectorExpr); ok && info.ObjectOf(s2.Sel) == types.Object(flag) {
								hit = true
							}
							return !hit
						})
					}
				}
				return !hit
			})
			return hit
		}
		if !readsFlag(fd.Body) {
			return
		}
		k := 0
		ast.Inspect(fd.Body, func(x ast.Node) bool {
			loop, ok := x.(*ast.ForStmt)
			if !ok {
				return true
			}
			// does the loop step along Parent?  x = x.Parent  (in the body or the post statement)
			steps := false
			ast.Inspect(loop, func(y ast.Node) bool {
				as, ok := y.(*ast.AssignStmt)
				if !ok || len(as.Lhs) != 1 || len(as.Rhs) != 1 {
					return true
				}
				sel, ok := ast.Unparen(as.Rhs[0]).(*ast.SelectorExpr)
				if ok && info.ObjectOf(sel.Sel) == types.Object(parent) && cfgx.SameExpr(info, sel.X, as.Lhs[0]) {
					steps = true
				}
				return true
			})
			if !steps {
				return true
			}
			n++
			k++
			key := fmt.Sprintf("%s#%d", c.P.DeclName(fd), k)
			if readsFlag(loop) {
				sc.Holds(key, c.P.Pos(loop.Pos()), "the flag is read for every directive the walk passes")
			} else {
				sc.Violation(key, c.P.Pos(loop.Pos()), "the walk along Parent does not look at HasExplicitContext; the function reads the flag outside the loop, for one directive only: an open parenthesis on any other level of the chain is not seen (end of input with an inner `(` still open is accepted)")
			}
			return true
		})
	})
	if n == 0 {
		sc.Undecided("sites", "-", "no Parent-chain walk in a function that reads HasExplicitContext")
	}
}

// ---------------------------------------------------------------- CH1

// RuleCH1: a child is found by what it is, not by where it stands. The children of a
// directive are in document order and the language puts no kind at a fixed position among
// its siblings (Tags may follow a Description, a Path may follow a Query). An index
// expression with a constant index (or `len-1`) into Directive.Children picks a child by
// position: whatever the author wrote first is taken for - or the sought kind is only seen
// when it is - that child.
func RuleCH1(c *Ctx) {
	sc := c.Run.Begin("CH1", "no constant-position access into Directive.Children (children are looked up by kind over the whole list)", 0)
	defer sc.End()
	children := c.Field("directive", "Directive", "Children")
	if children == nil {
		sc.Undecided("anchors", "-", "unresolved anchor: Directive.Children")
		return
	}
	n, idx := 0, 0
	perFn := map[*ast.FuncDecl]int{}
	c.P.Funcs(func(pk *pkgT, fd *ast.FuncDecl) {
		info := pk.TypesInfo
		ast.Inspect(fd.Body, func(x ast.Node) bool {
			ix, ok := x.(*ast.IndexExpr)
			if !ok {
				return true
			}
			base := ast.Unparen(ix.X)
			if id, isId := base.(*ast.Ident); isId {
				// a local alias: cc := d.Parent.Children
				body := innermostBody(fd, ix)
				base = ast.Unparen(c.CFG(pk, body.body).Resolve(id))
			}
			sel, ok := base.(*ast.SelectorExpr)
			if !ok || info.ObjectOf(sel.Sel) != types.Object(children) {
				return true
			}
			idx++
			positional := false
			if tv, ok := info.Types[ix.Index]; ok && tv.Value != nil {
				positional = true
			}
			if be, ok := ast.Unparen(ix.Index).(*ast.BinaryExpr); ok && be.Op == token.SUB {
				if _, isLen := lengthExpr(info, be.X); isLen {
					positional = true
				}
			}
			if !positional {
				return true
			}
			// the first element taken as the reference the others are compared with: the
			// function still walks the whole list
			walks := false
			ast.Inspect(fd.Body, func(y ast.Node) bool {
				switch z := y.(type) {
				case *ast.RangeStmt:
					rx := ast.Unparen(z.X)
					if se, ok := rx.(*ast.SliceExpr); ok {
						rx = ast.Unparen(se.X) // the rest of the list: range X.Children[1:]
					}
					if cfgx.SameExpr(info, rx, ix.X) {
						walks = true
					}
				case *ast.ForStmt:
					if z.Cond != nil {
						ast.Inspect(z.Cond, func(w ast.Node) bool {
							if lc, ok := w.(*ast.CallExpr); ok {
								if lid, ok := lc.Fun.(*ast.Ident); ok && lid.Name == "len" && len(lc.Args) == 1 && cfgx.SameExpr(info, lc.Args[0], ix.X) {
									walks = true
								}
							}
							return true
						})
					}
				}
				return true
			})
			if walks {
				return true
			}
			n++
			perFn[fd]++
			sc.Violation(fmt.Sprintf("%s#%d", c.P.DeclName(fd), perFn[fd]), c.P.Pos(ix.Pos()), "a child directive is taken by its position ("+types.ExprString(ix)+"): a directive of the sought kind that is not written at that position is not seen (Tags after a Description are ignored), or another kind is taken for it")
			return true
		})
	})
	if n == 0 {
		sc.Holds("children", "-", fmt.Sprintf("%d index expressions into Directive.Children, none with a constant position", idx))
	}
	// a child is a direct child: a function that answers "the child of kind K" (it ranges
	// over X.Children and returns the element whose Type() equals a constant) does not call
	// itself on the children - a descendant of a sibling is not the directive's own child
	enumT := c.Named("directive", "Enumeration")
	c.P.Funcs(func(pk *pkgT, fd *ast.FuncDecl) {
		info := pk.TypesInfo
		self, _ := info.Defs[fd.Name].(*types.Func)
		if self == nil || enumT == nil {
			return
		}
		lookup := false
		var rec ast.Node
		ast.Inspect(fd.Body, func(x ast.Node) bool {
			rs, ok := x.(*ast.RangeStmt)
			if !ok || rs.Value == nil {
				return true
			}
			sel, ok := ast.Unparen(rs.X).(*ast.SelectorExpr)
			if !ok || info.ObjectOf(sel.Sel) != types.Object(children) {
				return true
			}
			vid, ok := rs.Value.(*ast.Ident)
			if !ok {
				return true
			}
			vobj := info.ObjectOf(vid)
			ast.Inspect(rs.Body, func(y ast.Node) bool {
				switch z := y.(type) {
				case *ast.IfStmt:
					// if v.Type() == K { return v }
					be, ok := ast.Unparen(z.Cond).(*ast.BinaryExpr)
					if ok && be.Op == token.EQL {
						kindTest := false
						for _, side := range []ast.Expr{be.X, be.Y} {
							if tv, ok := info.Types[side]; ok && tv.Value != nil && types.Identical(tv.Type, enumT) {
								kindTest = true
							}
						}
						if kindTest && len(z.Body.List) > 0 {
							if ret, ok := z.Body.List[len(z.Body.List)-1].(*ast.ReturnStmt); ok && len(ret.Results) >= 1 {
								if rid, ok := ast.Unparen(ret.Results[0]).(*ast.Ident); ok && info.ObjectOf(rid) == vobj {
									lookup = true
								}
							}
						}
					}
				case *ast.CallExpr:
					if Callee(info, z) == self {
						rec = z
					}
				}
				return true
			})
			return true
		})
		if !lookup {
			return
		}
		key := "direct-child:" + c.P.DeclName(fd)
		if rec == nil {
			sc.Holds(key, c.P.Pos(fd.Pos()), "looks among the direct children only")
		} else {
			sc.Violation(key, c.P.Pos(rec.Pos()), "a lookup of the child of a kind descends into the children's own children: the Tags of one method are found as \"the URL's Tags\" and taken by its untagged sibling")
		}
	})
}
