package rules

import (
	"fmt"
	"go/ast"
	"go/token"
	"go/types"
	"sort"
	"strings"

	"golang.org/x/tools/go/packages"

	"verif/checker/cfgx"
	"verif/checker/load"
)

// fieldSel reports whether e is <recv>.<field> for the given struct field (any base).
func fieldSel(info *types.Info, e ast.Expr, field *types.Var) bool {
	sel, ok := ast.Unparen(e).(*ast.SelectorExpr)
	return ok && info.ObjectOf(sel.Sel) == field
}

// use is a place that needs Target to be non-nil.
type use struct {
	Node   ast.Node // the dereferencing node (selector, star) or the argument expression
	Target ast.Expr // the pointer expression
	Arg    bool     // passed as a call argument rather than dereferenced here
}

// usesOf finds the nodes in body that need a pointer accepted by match to be
// non-nil: selector expressions X.sel, *X, and X passed as a call argument.
func usesOf(body ast.Node, match func(ast.Expr) bool) []use {
	var out []use
	ast.Inspect(body, func(n ast.Node) bool {
		switch x := n.(type) {
		case *ast.SelectorExpr:
			if match(x.X) {
				out = append(out, use{x, x.X, false})
			}
		case *ast.StarExpr:
			if match(x.X) {
				out = append(out, use{x, x.X, false})
			}
		case *ast.CallExpr:
			for _, a := range x.Args {
				if match(a) {
					out = append(out, use{a, a, true})
				}
			}
		}
		return true
	})
	return out
}

// staticCallees lists the repo functions called (statically resolved) in body.
func staticCallees(p *load.Program, info *types.Info, body ast.Node) []*types.Func {
	seen := map[*types.Func]bool{}
	var out []*types.Func
	ast.Inspect(body, func(n ast.Node) bool {
		if call, ok := n.(*ast.CallExpr); ok {
			if f := Callee(info, call); f != nil && p.Decl(f) != nil && !seen[f] {
				seen[f] = true
				out = append(out, f)
			}
		}
		return true
	})
	return out
}

// reachStatic returns the functions reachable from roots by static calls inside pkg.
func reachStatic(p *load.Program, pk *packages.Package, roots []*types.Func) []*types.Func {
	seen := map[*types.Func]bool{}
	var order []*types.Func
	var visit func(f *types.Func)
	visit = func(f *types.Func) {
		if f == nil || seen[f] {
			return
		}
		fd := p.Decl(f)
		if fd == nil || p.PkgOfDecl(fd) != pk {
			return
		}
		seen[f] = true
		order = append(order, f)
		for _, g := range staticCallees(p, pk.TypesInfo, fd.Body) {
			visit(g)
		}
		// functions handed over as values (`once.Do(initTable)`, `each(visitNode)`) run too
		ast.Inspect(fd.Body, func(n ast.Node) bool {
			call, ok := n.(*ast.CallExpr)
			if !ok {
				return true
			}
			for _, a := range call.Args {
				switch x := ast.Unparen(a).(type) {
				case *ast.Ident:
					if g, ok := pk.TypesInfo.ObjectOf(x).(*types.Func); ok {
						visit(g)
					}
				case *ast.SelectorExpr:
					if g, ok := pk.TypesInfo.ObjectOf(x.Sel).(*types.Func); ok {
						visit(g)
					}
				}
			}
			return true
		})
	}
	for _, r := range roots {
		visit(r)
	}
	return order
}

// lexemeDispatch finds core's switch over scanner.LexemeType and returns, per
// LexemeType constant name, the core functions its case body calls.
func (c *Ctx) lexemeDispatch() (fn *ast.FuncDecl, handlers map[string][]*types.Func, hasDefault bool) {
	pk := c.P.Pkg("core")
	lt := c.Named("scanner", "LexemeType")
	if pk == nil || lt == nil {
		return nil, nil, false
	}
	handlers = map[string][]*types.Func{}
	c.P.Funcs(func(p *packages.Package, fd *ast.FuncDecl) {
		if p != pk {
			return
		}
		ast.Inspect(fd.Body, func(n ast.Node) bool {
			sw, ok := n.(*ast.SwitchStmt)
			if !ok || sw.Tag == nil {
				return true
			}
			tv, ok := pk.TypesInfo.Types[sw.Tag]
			if !ok || !types.Identical(tv.Type, lt) {
				return true
			}
			fn = fd
			for _, cl := range sw.Body.List {
				cc := cl.(*ast.CaseClause)
				if cc.List == nil {
					hasDefault = true
					continue
				}
				var callees []*types.Func
				for _, st := range cc.Body {
					callees = append(callees, staticCallees(c.P, pk.TypesInfo, st)...)
				}
				for _, e := range cc.List {
					if id, ok := ast.Unparen(e).(*ast.SelectorExpr); ok {
						if cst, ok := pk.TypesInfo.ObjectOf(id.Sel).(*types.Const); ok {
							handlers[cst.Name()] = callees
						}
					}
				}
			}
			return false
		})
	})
	if fn != nil {
		return fn, handlers, hasDefault
	}
	// the table form: a package-level map from the lexeme type to handler functions (method
	// expressions or function names), indexed by the dispatching function
	var table *types.Var
	for _, file := range pk.Syntax {
		for _, decl := range file.Decls {
			gd, ok := decl.(*ast.GenDecl)
			if !ok || gd.Tok != token.VAR {
				continue
			}
			for _, sp := range gd.Specs {
				vs, ok := sp.(*ast.ValueSpec)
				if !ok || len(vs.Names) != 1 || len(vs.Values) != 1 {
					continue
				}
				cl, ok := ast.Unparen(vs.Values[0]).(*ast.CompositeLit)
				if !ok {
					continue
				}
				mt, ok := pk.TypesInfo.TypeOf(cl).Underlying().(*types.Map)
				if !ok || !types.Identical(mt.Key(), lt) {
					continue
				}
				for _, el := range cl.Elts {
					kv, ok := el.(*ast.KeyValueExpr)
					if !ok {
						continue
					}
					var kname string
					if ks, ok := ast.Unparen(kv.Key).(*ast.SelectorExpr); ok {
						if cst, ok := pk.TypesInfo.ObjectOf(ks.Sel).(*types.Const); ok {
							kname = cst.Name()
						}
					}
					var f *types.Func
					switch v := ast.Unparen(kv.Value).(type) {
					case *ast.SelectorExpr:
						f, _ = pk.TypesInfo.ObjectOf(v.Sel).(*types.Func)
					case *ast.Ident:
						f, _ = pk.TypesInfo.ObjectOf(v).(*types.Func)
					}
					if kname != "" && f != nil {
						handlers[kname] = []*types.Func{f}
					}
				}
				if len(handlers) > 0 {
					table, _ = pk.TypesInfo.ObjectOf(vs.Names[0]).(*types.Var)
				}
			}
		}
	}
	if table == nil {
		// the if-chain form: a function whose top-level ifs test one LexemeType value (the
		// result of a Type() call, possibly kept in a local) against the constants - with ==,
		// || and boolean predicates over the type - and call a handler in the branch
		spk := c.P.Pkg("scanner")
		ev := &kindEval{c: c, enumT: lt, tables: map[*types.Var]map[string]bool{}}
		info := pk.TypesInfo
		var best *ast.FuncDecl
		bestN := 0
		bestH := map[string][]*types.Func{}
		bestDefault := false
		c.P.Funcs(func(p *packages.Package, fd *ast.FuncDecl) {
			if p != pk || spk == nil {
				return
			}
			cf := c.CFG(pk, fd.Body)
			isTag := func(e ast.Expr) bool {
				e = ast.Unparen(cf.Resolve(e))
				call, ok := e.(*ast.CallExpr)
				if !ok || len(call.Args) != 0 {
					return false
				}
				t := info.TypeOf(call)
				return t != nil && types.Identical(t, lt)
			}
			h := map[string][]*types.Func{}
			tests := 0
			claimed := map[string]bool{}
			for _, st := range fd.Body.List {
				ifs, ok := st.(*ast.IfStmt)
				if !ok || ifs.Init != nil || ifs.Else != nil {
					continue
				}
				var trueFor []*types.Const
				undecided := false
				for _, k := range EnumConsts(spk, lt) {
					switch ev.boolExpr(pk, &kindEnv{info: info, kind: k.Val(), isKind: isTag}, ifs.Cond, 0) {
					case triTrue:
						trueFor = append(trueFor, k)
					case triUnknown:
						undecided = true
					}
				}
				if undecided || len(trueFor) == 0 {
					continue
				}
				tests++
				callees := staticCallees(c.P, info, ifs.Body)
				for _, k := range trueFor {
					if !claimed[k.Name()] {
						claimed[k.Name()] = true
						h[k.Name()] = callees
					}
				}
			}
			if tests >= 3 && tests > bestN {
				best, bestN, bestH = fd, tests, h
				if n := len(fd.Body.List); n > 0 {
					_, bestDefault = fd.Body.List[n-1].(*ast.ReturnStmt)
				}
			}
		})
		if best != nil {
			return best, bestH, bestDefault
		}
	}
	if table != nil {
		c.P.Funcs(func(p *packages.Package, fd *ast.FuncDecl) {
			if p != pk {
				return
			}
			ast.Inspect(fd.Body, func(n ast.Node) bool {
				ix, ok := n.(*ast.IndexExpr)
				if !ok {
					return true
				}
				if id, ok := ast.Unparen(ix.X).(*ast.Ident); ok && pk.TypesInfo.ObjectOf(id) == types.Object(table) {
					fn = fd
					hasDefault = true // a missing key is handled by the comma-ok form (or yields a nil call: X1/P1 territory)
				}
				return true
			})
		})
	}
	return fn, handlers, hasDefault
}

// RuleN1: the parser's nullable state.
func RuleN1(c *Ctx) {
	sc := c.Run.Begin("N1", "core.currentDirective / currentContextDirective are tested for nil before every use that a lexeme kind emittable without a directive (S1h, from the scanner automaton) can reach", 1)
	defer sc.End()
	pk := c.P.Pkg("core")
	cur := c.Field("core", "JApiCore", "currentDirective")
	ctxF := c.Field("core", "JApiCore", "currentContextDirective")
	if pk == nil || cur == nil || ctxF == nil {
		sc.Undecided("anchors", "-", "unresolved anchor: core.JApiCore.currentDirective / currentContextDirective")
		return
	}
	_, pds, err := c.Machine()
	if err != nil {
		sc.Undecided("scanner", "-", err.Error())
		return
	}
	nextFn, handlers, _ := c.lexemeDispatch()
	if nextFn == nil || len(handlers) == 0 {
		sc.Undecided("dispatch", "-", "unresolved anchor: the switch over scanner.LexemeType in package core")
		return
	}
	var kinds []string
	for k := range pds.NoDirLexemes {
		kinds = append(kinds, k)
	}
	sort.Strings(kinds)
	sc.Info("S1h", "-", "lexeme kinds that can reach core with no current directive: "+strings.Join(kinds, ","))

	// model validation: which handler trees write the field
	writers := map[string]bool{}
	for kind, hs := range handlers {
		for _, f := range reachStatic(c.P, pk, hs) {
			fd := c.P.Decl(f)
			if cfgx.Assigns(fd.Body, func(l ast.Expr) bool { return fieldSel(pk.TypesInfo, l, cur) }) {
				writers[kind] = true
			}
		}
	}
	for kind := range writers {
		if kind != "Keyword" && kind != "ContextExplicitClosing" {
			sc.Violation("model:"+kind, c.P.Pos(nextFn.Pos()), fmt.Sprintf("the handler of lexeme kind %s writes core.currentDirective; the S1h model (directive opened by a keyword, closed by ')' / EOF / INCLUDE only) no longer describes core", kind))
		}
	}
	if !writers["Keyword"] {
		sc.Undecided("model:Keyword", c.P.Pos(nextFn.Pos()), "the Keyword handler does not set core.currentDirective: model anchor lost")
	}

	// obligations: every use in the handler trees of S1h kinds
	checked := map[*types.Func]bool{}
	for _, kind := range kinds {
		hs, ok := handlers[kind]
		if !ok {
			// the kind falls into the default arm (an error): nothing to guard
			sc.Holds("kind:"+kind, c.P.Pos(nextFn.Pos()), "not dispatched to a handler")
			continue
		}
		for _, f := range reachStatic(c.P, pk, hs) {
			if checked[f] {
				continue
			}
			checked[f] = true
			c.checkNilUses(sc, pk, f, cur, "currentDirective", kind)
		}
	}
	// currentContextDirective is nil at top level for every document: all uses everywhere
	c.P.Funcs(func(p *packages.Package, fd *ast.FuncDecl) {
		if p != pk {
			return
		}
		if obj, ok := pk.TypesInfo.Defs[fd.Name].(*types.Func); ok {
			c.checkNilUses(sc, pk, obj, ctxF, "currentContextDirective", "any")
		}
	})
}

func (c *Ctx) checkNilUses(sc interface {
	Holds(string, string, string)
	Violation(string, string, string)
}, pk *packages.Package, f *types.Func, field *types.Var, fname, kind string) {
	fd := c.P.Decl(f)
	if fd == nil {
		return
	}
	info := pk.TypesInfo
	cf := c.CFG(pk, fd.Body)
	match := func(e ast.Expr) bool { return fieldSel(info, e, field) }
	for i, us := range usesOf(fd.Body, match) {
		u, target := us.Node, us.Target
		key := fmt.Sprintf("%s:%s#%d", load.FuncName(f), fname, i)
		gen := func(fa cfgx.Fact) bool { return cfgx.IsNilCheck(info, fa, target) }
		genStmt := func(nd ast.Node) bool {
			// core.F = <address-of / constructor result>: a fresh non-nil pointer
			as, ok := nd.(*ast.AssignStmt)
			if !ok || len(as.Lhs) != 1 || len(as.Rhs) != 1 || !match(as.Lhs[0]) {
				return false
			}
			return nonNilExpr(cf, info, as.Rhs[0])
		}
		kill := func(nd ast.Node) bool {
			return cfgx.Assigns(nd, match) && !genStmt(nd)
		}
		if us.Arg {
			// passed as an argument: the callee must tolerate nil or the site must be guarded
			if call := enclosingCall(fd.Body, u); call != nil {
				if callee := Callee(info, call); callee != nil && c.paramNilSafe(callee, argIndex(call, u)) {
					sc.Holds(key, c.P.Pos(u.Pos()), "passed to a parameter the callee tests for nil")
					continue
				}
			}
		}
		if cf.MustAt(u, gen, genStmt, kill) {
			sc.Holds(key, c.P.Pos(u.Pos()), "dominated by a nil test on every path ("+kind+")")
		} else {
			sc.Violation(key, c.P.Pos(u.Pos()), fmt.Sprintf("core.%s is used here without a nil test on some path, and it is nil when a %s lexeme arrives with no directive open (e.g. first in the file, after ')' or after an INCLUDE): nil dereference instead of a diagnostic", fname, kind))
		}
	}
}

func nonNilExpr(cf *cfgx.Func, info *types.Info, e ast.Expr) bool {
	e = cf.Resolve(e)
	switch x := ast.Unparen(e).(type) {
	case *ast.UnaryExpr:
		return x.Op.String() == "&"
	case *ast.CallExpr:
		// constructor shape: a function whose every return is &T{...}
		return false
	case *ast.Ident:
		// a parameter or local the function has already dereferenced is not provably non-nil here
		return false
	}
	return false
}

func enclosingCall(root ast.Node, arg ast.Node) *ast.CallExpr {
	var res *ast.CallExpr
	ast.Inspect(root, func(n ast.Node) bool {
		if call, ok := n.(*ast.CallExpr); ok {
			for _, a := range call.Args {
				if a == arg {
					res = call
				}
			}
		}
		return res == nil
	})
	return res
}

func argIndex(call *ast.CallExpr, arg ast.Node) int {
	for i, a := range call.Args {
		if a == arg {
			return i
		}
	}
	return -1
}

// paramNilSafe: every use of the i-th parameter inside callee is nil-guarded.
func (c *Ctx) paramNilSafe(callee *types.Func, i int) bool {
	fd := c.P.Decl(callee)
	if fd == nil || i < 0 {
		return false
	}
	pk := c.P.PkgOfDecl(fd)
	var obj types.Object
	n := 0
	for _, fl := range fd.Type.Params.List {
		for _, nm := range fl.Names {
			if n == i {
				obj = pk.TypesInfo.ObjectOf(nm)
			}
			n++
		}
	}
	if obj == nil {
		return false
	}
	cf := c.CFG(pk, fd.Body)
	match := func(e ast.Expr) bool {
		id, ok := ast.Unparen(e).(*ast.Ident)
		return ok && pk.TypesInfo.ObjectOf(id) == obj
	}
	for _, us := range usesOf(fd.Body, match) {
		if us.Arg {
			return false
		}
		tgt := us.Target
		gen := func(fa cfgx.Fact) bool { return cfgx.IsNilCheck(pk.TypesInfo, fa, tgt) }
		if !cf.MustAt(us.Node, gen, nil, func(nd ast.Node) bool { return cfgx.Assigns(nd, match) }) {
			return false
		}
	}
	return true
}

// RuleN1b: handlers that dereference d.Parent unguarded are registered only for
// kinds that can never stand at top level.
func RuleN1b(c *Ctx) {
	sc := c.Run.Begin("N1b", "a directive handler that dereferences d.Parent without a nil test is registered only for kinds outside IsAllowedForRootContext", 1)
	defer sc.End()
	pk := c.P.Pkg("core")
	parent := c.Field("directive", "Directive", "Parent")
	table := c.handlerTable()
	rootOK := c.caseSetOf("directive", "Enumeration.IsAllowedForRootContext")
	if pk == nil || parent == nil || len(table) == 0 || len(rootOK) == 0 {
		sc.Undecided("anchors", "-", "unresolved anchor: directiveFunctions table / Directive.Parent / IsAllowedForRootContext")
		return
	}
	var kinds []string
	for k := range table {
		kinds = append(kinds, k)
	}
	sort.Strings(kinds)
	memo := map[*types.Func][]string{}
	for _, kind := range kinds {
		h := table[kind]
		unguarded := c.unguardedParentUses(pk, h, parent, memo, 0)
		key := kind + "->" + h.Name()
		switch {
		case len(unguarded) == 0:
			sc.Holds(key, c.P.Pos(c.P.Decl(h).Pos()), "no unguarded d.Parent dereference")
		case rootOK[kind]:
			sc.Violation(key, unguarded[0], fmt.Sprintf("handler %s dereferences d.Parent without a nil test (at %s) but kind %s may stand at top level, where Parent is nil", h.Name(), strings.Join(unguarded, ", "), kind))
		default:
			sc.Holds(key, unguarded[0], "dereferences d.Parent unguarded, but the kind is never a root directive")
		}
	}
}

// unguardedParentUses returns positions where the *Directive parameter's Parent is
// dereferenced without a nil test, following calls that pass the same directive on.
func (c *Ctx) unguardedParentUses(pk *packages.Package, f *types.Func, parent *types.Var, memo map[*types.Func][]string, depth int) []string {
	if v, ok := memo[f]; ok {
		return v
	}
	memo[f] = nil
	fd := c.P.Decl(f)
	if fd == nil || depth > 4 {
		return nil
	}
	fpk := c.P.PkgOfDecl(fd)
	info := fpk.TypesInfo
	// the directive parameter(s)
	dirT := c.Named("directive", "Directive")
	isDir := map[types.Object]bool{}
	for _, fl := range fd.Type.Params.List {
		for _, nm := range fl.Names {
			obj := info.ObjectOf(nm)
			if obj == nil {
				continue
			}
			t := obj.Type()
			if p, ok := t.(*types.Pointer); ok {
				t = p.Elem()
			}
			if types.Identical(t, dirT) {
				isDir[obj] = true
			}
		}
	}
	if len(isDir) == 0 {
		return nil
	}
	cf := c.CFG(fpk, fd.Body)
	isParentOfParam := func(e ast.Expr) bool {
		e = cf.Resolve(e)
		sel, ok := ast.Unparen(e).(*ast.SelectorExpr)
		if !ok || info.ObjectOf(sel.Sel) != parent {
			return false
		}
		id, ok := ast.Unparen(sel.X).(*ast.Ident)
		return ok && isDir[info.ObjectOf(id)]
	}
	var out []string
	for _, us := range usesOf(fd.Body, isParentOfParam) {
		if us.Arg {
			continue // passing d.Parent on as an argument is not a dereference
		}
		u, target := us.Node, us.Target
		rt := cf.Resolve(target)
		gen := func(fa cfgx.Fact) bool {
			return cfgx.IsNilCheck(info, fa, target) || cfgx.IsNilCheck(info, fa, rt)
		}
		if !cf.MustAt(u, gen, nil, nil) {
			out = append(out, c.P.Pos(u.Pos()))
		}
	}
	// calls passing the directive parameter itself
	ast.Inspect(fd.Body, func(n ast.Node) bool {
		call, ok := n.(*ast.CallExpr)
		if !ok {
			return true
		}
		callee := Callee(info, call)
		if callee == nil || c.P.Decl(callee) == nil || c.P.PkgOfDecl(c.P.Decl(callee)) != pk {
			return true
		}
		passes := false
		for _, a := range call.Args {
			if id, ok := ast.Unparen(a).(*ast.Ident); ok && isDir[info.ObjectOf(id)] {
				passes = true
			}
		}
		if passes {
			out = append(out, c.unguardedParentUses(pk, callee, parent, memo, depth+1)...)
		}
		return true
	})
	memo[f] = out
	return out
}

// handlerTable reads core.directiveFunctions: kind constant name -> handler method.
func (c *Ctx) handlerTable() map[string]*types.Func {
	pk := c.P.Pkg("core")
	field := c.Field("core", "JApiCore", "directiveFunctions")
	if pk == nil || field == nil {
		return nil
	}
	out := map[string]*types.Func{}
	for _, f := range pk.Syntax {
		if c.P.IsTestFile(f) {
			continue
		}
		ast.Inspect(f, func(n ast.Node) bool {
			as, ok := n.(*ast.AssignStmt)
			if !ok || len(as.Lhs) != 1 || len(as.Rhs) != 1 || !fieldSel(pk.TypesInfo, as.Lhs[0], field) {
				return true
			}
			cl, ok := as.Rhs[0].(*ast.CompositeLit)
			if !ok {
				// the literal may be built by a function: core.directiveFunctions = core.newTable()
				if call, isCall := ast.Unparen(as.Rhs[0]).(*ast.CallExpr); isCall {
					if gd := c.P.Decl(Callee(pk.TypesInfo, call)); gd != nil && gd.Body != nil && c.P.PkgOfDecl(gd) == pk {
						inspectNoLit(gd.Body, func(y ast.Node) bool {
							if ret, isRet := y.(*ast.ReturnStmt); isRet && len(ret.Results) == 1 {
								if l, isLit := ast.Unparen(ret.Results[0]).(*ast.CompositeLit); isLit {
									cl, ok = l, true
								}
							}
							return true
						})
					}
				}
			}
			if !ok {
				return true
			}
			for _, el := range cl.Elts {
				kv, ok := el.(*ast.KeyValueExpr)
				if !ok {
					continue
				}
				var kname string
				if sel, ok := ast.Unparen(kv.Key).(*ast.SelectorExpr); ok {
					if cst, ok := pk.TypesInfo.ObjectOf(sel.Sel).(*types.Const); ok {
						kname = cst.Name()
					}
				}
				if sel, ok := ast.Unparen(kv.Value).(*ast.SelectorExpr); ok {
					if m, ok := pk.TypesInfo.ObjectOf(sel.Sel).(*types.Func); ok && kname != "" {
						out[kname] = m
					}
				}
			}
			return true
		})
	}
	return out
}

// caseSetOf: the declared constants of the enumeration for which the one-operand boolean
// predicate answers true, by the per-kind evaluator (switch, comparison, table membership,
// calls of other predicates). nil when the answer is unknown for some constant.
func (c *Ctx) caseSetOf(rel, method string) map[string]bool {
	f := c.Func(rel, method)
	fd := c.P.Decl(f)
	if fd == nil || fd.Recv == nil || len(fd.Recv.List) != 1 {
		return nil
	}
	pk := c.P.PkgOfDecl(fd)
	enumT, ok := pk.TypesInfo.TypeOf(fd.Recv.List[0].Type).(*types.Named)
	if !ok {
		return nil
	}
	ev := &kindEval{c: c, enumT: enumT, tables: map[*types.Var]map[string]bool{}}
	out := map[string]bool{}
	for _, k := range EnumConsts(pk, enumT) {
		switch ev.evalPredFor(fd, k.Val()) {
		case triTrue:
			out[k.Name()] = true
		case triFalse:
		default:
			return nil
		}
	}
	return out
}

// ---------------------------------------------------------------- NE1

// RuleNE1: a result is used only after its error was found nil. For `v, err := f(...)`
// with v of pointer or interface type and f outside the repository (standard library,
// schema library: their contract is "v is meaningful only when err is nil"), every method
// call or field access through v is reached only on paths on which `err == nil` was
// established for that very assignment. `info.IsDir()` on the result of a failed os.Stat
// dereferences nil: a panic where the library promises a diagnostic.
func RuleNE1(c *Ctx) {
	sc := c.Run.Begin("NE1", "for every `v, err := f(...)` with f outside the repository and v a pointer or interface, each use of v through a selector is dominated by err == nil for that assignment", 1)
	defer sc.End()
	n := 0
	perFn := map[*ast.FuncDecl]int{}
	c.P.Funcs(func(pk *pkgT, fd *ast.FuncDecl) {
		info := pk.TypesInfo
		ast.Inspect(fd.Body, func(x ast.Node) bool {
			as, ok := x.(*ast.AssignStmt)
			if !ok || len(as.Lhs) != 2 || len(as.Rhs) != 1 {
				return true
			}
			call, ok := ast.Unparen(as.Rhs[0]).(*ast.CallExpr)
			if !ok {
				return true
			}
			g := Callee(info, call)
			if g == nil || c.P.Decl(g) != nil {
				return true // repository functions are judged by their own contracts (N2, B1 ...)
			}
			vid, ok1 := as.Lhs[0].(*ast.Ident)
			eid, ok2 := as.Lhs[1].(*ast.Ident)
			if !ok1 || !ok2 || vid.Name == "_" || eid.Name == "_" {
				return true
			}
			vobj, eobj := info.ObjectOf(vid), info.ObjectOf(eid)
			if vobj == nil || eobj == nil || !isErrorType(eobj.Type()) {
				return true
			}
			switch vobj.Type().Underlying().(type) {
			case *types.Pointer, *types.Interface:
			default:
				return true
			}
			body := innermostBody(fd, as)
			cf := c.CFG(pk, body.body)
			assigned := func(nd ast.Node, o types.Object) bool {
				a2, ok := nd.(*ast.AssignStmt)
				if !ok || a2 == as {
					return false
				}
				for _, l := range a2.Lhs {
					if id, ok := l.(*ast.Ident); ok && info.ObjectOf(id) == o {
						return true
					}
				}
				return false
			}
			gen := func(fa cfgx.Fact) bool {
				be, ok := ast.Unparen(fa.Expr).(*ast.BinaryExpr)
				if !ok || (be.Op != token.EQL && be.Op != token.NEQ) {
					return false
				}
				l, r := be.X, be.Y
				if isNilIdentExpr(info, l) {
					l, r = r, l
				}
				id, ok := ast.Unparen(l).(*ast.Ident)
				if !ok || info.ObjectOf(id) != eobj || !isNilIdentExpr(info, r) {
					return false
				}
				return (be.Op == token.EQL) == fa.Truth
			}
			// uses of v through a selector after the assignment
			ast.Inspect(body.body, func(y ast.Node) bool {
				sel, ok := y.(*ast.SelectorExpr)
				if !ok || sel.Pos() < as.End() {
					return true
				}
				id, ok := ast.Unparen(sel.X).(*ast.Ident)
				if !ok || info.ObjectOf(id) != vobj {
					return true
				}
				// only uses this assignment reaches without v being reassigned
				if !cf.MustAt(sel, nil, func(nd ast.Node) bool { return nd == ast.Node(as) }, func(nd ast.Node) bool { return assigned(nd, vobj) }) {
					return true
				}
				n++
				perFn[fd]++
				key := fmt.Sprintf("%s:%s#%d", c.P.DeclName(fd), vid.Name, perFn[fd])
				if cf.MustAt(sel, gen, nil, func(nd ast.Node) bool { return assigned(nd, eobj) || nd == ast.Node(as) }) {
					sc.Holds(key, c.P.Pos(sel.Pos()), "used only where "+eid.Name+" == nil")
				} else {
					sc.Violation(key, c.P.Pos(sel.Pos()), fmt.Sprintf("%s (a result of %s.%s) is used through %s on a path on which %s was not found nil: when the call fails the value is nil and the library panics instead of returning a diagnostic", vid.Name, g.Pkg().Name(), g.Name(), types.ExprString(sel), eid.Name))
				}
				return true
			})
			return true
		})
	})
	if n == 0 {
		sc.Undecided("sites", "-", "no use of a (value, error) result of an outside function found")
	}
}

// ---------------------------------------------------------------- NE2

// RuleNE2: the error that came with a value is the one that is tested. For `v, e := f(...)`
// with f a function of the repository, e of an error type and v a slice, map, pointer or
// interface, every use of v (other than handing it back together with e) is reached only
// on paths on which THAT e was found nil. Testing another error variable that happens to be
// in scope (`tns, je := ...; if err != nil { return je }`) lets the function go on with
// the empty result of a failed call - an undeclared tag is accepted and the interaction
// stored without tags.
func RuleNE2(c *Ctx) {
	sc := c.Run.Begin("NE2", "for every `v, e := f(...)` with f in the repository and v a slice, map, pointer or interface, each use of v is dominated by e == nil for that assignment", 5)
	defer sc.End()
	n := 0
	perFn := map[*ast.FuncDecl]int{}
	c.P.Funcs(func(pk *pkgT, fd *ast.FuncDecl) {
		if strings.Contains(c.P.Pos(fd.Pos()), "internal/") {
			return
		}
		info := pk.TypesInfo
		ast.Inspect(fd.Body, func(x ast.Node) bool {
			as, ok := x.(*ast.AssignStmt)
			if !ok || len(as.Lhs) != 2 || len(as.Rhs) != 1 {
				return true
			}
			call, ok := ast.Unparen(as.Rhs[0]).(*ast.CallExpr)
			if !ok {
				return true
			}
			g := Callee(info, call)
			if g == nil || c.P.Decl(g) == nil {
				return true
			}
			vid, ok1 := as.Lhs[0].(*ast.Ident)
			eid, ok2 := as.Lhs[1].(*ast.Ident)
			if !ok1 || !ok2 || vid.Name == "_" || eid.Name == "_" {
				return true
			}
			vobj, eobj := info.ObjectOf(vid), info.ObjectOf(eid)
			if vobj == nil || eobj == nil || !isErrorLike(eobj.Type()) {
				return true
			}
			switch vobj.Type().Underlying().(type) {
			case *types.Pointer, *types.Interface, *types.Slice, *types.Map:
			default:
				return true
			}
			body := innermostBody(fd, as)
			cf := c.CFG(pk, body.body)
			assigned := func(nd ast.Node, o types.Object) bool {
				a2, ok := nd.(*ast.AssignStmt)
				if !ok || a2 == as {
					return false
				}
				for _, l := range a2.Lhs {
					if id, ok := l.(*ast.Ident); ok && info.ObjectOf(id) == o {
						return true
					}
				}
				return false
			}
			gen := func(fa cfgx.Fact) bool {
				be, ok := ast.Unparen(fa.Expr).(*ast.BinaryExpr)
				if !ok || (be.Op != token.EQL && be.Op != token.NEQ) {
					return false
				}
				l, r := be.X, be.Y
				if isNilIdentExpr(info, l) {
					l, r = r, l
				}
				id, ok := ast.Unparen(l).(*ast.Ident)
				if !ok || info.ObjectOf(id) != eobj || !isNilIdentExpr(info, r) {
					return false
				}
				return (be.Op == token.EQL) == fa.Truth
			}
			// the uses of v after the assignment
			var retWithE func(id *ast.Ident) bool
			retWithE = func(id *ast.Ident) bool {
				hit := false
				ast.Inspect(body.body, func(y ast.Node) bool {
					ret, ok := y.(*ast.ReturnStmt)
					if !ok || !(ret.Pos() <= id.Pos() && id.End() <= ret.End()) {
						return true
					}
					ast.Inspect(ret, func(z ast.Node) bool {
						if e2, ok := z.(*ast.Ident); ok && info.ObjectOf(e2) == eobj {
							hit = true
						}
						return true
					})
					return true
				})
				return hit
			}
			first := true
			ast.Inspect(body.body, func(y ast.Node) bool {
				id, ok := y.(*ast.Ident)
				if !ok || id.Pos() < as.End() || info.Uses[id] != vobj {
					return true
				}
				if !cf.MustAt(id, nil, func(nd ast.Node) bool { return nd == ast.Node(as) }, func(nd ast.Node) bool { return assigned(nd, vobj) }) {
					return true // another definition of v reaches this use
				}
				if retWithE(id) {
					return true // handed back together with its error
				}
				if !first {
					return true // one obligation per assignment: the first use decides
				}
				first = false
				n++
				perFn[fd]++
				key := fmt.Sprintf("%s:%s#%d", c.P.DeclName(fd), vid.Name, perFn[fd])
				if cf.MustAt(id, gen, nil, func(nd ast.Node) bool { return assigned(nd, eobj) || nd == ast.Node(as) }) {
					sc.Holds(key, c.P.Pos(id.Pos()), "used only where "+eid.Name+" == nil")
				} else {
					sc.Violation(key, c.P.Pos(id.Pos()), fmt.Sprintf("%s (a result of %s) is used on a path on which %s, the error that came with it, was not found nil: when the call fails the function carries on with its empty result (the failure - an undeclared tag, say - is never reported)", vid.Name, g.Name(), eid.Name))
				}
				return true
			})
			return true
		})
	})
	if n == 0 {
		sc.Undecided("sites", "-", "no (value, error) result of a repository function found")
	}
}

// ---------------------------------------------------------------- SH1

// RuleSH1: an error is not lost in a shadow. Where a `:=` inside a nested block declares a
// new error variable with the name of an error variable of an enclosing scope, the new one
// is not afterwards assigned (`=`) the verdict of a call while the outer one is what the
// code after the block tests: the verdict lands in the variable that dies at the closing
// brace, the test after the block sees the outer nil, and the rejection (a second Body of
// a request, say) is dropped without a trace.
func RuleSH1(c *Ctx) {
	sc := c.Run.Begin("SH1", "no error variable declared with := in a nested block under the name of an outer error variable receives a later call's verdict by plain assignment while the outer one is read after the block", 0)
	defer sc.End()
	n, shadows := 0, 0
	perFn := map[*ast.FuncDecl]int{}
	c.P.Funcs(func(pk *pkgT, fd *ast.FuncDecl) {
		if strings.Contains(c.P.Pos(fd.Pos()), "internal/") {
			return
		}
		info := pk.TypesInfo
		ast.Inspect(fd.Body, func(x ast.Node) bool {
			as, ok := x.(*ast.AssignStmt)
			if !ok || as.Tok != token.DEFINE {
				return true
			}
			for _, l := range as.Lhs {
				id, ok := l.(*ast.Ident)
				if !ok || id.Name == "_" {
					continue
				}
				inner, ok := info.Defs[id].(*types.Var)
				if !ok || inner == nil || !isErrorLike(inner.Type()) {
					continue
				}
				// an outer variable of the same name and an error type, declared in this function
				scope := inner.Parent()
				if scope == nil || scope.Parent() == nil {
					continue
				}
				_, outerObj := scope.Parent().LookupParent(id.Name, id.Pos())
				outer, ok := outerObj.(*types.Var)
				if !ok || outer == inner || outer.IsField() || !isErrorLike(outer.Type()) {
					continue
				}
				if !(fd.Pos() <= outer.Pos() && outer.Pos() <= fd.End()) {
					continue
				}
				// `if v, err := f(); err != nil {...}` scopes are idiomatic and self-contained:
				// only a define that is a statement of a block (not an if/for/switch init)
				isInit := false
				ast.Inspect(fd.Body, func(y ast.Node) bool {
					switch z := y.(type) {
					case *ast.IfStmt:
						if z.Init == ast.Stmt(as) {
							isInit = true
						}
					case *ast.SwitchStmt:
						if z.Init == ast.Stmt(as) {
							isInit = true
						}
					case *ast.ForStmt:
						if z.Init == ast.Stmt(as) {
							isInit = true
						}
					}
					return true
				})
				if isInit {
					continue
				}
				shadows++
				// (b) the inner one is later assigned a call's result by `=`
				var lateAssign ast.Node
				ast.Inspect(fd.Body, func(y ast.Node) bool {
					a2, ok := y.(*ast.AssignStmt)
					if !ok || a2.Tok != token.ASSIGN || a2.Pos() < as.End() {
						return true
					}
					for i, l2 := range a2.Lhs {
						if id2, ok := l2.(*ast.Ident); ok && info.Uses[id2] == types.Object(inner) {
							if len(a2.Rhs) == 1 || i < len(a2.Rhs) {
								lateAssign = a2
							}
						}
					}
					return true
				})
				if lateAssign == nil {
					continue
				}
				// (c) the outer one is read after the inner scope ends
				readAfter := false
				ast.Inspect(fd.Body, func(y ast.Node) bool {
					if id3, ok := y.(*ast.Ident); ok && info.Uses[id3] == types.Object(outer) && id3.Pos() > scope.End() {
						readAfter = true
					}
					return true
				})
				if !readAfter {
					continue
				}
				n++
				perFn[fd]++
				sc.Violation(fmt.Sprintf("%s:%s#%d", c.P.DeclName(fd), id.Name, perFn[fd]), c.P.Pos(lateAssign.Pos()), fmt.Sprintf("%s declared at %s shadows the %s of the enclosing scope; the verdict assigned here goes to the inner variable, which ends with its block, while the code after the block tests the outer one: the error is dropped and the faulty document accepted", id.Name, c.P.Pos(as.Pos()), id.Name))
			}
			return true
		})
	})
	if n == 0 {
		sc.Holds("shadows", "-", fmt.Sprintf("%d block-level shadows of an error variable, none receives a verdict that the outer scope then tests", shadows))
	}
}
