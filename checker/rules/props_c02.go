package rules

func init() {
	reg("C02", &PropSpec{
		Rules:       []Rule{r("E1", RuleE1), r("E2b", RuleE2b), r("E3i", RuleE3i), r("SB1", RuleSB1), r("B1", RuleB1), r("U1", RuleU1), r("S1d", RuleS1("S1d")), r("PF1", RulePF1), r("EL1", RuleEL1), r("IT1", RuleIT1), r("HK1", RuleHK1), r("NL1", RuleNL1)},
		Explanation: "Structural necessary conditions for well-located diagnostics, decided at every error construction site: file and index come from one object, through wrappers; the one wrapper that pairs the current scanner's file with a caller-supplied index is unreachable after the scan stage (E1/E2a); every error gets its include trace - via the directive's tracer or the scan stage's defer (E2b); the include-tracer cache key covers everything the cached tracer is built from (E3i); body positions are never combined with an unset body (B1); line arithmetic is defined for the empty file and scanner indices never underflow (U1, S1d). Not decided: that line/quote arithmetic computes the right line for every newline convention; that a library position is relative to the directive's own body when errors are re-attributed. The include stack and its per-level hashes grow and shrink in lockstep (PF1). In a loop over elements that carry a directive an error is reported at the element's own directive (EL1); the position stored with a suspended scanner is the INCLUDE keyword's (IT1). A level of the include stack is identified in the tracer cache by the hash of the file's name as given, untransformed (HK1), and every position-to-line helper is given the line break detected in the very content it measures (NL1): the include chain of a diagnostic names the right files and the right INCLUDE lines whatever the directory layout and line-end style.",
		Trusted:     trustedCommon,
	})
}
