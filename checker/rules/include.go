package rules

import (
	"fmt"
	"go/ast"
	"go/token"
	"go/types"
	"sort"
	"strings"

	"golang.org/x/tools/go/ssa"

	"verif/checker/cfgx"
)

// RuleI1: file access is confined to names the validator accepted, joined to the
// including file's directory.
func RuleI1(c *Ctx) {
	sc := c.Run.Begin("I1", "the only file-system calls of the library are os.Stat/os.ReadFile behind INCLUDE and the reader of the root file; the INCLUDE path is filepath.Join(filepath.Dir(<current file>), p) with p the very value the name validator accepted (its error returns before the Join), and ReadFile receives the path Stat accepted", 1)
	defer sc.End()
	corePk := c.P.Pkg("core")
	if corePk == nil {
		sc.Undecided("anchors", "-", "unresolved anchor: package core")
		return
	}
	n := 0
	var statFn *ast.FuncDecl
	var statPathObj types.Object
	var sites []callSite
	c.eachCall(func(cs callSite) {
		f := Callee(cs.Pk.TypesInfo, cs.Call)
		if f == nil || f.Pkg() == nil {
			return
		}
		if ((f.Pkg().Path() == "os" || f.Pkg().Path() == "io/ioutil") && fsCall(f.Name())) || strings.HasSuffix(f.Pkg().Path(), "jsight-schema-go-library/reader") {
			sites = append(sites, cs)
		}
	})
	// the stat sites first: the read sites are judged against them
	sort.SliceStable(sites, func(i, j int) bool {
		fi := Callee(sites[i].Pk.TypesInfo, sites[i].Call).Name()
		fj := Callee(sites[j].Pk.TypesInfo, sites[j].Call).Name()
		return strings.HasSuffix(fi, "tat") && !strings.HasSuffix(fj, "tat")
	})
	for _, cs := range sites {
		cs := cs
		info := cs.Pk.TypesInfo
		f := Callee(info, cs.Call)
		isFS := (f.Pkg().Path() == "os" || f.Pkg().Path() == "io/ioutil") && fsCall(f.Name())
		isReader := strings.HasSuffix(f.Pkg().Path(), "jsight-schema-go-library/reader")
		if !isFS && !isReader {
			continue
		}
		n++
		key := fmt.Sprintf("%s:%s.%s#%d", c.P.DeclName(cs.Decl), f.Pkg().Name(), f.Name(), n)
		pos := c.P.Pos(cs.Call.Pos())
		cf := c.CFG(cs.Pk, cs.Body)
		switch {
		case isReader:
			// the root file: the caller-supplied path of the exported constructor
			if id, ok := ast.Unparen(cs.Call.Args[0]).(*ast.Ident); ok && paramIndex(cs, info, info.ObjectOf(id)) >= 0 {
				sc.Holds(key, pos, "root file: the path is the caller's own argument (the one entry that is not confined by design)")
			} else {
				sc.Violation(key, pos, "the root reader is called with something other than the caller-supplied path")
			}
		case cs.Pk != corePk:
			sc.Violation(key, pos, "file-system call outside the INCLUDE implementation")
		case f.Name() == "Stat" || f.Name() == "Lstat":
			// the path may be the parameter of a helper with one caller: judge it where it is built
			statArg := cs.Call.Args[0]
			for depth := 0; depth < 3 && cs.Lit == nil; depth++ {
				id, ok := ast.Unparen(c.CFG(cs.Pk, cs.Body).Resolve(statArg)).(*ast.Ident)
				if !ok {
					break
				}
				pi := paramIndex(cs, cs.Pk.TypesInfo, cs.Pk.TypesInfo.ObjectOf(id))
				self := declObj(cs)
				if pi < 0 || self == nil || c.usedAsValue(self) {
					break
				}
				callers := c.callSitesOf(self)
				if len(callers) != 1 || pi >= len(callers[0].Call.Args) {
					break
				}
				cs = callers[0]
				statArg = cs.Call.Args[pi]
			}
			info = cs.Pk.TypesInfo
			cf = c.CFG(cs.Pk, cs.Body)
			// arg := filepath.Join(filepath.Dir(X), p)
			arg := cf.Resolve(statArg)
			join, ok := ast.Unparen(arg).(*ast.CallExpr)
			if !ok || !isPkgFunc(info, join, "path/filepath", "Join") || len(join.Args) != 2 {
				sc.Violation(key, pos, "the path given to os.Stat is not filepath.Join(dir, name)")
				continue
			}
			dir, ok := ast.Unparen(join.Args[0]).(*ast.CallExpr)
			if !ok || !isPkgFunc(info, dir, "path/filepath", "Dir") {
				sc.Violation(key, pos, "the directory part of the INCLUDE path is not filepath.Dir(<current file name>)")
				continue
			}
			p := join.Args[1]
			// some func(string) error of core was called on p and its error returned before here
			validated := ""
			gen := func(fa cfgx.Fact) bool {
				be, ok := ast.Unparen(fa.Expr).(*ast.BinaryExpr)
				if !ok {
					return false
				}
				// `err != nil` with err := validate(p), or - handed over by a helper's summary -
				// the call itself compared with nil
				var def *ast.CallExpr
				switch x := ast.Unparen(be.X).(type) {
				case *ast.Ident:
					def, _ = ast.Unparen(cf.Resolve(x)).(*ast.CallExpr)
				case *ast.CallExpr:
					def = x
				}
				if def == nil || len(def.Args) != 1 || !(cfgx.SameExpr(info, def.Args[0], p) || cf.SameResolved(def.Args[0], p)) {
					return false
				}
				g := Callee(info, def)
				if g == nil || g.Pkg() != corePk.Types {
					return false
				}
				sig := g.Type().(*types.Signature)
				if sig.Params().Len() != 1 || sig.Results().Len() != 1 || !isErrorType(sig.Results().At(0).Type()) {
					return false
				}
				if (be.Op == token.NEQ && !fa.Truth) || (be.Op == token.EQL && fa.Truth) {
					validated = g.Name()
					return true
				}
				return false
			}
			if cf.MustAt(cs.Call, gen, nil, nil) {
				sc.Holds(key, pos, fmt.Sprintf("path = Join(Dir(current file), %s) with %s validated by %s (error returns first)", types.ExprString(p), types.ExprString(p), validated))
				statFn = cs.Decl
				if id, ok := ast.Unparen(statArg).(*ast.Ident); ok {
					statPathObj = info.ObjectOf(id)
				}
				// and what the validator judges is the name as written: the lexeme's value
				// through accessors only. A name normalised first (Clean, ToSlash, TrimSpace ...)
				// shows the validator something other than what the document says - the
				// components it exists to refuse ('.', '..') may already be gone.
				rawKey := c.P.DeclName(cs.Decl) + ":validated-as-written"
				how := transformedKey(info, cf.Resolve(p))
				// the name may come out of a helper that reads and validates it: judge what the
				// helper hands out on success
				if id, ok := ast.Unparen(cf.Resolve(p)).(*ast.Ident); ok && how == "" {
					if rhs, idx, ok := cf.TupleDefOf(info.ObjectOf(id)); ok {
						if hc, ok := ast.Unparen(rhs).(*ast.CallExpr); ok {
							if hd := c.P.Decl(Callee(info, hc)); hd != nil {
								hpk := c.P.PkgOfDecl(hd)
								ros := c.resultObjs(hpk, hd, retSuccess)
								if idx < len(ros) && ros[idx] != nil {
									hcf := c.CFG(hpk, hd.Body)
									if def := hcf.DefOf(ros[idx]); def != nil {
										how = transformedKey(hpk.TypesInfo, hcf.Resolve(def))
									} else if hcf.AssignOf(ros[idx]) == nil || assignedAnywhere(hpk.TypesInfo, hd.Body, ros[idx]) {
										how = "a value reassigned in " + hd.Name.Name
									}
								}
							}
						}
					}
				}
				if how == "" {
					sc.Holds(rawKey, pos, "the validated name is the parameter lexeme's value, untransformed")
				} else {
					sc.Violation(rawKey, pos, "the name validator is applied to a transformed name ("+how+"), not to the INCLUDE parameter as written: names the validator exists to refuse ('./x.jst', 'sub/../x.jst') are rewritten into acceptable ones before it looks")
				}
			} else {
				sc.Violation(key, pos, "the INCLUDE name reaches the file system without passing the name validator on every path: a name with '..', an absolute path or a backslash can leave the project directory")
			}
		case f.Name() == "ReadFile" || f.Name() == "Open":
			// the argument must come, through parameters, from the value Stat accepted
			ok, why := c.readsAcceptedPath(cs, cs.Call.Args[0], statFn, statPathObj, 0)
			if ok {
				sc.Holds(key, pos, why)
			} else {
				sc.Violation(key, pos, "the file that is read is not the path that was validated and stat'ed: "+why)
			}
		default:
			sc.Violation(key, pos, "unexpected file-system call "+f.Name())
		}
	}
}

func isPkgFunc(info *types.Info, call *ast.CallExpr, pkg, name string) bool {
	f := Callee(info, call)
	return f != nil && f.Pkg() != nil && f.Pkg().Path() == pkg && f.Name() == name
}

// readsAcceptedPath: e is (through parameters and single-assignment locals) the first
// result of the function that contains the Stat call, which returns the stat'ed path.
func (c *Ctx) readsAcceptedPath(cs callSite, e ast.Expr, statFn *ast.FuncDecl, statPath types.Object, depth int) (bool, string) {
	if statFn == nil || depth > 3 {
		return false, "no validated os.Stat found to pair with"
	}
	info := cs.Pk.TypesInfo
	cf := c.CFG(cs.Pk, cs.Body)
	r := cf.Resolve(e)
	if id, ok := ast.Unparen(r).(*ast.Ident); ok {
		// tuple result of the stat function?
		if call := tupleDefCall(cf, info, id, 0); call != nil {
			g := Callee(info, call)
			if g != nil && c.P.Decl(g) == statFn {
				// the stat function returns the stat'ed variable on its success path
				spk := c.P.PkgOfDecl(statFn)
				okRet := false
				ast.Inspect(statFn.Body, func(n ast.Node) bool {
					ret, isRet := n.(*ast.ReturnStmt)
					if !isRet || len(ret.Results) != 2 {
						return true
					}
					if tv, has := spk.TypesInfo.Types[ret.Results[1]]; has && tv.IsNil() {
						if rid, isId := ast.Unparen(ret.Results[0]).(*ast.Ident); isId && spk.TypesInfo.ObjectOf(rid) == statPath {
							okRet = true
						} else if lit, isLit := ast.Unparen(ret.Results[0]).(*ast.BasicLit); !isLit || lit.Value != `""` {
							okRet = false
						}
					}
					return true
				})
				if okRet {
					return true, "reads exactly the path that " + statFn.Name.Name + " validated and stat'ed"
				}
				return false, statFn.Name.Name + " does not return the stat'ed path"
			}
		}
		// a parameter: follow the callers
		if pi := paramIndex(cs, info, info.ObjectOf(id)); pi >= 0 && cs.Lit == nil {
			f := declObj(cs)
			callers := c.callSitesOf(f)
			if f == nil || len(callers) == 0 || c.usedAsValue(f) {
				return false, "parameter with unknown callers"
			}
			why := ""
			for _, cc := range callers {
				ok, w := c.readsAcceptedPath(cc, cc.Call.Args[pi], statFn, statPath, depth+1)
				if !ok {
					return false, w
				}
				why = w
			}
			return true, why
		}
	}
	return false, "path expression " + types.ExprString(e) + " is not derived from the validated path"
}

// RuleFF1: every inclusion gets its own file object. The *fs.File handed to the scanner
// that reads an included file is, on every value path, the fresh result of the file
// constructor made for this inclusion - never an object kept in (and fetched from) a map
// or a field. Directives remember the file they came from by pointer and are compared by
// (file pointer, offset): a shared object makes the directives of two inclusions of one
// file indistinguishable.
func RuleFF1(c *Ctx) {
	sc := c.Run.Begin("FF1", "the file object given to the scanner of an included file is a fresh constructor result on every value path (SSA value flow), not one shared through a container", 1)
	defer sc.End()
	corePk := c.P.Pkg("core")
	scanT := c.Named("scanner", "Scanner")
	if corePk == nil || scanT == nil {
		sc.Undecided("anchors", "-", "unresolved anchor: core / scanner.Scanner")
		return
	}
	// the scanner constructor: function of package scanner with a *fs.File parameter returning *Scanner
	var ctor *types.Func
	spk := c.P.Pkg("scanner")
	for _, nm := range spk.Types.Scope().Names() {
		f, ok := spk.Types.Scope().Lookup(nm).(*types.Func)
		if !ok {
			continue
		}
		sig := f.Type().(*types.Signature)
		if sig.Results().Len() != 1 || sig.Params().Len() < 1 {
			continue
		}
		if p, ok := sig.Results().At(0).Type().(*types.Pointer); !ok || !types.Identical(p.Elem(), scanT) {
			continue
		}
		if p, ok := sig.Params().At(0).Type().(*types.Pointer); ok {
			if n, ok := p.Elem().(*types.Named); ok && n.Obj().Name() == "File" {
				ctor = f
			}
		}
	}
	if ctor == nil {
		sc.Undecided("anchors", "-", "unresolved anchor: the scanner constructor taking a *fs.File")
		return
	}
	isFresh := func(call *ssa.Call) bool {
		callee := call.Call.StaticCallee()
		if callee == nil {
			return false
		}
		if o := callee.Origin(); o != nil {
			callee = o // an instantiation of a generic constructor
		}
		if callee.Pkg == nil || !strings.HasSuffix(callee.Pkg.Pkg.Path(), "jsight-schema-go-library/fs") {
			return false
		}
		return strings.HasPrefix(callee.Name(), "New")
	}
	readsFiles := func(f *types.Func) bool {
		for _, g := range reachStatic(c.P, corePk, []*types.Func{f}) {
			gd := c.P.Decl(g)
			hit := false
			ast.Inspect(gd.Body, func(n ast.Node) bool {
				if call, ok := n.(*ast.CallExpr); ok {
					if h := Callee(corePk.TypesInfo, call); h != nil && h.Pkg() != nil && h.Pkg().Path() == "os" && fsCall(h.Name()) {
						hit = true
					}
				}
				return true
			})
			if hit {
				return true
			}
		}
		return false
	}
	n := 0
	for _, cs := range c.callSitesOf(ctor) {
		if cs.Pk != corePk {
			continue
		}
		caller := declObj(cs)
		if caller == nil {
			continue
		}
		fn := c.P.SSAFunc(caller)
		if fn == nil {
			if readsFiles(caller) {
				sc.Undecided("ssa:"+caller.Name(), c.P.Pos(cs.Call.Pos()), "no SSA form")
			}
			continue
		}
		// the SSA call instruction of this site
		var arg ssa.Value
		for _, b := range fn.Blocks {
			for _, in := range b.Instrs {
				if call, ok := in.(*ssa.Call); ok && call.Pos() == cs.Call.Lparen {
					if sc0 := call.Call.StaticCallee(); sc0 != nil && sc0.Name() == ctor.Name() && len(call.Call.Args) > 0 {
						arg = call.Call.Args[0]
					}
				}
			}
		}
		if !readsFiles(caller) {
			// the file may be handed in by the one function that read it: judged there
			par, isParam := arg.(*ssa.Parameter)
			var up *ssa.Function
			var upArg ssa.Value
			ups := 0
			if isParam {
				idx := -1
				for i, p := range fn.Params {
					if p == par {
						idx = i
					}
				}
				if node := c.P.CallGraph().Nodes[fn]; node != nil && idx >= 0 {
					for _, e := range node.In {
						if e.Site == nil || e.Caller.Func == nil || !c.P.IsRepoFunc(e.Caller.Func) {
							continue
						}
						if args := e.Site.Common().Args; e.Site.Common().StaticCallee() == fn && idx < len(args) {
							ups++
							up, upArg = e.Caller.Func, args[idx]
						}
					}
				}
			}
			if ups != 1 {
				continue // the root file comes from the API's caller
			}
			reads := false
			for _, d := range []*ssa.Function{up} {
				if obj, ok := d.Object().(*types.Func); ok && readsFiles(obj) {
					reads = true
				}
			}
			if !reads {
				continue
			}
			fn, arg = up, upArg
		}
		n++
		key := c.P.DeclName(cs.Decl)
		if arg == nil {
			sc.Undecided(key, c.P.Pos(cs.Call.Pos()), "the constructor call was not found in the SSA form")
			continue
		}
		v, why, nodes := c.flowFrom(fn, arg, isFresh)
		switch v {
		case flowAll:
			sc.Holds(key, c.P.Pos(cs.Call.Pos()), fmt.Sprintf("the scanner's file is a fresh fs constructor result on every value path (%d SSA values walked)", nodes))
		case flowSkips:
			sc.Violation(key, c.P.Pos(cs.Call.Pos()), "the file object handed to the scanner of an included file can come from somewhere else than a constructor call made for this inclusion ("+why+"): two inclusions of one file then share one *fs.File, and their directives compare equal (same file pointer, same offset) - the second Path under a second URL is reported as 'not a unique directive'")
		default:
			sc.Undecided(key, c.P.Pos(cs.Call.Pos()), "value flow not decided: "+why)
		}
	}
	if n == 0 {
		sc.Undecided("sites", "-", "no scanner constructor call behind a file read found in core")
	}
}

// ---------------------------------------------------------------- JS1

// RuleJS1: "JSIGHT is not allowed in an included file" is decided by the include stack
// itself. The rejection in the keyword handler that is taken for the JSIGHT keyword is
// reached under the fact that the stack of suspended scanners is not empty (a method of
// scanner.Stack without arguments answering bool), not under a flag kept beside the stack:
// a flag set on INCLUDE and cleared on every pop is wrong as soon as includes nest (after
// the inner file ends the outer one is still an included file).
func RuleJS1(c *Ctx) {
	sc := c.Run.Begin("JS1", "the JSIGHT-in-an-included-file rejection is guarded by the emptiness of the scanner stack itself", 1)
	defer sc.End()
	pk := c.P.Pkg("core")
	dpk := c.P.Pkg("directive")
	stackT := c.Named("scanner", "Stack")
	if pk == nil || dpk == nil || stackT == nil {
		sc.Undecided("anchors", "-", "unresolved anchor: core / directive / scanner.Stack")
		return
	}
	jsight, _ := dpk.Types.Scope().Lookup("Jsight").(*types.Const)
	if jsight == nil {
		sc.Undecided("anchors", "-", "unresolved anchor: directive.Jsight")
		return
	}
	info := pk.TypesInfo
	mentionsJsight := func(e ast.Node) bool {
		hit := false
		ast.Inspect(e, func(n ast.Node) bool {
			if sel, ok := n.(*ast.SelectorExpr); ok && info.ObjectOf(sel.Sel) == types.Object(jsight) {
				hit = true
			}
			return !hit
		})
		return hit
	}
	isStackEmptiness := func(e ast.Expr) bool {
		call, ok := ast.Unparen(e).(*ast.CallExpr)
		if !ok || len(call.Args) != 0 {
			return false
		}
		g := Callee(info, call)
		if g == nil || recvNamedOf(g) != stackT {
			return false
		}
		b, ok := g.Type().(*types.Signature).Results().At(0).Type().Underlying().(*types.Basic)
		return ok && b.Kind() == types.Bool
	}
	n := 0
	c.P.Funcs(func(p *pkgT, fd *ast.FuncDecl) {
		if p != pk {
			return
		}
		ast.Inspect(fd.Body, func(x ast.Node) bool {
			ret, ok := x.(*ast.ReturnStmt)
			if !ok || len(ret.Results) == 0 {
				return true
			}
			last := ret.Results[len(ret.Results)-1]
			if tv, has := info.Types[last]; !has || tv.IsNil() || !isErrorLike(info.TypeOf(last)) {
				return true
			}
			body := innermostBody(fd, ret)
			cf := c.CFG(pk, body.body)
			facts := cf.FactsAt(ret)
			// the rejection taken for the JSIGHT keyword: some atomic fact compares with Jsight
			forJsight := false
			for _, fa := range facts {
				if be, ok := ast.Unparen(fa.Expr).(*ast.BinaryExpr); ok && (be.Op == token.EQL && fa.Truth || be.Op == token.NEQ && !fa.Truth) && mentionsJsight(be) {
					forJsight = true
				}
			}
			if !forJsight {
				return true
			}
			// ... that depends on where the scan is: it has further atomic facts
			var others []cfgx.Fact
			byStack := false
			for _, fa := range facts {
				e := ast.Unparen(fa.Expr)
				if be, ok := e.(*ast.BinaryExpr); ok && (be.Op == token.LAND || be.Op == token.LOR || mentionsJsight(be)) {
					continue
				}
				if u, ok := e.(*ast.UnaryExpr); ok && u.Op == token.NOT {
					continue
				}
				if be, ok := e.(*ast.BinaryExpr); ok && (isNilIdentExpr(info, be.X) || isNilIdentExpr(info, be.Y)) {
					continue
				}
				if isStackEmptiness(e) {
					byStack = true
					continue
				}
				others = append(others, fa)
			}
			if !byStack && len(others) == 0 {
				return true // a rejection of JSIGHT for another reason (e.g. not the first directive)
			}
			n++
			key := fmt.Sprintf("%s#%d", c.P.DeclName(fd), n)
			if byStack {
				sc.Holds(key, c.P.Pos(ret.Pos()), "taken when the stack of suspended scanners is not empty")
			} else {
				sc.Violation(key, c.P.Pos(ret.Pos()), fmt.Sprintf("JSIGHT is refused under `%s`, not under the state of the scanner stack: a flag beside the stack goes wrong when includes nest - after a nested include returns, a JSIGHT in the still-included outer file is accepted", types.ExprString(others[0].Expr)))
			}
			return true
		})
	})
	if n == 0 {
		sc.Undecided("site", "-", "no rejection taken for the JSIGHT keyword under a condition on where the scan is")
	}
}

// ---------------------------------------------------------------- IT1

// RuleIT1: an include chain names the line of the INCLUDE. The position recorded with the
// suspended scanner (second argument of scanner.Stack.Push) is what later diagnostics print
// as "<file>:<line>" for that level of the chain; it is taken from the INCLUDE keyword's own
// lexeme (an accessor of a *scanner.Lexeme the function was handed), not from wherever the
// scanner happens to stand once the directive has been read: with a block comment and a line
// break between INCLUDE and the file name that is another line.
func RuleIT1(c *Ctx) {
	sc := c.Run.Begin("IT1", "the position stored with a suspended scanner (Stack.Push) is an accessor of the INCLUDE keyword's lexeme", 1)
	defer sc.End()
	push := c.Func("scanner", "Stack.Push")
	lex := c.Named("scanner", "Lexeme")
	if push == nil || lex == nil {
		sc.Undecided("anchors", "-", "unresolved anchor: scanner.Stack.Push / scanner.Lexeme")
		return
	}
	n := 0
	for _, cs := range c.callSitesOf(push) {
		if strings.Contains(c.P.Pos(cs.Call.Pos()), "_test.go") || len(cs.Call.Args) != 2 {
			continue
		}
		n++
		info := cs.Pk.TypesInfo
		cf := c.CFG(cs.Pk, cs.Body)
		key := fmt.Sprintf("%s#%d", c.P.DeclName(cs.Decl), n)
		at := ast.Unparen(cf.Resolve(cs.Call.Args[1]))
		ok := false
		if call, isCall := at.(*ast.CallExpr); isCall && len(call.Args) == 0 {
			if r := Recv(call); r != nil {
				if id, isId := ast.Unparen(cf.Resolve(r)).(*ast.Ident); isId {
					t := info.TypeOf(id)
					if p, isPtr := t.(*types.Pointer); isPtr {
						t = p.Elem()
					}
					if types.Identical(t, lex) {
						ok = true
					}
				}
			}
		}
		if ok {
			sc.Holds(key, c.P.Pos(cs.Call.Pos()), "the recorded position is "+types.ExprString(cs.Call.Args[1]))
		} else {
			sc.Violation(key, c.P.Pos(cs.Call.Pos()), "the position recorded for this level of the include chain is "+types.ExprString(cs.Call.Args[1])+", not a position of the INCLUDE keyword's lexeme: the chain of a later diagnostic names a line on which there is no INCLUDE")
		}
	}
	if n == 0 {
		sc.Undecided("sites", "-", "no call of Stack.Push found")
	}
}
