package rules

func init() {
	reg("C03", &PropSpec{
		Rules: []Rule{
			r("D1", RuleD1), r("D2", RuleD2), r("D3", RuleD3), r("D4", RuleD4), r("G2", RuleG2), r("OP1", RuleOP1),
			r("AL1", RuleAL1),
			r("FP1", RuleFP1),
		},
		Explanation: "Sufficient condition for determinism of the library's own code, decided over every function: an option value shares no map/slice/pointer with the cores it is applied to, so processing one project cannot change the verdict on another (OP1); no order-sensitive map range (D1), no clock/random/environment/goroutine/address source (D2), constant generator seeds (D3), ordered collections serialise in insertion order (D4), no package-level state written after initialisation (G2). Given a deterministic trusted base, a Go program with these properties is a function of its inputs. No function writes through a byte-slice parameter - the source bytes stay as read, so a second run over the same bytes sees the same document (AL1). No formatting call prints a pointer as its address (FP1), and a slice filled in map order is sorted by a total order on its elements - a less function through a lossy key leaves ties in map order (D1).",
		Trusted:     trustedCommon,
		Assume:      []string{"the schema library and lucasjones/reggen are deterministic for a fixed seed"},
	})
}
