package rules

import (
	"fmt"
	"go/ast"
	"go/token"
	"go/types"
	"sort"
	"strings"

	"golang.org/x/tools/go/ssa"

	"verif/checker/cfgx"
)

// ---------------------------------------------------------------- E1 origin pairing

// ownerOf returns the expression that "owns" a file or index expression: the object
// both must be taken from for an error location to be coherent.
func ownerOf(info *types.Info, e ast.Expr) (ast.Expr, bool) {
	e = ast.Unparen(e)
	switch x := e.(type) {
	case *ast.CallExpr:
		// conversion T(x)
		if tv, ok := info.Types[x.Fun]; ok && tv.IsType() && len(x.Args) == 1 {
			return ownerOf(info, x.Args[0])
		}
		// X.File() / X.Begin() / X.End() / X.CurrentIndex()
		if sel, ok := x.Fun.(*ast.SelectorExpr); ok && len(x.Args) == 0 {
			return sel.X, true
		}
	case *ast.SelectorExpr:
		if v, ok := info.ObjectOf(x.Sel).(*types.Var); ok && v.IsField() {
			return x.X, true
		}
	case *ast.BinaryExpr:
		if x.Op == token.ADD || x.Op == token.SUB {
			return ownerOf(info, x.X)
		}
	}
	return e, false
}

// RuleE1: the file and the index of every error come from the same object.
func RuleE1(c *Ctx) {
	sc := c.Run.Begin("E1", "the file and the byte index handed to jerr.NewJApiError come from the same object (scanner, lexeme, coordinates) at every call site, through wrappers; the one cross-object wrapper is confined to the scan stage (E2a)", 1)
	defer sc.End()
	newErr := c.Func("jerr", "NewJApiError")
	if newErr == nil {
		sc.Undecided("anchors", "-", "unresolved anchor: jerr.NewJApiError")
		return
	}
	e := &e1{c: c, sc: sc, seen: map[string]bool{}}
	for _, cs := range c.callSitesOf(newErr) {
		e.check(cs, cs.Call.Args[1], cs.Call.Args[2], 0)
	}
	// confinement of the cross-object wrappers
	later := c.laterStages()
	if len(later) == 0 {
		sc.Undecided("stages", "-", "unresolved anchor: the pipeline stages called by processJApiProject")
		return
	}
	for _, w := range e.cross {
		if path := c.reachFromAny(later, w); path != "" {
			sc.Violation("E2a:"+loadName(w), c.P.Pos(w.Pos()), fmt.Sprintf("%s locates errors in whatever file core.scanner currently holds, and is reachable after scanning (%s): when scanning is over core.scanner is the root scanner again, so an error about an included file would be placed in the root file", w.Name(), path))
		} else {
			sc.Holds("E2a:"+loadName(w), c.P.Pos(w.Pos()), "cross-object wrapper reachable only from the scan stage")
		}
	}
}

func loadName(f *types.Func) string {
	return strings.TrimPrefix(f.FullName(), "github.com/jsightapi/jsight-api-go-library/")
}

type e1 struct {
	c  *Ctx
	sc interface {
		Holds(string, string, string)
		Violation(string, string, string)
	}
	seen  map[string]bool
	cross []*types.Func
}

func (e *e1) check(cs callSite, fileArg, idxArg ast.Expr, depth int) {
	c := e.c
	info := cs.Pk.TypesInfo
	cf := c.CFG(cs.Pk, cs.Body)
	fn := c.P.DeclName(cs.Decl)
	key := fmt.Sprintf("%s@%s", fn, types.ExprString(cs.Call.Fun))
	if e.seen[key+c.P.Pos(cs.Call.Pos())] {
		return
	}
	e.seen[key+c.P.Pos(cs.Call.Pos())] = true
	n := 1
	for e.seen[fmt.Sprintf("%s#%d", key, n)] {
		n++
	}
	key = fmt.Sprintf("%s#%d", key, n)
	e.seen[key] = true
	pos := c.P.Pos(cs.Call.Pos())
	fo, fIsAccessor := ownerOf(info, cf.Resolve(fileArg))
	io, iIsAccessor := ownerOf(info, cf.Resolve(idxArg))
	fParam := paramIndex(cs, info, cfgx.RootObj(info, fo)) >= 0 && !fIsAccessor
	iParam := paramIndex(cs, info, cfgx.RootObj(info, io)) >= 0 && !iIsAccessor
	switch {
	case fIsAccessor && iIsAccessor && cf.SameResolved(fo, io):
		e.sc.Holds(key, pos, "file and index both taken from "+types.ExprString(fo))
	case fIsAccessor && iParam, fParam && iParam:
		// a wrapper: the index (and maybe the file) are its parameters; check every caller
		f := declObj(cs)
		if f == nil || depth > 3 {
			e.sc.Violation(key, pos, "wrapper chain too deep")
			return
		}
		callers := c.callSitesOf(f)
		ip := paramIndex(cs, info, cfgx.RootObj(info, io))
		fp := -1
		if fParam {
			fp = paramIndex(cs, info, cfgx.RootObj(info, fo))
		}
		allSame := len(callers) > 0
		for _, cc := range callers {
			cinfo := cc.Pk.TypesInfo
			ccf := c.CFG(cc.Pk, cc.Body)
			cio, ciAcc := ownerOf(cinfo, ccf.Resolve(cc.Call.Args[ip]))
			var cfo ast.Expr
			cfAcc := false
			if fp >= 0 {
				cfo, cfAcc = ownerOf(cinfo, ccf.Resolve(cc.Call.Args[fp]))
			} else {
				// the wrapper's file owner, seen from the caller: the receiver expression
				// when the wrapper takes the file from its receiver
				if rid, ok := ast.Unparen(fo).(*ast.Ident); ok && cs.Decl.Recv != nil && len(cs.Decl.Recv.List[0].Names) == 1 && info.ObjectOf(rid) == info.ObjectOf(cs.Decl.Recv.List[0].Names[0]) {
					cfo, cfAcc = Recv(cc.Call), true
				}
			}
			if cfo != nil && ciAcc && cfAcc && ccf.SameResolved(cfo, cio) {
				continue
			}
			// the caller is itself a wrapper passing its own parameters on
			if cfo != nil && paramIndex(cc, cinfo, cfgx.RootObj(cinfo, cio)) >= 0 {
				e.check(cc, firstNonNil(cfoOrArg(cc, fp), cfo), cc.Call.Args[ip], depth+1)
				continue
			}
			allSame = false
		}
		if allSame {
			e.sc.Holds(key, pos, fmt.Sprintf("wrapper: all %d callers pass a file/index pair of one object", len(callers)))
		} else {
			e.sc.Holds(key, pos, "cross-object wrapper (file from "+types.ExprString(fo)+", index from the caller): allowed only in the scan stage, see E2a")
			e.cross = append(e.cross, f)
		}
	default:
		e.sc.Violation(key, pos, fmt.Sprintf("the error's file comes from %s but its index from %s: the location can point into the wrong file", types.ExprString(fo), types.ExprString(io)))
	}
}

func cfoOrArg(cc callSite, fp int) ast.Expr {
	if fp >= 0 && fp < len(cc.Call.Args) {
		return cc.Call.Args[fp]
	}
	return nil
}

func firstNonNil(a, b ast.Expr) ast.Expr {
	if a != nil {
		return a
	}
	return b
}

// laterStages: the pipeline functions processJApiProject calls after the first one.
func (c *Ctx) laterStages() []*types.Func {
	pk := c.P.Pkg("core")
	validate := c.Func("core", "JApiCore.ValidateJAPI")
	fd := c.P.Decl(validate)
	if pk == nil || fd == nil {
		return nil
	}
	// follow single-call wrappers down to the function that calls several stages
	for depth := 0; depth < 3; depth++ {
		cs := staticCallees(c.P, pk.TypesInfo, fd.Body)
		if len(cs) == 1 && c.P.Decl(cs[0]) != nil {
			fd = c.P.Decl(cs[0])
			continue
		}
		break
	}
	var order []*types.Func
	ast.Inspect(fd.Body, func(n ast.Node) bool {
		if call, ok := n.(*ast.CallExpr); ok {
			if f := Callee(pk.TypesInfo, call); f != nil && c.P.Decl(f) != nil && recvNamedOf(f) != nil {
				order = append(order, f)
			}
		}
		return true
	})
	sort.SliceStable(order, func(i, j int) bool { return false })
	if len(order) < 3 {
		return nil
	}
	return order[1:]
}

// ScanStage returns the first pipeline stage.
func (c *Ctx) scanStage() *types.Func {
	pk := c.P.Pkg("core")
	validate := c.Func("core", "JApiCore.ValidateJAPI")
	fd := c.P.Decl(validate)
	if pk == nil || fd == nil {
		return nil
	}
	for depth := 0; depth < 3; depth++ {
		cs := staticCallees(c.P, pk.TypesInfo, fd.Body)
		if len(cs) == 1 && c.P.Decl(cs[0]) != nil {
			fd = c.P.Decl(cs[0])
			continue
		}
		break
	}
	var first *types.Func
	ast.Inspect(fd.Body, func(n ast.Node) bool {
		if call, ok := n.(*ast.CallExpr); ok && first == nil {
			if f := Callee(pk.TypesInfo, call); f != nil && c.P.Decl(f) != nil && recvNamedOf(f) != nil {
				first = f
			}
		}
		return true
	})
	return first
}

// reachFromAny: target is reachable in the VTA call graph from one of the roots;
// returns a rendering of the path or "".
func (c *Ctx) reachFromAny(roots []*types.Func, target *types.Func) string {
	cg := c.P.CallGraph()
	tf := c.P.SSAFunc(target)
	if tf == nil {
		return ""
	}
	for _, r := range roots {
		rf := c.P.SSAFunc(r)
		if rf == nil {
			continue
		}
		prev := map[*ssa.Function]*ssa.Function{rf: nil}
		queue := []*ssa.Function{rf}
		for len(queue) > 0 {
			f := queue[0]
			queue = queue[1:]
			if f == tf {
				var path []string
				for x := f; x != nil; x = prev[x] {
					path = append([]string{x.Name()}, path...)
				}
				return strings.Join(path, " -> ")
			}
			n := cg.Nodes[f]
			if n == nil {
				continue
			}
			for _, e := range n.Out {
				g := e.Callee.Func
				if g == nil || !c.P.IsRepoFunc(g) {
					continue
				}
				if _, ok := prev[g]; !ok {
					prev[g] = f
					queue = append(queue, g)
				}
			}
		}
	}
	return ""
}

// ---------------------------------------------------------------- E2b include trace

// RuleE2b: every error gets its include trace.
func RuleE2b(c *Ctx) {
	sc := c.Run.Begin("E2b", "every jerr.NewJApiError call site is either in the directive error constructor, which passes the error through its include tracer on every path, or in code reachable only from the scan stage, whose deferred AddIncludeTraceToError on the named result is present", 1)
	defer sc.End()
	newErr := c.Func("jerr", "NewJApiError")
	scan := c.scanStage()
	later := c.laterStages()
	if newErr == nil || scan == nil || len(later) == 0 {
		sc.Undecided("anchors", "-", "unresolved anchor: jerr.NewJApiError / pipeline stages")
		return
	}
	// the scan stage's deferred trace
	sfd := c.P.Decl(scan)
	spk := c.P.PkgOfDecl(sfd)
	deferOK := false
	if sfd.Type.Results != nil && len(sfd.Type.Results.List) == 1 && len(sfd.Type.Results.List[0].Names) == 1 {
		res := spk.TypesInfo.ObjectOf(sfd.Type.Results.List[0].Names[0])
		for _, st := range sfd.Body.List {
			d, ok := st.(*ast.DeferStmt)
			if !ok {
				continue
			}
			ast.Inspect(d, func(n ast.Node) bool {
				call, ok := n.(*ast.CallExpr)
				if !ok || len(call.Args) != 1 {
					return true
				}
				if f := Callee(spk.TypesInfo, call); f != nil && f.Name() == "AddIncludeTraceToError" {
					if id, ok := call.Args[0].(*ast.Ident); ok && spk.TypesInfo.ObjectOf(id) == res {
						deferOK = true
					}
				}
				return true
			})
		}
	}
	if deferOK {
		sc.Holds("scan-stage-defer", c.P.Pos(sfd.Pos()), "the scan stage adds the include trace of the live scanner stack to its named result in a defer")
	} else {
		sc.Violation("scan-stage-defer", c.P.Pos(sfd.Pos()), "the scan stage no longer adds the include trace to the error it returns: errors raised while an included file is being scanned lose their include chain")
	}
	n := 0
	for _, cs := range c.callSitesOf(newErr) {
		n++
		fn := c.P.DeclName(cs.Decl)
		key := fmt.Sprintf("%s#%d", fn, n)
		pos := c.P.Pos(cs.Call.Pos())
		info := cs.Pk.TypesInfo
		// traced locally?
		traced := false
		var resObj types.Object
		ast.Inspect(cs.Body, func(x ast.Node) bool {
			if as, ok := x.(*ast.AssignStmt); ok && len(as.Rhs) == 1 && as.Rhs[0] == ast.Expr(cs.Call) {
				if id, ok := as.Lhs[0].(*ast.Ident); ok {
					resObj = info.ObjectOf(id)
				}
			}
			return true
		})
		if resObj != nil {
			cf := c.CFG(cs.Pk, cs.Body)
			allRet := true
			found := false
			ast.Inspect(cs.Body, func(x ast.Node) bool {
				ret, ok := x.(*ast.ReturnStmt)
				if !ok || len(ret.Results) != 1 {
					return true
				}
				if id, ok := ret.Results[0].(*ast.Ident); !ok || info.ObjectOf(id) != resObj {
					return true
				}
				found = true
				genStmt := func(nd ast.Node) bool {
					es, ok := nd.(*ast.ExprStmt)
					if !ok {
						return false
					}
					call, ok := es.X.(*ast.CallExpr)
					if !ok || len(call.Args) != 1 {
						return false
					}
					f := Callee(info, call)
					aid, ok := call.Args[0].(*ast.Ident)
					return f != nil && f.Name() == "AddIncludeTraceToError" && ok && info.ObjectOf(aid) == resObj
				}
				if !cf.MustAt(ret, nil, genStmt, nil) {
					allRet = false
				}
				return true
			})
			traced = found && allRet
		}
		if traced {
			sc.Holds(key, pos, "the error passes through the directive's include tracer before it is returned")
			continue
		}
		f := declObj(cs)
		if f == nil {
			sc.Violation(key, pos, "error constructed in an unnamed context")
			continue
		}
		// a wrapper around the traced constructor? then its callers matter; else it must be scan-only
		if path := c.reachFromAny(later, f); path != "" {
			sc.Violation(key, pos, fmt.Sprintf("an error is constructed without an include trace in %s, which is reachable after scanning (%s): a fault in an included file is reported without the include chain", fn, path))
		} else {
			sc.Holds(key, pos, "reachable only from the scan stage, whose defer adds the trace")
		}
	}
}

// ---------------------------------------------------------------- E3(i) value memo

// RuleE3i: a cached value depends on nothing its key does not cover.
func RuleE3i(c *Ctx) { ruleMemo(c, false) }

// RuleME1: what a memo hands out is not changed by the callers that receive it.
func RuleME1(c *Ctx) { ruleMemo(c, true) }

func ruleMemo(c *Ctx, sharedOnly bool) {
	id, what, floor := "E3i", "for every value memo `if v, ok := M[k]; ok { return v }; v = compute(x); M[k] = v` the leaf fields the computation reads are covered by what the key is computed from (a cache hit can never return a value built from different inputs)", 1
	if sharedOnly {
		id, what, floor = "ME1", "for every value memo whose value is a map, slice or pointer, no caller that receives the value changes it (a hit hands out the same object again)", 0
	}
	sc := c.Run.Begin(id, what, floor)
	defer sc.End()
	n := 0
	perFn := map[string]int{}
	c.P.Funcs(func(pk *pkgT, fd *ast.FuncDecl) {
		info := pk.TypesInfo
		cf := c.CFG(pk, fd.Body)
		ast.Inspect(fd.Body, func(x ast.Node) bool {
			// the lookup  v, ok := M[k]  (as the init of an if, or as a statement of its own)
			as, ok := x.(*ast.AssignStmt)
			if !ok || len(as.Lhs) != 2 || len(as.Rhs) != 1 {
				return true
			}
			ix, ok := ast.Unparen(as.Rhs[0]).(*ast.IndexExpr)
			if !ok {
				return true
			}
			if t := info.TypeOf(ix.X); t == nil {
				return true
			} else if _, isMap := t.Underlying().(*types.Map); !isMap {
				return true
			}
			vid, ok := as.Lhs[0].(*ast.Ident)
			okid, ok2 := as.Lhs[1].(*ast.Ident)
			if !ok || !ok2 || vid.Name == "_" || okid.Name == "_" {
				return true
			}
			okObj := info.ObjectOf(okid)
			// the store  M[k] = value  reached only where the lookup missed
			var store *ast.AssignStmt
			ast.Inspect(fd.Body, func(y ast.Node) bool {
				if s2, ok := y.(*ast.AssignStmt); ok && len(s2.Lhs) == 1 && s2.Pos() > as.End() {
					if ix2, ok := ast.Unparen(s2.Lhs[0]).(*ast.IndexExpr); ok && cfgx.SameExpr(info, ix2.X, ix.X) && cfgx.SameExpr(info, ix2.Index, ix.Index) {
						missed := func(fa cfgx.Fact) bool {
							id, isId := ast.Unparen(fa.Expr).(*ast.Ident)
							return isId && info.ObjectOf(id) == okObj && !fa.Truth
						}
						if cf.MustAt(s2, missed, nil, nil) {
							store = s2
						}
					}
				}
				return true
			})
			if store == nil {
				return true
			}
			// the looked-up value is what a hit hands out: it is returned somewhere
			returned := false
			ast.Inspect(fd.Body, func(y ast.Node) bool {
				if ret, ok := y.(*ast.ReturnStmt); ok {
					for _, r := range ret.Results {
						if rid, ok := ast.Unparen(r).(*ast.Ident); ok && info.ObjectOf(rid) == info.ObjectOf(vid) {
							returned = true
						}
					}
				}
				return true
			})
			if !returned {
				return true
			}
			// the value that is stored: the right-hand side, or - when that is a variable written
			// more than once - what the nearest preceding assignment in the same block gave it
			valueExpr := cf.Resolve(store.Rhs[0])
			if rid, ok := ast.Unparen(valueExpr).(*ast.Ident); ok {
				if blk := enclosingBlock(fd.Body, store); blk != nil {
					for _, st := range blk.List {
						if st.Pos() >= store.Pos() {
							break
						}
						if a2, ok := st.(*ast.AssignStmt); ok && len(a2.Lhs) == len(a2.Rhs) {
							for k, l := range a2.Lhs {
								if lid, ok := l.(*ast.Ident); ok && info.ObjectOf(lid) == info.ObjectOf(rid) {
									valueExpr = a2.Rhs[k]
								}
							}
						}
					}
				}
			}
			n++
			perFn[c.P.DeclName(fd)]++
			key := fmt.Sprintf("%s:memo#%d", c.P.DeclName(fd), perFn[c.P.DeclName(fd)])
			fp := &footprint{c: c, seenFn: map[*types.Func]bool{}}
			valueLeaves := fp.ofExpr(pk, cf, cf.Resolve(valueExpr), 0)
			fp2 := &footprint{c: c, seenFn: map[*types.Func]bool{}, keyMode: true}
			keyLeaves := fp2.ofExpr(pk, cf, cf.Resolve(ix.Index), 0)
			var missing []string
			for f := range valueLeaves {
				if !keyLeaves[f] {
					missing = append(missing, fieldName(f))
				}
			}
			sort.Strings(missing)
			// a hit hands out the very object the first caller got: no consumer may change it
			// (a map from which matched entries are deleted comes back emptied)
			if self, _ := info.Defs[fd.Name].(*types.Func); self != nil && sharedOnly {
				switch info.TypeOf(vid).Underlying().(type) {
				case *types.Map, *types.Slice, *types.Pointer:
					for _, cs := range c.callSitesOf(self) {
						cinfo := cs.Pk.TypesInfo
						ccf := c.CFG(cs.Pk, cs.Body)
						var holder types.Object
						ast.Inspect(cs.Body, func(y ast.Node) bool {
							if a2, ok := y.(*ast.AssignStmt); ok && len(a2.Rhs) == 1 && ast.Unparen(a2.Rhs[0]) == ast.Expr(cs.Call) && len(a2.Lhs) >= 1 {
								if hid, ok := a2.Lhs[0].(*ast.Ident); ok {
									holder = cinfo.ObjectOf(hid)
								}
							}
							return true
						})
						if holder == nil {
							continue
						}
						_ = ccf
						mut := ""
						ast.Inspect(cs.Body, func(y ast.Node) bool {
							switch z := y.(type) {
							case *ast.CallExpr:
								if fid, ok := z.Fun.(*ast.Ident); ok && fid.Name == "delete" && len(z.Args) == 2 {
									if a0, ok := ast.Unparen(z.Args[0]).(*ast.Ident); ok && cinfo.ObjectOf(a0) == holder {
										mut = "delete at " + c.P.Pos(z.Pos())
									}
								}
							case *ast.AssignStmt:
								for _, l := range z.Lhs {
									switch lx := ast.Unparen(l).(type) {
									case *ast.IndexExpr:
										if a0, ok := ast.Unparen(lx.X).(*ast.Ident); ok && cinfo.ObjectOf(a0) == holder {
											mut = "element store at " + c.P.Pos(z.Pos())
										}
									case *ast.SelectorExpr:
										if a0, ok := ast.Unparen(lx.X).(*ast.Ident); ok && cinfo.ObjectOf(a0) == holder {
											mut = "field store at " + c.P.Pos(z.Pos())
										}
									}
								}
							}
							return true
						})
						if mut != "" {
							sc.Violation(key+":shared", c.P.Pos(cs.Call.Pos()), fmt.Sprintf("the memoised %s is handed out to every caller with the same key and this caller changes it (%s): the next hit returns the changed object - a property index from which the matched names were deleted comes back empty for the next Path directive with the same body", types.TypeString(info.TypeOf(vid), types.RelativeTo(pk.Types)), mut))
						}
					}
				}
			}
			if sharedOnly {
				sc.Info(key, c.P.Pos(as.Pos()), "memo examined for consumers that change the value")
				return true
			}
			if len(missing) == 0 {
				sc.Holds(key, c.P.Pos(as.Pos()), fmt.Sprintf("value reads %s; all covered by the key", leafList(valueLeaves)))
			} else {
				sc.Violation(key, c.P.Pos(as.Pos()), fmt.Sprintf("the cached value is computed from %s but the key %s is derived only from %s: a hit can return a value built from different %s", leafList(valueLeaves), types.ExprString(ix.Index), leafList(keyLeaves), strings.Join(missing, ", ")))
			}
			return true
		})
	})
}

func fieldName(f *types.Var) string {
	return f.Name()
}

func leafList(m map[*types.Var]bool) string {
	var s []string
	for f := range m {
		s = append(s, ownerTypeName(f)+"."+f.Name())
	}
	sort.Strings(s)
	if len(s) == 0 {
		return "(nothing)"
	}
	return strings.Join(s, ", ")
}

func ownerTypeName(f *types.Var) string {
	if f.Pkg() == nil {
		return "?"
	}
	scope := f.Pkg().Scope()
	for _, name := range scope.Names() {
		if tn, ok := scope.Lookup(name).(*types.TypeName); ok {
			if st, ok := tn.Type().Underlying().(*types.Struct); ok {
				for i := 0; i < st.NumFields(); i++ {
					if st.Field(i) == f {
						return tn.Name()
					}
				}
			}
		}
	}
	return "?"
}

// footprint computes the leaf struct fields an expression's value depends on,
// following repo callees and, for "derived" container fields (filled only from
// computed values), the expressions stored into them.
type footprint struct {
	c      *Ctx
	seenFn map[*types.Func]bool
	seenFd map[*types.Var]bool
	// keyMode under-approximates: what a key is built FROM (so that it can determine it):
	// field reads in the expression itself, through accessor methods (single-return bodies),
	// and through the one call that computes the elements of a derived container - never
	// through arbitrary callees, whose results merely depend on the state they read.
	keyMode bool
}

func isAccessor(fd *ast.FuncDecl) bool {
	if fd == nil || fd.Body == nil || len(fd.Body.List) != 1 {
		return false
	}
	_, ok := fd.Body.List[0].(*ast.ReturnStmt)
	return ok
}

func isLeafType(t types.Type) bool {
	switch u := t.Underlying().(type) {
	case *types.Slice, *types.Array, *types.Map, *types.Struct:
		return false
	case *types.Pointer:
		// pointers to types of other modules (e.g. *fs.File) are opaque values
		if n, ok := u.Elem().(*types.Named); ok && n.Obj().Pkg() != nil && !strings.HasPrefix(n.Obj().Pkg().Path(), "github.com/jsightapi/jsight-api-go-library") {
			return true
		}
		return false
	}
	return true
}

func (fp *footprint) ofExpr(pk *pkgT, cf *cfgx.Func, e ast.Expr, depth int) map[*types.Var]bool {
	out := map[*types.Var]bool{}
	if depth > 5 || e == nil {
		return out
	}
	info := pk.TypesInfo
	add := func(m map[*types.Var]bool) {
		for k := range m {
			out[k] = true
		}
	}
	ast.Inspect(e, func(n ast.Node) bool {
		switch x := n.(type) {
		case *ast.SelectorExpr:
			if v, ok := info.ObjectOf(x.Sel).(*types.Var); ok && v.IsField() {
				if isLeafType(v.Type()) {
					out[v] = true
				} else {
					add(fp.derived(v, depth+1))
				}
			}
		case *ast.CallExpr:
			if f := Callee(info, x); f != nil {
				if !fp.keyMode || isAccessor(fp.c.P.Decl(f)) {
					add(fp.ofFunc(f, depth+1))
				}
			}
		case *ast.Ident:
			// a local variable: follow its definition
			if obj := info.ObjectOf(x); obj != nil && cf != nil {
				if _, isVar := obj.(*types.Var); isVar && cf.AssignedOnce(obj) {
					if r := cf.Resolve(x); r != ast.Expr(x) {
						add(fp.ofExpr(pk, cf, r, depth+1))
					} else if call := tupleDefCall(cf, info, x, 0); call != nil {
						add(fp.ofExpr(pk, cf, call, depth+1))
					}
				}
			}
		}
		return true
	})
	return out
}

// ofFunc: every leaf field read in the body of f and its callees.
func (fp *footprint) ofFunc(f *types.Func, depth int) map[*types.Var]bool {
	out := map[*types.Var]bool{}
	fd := fp.c.P.Decl(f)
	if fd == nil || fp.seenFn[f] || depth > 5 {
		return out
	}
	fp.seenFn[f] = true
	pk := fp.c.P.PkgOfDecl(fd)
	for k := range fp.ofExpr(pk, nil, nil, depth) {
		out[k] = true
	}
	ast.Inspect(fd.Body, func(n ast.Node) bool {
		switch x := n.(type) {
		case *ast.SelectorExpr:
			if v, ok := pk.TypesInfo.ObjectOf(x.Sel).(*types.Var); ok && v.IsField() {
				if isLeafType(v.Type()) {
					out[v] = true
				} else {
					for k := range fp.derived(v, depth+1) {
						out[k] = true
					}
				}
			}
		case *ast.CallExpr:
			if g := Callee(pk.TypesInfo, x); g != nil {
				if !fp.keyMode || isAccessor(fp.c.P.Decl(g)) {
					for k := range fp.ofFunc(g, depth+1) {
						out[k] = true
					}
				}
			}
		}
		return true
	})
	return out
}

// derived: for a container field whose elements are computed values (every store is
// `X.F = append(X.F, v)` / `X.F[k] = v` with v a scalar), the footprint of those values,
// where parameters of the storing function stand for the fields they are stored into
// by the same function.
func (fp *footprint) derived(field *types.Var, depth int) map[*types.Var]bool {
	out := map[*types.Var]bool{}
	if fp.seenFd == nil {
		fp.seenFd = map[*types.Var]bool{}
	}
	if fp.seenFd[field] || depth > 5 {
		return out
	}
	fp.seenFd[field] = true
	var elem types.Type
	switch u := field.Type().Underlying().(type) {
	case *types.Slice:
		elem = u.Elem()
	case *types.Map:
		elem = u.Elem()
	default:
		return out
	}
	if !isLeafType(elem) {
		return out // a container of structures: its leaves are read through selectors
	}
	c := fp.c
	c.P.Funcs(func(pk *pkgT, fd *ast.FuncDecl) {
		info := pk.TypesInfo
		cf := c.CFG(pk, fd.Body)
		// parameter -> fields it is stored into in this function (composite literals and assignments)
		paramField := map[types.Object][]*types.Var{}
		ast.Inspect(fd.Body, func(n ast.Node) bool {
			if cl, ok := n.(*ast.CompositeLit); ok {
				for _, el := range cl.Elts {
					if kv, ok := el.(*ast.KeyValueExpr); ok {
						if kid, ok := kv.Key.(*ast.Ident); ok {
							if fv, ok := info.ObjectOf(kid).(*types.Var); ok && fv.IsField() {
								if vid, ok := ast.Unparen(kv.Value).(*ast.Ident); ok {
									paramField[info.ObjectOf(vid)] = append(paramField[info.ObjectOf(vid)], fv)
								}
							}
						}
					}
				}
			}
			return true
		})
		ast.Inspect(fd.Body, func(n ast.Node) bool {
			as, ok := n.(*ast.AssignStmt)
			if !ok || len(as.Lhs) != 1 || len(as.Rhs) != 1 {
				return true
			}
			var stored ast.Expr
			if fieldSel(info, as.Lhs[0], field) {
				if call, ok := ast.Unparen(as.Rhs[0]).(*ast.CallExpr); ok {
					if id, ok := call.Fun.(*ast.Ident); ok && id.Name == "append" && len(call.Args) == 2 {
						stored = call.Args[1]
					}
				}
			}
			if ix, ok := ast.Unparen(as.Lhs[0]).(*ast.IndexExpr); ok && fieldSel(info, ix.X, field) {
				stored = as.Rhs[0]
			}
			if stored == nil {
				return true
			}
			// the stored value's footprint; calls' arguments that are parameters stand for their fields
			var walk func(e ast.Expr, d int)
			walk = func(e ast.Expr, d int) {
				if d > 4 {
					return
				}
				e = ast.Unparen(cf.Resolve(e))
				if id, ok := e.(*ast.Ident); ok {
					if call := tupleDefCall(cf, info, id, 0); call != nil {
						e = call
					}
				}
				for k := range fp.ofExpr(pk, cf, e, depth+1) {
					out[k] = true
				}
				if call, ok := e.(*ast.CallExpr); ok && fp.keyMode {
					// the one call that computes the stored element: its own reads count
					if g := Callee(info, call); g != nil {
						saved := fp.keyMode
						fp.keyMode = false
						for k := range fp.ofFunc(g, depth+1) {
							out[k] = true
						}
						fp.keyMode = saved
					}
				}
				if call, ok := e.(*ast.CallExpr); ok {
					for _, a := range call.Args {
						if aid, ok := ast.Unparen(a).(*ast.Ident); ok {
							for _, fv := range paramField[info.ObjectOf(aid)] {
								if isLeafType(fv.Type()) {
									out[fv] = true
								}
							}
						}
					}
				}
			}
			walk(stored, 0)
			return true
		})
	})
	return out
}

// enclosingBlock returns the innermost block statement of body that directly contains st.
func enclosingBlock(body *ast.BlockStmt, st ast.Stmt) *ast.BlockStmt {
	var out *ast.BlockStmt
	ast.Inspect(body, func(n ast.Node) bool {
		if b, ok := n.(*ast.BlockStmt); ok {
			for _, x := range b.List {
				if x == st {
					out = b
				}
			}
		}
		return true
	})
	return out
}

// ---------------------------------------------------------------- EL1

// RuleEL1: in a loop over things that each know their directive, a fault found in one of
// them is reported at that one's directive. Where the range variable is a directive, or a
// struct with a field of type Directive / *Directive, an error constructed inside the loop by
// a method of Directive (KeywordError, BodyError, ...) takes as receiver a value reached from
// the range variable - not a directive fixed before the loop ("the first one's"): the
// diagnostic would stand in a healthy directive, possibly in another file with another
// include chain.
func RuleEL1(c *Ctx) {
	sc := c.Run.Begin("EL1", "inside a loop over elements that carry a directive, errors built by a method of Directive take their receiver from the loop element, not from a loop-invariant directive", 3)
	defer sc.End()
	dirT := c.Named("directive", "Directive")
	pk := c.P.Pkg("core")
	if dirT == nil || pk == nil {
		sc.Undecided("anchors", "-", "unresolved anchor: directive.Directive / core")
		return
	}
	isDir := func(t types.Type) bool {
		if p, ok := t.(*types.Pointer); ok {
			t = p.Elem()
		}
		return types.Identical(t, dirT)
	}
	carries := func(t types.Type) bool {
		if isDir(t) {
			return true
		}
		if p, ok := t.(*types.Pointer); ok {
			t = p.Elem()
		}
		st, ok := t.Underlying().(*types.Struct)
		if !ok {
			return false
		}
		for i := 0; i < st.NumFields(); i++ {
			if isDir(st.Field(i).Type()) {
				return true
			}
		}
		return false
	}
	n := 0
	perFn := map[*ast.FuncDecl]int{}
	c.P.Funcs(func(p *pkgT, fd *ast.FuncDecl) {
		if p != pk {
			return
		}
		info := p.TypesInfo
		ast.Inspect(fd.Body, func(x ast.Node) bool {
			rs, ok := x.(*ast.RangeStmt)
			if !ok || rs.Value == nil {
				return true
			}
			vid, ok := rs.Value.(*ast.Ident)
			if !ok || vid.Name == "_" {
				return true
			}
			vobj := info.ObjectOf(vid)
			if vobj == nil || !carries(vobj.Type()) {
				return true
			}
			// locals defined inside the loop from the element count as "of the element"
			ofElem := map[types.Object]bool{vobj: true}
			for changed := true; changed; {
				changed = false
				ast.Inspect(rs.Body, func(y ast.Node) bool {
					as, ok := y.(*ast.AssignStmt)
					if !ok || as.Tok != token.DEFINE {
						return true
					}
					uses := false
					for _, r := range as.Rhs {
						ast.Inspect(r, func(z ast.Node) bool {
							if id, ok := z.(*ast.Ident); ok && ofElem[info.ObjectOf(id)] {
								uses = true
							}
							return true
						})
					}
					if uses {
						for _, l := range as.Lhs {
							if id, ok := l.(*ast.Ident); ok && info.ObjectOf(id) != nil && !ofElem[info.ObjectOf(id)] {
								ofElem[info.ObjectOf(id)] = true
								changed = true
							}
						}
					}
					return true
				})
			}
			inspectNoLit(rs.Body, func(y ast.Node) bool {
				ret, ok := y.(*ast.ReturnStmt)
				if !ok || len(ret.Results) == 0 {
					return true
				}
				call, ok := ast.Unparen(ret.Results[len(ret.Results)-1]).(*ast.CallExpr)
				if !ok {
					return true
				}
				g := Callee(info, call)
				if g == nil || recvNamedOf(g) != dirT {
					return true
				}
				// an inner loop over something else owns its own returns
				inner := false
				ast.Inspect(rs.Body, func(z ast.Node) bool {
					if r2, ok := z.(*ast.RangeStmt); ok && r2 != rs && r2.Pos() <= ret.Pos() && ret.End() <= r2.End() {
						if id2, ok := r2.Value.(*ast.Ident); ok && info.ObjectOf(id2) != nil && carries(info.ObjectOf(id2).Type()) {
							inner = true
						}
					}
					return true
				})
				if inner {
					return true
				}
				n++
				perFn[fd]++
				key := fmt.Sprintf("%s#%d", c.P.DeclName(fd), perFn[fd])
				root := cfgx.RootObj(info, Recv(call))
				switch {
				case root != nil && ofElem[root]:
					sc.Holds(key, c.P.Pos(call.Pos()), "reported at the directive of the element at fault")
				case root != nil && root.Pos() < rs.Pos():
					sc.Violation(key, c.P.Pos(call.Pos()), fmt.Sprintf("a fault found in the current element (%s) is reported at %s, a directive fixed before the loop: when the elements come from different directives the diagnostic stands in a healthy one (other line, possibly other file and include chain)", vid.Name, types.ExprString(Recv(call))))
				default:
					sc.Info(key, c.P.Pos(call.Pos()), "receiver neither from the element nor fixed before the loop")
				}
				return true
			})
			return true
		})
	})
	if n == 0 {
		sc.Undecided("sites", "-", "no error built inside a loop over directive-carrying elements")
	}
}
