package rules

import (
	"fmt"
	"go/ast"
	"go/constant"
	"go/token"
	"go/types"
	"sort"
	"strings"

	"verif/checker/cfgx"
	"verif/checker/scanpds"
)

// scannerBase records extraction problems; every scanner rule calls it first. An
// extractor that met a construct it does not understand decides nothing.
func scannerBase(c *Ctx, rule, what string, floor int) (*scanpds.Machine, *scanpds.Result, interface {
	Holds(string, string, string)
	Violation(string, string, string)
	Undecided(string, string, string)
	Exception(string, string, string)
	Info(string, string, string)
	SetExtra(any)
	End()
}, bool) {
	sc := c.Run.Begin(rule, what, floor)
	m, r, err := c.Machine()
	if err != nil {
		sc.Undecided("extract", "-", err.Error())
		sc.End()
		return nil, nil, nil, false
	}
	for i, p := range m.Problems {
		if i > 20 {
			break
		}
		sc.Undecided(fmt.Sprintf("extract#%d", i), c.P.Pos(p.Pos), p.Msg)
	}
	c.Run.FuncsAnalysed = len(m.FuncsSeen)
	c.Run.Extra["states"] = r.Heads
	c.Run.Extra["transitions"] = r.Transitions
	c.Run.Extra["scanner_model"] = map[string]any{
		"step_functions": len(m.States), "helper_functions": len(m.FuncsSeen) - len(m.States),
		"byte_classes": r.Classes, "pds_heads": r.Heads, "poststar_transitions": r.Transitions,
		"pds_rules": r.Rules, "arms_checked_in_context": r.CheckedPaths, "constructs": m.Counts,
		"opaque_predicates": m.OpaquePreds, "saturation": scanpds.Sat,
	}
	return m, r, sc, true
}

// RuleS1 reports the post* findings of the given sub-rules (S1a..S1i).
func RuleS1(sub ...string) func(*Ctx) {
	return func(c *Ctx) {
		what := map[string]string{
			"S1a": "stepStack.Pop() is never reached with an empty step stack",
			"S1b": "an ending lexeme event is never processed with no open lexeme; lexemes do not nest",
			"S1c": "end+1 >= begin for every lexeme and no lexeme ends at the end-of-input position",
			"S1d": "curIndex-k / data[curIndex-k] only when at least k bytes were consumed",
			"S1f": "a lexeme never begins at or before the end of the previous one",
			"S1g": "bytes consumed outside lexemes and comments are blanks, line ends or delimiters",
			"S1i": "end of input is not accepted while a lexeme that spans input is open",
			"W3":  "at the start of a line outside lexemes and comments, a blank or a further line end is never an error",
		}
		for _, id := range sub {
			m, r, sc, ok := scannerBase(c, id, what[id]+" (pushdown reachability over the extracted scanner automaton)", len0(id))
			if !ok {
				continue
			}
			n := 0
			for _, f := range r.Findings {
				if f.Rule != id {
					continue
				}
				n++
				sc.Violation(strings.TrimPrefix(f.Key, id+":"), c.P.Pos(f.Pos), f.Detail+" — witness: "+f.Trace)
			}
			// one obligation per reachable state: all its arms were checked in every reachable abstract context
			for _, st := range m.States {
				if !r.ReachStates[st.ID] {
					continue
				}
				bad := false
				for _, f := range r.Findings {
					if f.Rule == id && f.State == st.Name {
						bad = true
					}
				}
				if !bad {
					sc.Holds(st.Name, c.P.Pos(st.Decl.Pos()), fmt.Sprintf("%d arms", len(st.Paths)))
				}
			}
			sc.End()
		}
	}
}

func len0(id string) int { return 100 }

// RuleS1e: progress.
func RuleS1e(c *Ctx) {
	m, r, sc, ok := scannerBase(c, "S1e", "every cycle of scanner steps consumes at least one byte (Scanner.Next cannot spin)", 100)
	if !ok {
		return
	}
	cycles := m.Progress(r)
	for _, cy := range cycles {
		sc.Violation("cycle:"+strings.Join(cy.States, ">"), "-", fmt.Sprintf("cycle of steps with net consumption %d <= 0: %s", cy.Weight, strings.Join(cy.States, " -> ")))
	}
	if len(cycles) == 0 {
		for _, st := range m.States {
			if r.ReachStates[st.ID] {
				sc.Holds(st.Name, c.P.Pos(st.Decl.Pos()), "on no non-positive cycle")
			}
		}
	}
	sc.End()
}

// RuleS1reach: every step function is reachable (an unreachable state is dead code
// the other rules say nothing about; reported as information) and Next rejects NUL.
func RuleK2(c *Ctx) {
	m, r, sc, ok := scannerBase(c, "K2", "the strings the scanner spells as keywords are exactly the directive table (response codes: inside IsHTTPResponseCode)", 25)
	if !ok {
		return
	}
	_ = m
	names := c.DirectiveNames()
	if len(names) == 0 {
		sc.Undecided("table", "-", "unresolved anchor: directive name table")
		sc.End()
		return
	}
	table := map[string]string{}
	respName := ""
	for id, s := range names {
		table[s] = id
		if id == "HTTPResponseCode" {
			respName = s
		}
	}
	var spelled []string
	for k := range r.Keywords {
		spelled = append(spelled, k)
	}
	sort.Strings(spelled)
	nResp := 0
	for _, k := range spelled {
		if _, ok := table[k]; ok && k != respName {
			sc.Holds("spelled:"+k, "-", "in the directive table")
			continue
		}
		// response code language: three digits, 100..599, no leading zero — decided on the
		// syntax of IsHTTPResponseCode (Atoi ok, s[0] != '0', 100 <= code <= 599)
		if len(k) == 3 && k[0] >= '1' && k[0] <= '5' && isDigits(k) {
			nResp++
			continue
		}
		sc.Violation("spelled:"+k, "-", fmt.Sprintf("the scanner emits keyword %q which the directive table does not know: core reports 'unknown directive' for text the scanner accepted as a keyword", k))
	}
	if nResp > 0 {
		lo, hi, ok := c.responseCodeRange()
		if !ok {
			sc.Undecided("response-range", "-", "cannot read the bounds of isHTTPResponseCode")
		} else if lo <= 100 && hi >= 599 {
			sc.Holds("response-codes", "-", fmt.Sprintf("%d three-digit codes [1-5][0-9][0-9] spelled, all within [%d,%d]", nResp, lo, hi))
		} else {
			sc.Violation("response-codes", "-", fmt.Sprintf("scanner accepts [1-5][0-9][0-9] but the table accepts only [%d,%d]", lo, hi))
		}
	}
	for s, id := range table {
		if id == "HTTPResponseCode" {
			continue
		}
		if !r.Keywords[s] {
			sc.Violation("unspellable:"+s, "-", fmt.Sprintf("directive %s (%q) is in the table but no scanner path spells it: it can never be written", id, s))
		}
	}
	sc.SetExtra(map[string]any{"keywords_spelled": len(spelled), "response_codes": nResp})
	sc.End()
}

func isDigits(s string) bool {
	for _, ch := range s {
		if ch < '0' || ch > '9' {
			return false
		}
	}
	return true
}

// RuleW1: in every state '\n' and '\r' take the same arms, and ' ' and '\t' take the same arms.
func RuleW1(c *Ctx) {
	m, r, sc, ok := scannerBase(c, "W1", "every scanner state treats LF and CR alike and space and tab alike", 100)
	if !ok {
		return
	}
	pairs := [][2]byte{{'\n', '\r'}, {' ', '\t'}}
	for _, st := range m.States {
		if !r.ReachStates[st.ID] {
			continue
		}
		bad := ""
		for _, pr := range pairs {
			for _, p := range st.Paths {
				if p.Set.Has(pr[0]) != p.Set.Has(pr[1]) {
					bad = fmt.Sprintf("arm [%s] takes %q but not %q (or vice versa): %s", p.Guards, pr[0], pr[1], m.Describe(st, p))
				}
			}
		}
		if bad != "" {
			sc.Violation(st.Name, c.P.Pos(st.Decl.Pos()), bad+" — the state behaves differently under LF/CR/CRLF or space/tab rewriting")
		} else {
			sc.Holds(st.Name, c.P.Pos(st.Decl.Pos()), "")
		}
	}
	sc.End()
}

// RuleW2: the comment sub-machine is transparent.
func RuleW2(c *Ctx) {
	m, r, sc, ok := scannerBase(c, "W2", "the comment sub-machine emits no event, moves no index, and returns to exactly the state that was interrupted", 8)
	if !ok {
		return
	}
	nl := scanpds.Of('\n', '\r', 0)
	if len(r.CommentStates) == 0 {
		sc.Undecided("comment-states", "-", "unresolved anchor: no state is entered by pushing the current step (startComment)")
	}
	var ids []int
	for id := range r.CommentStates {
		ids = append(ids, id)
	}
	sort.Ints(ids)
	for _, id := range ids {
		st := m.States[id]
		for _, p := range st.Paths {
			key := st.Name + "[" + p.Guards + "]"
			bad := ""
			pops := 0
			for _, e := range p.Effects {
				switch e.Kind {
				case scanpds.EGoto:
					if !r.CommentStates[e.Fn] {
						bad = "leaves the comment by assigning step=" + m.States[e.Fn].Name + " instead of popping the saved state"
					}
				case scanpds.EPopGoto:
					pops++
				case scanpds.EEvent:
					bad = "emits lexeme event " + e.Ev + " inside a comment"
				case scanpds.EPush, scanpds.EPushCur:
					bad = "pushes onto the step stack inside a comment (net stack effect not zero)"
				default:
					bad = "moves the read position or calls the library inside a comment"
				}
			}
			if pops > 1 {
				bad = "pops twice"
			}
			if pops == 1 && p.Out == scanpds.OutRedispatch && !p.Set.SubsetOf(nl) {
				bad = "a line comment is ended by bytes other than a line end / end of input: " + p.Set.String()
			}
			if pops == 0 && p.Out == scanpds.OutRedispatch {
				// re-dispatch inside the comment machine is fine (block comment look-ahead)
			}
			if p.Out == scanpds.OutErr && !p.Set.SubsetOf(scanpds.Of(0)) {
				bad = "a comment rejects bytes " + p.Set.String() + " (comment text must be free)"
			}
			if bad != "" {
				sc.Violation(key, c.P.Pos(p.Pos), bad+" — "+m.Describe(st, p))
			} else {
				sc.Holds(key, c.P.Pos(p.Pos), "")
			}
		}
	}
	// line-comment mode: from the entry state until two further comment signs in a row have
	// been read (which opens a block comment). In line mode every line end and the end of
	// input must end the comment and be handed back to the interrupted state.
	// Block-comment states are those that reject the end of input (an unterminated block);
	// line mode is everything reachable from the entry without entering one of them.
	block := map[int]bool{}
	for id := range r.CommentStates {
		for _, p := range m.States[id].Paths {
			if p.Out == scanpds.OutErr && p.Set.Has(0) {
				block[id] = true
			}
		}
	}
	lineMode := map[int]bool{}
	var work []int
	for _, st := range m.States {
		for _, p := range st.Paths {
			pushedCur := false
			for _, e := range p.Effects {
				if e.Kind == scanpds.EPushCur {
					pushedCur = true
				}
				if e.Kind == scanpds.EGoto && pushedCur {
					work = append(work, e.Fn)
				}
			}
		}
	}
	for len(work) > 0 {
		w := work[len(work)-1]
		work = work[:len(work)-1]
		if lineMode[w] || block[w] {
			continue
		}
		lineMode[w] = true
		for _, p := range m.States[w].Paths {
			for _, e := range p.Effects {
				if e.Kind == scanpds.EGoto {
					work = append(work, e.Fn)
				}
			}
		}
		for _, in := range m.States[w].Inlines {
			work = append(work, in)
		}
	}
	if len(block) == 0 {
		sc.Undecided("block-states", "-", "no comment state rejects the end of input: cannot tell block comments from line comments")
	}
	var lmIDs []int
	for id := range lineMode {
		lmIDs = append(lmIDs, id)
	}
	sort.Ints(lmIDs)
	for _, id := range lmIDs {
		st := m.States[id]
		for _, p := range st.Paths {
			if p.Set.And(nl).Empty() {
				continue
			}
			key := "line-end:" + st.Name + "[" + p.Guards + "]"
			pops := 0
			for _, e := range p.Effects {
				if e.Kind == scanpds.EPopGoto {
					pops++
				}
			}
			if pops == 1 && p.Out == scanpds.OutRedispatch && p.Set.SubsetOf(nl) {
				sc.Holds(key, c.P.Pos(p.Pos), "a line end / end of input ends the line comment and is re-dispatched to the interrupted state")
			} else {
				sc.Violation(key, c.P.Pos(p.Pos), "inside a line comment a line end (or end of input) is swallowed instead of ending the comment and being handed to the interrupted state: the following line disappears into the comment — "+m.Describe(st, p))
			}
		}
	}
	// a block comment is opened by comment signs only: an arm that leaves line mode for a
	// block-comment state is taken on the comment sign itself (the third one in a row), never
	// on text - `## note` is a line comment
	var sign scanpds.ByteSet
	for _, st := range m.States {
		for _, p := range st.Paths {
			for _, e := range p.Effects {
				if e.Kind == scanpds.EPushCur {
					sign = sign.Or(p.Set)
				}
			}
		}
	}
	for _, id := range lmIDs {
		st := m.States[id]
		for _, p := range st.Paths {
			last := -1
			for _, e := range p.Effects {
				if e.Kind == scanpds.EGoto {
					last = e.Fn
				}
			}
			if last < 0 || !block[last] {
				continue
			}
			key := "opens-block:" + st.Name + "[" + p.Guards + "]"
			if p.Set.SubsetOf(sign) {
				sc.Holds(key, c.P.Pos(p.Pos), "block mode is entered on the comment sign only")
			} else {
				sc.Violation(key, c.P.Pos(p.Pos), "a line comment turns into a block comment on a byte that is not the comment sign: the text after `##` swallows everything up to the next `###` or the end of the file — "+m.Describe(st, p))
			}
		}
	}
	// what a comment swallows starts with the comment sign: every arm that leads from a state
	// outside the comment machine into it is taken on the comment sign (bytes that follow the
	// end of an annotation, say, are not comment text unless the author wrote a `#`)
	for _, st := range m.States {
		if r.CommentStates[st.ID] {
			continue
		}
		for _, p := range st.Paths {
			last := -1
			for _, e := range p.Effects {
				if e.Kind == scanpds.EGoto {
					last = e.Fn
				}
			}
			if last < 0 || !r.CommentStates[last] || p.Out == scanpds.OutErr {
				continue
			}
			key := "enters-on-sign:" + st.Name + "[" + p.Guards + "]"
			if p.Set.SubsetOf(sign) {
				sc.Holds(key, c.P.Pos(p.Pos), "")
			} else {
				sc.Violation(key, c.P.Pos(p.Pos), "the comment machine is entered on a byte that is not the comment sign: what follows on the line is skipped as comment text although nobody wrote a comment — "+m.Describe(st, p))
			}
		}
	}
	// entries: the arm that pushes the current step goes to a comment state and does nothing else
	for _, st := range m.States {
		for _, p := range st.Paths {
			hasPushCur := false
			other := false
			for _, e := range p.Effects {
				switch e.Kind {
				case scanpds.EPushCur:
					hasPushCur = true
				case scanpds.EGoto:
					if hasPushCur && !r.CommentStates[e.Fn] {
						other = true
					}
				case scanpds.EEvent, scanpds.ERewind, scanpds.EJump, scanpds.ELibLen, scanpds.EPush, scanpds.EPopGoto:
					if hasPushCur {
						other = true
					}
				}
			}
			if !hasPushCur {
				continue
			}
			key := "enter:" + st.Name + "[" + p.Guards + "]"
			if other || p.Out != scanpds.OutNil {
				sc.Violation(key, c.P.Pos(p.Pos), "entering a comment has side effects beyond saving the state: "+m.Describe(st, p))
			} else {
				sc.Holds(key, c.P.Pos(p.Pos), "")
			}
		}
	}
	sc.End()
}

// RuleQ1: the quoted-parameter sub-automaton.
func RuleQ1(c *Ctx) {
	m, r, sc, ok := scannerBase(c, "Q1", "inside a quoted parameter a line end or end of input is an error, a backslash is followed only by \\ or \", the closing quote ends the parameter at that byte", 6)
	if !ok {
		return
	}
	_ = r
	quote := scanpds.Of('"')
	// the in-quotes state: target of the arm that begins a Parameter on '"'
	inQ := -1
	for _, st := range m.States {
		for _, p := range st.Paths {
			if p.Set != quote || p.Out != scanpds.OutNil {
				continue
			}
			begins := false
			tgt := -1
			for _, e := range p.Effects {
				if e.Kind == scanpds.EEvent && m.Begin[e.Ev] && m.LexKind[e.Ev] == "Parameter" {
					begins = true
				}
				if e.Kind == scanpds.EGoto {
					tgt = e.Fn
				}
			}
			if begins && tgt >= 0 {
				if inQ >= 0 && inQ != tgt {
					sc.Undecided("in-quotes", c.P.Pos(p.Pos), "two different in-quotes states")
				}
				inQ = tgt
			}
		}
	}
	if inQ < 0 {
		sc.Undecided("in-quotes", "-", "unresolved anchor: no arm begins a Parameter lexeme on '\"'")
		sc.End()
		return
	}
	st := m.States[inQ]
	slash := -1
	nlEOF := scanpds.Of('\n', '\r', 0)
	var covered scanpds.ByteSet
	for _, p := range st.Paths {
		key := st.Name + "[" + p.Guards + "]"
		covered = covered.Or(p.Set)
		switch {
		case !p.Set.And(nlEOF).Empty():
			if p.Out == scanpds.OutErr && p.Set.SubsetOf(nlEOF) && len(p.Effects) == 0 {
				sc.Holds(key, c.P.Pos(p.Pos), "line end / end of input inside quotes is an error at that byte")
			} else {
				sc.Violation(key, c.P.Pos(p.Pos), "a line end or end of input inside a quoted parameter is not rejected: "+m.Describe(st, p))
			}
		case p.Set == scanpds.Of('\\'):
			tgt := -1
			for _, e := range p.Effects {
				if e.Kind == scanpds.EGoto {
					tgt = e.Fn
				} else {
					tgt = -2
				}
			}
			if tgt >= 0 && p.Out == scanpds.OutNil {
				slash = tgt
				sc.Holds(key, c.P.Pos(p.Pos), "backslash enters the escape state")
			} else {
				sc.Violation(key, c.P.Pos(p.Pos), "backslash inside quotes does not enter a dedicated escape state: "+m.Describe(st, p))
			}
		case p.Set == quote:
			okEnd := false
			for _, e := range p.Effects {
				if e.Kind == scanpds.EEvent && m.End[e.Ev] && m.LexKind[e.Ev] == "Parameter" && e.Off == 0 {
					okEnd = true
				}
			}
			if okEnd && p.Out == scanpds.OutNil {
				sc.Holds(key, c.P.Pos(p.Pos), "closing quote ends the parameter at that byte")
			} else {
				sc.Violation(key, c.P.Pos(p.Pos), "the closing quote does not end the Parameter lexeme at its own position: "+m.Describe(st, p))
			}
		default:
			stays := true
			for _, e := range p.Effects {
				if !(e.Kind == scanpds.EGoto && e.Fn == inQ) {
					stays = false
				}
			}
			if stays && p.Out == scanpds.OutNil {
				sc.Holds(key, c.P.Pos(p.Pos), "ordinary byte stays inside the quotes")
			} else {
				sc.Violation(key, c.P.Pos(p.Pos), "an ordinary byte inside quotes has an effect: "+m.Describe(st, p))
			}
		}
	}
	if slash < 0 {
		sc.Violation("escape-state", c.P.Pos(st.Decl.Pos()), "no escape state after a backslash inside quotes")
		sc.End()
		return
	}
	es := m.States[slash]
	allowed := scanpds.Of('\\', '"')
	for _, p := range es.Paths {
		key := es.Name + "[" + p.Guards + "]"
		if p.Set.SubsetOf(allowed) {
			back := false
			for _, e := range p.Effects {
				if e.Kind == scanpds.EGoto && e.Fn == inQ {
					back = true
				}
			}
			if back && p.Out == scanpds.OutNil && len(p.Effects) == 1 {
				sc.Holds(key, c.P.Pos(p.Pos), "escaped \\ or \" continues the parameter")
			} else {
				sc.Violation(key, c.P.Pos(p.Pos), "an escaped \\ or \" does not simply continue the parameter: "+m.Describe(es, p))
			}
		} else if !p.Set.And(allowed).Empty() {
			sc.Violation(key, c.P.Pos(p.Pos), "arm mixes legal and illegal escapes: "+m.Describe(es, p))
		} else if p.Out == scanpds.OutErr && len(p.Effects) == 0 {
			sc.Holds(key, c.P.Pos(p.Pos), "any other byte after a backslash is an error at that byte")
		} else {
			sc.Violation(key, c.P.Pos(p.Pos), "a backslash before a byte other than \\ or \" is accepted: "+m.Describe(es, p))
		}
	}
	sc.End()
}

// RuleLJ1: the body length comes from the library and the lexeme is exactly that extent.
func RuleLJ1(c *Ctx) {
	m, _, sc, ok := scannerBase(c, "LJ1", "after a library Len() call the read position moves by len-1 only, and the lexeme is closed at the byte before the next one read", 5)
	if !ok {
		return
	}
	for _, st := range m.States {
		for _, p := range st.Paths {
			idx := -1
			for i, e := range p.Effects {
				if e.Kind == scanpds.ELibLen {
					idx = i
				}
			}
			if idx < 0 || p.Out == scanpds.OutErr {
				continue
			}
			key := st.Name + "[" + p.Guards + "]"
			// before: a begin event at offset 0 is the last event
			var begin string
			for _, e := range p.Effects[:idx] {
				if e.Kind == scanpds.EEvent {
					begin = ""
					if m.Begin[e.Ev] && e.Off == 0 {
						begin = e.Ev
					}
				}
			}
			bad := ""
			if begin == "" {
				bad = "the library length is taken without a lexeme begin at the current byte"
			}
			tgt := -1
			for _, e := range p.Effects[idx+1:] {
				switch e.Kind {
				case scanpds.EJump:
				case scanpds.EGoto:
					tgt = e.Fn
				default:
					bad = "unexpected effect after the library length call"
				}
			}
			if tgt < 0 {
				bad = "no closing state after the library length call"
			}
			if bad == "" {
				for _, q := range m.States[tgt].Paths {
					if q.Out == scanpds.OutErr {
						continue
					}
					okEnd := false
					for _, e := range q.Effects {
						if e.Kind == scanpds.EEvent && m.PairOf[e.Ev] == begin && e.Off == 1 {
							okEnd = true
						}
					}
					if !okEnd {
						bad = fmt.Sprintf("closing state %s has an arm that does not end the lexeme at curIndex-1: %s", m.States[tgt].Name, m.Describe(m.States[tgt], q))
					}
				}
			}
			if bad != "" {
				sc.Violation(key, c.P.Pos(p.Pos), bad+" — "+m.Describe(st, p))
			} else {
				sc.Holds(key, c.P.Pos(p.Pos), "lexeme "+begin+" spans exactly the library's extent")
			}
		}
	}
	sc.End()
}

// responseCodeRange reads the numeric bounds accepted by directive.IsHTTPResponseCode
// from the shape of the (int) bool helper it calls: return code >= LO && code <= HI.
func (c *Ctx) responseCodeRange() (lo, hi int64, ok bool) {
	pk := c.P.Pkg("directive")
	f := c.Func("directive", "IsHTTPResponseCode")
	fd := c.P.Decl(f)
	if pk == nil || fd == nil {
		return 0, 0, false
	}
	var inner *ast.FuncDecl
	ast.Inspect(fd.Body, func(n ast.Node) bool {
		if call, isCall := n.(*ast.CallExpr); isCall {
			if g := Callee(pk.TypesInfo, call); g != nil && g.Pkg() == pk.Types {
				sig := g.Type().(*types.Signature)
				if sig.Params().Len() == 1 && sig.Results().Len() == 1 {
					if b, isB := sig.Params().At(0).Type().Underlying().(*types.Basic); isB && b.Info()&types.IsInteger != 0 {
						inner = c.P.Decl(g)
					}
				}
			}
		}
		return true
	})
	if inner == nil || len(inner.Body.List) != 1 {
		return 0, 0, false
	}
	ret, isRet := inner.Body.List[0].(*ast.ReturnStmt)
	if !isRet || len(ret.Results) != 1 {
		return 0, 0, false
	}
	and, isAnd := ast.Unparen(ret.Results[0]).(*ast.BinaryExpr)
	if !isAnd || and.Op != token.LAND {
		return 0, 0, false
	}
	gotLo, gotHi := false, false
	for _, side := range []ast.Expr{and.X, and.Y} {
		be, isBe := ast.Unparen(side).(*ast.BinaryExpr)
		if !isBe {
			return 0, 0, false
		}
		tv, has := pk.TypesInfo.Types[be.Y]
		if !has || tv.Value == nil {
			return 0, 0, false
		}
		v, _ := constant.Int64Val(constant.ToInt(tv.Value))
		switch be.Op {
		case token.GEQ:
			lo, gotLo = v, true
		case token.GTR:
			lo, gotLo = v+1, true
		case token.LEQ:
			hi, gotHi = v, true
		case token.LSS:
			hi, gotHi = v-1, true
		}
	}
	return lo, hi, gotLo && gotHi
}

// RuleES1: an escape state is blind to the byte it consumes. A state that is entered only
// over a backslash (every arm of the machine whose last `step =` names it is taken on '\\'
// alone) exists to take the next byte literally: all its accepting arms have the same
// effects, whatever the byte. An escape state that looks at the escaped byte - "a second
// backslash starts a new escape" - pairs the backslashes of `\\/` the wrong way round and
// carries the body past its closing delimiter, beyond what the library delimits.
func RuleES1(c *Ctx) {
	m, _, sc, ok := scannerBase(c, "ES1", "every state entered only over a backslash treats all bytes it accepts alike (same effects, same next step)", 2)
	if !ok {
		return
	}
	bs := scanpds.Of('\\')
	enteredOn := map[int][]scanpds.ByteSet{}
	for _, st := range m.States {
		for _, p := range st.Paths {
			last := -1
			for _, e := range p.Effects {
				if e.Kind == scanpds.EGoto {
					last = e.Fn
				}
			}
			if last >= 0 && last != st.ID {
				enteredOn[last] = append(enteredOn[last], p.Set)
			}
		}
	}
	sig := func(p scanpds.Path) string {
		var parts []string
		for _, e := range p.Effects {
			parts = append(parts, fmt.Sprintf("%d/%d/%s/%d", e.Kind, e.Fn, e.Ev, e.Off))
		}
		return fmt.Sprintf("%s->%d", strings.Join(parts, ";"), p.Out)
	}
	for _, st := range m.States {
		sets := enteredOn[st.ID]
		if len(sets) == 0 {
			continue
		}
		only := true
		for _, s := range sets {
			if s != bs {
				only = false
			}
		}
		if !only {
			continue
		}
		sigs := map[string][]string{}
		for _, p := range st.Paths {
			if p.Out == scanpds.OutErr {
				continue
			}
			sigs[sig(p)] = append(sigs[sig(p)], m.Describe(st, p))
		}
		switch {
		case len(sigs) == 0:
			sc.Violation(st.Name, c.P.Pos(st.Decl.Pos()), "the escape state accepts no byte")
		case len(sigs) == 1:
			sc.Holds(st.Name, c.P.Pos(st.Decl.Pos()), "entered over a backslash only; every accepted byte is consumed the same way")
		default:
			var all []string
			for _, d := range sigs {
				all = append(all, d[0])
			}
			sort.Strings(all)
			sc.Violation(st.Name, c.P.Pos(st.Decl.Pos()), "the escape state treats the escaped byte differently by its value: "+strings.Join(all, " | ")+" - an escaped backslash before the closing delimiter (`\\\\/`) is read as the start of another escape, and the body runs past the end the library computes")
		}
	}
	sc.End()
}

// RuleWQ1: where an unquoted parameter ends depends on the current byte alone. The bare
// state (the target of the arms that begin a Parameter lexeme on a byte other than '"')
// ends the lexeme only on arms that are unconditional for their byte set: no look-back
// into the data and no data-dependent predicate, and at the byte before the one that ended
// it. A bare value is then cut at the first delimiter byte and nowhere else, which is
// what "a value that needs no quotes reads the same with them" rests on; an end that also
// depends on the neighbours (`//` unless after ':') cuts values that quoting keeps whole.
func RuleWQ1(c *Ctx) {
	m, _, sc, ok := scannerBase(c, "WQ1", "the unquoted-parameter state ends the Parameter lexeme only on arms decided by the current byte alone (no look-back, no data-dependent predicate), at the previous byte", 1)
	if !ok {
		return
	}
	quote := scanpds.Of('"')
	bare := map[int]bool{}
	for _, st := range m.States {
		for _, p := range st.Paths {
			if p.Out == scanpds.OutErr || !p.Set.And(quote).Empty() {
				continue
			}
			begins := false
			tgt := -1
			for _, e := range p.Effects {
				if e.Kind == scanpds.EEvent && m.Begin[e.Ev] && m.LexKind[e.Ev] == "Parameter" && e.Off == 0 {
					begins = true
					tgt = -1
				}
				if e.Kind == scanpds.EGoto && begins {
					tgt = e.Fn
				}
			}
			if begins && tgt >= 0 {
				bare[tgt] = true
			}
		}
	}
	if len(bare) == 0 {
		sc.Undecided("bare-state", "-", "unresolved anchor: no arm begins a Parameter lexeme on a byte other than '\"'")
		sc.End()
		return
	}
	for id := range bare {
		st := m.States[id]
		ends := 0
		for _, p := range st.Paths {
			var end *scanpds.Effect
			readBack := false
			for i, e := range p.Effects {
				if e.Kind == scanpds.EEvent && m.End[e.Ev] && m.LexKind[e.Ev] == "Parameter" {
					end = &p.Effects[i]
				}
				if e.Kind == scanpds.EReadBack {
					readBack = true
				}
			}
			if end == nil {
				if readBack || p.May {
					sc.Violation(st.Name+"["+p.Guards+"]", c.P.Pos(p.Pos), "inside an unquoted parameter the scanner looks at something other than the current byte: "+m.Describe(st, p))
				}
				continue
			}
			ends++
			key := st.Name + "[" + p.Guards + "]"
			switch {
			case readBack || p.May:
				sc.Violation(key, c.P.Pos(p.Pos), "an unquoted parameter is ended under a condition on the neighbouring bytes, not on the current byte alone: a bare value containing that byte pattern is cut where the quoted spelling is not - "+m.Describe(st, p))
			case end.Off != 1:
				sc.Violation(key, c.P.Pos(p.Pos), "an unquoted parameter is not ended at the byte before its delimiter: "+m.Describe(st, p))
			default:
				sc.Holds(key, c.P.Pos(p.Pos), "ends the parameter before the delimiter, decided by the current byte alone")
			}
		}
		if ends == 0 {
			sc.Violation(st.Name, c.P.Pos(st.Decl.Pos()), "the unquoted-parameter state never ends the Parameter lexeme")
		}
	}
	sc.End()
}

// RuleUS1: no byte is consumed unseen. An arm that is taken for every byte (the state does
// not look at the byte at all) either hands the byte on (redispatch), ends in an error, or
// lets the schema library measure the bytes (a library length call). An arm that consumes
// whatever byte it got - `s.found(TextBegin); s.step = T; return nil` - hides that byte
// from the classification the next state makes: a `(` that opens the parenthesised spelling
// of a description, a line end, the end of input.
func RuleUS1(c *Ctx) {
	m, _, sc, ok := scannerBase(c, "US1", "every arm that is taken for all bytes alike redispatches the byte, is an error, or lets the library measure it - it never simply consumes it", 5)
	if !ok {
		return
	}
	full := scanpds.Full()
	for _, st := range m.States {
		for _, p := range st.Paths {
			if p.Set != full {
				continue
			}
			key := st.Name + "[" + p.Guards + "]"
			lib := false
			for _, e := range p.Effects {
				if e.Kind == scanpds.ELibLen {
					lib = true
				}
			}
			switch {
			case p.Out == scanpds.OutRedispatch, p.Out == scanpds.OutErr, lib:
				sc.Holds(key, c.P.Pos(p.Pos), "")
			default:
				sc.Violation(key, c.P.Pos(p.Pos), "a byte is consumed without having been looked at: the next state never classifies it (an opening parenthesis, a line end or the end of input in that position is taken for ordinary text) — "+m.Describe(st, p))
			}
		}
	}
	sc.End()
}

// RuleZ1: the end-of-input sentinel is the scanner's own. The automaton is analysed with
// "byte 0 means end of input"; that is sound only if a zero byte of the data never reaches a
// step function. In the driver (the Scanner method that calls the current step with a byte),
// every value that can be handed to the step is either the sentinel constant itself or a
// data byte that was compared with the sentinel first, the equal case ending in an error -
// also when the byte is fetched by a helper. A NUL in the file would otherwise be taken for
// the end of the file by whichever state is current, consumed, and belong to no lexeme.
func RuleZ1(c *Ctx) {
	sc := c.Run.Begin("Z1", "every byte the driver hands to the current step is the end-of-input sentinel itself or a data byte that was tested against the sentinel (equal: error) on every path", 1)
	defer sc.End()
	m, _, err := c.Machine()
	if err != nil || m == nil {
		sc.Undecided("extract", "-", "the scanner model could not be extracted")
		return
	}
	pk := c.P.Pkg("scanner")
	info := pk.TypesInfo
	stepField, dataField := m.StepField(), m.DataField()
	if stepField == nil || dataField == nil {
		sc.Undecided("anchors", "-", "unresolved anchor: the step and data fields of the scanner")
		return
	}
	isEOF := func(e ast.Expr) bool {
		tv, ok := info.Types[e]
		return ok && tv.Value != nil && tv.Value.ExactString() == "0" && isByte(tv.Type)
	}
	isData := func(e ast.Expr) bool {
		ix, ok := ast.Unparen(e).(*ast.IndexExpr)
		if !ok {
			return false
		}
		sel, ok := ast.Unparen(ix.X).(*ast.SelectorExpr)
		return ok && info.ObjectOf(sel.Sel) == types.Object(dataField)
	}
	var judge func(fd *ast.FuncDecl, e ast.Expr, at ast.Node, depth int) (bool, string)
	judge = func(fd *ast.FuncDecl, e ast.Expr, at ast.Node, depth int) (bool, string) {
		e = ast.Unparen(e)
		switch {
		case isEOF(e):
			return true, ""
		case isData(e):
			return false, "a data byte (" + types.ExprString(e) + ") is handed on without having been compared with the sentinel"
		}
		switch x := e.(type) {
		case *ast.Ident:
			obj := info.ObjectOf(x)
			cf := c.CFG(pk, fd.Body)
			// `c, je := s.currentByte()`: the byte is the i-th result of a helper - judge
			// what the helper hands out at that position
			if rhs, idx, isTuple := cf.TupleDefOf(obj); isTuple && depth <= 2 {
				if hc, ok := ast.Unparen(rhs).(*ast.CallExpr); ok {
					if gd := c.P.Decl(Callee(info, hc)); gd != nil && gd.Body != nil {
						res, why := true, ""
						inspectNoLit(gd.Body, func(n ast.Node) bool {
							ret, ok := n.(*ast.ReturnStmt)
							if !ok || idx >= len(ret.Results) {
								return true
							}
							if ok2, w := judge(gd, ret.Results[idx], ret, depth+1); !ok2 {
								res, why = false, gd.Name.Name+": "+w
							}
							return true
						})
						return res, why
					}
				}
			}
			assignsTo := func(nd ast.Node, pred func(ast.Expr) bool) bool {
				as, ok := nd.(*ast.AssignStmt)
				if !ok || len(as.Lhs) != len(as.Rhs) {
					return false
				}
				for i, l := range as.Lhs {
					if id, ok := l.(*ast.Ident); ok && info.ObjectOf(id) == obj && pred(as.Rhs[i]) {
						return true
					}
				}
				return false
			}
			notEOF := func(fa cfgx.Fact) bool {
				be, ok := ast.Unparen(fa.Expr).(*ast.BinaryExpr)
				if !ok || (be.Op != token.EQL && be.Op != token.NEQ) {
					return false
				}
				l, r := be.X, be.Y
				if isEOF(l) {
					l, r = r, l
				}
				id, ok := ast.Unparen(l).(*ast.Ident)
				if !ok || info.ObjectOf(id) != obj || !isEOF(r) {
					return false
				}
				return (be.Op == token.NEQ) == fa.Truth
			}
			okV := cf.MustAt(at, notEOF,
				func(nd ast.Node) bool { return assignsTo(nd, isEOF) },
				func(nd ast.Node) bool {
					return assignsTo(nd, func(r ast.Expr) bool { return !isEOF(r) })
				})
			if okV {
				return true, ""
			}
			return false, "the byte variable " + x.Name + " reaches the step without the sentinel test on some path after it was loaded"
		case *ast.CallExpr:
			g := Callee(info, x)
			gd := c.P.Decl(g)
			if g == nil || gd == nil || depth > 2 {
				return false, "the byte comes from " + types.ExprString(x) + ", which cannot be followed"
			}
			res := true
			why := ""
			inspectNoLit(gd.Body, func(n ast.Node) bool {
				ret, ok := n.(*ast.ReturnStmt)
				if !ok || len(ret.Results) == 0 {
					return true
				}
				if ok2, w := judge(gd, ret.Results[0], ret, depth+1); !ok2 {
					res, why = false, g.Name()+": "+w
				}
				return true
			})
			return res, why
		}
		return false, "the byte expression " + types.ExprString(e) + " is not understood"
	}
	n := 0
	c.P.Funcs(func(p *pkgT, fd *ast.FuncDecl) {
		if p != pk || strings.Contains(c.P.Pos(fd.Pos()), "_test.go") {
			return
		}
		if _, isState := m.ByObj[info.Defs[fd.Name].(*types.Func)]; isState {
			return
		}
		if m.FuncsSeen[fd.Name.Name] {
			return // step helpers re-dispatch the byte they were given
		}
		inspectNoLit(fd.Body, func(x ast.Node) bool {
			call, ok := x.(*ast.CallExpr)
			if !ok || len(call.Args) != 2 {
				return true
			}
			sel, ok := ast.Unparen(call.Fun).(*ast.SelectorExpr)
			if !ok || info.ObjectOf(sel.Sel) != types.Object(stepField) {
				return true
			}
			n++
			key := fmt.Sprintf("%s#%d", c.P.DeclName(fd), n)
			if ok2, why := judge(fd, call.Args[1], call, 0); ok2 {
				sc.Holds(key, c.P.Pos(call.Pos()), "the byte is the sentinel or a data byte tested against it")
			} else {
				sc.Violation(key, c.P.Pos(call.Pos()), why+": a zero byte in the file is taken for the end of the input by whichever state is current - it is consumed, belongs to no lexeme and is reported by nobody")
			}
			return true
		})
	})
	if n == 0 {
		sc.Undecided("driver", "-", "unresolved anchor: the call of the current step with a byte outside the step functions")
	}
}

// ---------------------------------------------------------------- LS1

// RuleLS1: a line-start state survives an empty line. Some states exist only to judge the
// first bytes of a line - the closing parenthesis of a parenthesised description "on a
// separate line", a keyword that ends a bare text - and are entered from their mid-line
// partner when a line-end byte is consumed. Such a state L must keep itself on a further
// line-end byte (\n and \r alike, consumed without a step change): an empty line, or the
// second byte of a CR LF break, otherwise throws the scanner back into the mid-line state
// with the next line's first byte never judged as a line start. The parenthesised spelling
// with a blank line before `)` is then rejected (or read differently) while the bare
// spelling of the same text is not.
func RuleLS1(c *Ctx) {
	m, _, sc, ok := scannerBase(c, "LS1", "every state entered from another state by consuming a line-end byte stays in itself on \\n and on \\r", 3)
	if !ok {
		return
	}
	defer sc.End()
	var nl scanpds.ByteSet
	nl[0] |= 1<<'\n' | 1<<'\r'
	lastGoto := func(p scanpds.Path) int {
		last := -1
		for _, e := range p.Effects {
			switch e.Kind {
			case scanpds.EGoto:
				last = e.Fn
			case scanpds.EPopGoto, scanpds.EPushCur:
				last = -2 // stack traffic: not a plain line-start entry
			}
		}
		return last
	}
	lineStart := map[int]string{}
	for _, st := range m.States {
		for _, p := range st.Paths {
			if p.Out != scanpds.OutNil || p.Set.And(nl).Empty() || !p.Set.SubsetOf(nl) {
				continue
			}
			if to := lastGoto(p); to >= 0 && to != st.ID {
				if _, seen := lineStart[to]; !seen {
					lineStart[to] = st.Name
				}
			}
		}
	}
	for _, st := range m.States {
		from, is := lineStart[st.ID]
		if !is {
			continue
		}
		for _, b := range []byte{'\n', '\r'} {
			key := fmt.Sprintf("%s:on-%q", st.Name, b)
			judged := false
			for _, p := range st.Paths {
				if !p.Set.Has(b) {
					continue
				}
				judged = true
				to := lastGoto(p)
				switch {
				case p.Out == scanpds.OutErr:
					sc.Holds(key, c.P.Pos(p.Pos), "a line end is an error here")
				case p.Out == scanpds.OutNil && (to == -1 || to == st.ID):
					sc.Holds(key, c.P.Pos(p.Pos), "stays in the line-start state entered from "+from)
				default:
					sc.Violation(key, c.P.Pos(p.Pos), "the line-start state (entered from "+from+" on a line end) leaves itself on a further line-end byte: after an empty line, or the LF of a CR LF break, the first byte of the next line is no longer judged as a line start — "+m.Describe(st, p))
				}
			}
			if !judged {
				sc.Undecided(key, "-", "no arm of the state covers this byte")
			}
		}
	}
}
