package rules

func init() {
	reg("C08", &PropSpec{
		Rules:       []Rule{r("I1", RuleI1), r("E3i", RuleE3i), r("T1", RuleT1), r("B2", RuleB2), r("N1", RuleN1), r("U1", RuleU1), r("K2p", RuleK2p), r("PF1", RulePF1), r("FF1", RuleFF1), r("IX1", RuleIX1), r("JS1", RuleJS1), r("IT1", RuleIT1), r("EC1", RuleEC1)},
		Explanation: "Confinement by construction: the only file-system calls are os.Stat/os.ReadFile behind INCLUDE (and the reader of the caller-supplied root path); the path is Join(Dir(current file), p) where p is the very value the name validator accepted, its error returning before the Join, and ReadFile gets the path Stat accepted (I1). Include cycles are refused because the scanner stack grows only for files not already on it (T1 include worklist); a banned INCLUDE touches no file (B2); extra INCLUDE parameters and empty included files are diagnostics, not crashes (N1, U1). Not decided: that the validator rejects exactly the bad names (a for-all-strings property of a pure string function); equivalence with textual inclusion. INCLUDE is visible to the description look-ahead (K2p); every inclusion gets a fresh file object on every value path (FF1); include stack and hashes in lockstep (PF1); the name validator never indexes an emptied value (IX1). The name the validator judges is the INCLUDE parameter as written (I1 validated-as-written); a Push that reports success has appended to every parallel slice (PF1 success-means-grown). JSIGHT-in-an-included-file is decided by the scanner stack itself (JS1); the include chain records the INCLUDE keyword's position (IT1). An INCLUDE equals its text written in place also inside parentheses: the unclosed-context verdict belongs to the end of the root file (EC1: known finding F17).",
		Trusted:     trustedCommon,
	})
}
