package rules

import (
	"go/ast"
	"go/token"
	"go/types"

	"verif/checker/cfgx"
)

// Fact summaries of helpers.
//
// A check that a function used to make itself is often moved into a helper:
//
//	name, macro, je := core.findMacroForPaste(paste)   // refuses a macro that is on the stack
//	if je != nil { return je }
//	...                                                // here: "name is not in expandingMacros"
//
//	if isJSight(q.Schema) { ... }                      // here: "q.Schema.Notation == JSight"
//
// The must-dataflow of cfgx sees only the caller's conditions `je != nil` / `isJSight(..)`.
// expandFact supplies what those conditions imply: the facts that dominate EVERY success
// return of the helper (for an error-returning helper), or every `return true` / `return
// false` (for a predicate), re-expressed in the caller's terms (parameters replaced by the
// call's arguments, single-assignment locals of the helper by their definitions). A fact
// that mentions a local of the helper that cannot be expressed that way is dropped, so
// the summary only ever under-approximates what the helper established.

type retKind int

const (
	retSuccess retKind = iota
	retTrue
	retFalse
)

type summaryKey struct {
	f    *types.Func
	kind retKind
}

type summaries struct {
	cache map[summaryKey][]cfgx.Fact
	busy  map[*types.Func]bool
}

func (c *Ctx) expandFact(pk *pkgT) func(cf *cfgx.Func, fa cfgx.Fact) []cfgx.Fact {
	return func(cf *cfgx.Func, fa cfgx.Fact) []cfgx.Fact {
		if c.sums == nil {
			c.sums = &summaries{cache: map[summaryKey][]cfgx.Fact{}, busy: map[*types.Func]bool{}}
		}
		info := pk.TypesInfo
		if flagFacts := c.flagImplies(info, cf, fa); flagFacts != nil {
			return flagFacts
		}
		call, kind, ok := c.factCall(info, cf, fa)
		if !ok {
			return nil
		}
		callee := Callee(info, call)
		if callee == nil {
			return nil
		}
		fd := c.P.Decl(callee)
		if fd == nil || fd.Body == nil || fd.Body == cf.Body {
			return nil
		}
		hpk := c.P.PkgOfDecl(fd)
		if hpk == nil {
			return nil
		}
		facts := c.returnFacts(hpk, callee, fd, kind)
		if len(facts) == 0 {
			return nil
		}
		cfh := c.CFG(hpk, fd.Body)
		// substitution: parameters -> arguments, receiver -> receiver expression
		sub := map[types.Object]ast.Expr{}
		i := 0
		variadic := callee.Type().(*types.Signature).Variadic()
		for _, fl := range fd.Type.Params.List {
			names := fl.Names
			if len(names) == 0 {
				i++
				continue
			}
			for _, nm := range names {
				if i < len(call.Args) && !(variadic && i == callee.Type().(*types.Signature).Params().Len()-1) {
					if o := hpk.TypesInfo.ObjectOf(nm); o != nil {
						sub[o] = call.Args[i]
					}
				}
				i++
			}
		}
		if fd.Recv != nil && len(fd.Recv.List) == 1 && len(fd.Recv.List[0].Names) == 1 {
			if r := Recv(call); r != nil {
				if o := hpk.TypesInfo.ObjectOf(fd.Recv.List[0].Names[0]); o != nil {
					sub[o] = r
				}
			}
		}
		// what the helper returns next to its verdict is what the caller's variables hold:
		// `name, macro, je := h(x)` - a local of h that every success return hands out as
		// result i is the caller's i-th left-hand side
		// first in terms of what the helper's locals were computed from (a returned `name`
		// that was d.NamedParameter("Name") is a fact about that call), then ...
		var out []cfgx.Fact
		for _, hf := range facts {
			if e := substToCaller(hf.Expr, sub, hpk.TypesInfo, info, cfh.DefOf); e != nil {
				out = append(out, cfgx.Fact{Expr: e, Truth: hf.Truth})
			}
		}
		byResult := false
		if lhs := c.callLHS(info, cf, fa, call); lhs != nil {
			for i, o := range c.resultObjs(hpk, fd, kind) {
				if o != nil && i < len(lhs) {
					if id, ok := lhs[i].(*ast.Ident); ok && id.Name != "_" {
						if _, taken := sub[o]; !taken {
							sub[o] = id
							byResult = true
						}
					}
				}
			}
		}
		// ... in terms of the caller's own variables that received the results
		if byResult {
			for _, hf := range facts {
				if e := substToCaller(hf.Expr, sub, hpk.TypesInfo, info, cfh.DefOf); e != nil {
					dup := false
					for _, o := range out {
						if o.Truth == hf.Truth && types.ExprString(o.Expr) == types.ExprString(e) {
							dup = true
						}
					}
					if !dup {
						out = append(out, cfgx.Fact{Expr: e, Truth: hf.Truth})
					}
				}
			}
		}
		return out
	}
}

// factCall recognises the facts whose truth is the outcome of a call: `v == nil` for the
// error result of a call (success), a predicate call, or a boolean local defined by one.
func (c *Ctx) factCall(info *types.Info, cf *cfgx.Func, fa cfgx.Fact) (*ast.CallExpr, retKind, bool) {
	e := ast.Unparen(fa.Expr)
	callOf := func(x ast.Expr) (*ast.CallExpr, int, bool) {
		x = ast.Unparen(x)
		if call, ok := x.(*ast.CallExpr); ok {
			return call, -1, true
		}
		id, ok := x.(*ast.Ident)
		if !ok {
			return nil, 0, false
		}
		obj := info.ObjectOf(id)
		if def := cf.DefOf(obj); def != nil {
			if call, ok := ast.Unparen(def).(*ast.CallExpr); ok {
				return call, -1, true
			}
			return nil, 0, false
		}
		if rhs, idx, ok := cf.TupleDefOf(obj); ok {
			if call, ok := ast.Unparen(rhs).(*ast.CallExpr); ok {
				return call, idx, true
			}
		}
		return nil, 0, false
	}
	isLast := func(call *ast.CallExpr, idx int) bool {
		f := Callee(info, call)
		if f == nil {
			return false
		}
		n := f.Type().(*types.Signature).Results().Len()
		return n > 0 && (idx == n-1 || (idx == -1 && n == 1))
	}
	if be, ok := e.(*ast.BinaryExpr); ok && (be.Op == token.EQL || be.Op == token.NEQ) {
		x := be.X
		if isNilIdentExpr(info, x) {
			x = be.Y
		} else if !isNilIdentExpr(info, be.Y) {
			return nil, 0, false
		}
		if (be.Op == token.EQL) != fa.Truth {
			return nil, 0, false // the failure side establishes nothing
		}
		t := info.TypeOf(x)
		if t == nil || !isErrorLike(t) {
			return nil, 0, false
		}
		call, idx, ok := callOf(x)
		if !ok || !isLast(call, idx) {
			return nil, 0, false
		}
		return call, retSuccess, true
	}
	// predicates
	t := info.TypeOf(e)
	if t == nil {
		return nil, 0, false
	}
	if b, ok := t.Underlying().(*types.Basic); !ok || b.Info()&types.IsBoolean == 0 {
		return nil, 0, false
	}
	call, idx, ok := callOf(e)
	if !ok || !isLast(call, idx) {
		return nil, 0, false
	}
	if _, isConv := info.Types[call.Fun]; isConv && info.Types[call.Fun].IsType() {
		return nil, 0, false
	}
	if fa.Truth {
		return call, retTrue, true
	}
	return call, retFalse, true
}

// returnFacts: the facts that dominate every return of the given kind, in the helper's own
// terms (comma-ok flags replaced by the lookup they come from).
func (c *Ctx) returnFacts(hpk *pkgT, callee *types.Func, fd *ast.FuncDecl, kind retKind) []cfgx.Fact {
	key := summaryKey{callee, kind}
	if v, ok := c.sums.cache[key]; ok {
		return v
	}
	if c.sums.busy[callee] {
		return nil
	}
	c.sums.busy[callee] = true
	defer delete(c.sums.busy, callee)
	info := hpk.TypesInfo
	cfh := c.CFG(hpk, fd.Body)
	var acc []cfgx.Fact
	first := true
	matched := 0
	inspectNoLit(fd.Body, func(n ast.Node) bool {
		ret, ok := n.(*ast.ReturnStmt)
		if !ok || len(ret.Results) == 0 {
			return true
		}
		last := ret.Results[len(ret.Results)-1]
		tv, has := info.Types[last]
		var extra []cfgx.Fact
		switch kind {
		case retSuccess:
			if has && tv.IsNil() {
				// success
			} else if has && tv.Value != nil {
				return true
			} else if _, isCall := ast.Unparen(last).(*ast.CallExpr); isCall {
				return true // an error being constructed (or propagated from a call: not a success of ours)
			} else {
				// a variable: an error return when it is known non-nil here
				nonNil := false
				for _, fa := range cfh.FactsAt(ret) {
					if cfgx.IsNilCheck(info, fa, last) {
						nonNil = true
					}
				}
				if nonNil {
					return true
				}
			}
		case retTrue, retFalse:
			want := kind == retTrue
			if has && tv.Value != nil {
				if (tv.Value.String() == "true") != want {
					return true
				}
			} else {
				extra = append(extra, cfgx.Fact{Expr: last, Truth: want})
			}
		}
		matched++
		var here []cfgx.Fact
		for _, fa := range cfh.FactsAt(ret) {
			here = append(here, fa)
		}
		for _, x := range extra {
			here = append(here, cfh.Decompose(x.Expr, x.Truth)...)
		}
		// comma-ok flags -> the lookup itself
		for i, fa := range here {
			if id, ok := ast.Unparen(fa.Expr).(*ast.Ident); ok {
				if rhs, idx, ok := cfh.TupleDefOf(info.ObjectOf(id)); ok && idx == 1 {
					switch r := ast.Unparen(rhs).(type) {
					case *ast.IndexExpr, *ast.TypeAssertExpr:
						here[i] = cfgx.Fact{Expr: r.(ast.Expr), Truth: fa.Truth}
					}
				}
			}
		}
		if first {
			acc = here
			first = false
			return true
		}
		var keep []cfgx.Fact
		for _, a := range acc {
			for _, b := range here {
				if a.Truth == b.Truth && cfgx.SameExpr(info, a.Expr, b.Expr) {
					keep = append(keep, a)
					break
				}
			}
		}
		acc = keep
		return true
	})
	if matched == 0 {
		acc = nil
	}
	c.sums.cache[key] = acc
	return acc
}

// substExpr re-expresses a helper's expression in the caller's terms; nil when it mentions
// something of the helper that has no meaning outside it.
func substToCaller(e ast.Expr, sub map[types.Object]ast.Expr, from, to *types.Info, resolve func(types.Object) ast.Expr) ast.Expr {
	copyInfo := func(old, nw ast.Expr) {
		if tv, ok := from.Types[old]; ok {
			if _, has := to.Types[nw]; !has {
				to.Types[nw] = tv
			}
		}
	}
	var walk func(x ast.Expr, depth int) ast.Expr
	walk = func(x ast.Expr, depth int) ast.Expr {
		if depth > 12 || x == nil {
			return nil
		}
		switch n := x.(type) {
		case *ast.ParenExpr:
			return walk(n.X, depth+1)
		case *ast.Ident:
			obj := from.ObjectOf(n)
			if obj == nil {
				if n.Name == "nil" || n.Name == "true" || n.Name == "false" {
					return n
				}
				return nil
			}
			if a, ok := sub[obj]; ok {
				return a
			}
			// package-level objects, constants, functions, types: the same everywhere
			if obj.Parent() == types.Universe || (obj.Pkg() != nil && obj.Parent() == obj.Pkg().Scope()) {
				if _, has := to.Uses[n]; !has {
					to.Uses[n] = obj
				}
				return n
			}
			if _, isFn := obj.(*types.Func); isFn {
				if _, has := to.Uses[n]; !has {
					to.Uses[n] = obj
				}
				return n
			}
			// a local of the helper: its definition, when it has exactly one
			if resolve != nil {
				if def := resolve(obj); def != nil {
					return walk(def, depth+1)
				}
			}
			return nil
		case *ast.BasicLit:
			copyInfo(n, n)
			return n
		case *ast.SelectorExpr:
			// qualified identifier pkg.Name
			if id, ok := n.X.(*ast.Ident); ok {
				if _, isPkg := from.ObjectOf(id).(*types.PkgName); isPkg {
					if _, has := to.Uses[n.Sel]; !has {
						to.Uses[n.Sel] = from.ObjectOf(n.Sel)
					}
					if _, has := to.Uses[id]; !has {
						to.Uses[id] = from.ObjectOf(id)
					}
					copyInfo(n, n)
					return n
				}
			}
			inner := walk(n.X, depth+1)
			if inner == nil {
				return nil
			}
			nw := &ast.SelectorExpr{X: inner, Sel: n.Sel}
			copyInfo(n, nw)
			if sel, ok := from.Selections[n]; ok {
				to.Selections[nw] = sel
			}
			if _, has := to.Uses[n.Sel]; !has {
				to.Uses[n.Sel] = from.ObjectOf(n.Sel)
			}
			return nw
		case *ast.CallExpr:
			fun := walk(n.Fun, depth+1)
			if fun == nil {
				// conversions and builtins: the Fun is a type / builtin identifier
				if tv, ok := from.Types[n.Fun]; ok && (tv.IsType() || tv.IsBuiltin()) {
					fun = n.Fun
					if _, has := to.Types[n.Fun]; !has {
						to.Types[n.Fun] = tv
					}
				} else {
					return nil
				}
			}
			nw := &ast.CallExpr{Fun: fun, Lparen: n.Lparen, Rparen: n.Rparen, Ellipsis: n.Ellipsis}
			for _, a := range n.Args {
				wa := walk(a, depth+1)
				if wa == nil {
					return nil
				}
				nw.Args = append(nw.Args, wa)
			}
			copyInfo(n, nw)
			return nw
		case *ast.IndexExpr:
			xx, ix := walk(n.X, depth+1), walk(n.Index, depth+1)
			if xx == nil || ix == nil {
				return nil
			}
			nw := &ast.IndexExpr{X: xx, Index: ix, Lbrack: n.Lbrack, Rbrack: n.Rbrack}
			copyInfo(n, nw)
			return nw
		case *ast.BinaryExpr:
			l, r := walk(n.X, depth+1), walk(n.Y, depth+1)
			if l == nil || r == nil {
				return nil
			}
			nw := &ast.BinaryExpr{X: l, Op: n.Op, OpPos: n.OpPos, Y: r}
			copyInfo(n, nw)
			return nw
		case *ast.UnaryExpr:
			in := walk(n.X, depth+1)
			if in == nil {
				return nil
			}
			nw := &ast.UnaryExpr{Op: n.Op, OpPos: n.OpPos, X: in}
			copyInfo(n, nw)
			return nw
		case *ast.StarExpr:
			in := walk(n.X, depth+1)
			if in == nil {
				return nil
			}
			nw := &ast.StarExpr{Star: n.Star, X: in}
			copyInfo(n, nw)
			return nw
		case *ast.TypeAssertExpr:
			in := walk(n.X, depth+1)
			if in == nil {
				return nil
			}
			nw := &ast.TypeAssertExpr{X: in, Type: n.Type, Lparen: n.Lparen, Rparen: n.Rparen}
			copyInfo(n, nw)
			return nw
		}
		return nil
	}
	return walk(e, 0)
}

// callLHS: the left-hand sides of the assignment whose right-hand side is this call.
func (c *Ctx) callLHS(info *types.Info, cf *cfgx.Func, fa cfgx.Fact, call *ast.CallExpr) []ast.Expr {
	var out []ast.Expr
	ast.Inspect(cf.Body, func(n ast.Node) bool {
		as, ok := n.(*ast.AssignStmt)
		if ok && len(as.Rhs) == 1 && ast.Unparen(as.Rhs[0]) == ast.Expr(call) {
			out = as.Lhs
		}
		return true
	})
	return out
}

// resultObjs: for each result position, the helper's local variable that every return of
// the given kind hands out there (nil when they differ or it is not a plain variable).
func (c *Ctx) resultObjs(hpk *pkgT, fd *ast.FuncDecl, kind retKind) []types.Object {
	info := hpk.TypesInfo
	var out []types.Object
	first := true
	inspectNoLit(fd.Body, func(n ast.Node) bool {
		ret, ok := n.(*ast.ReturnStmt)
		if !ok || len(ret.Results) == 0 {
			return true
		}
		last := ret.Results[len(ret.Results)-1]
		tv, has := info.Types[last]
		switch kind {
		case retSuccess:
			if !has || !tv.IsNil() {
				return true
			}
		case retTrue:
			if has && tv.Value != nil && tv.Value.String() != "true" {
				return true
			}
		case retFalse:
			if has && tv.Value != nil && tv.Value.String() != "false" {
				return true
			}
		}
		cur := make([]types.Object, len(ret.Results))
		for i, r := range ret.Results {
			if id, ok := ast.Unparen(r).(*ast.Ident); ok {
				if v, isVar := info.ObjectOf(id).(*types.Var); isVar && !v.IsField() {
					cur[i] = v
				}
			}
		}
		if first {
			out, first = cur, false
			return true
		}
		for i := range out {
			if i >= len(cur) || cur[i] != out[i] {
				out[i] = nil
			}
		}
		return true
	})
	return out
}

// flagImplies: a boolean local that starts false and is set to true at a few places is a
// flag; "the flag is true" implies whatever holds at EVERY place that sets it
// (`errorInBody = true` only in the cases guarded by `d.BodyCoords.IsSet()`).
func (c *Ctx) flagImplies(info *types.Info, cf *cfgx.Func, fa cfgx.Fact) []cfgx.Fact {
	id, ok := ast.Unparen(fa.Expr).(*ast.Ident)
	if !ok || !fa.Truth {
		return nil
	}
	obj, ok := info.ObjectOf(id).(*types.Var)
	if !ok || obj.IsField() {
		return nil
	}
	if b, ok := obj.Type().Underlying().(*types.Basic); !ok || b.Info()&types.IsBoolean == 0 {
		return nil
	}
	if cf.DefOf(obj) != nil {
		return nil // a single-assignment boolean is decomposed by cfgx itself
	}
	var setters []*ast.AssignStmt
	okShape := true
	inits := 0
	ast.Inspect(cf.Body, func(n ast.Node) bool {
		switch x := n.(type) {
		case *ast.AssignStmt:
			for i, l := range x.Lhs {
				lid, isId := l.(*ast.Ident)
				if !isId || info.ObjectOf(lid) != types.Object(obj) {
					continue
				}
				if len(x.Lhs) != len(x.Rhs) {
					okShape = false
					continue
				}
				tv, has := info.Types[x.Rhs[i]]
				switch {
				case has && tv.Value != nil && tv.Value.String() == "true":
					setters = append(setters, x)
				case has && tv.Value != nil && tv.Value.String() == "false" && x.Tok == token.DEFINE:
					inits++
				default:
					okShape = false
				}
			}
		case *ast.UnaryExpr:
			if x.Op == token.AND {
				if aid, isId := x.X.(*ast.Ident); isId && info.ObjectOf(aid) == types.Object(obj) {
					okShape = false
				}
			}
		}
		return true
	})
	if !okShape || len(setters) == 0 {
		return nil
	}
	var acc []cfgx.Fact
	for i, st := range setters {
		here := cf.FactsAt(st)
		if i == 0 {
			acc = here
			continue
		}
		var keep []cfgx.Fact
		for _, a := range acc {
			for _, b := range here {
				if a.Truth == b.Truth && cfgx.SameExpr(info, a.Expr, b.Expr) {
					keep = append(keep, a)
					break
				}
			}
		}
		acc = keep
	}
	// never hand the flag itself back (no progress)
	var out []cfgx.Fact
	for _, a := range acc {
		if aid, isId := ast.Unparen(a.Expr).(*ast.Ident); isId && info.ObjectOf(aid) == types.Object(obj) {
			continue
		}
		out = append(out, a)
	}
	return out
}

// funcValueOf resolves an expression of function type to the code it denotes: a literal;
// a local that was assigned a literal once; a declared function or method (also as a method
// value `x.m`); or a call of a repository function all of whose returns hand out one and
// the same literal (`tagDescriptionSetter(&description)`). It returns the body, the
// signature syntax and the package whose types.Info covers them; ok=false otherwise.
func (c *Ctx) funcValueOf(pk *pkgT, cf *cfgx.Func, e ast.Expr) (body *ast.BlockStmt, ftype *ast.FuncType, in *pkgT, ok bool) {
	info := pk.TypesInfo
	e = ast.Unparen(e)
	if cf != nil {
		e = ast.Unparen(cf.Resolve(e))
	}
	switch x := e.(type) {
	case *ast.FuncLit:
		return x.Body, x.Type, pk, true
	case *ast.Ident, *ast.SelectorExpr:
		var g *types.Func
		if id, isId := x.(*ast.Ident); isId {
			g, _ = info.ObjectOf(id).(*types.Func)
		} else {
			g, _ = info.ObjectOf(x.(*ast.SelectorExpr).Sel).(*types.Func)
		}
		if g == nil {
			return nil, nil, nil, false
		}
		if gd := c.P.Decl(g); gd != nil && gd.Body != nil {
			return gd.Body, gd.Type, c.P.PkgOfDecl(gd), true
		}
	case *ast.CallExpr:
		g := Callee(info, x)
		if g == nil {
			return nil, nil, nil, false
		}
		gd := c.P.Decl(g)
		if gd == nil || gd.Body == nil {
			return nil, nil, nil, false
		}
		var lit *ast.FuncLit
		many := false
		inspectNoLit(gd.Body, func(n ast.Node) bool {
			ret, isRet := n.(*ast.ReturnStmt)
			if !isRet || len(ret.Results) != 1 {
				return true
			}
			if l, isLit := ast.Unparen(ret.Results[0]).(*ast.FuncLit); isLit {
				if lit != nil {
					many = true
				}
				lit = l
			} else {
				many = true
			}
			return true
		})
		if lit != nil && !many {
			return lit.Body, lit.Type, c.P.PkgOfDecl(gd), true
		}
	}
	return nil, nil, nil, false
}
