package rules

import (
	"fmt"
	"go/ast"
	"go/types"
	"sort"
	"strings"

	"verif/checker/cfgx"
)

// schemaLoadingMethods: methods of the schema library's Schema interface other than
// AddRule. The library loads (compiles) a schema on the first call of any of them and
// refuses AddRule afterwards.
func (c *Ctx) schemaIface() (*types.Interface, *types.Named) {
	for _, pk := range c.P.All {
		if pk.PkgPath == "github.com/jsightapi/jsight-schema-go-library" {
			if tn, ok := pk.Types.Scope().Lookup("Schema").(*types.TypeName); ok {
				if it, ok := tn.Type().Underlying().(*types.Interface); ok {
					return it, tn.Type().(*types.Named)
				}
			}
		}
	}
	return nil, nil
}

// RuleO1: every user type gets its rules before any user type is loaded.
func RuleO1(c *Ctx) {
	sc := c.Run.Begin("O1", "AddRule is called on shared user-type schemas only in a dedicated pass over all of them (an iterator callback that calls no loading method), and that pass dominates every call that can load a user type (UsedUserTypes, Check, AddType, GetAST, Example ...)", 1)
	defer sc.End()
	iface, _ := c.schemaIface()
	utField := c.Field("core", "JApiCore", "userTypes")
	pk := c.P.Pkg("core")
	if iface == nil || utField == nil || pk == nil {
		sc.Undecided("anchors", "-", "unresolved anchor: schema library Schema interface / core.JApiCore.userTypes")
		return
	}
	loading := map[string]bool{}
	hasAddRule := false
	for i := 0; i < iface.NumMethods(); i++ {
		if iface.Method(i).Name() == "AddRule" {
			hasAddRule = true
		} else {
			loading[iface.Method(i).Name()] = true
		}
	}
	if !hasAddRule {
		sc.Undecided("anchors", "-", "the Schema interface has no AddRule method")
		return
	}
	isSchemaMethod := func(info *types.Info, call *ast.CallExpr) (string, bool) {
		sel, ok := ast.Unparen(call.Fun).(*ast.SelectorExpr)
		if !ok {
			return "", false
		}
		f, ok := info.ObjectOf(sel.Sel).(*types.Func)
		if !ok {
			return "", false
		}
		rt := info.TypeOf(sel.X)
		if rt == nil {
			return "", false
		}
		if !types.Implements(rt, iface) && !types.Implements(types.NewPointer(rt), iface) {
			if _, isIface := rt.Underlying().(*types.Interface); !isIface {
				return "", false
			}
		}
		return f.Name(), true
	}
	// reachesLoading: a function (statically) reaches a loading call
	memo := map[*types.Func]int{}
	var reaches func(f *types.Func, depth int) bool
	reaches = func(f *types.Func, depth int) bool {
		if v, ok := memo[f]; ok {
			return v == 1
		}
		memo[f] = 2
		fd := c.P.Decl(f)
		if fd == nil || depth > 6 {
			return false
		}
		fpk := c.P.PkgOfDecl(fd)
		res := false
		ast.Inspect(fd.Body, func(n ast.Node) bool {
			call, ok := n.(*ast.CallExpr)
			if !ok || res {
				return !res
			}
			if name, ok := isSchemaMethod(fpk.TypesInfo, call); ok && loading[name] {
				res = true
				return false
			}
			if g := Callee(fpk.TypesInfo, call); g != nil && c.P.Decl(g) != nil && reaches(g, depth+1) {
				res = true
			}
			return !res
		})
		if res {
			memo[f] = 1
		}
		return res
	}
	// (a) AddRule call sites
	type rulePass struct {
		call *ast.CallExpr // the iterator call
		cs   callSite
	}
	var passes []rulePass
	n := 0
	c.eachCall(func(cs callSite) {
		info := cs.Pk.TypesInfo
		name, ok := isSchemaMethod(info, cs.Call)
		if !ok || name != "AddRule" {
			return
		}
		n++
		key := fmt.Sprintf("AddRule:%s#%d", c.P.DeclName(cs.Decl), n)
		pos := c.P.Pos(cs.Call.Pos())
		recv := Recv(cs.Call)
		cf := c.CFG(cs.Pk, cs.Body)
		// a schema constructed in this very function is not shared yet
		if id, ok := ast.Unparen(recv).(*ast.Ident); ok {
			if def, ok := ast.Unparen(cf.Resolve(id)).(*ast.CallExpr); ok {
				if g := Callee(info, def); g != nil && g.Pkg() != nil && strings.Contains(g.Pkg().Path(), "jsight-schema-go-library") && (g.Name() == "New" || strings.HasPrefix(g.Name(), "From")) {
					sc.Holds(key, pos, "on a schema created in this function (not shared yet)")
					return
				}
			}
		}
		// the value parameter of a literal passed to userTypes.Each, in a literal that loads nothing
		if cs.Lit != nil {
			if id, ok := ast.Unparen(recv).(*ast.Ident); ok && paramIndex(cs, info, info.ObjectOf(id)) == 1 {
				var iter *ast.CallExpr
				ast.Inspect(cs.Decl.Body, func(x ast.Node) bool {
					if call, ok := x.(*ast.CallExpr); ok {
						for _, a := range call.Args {
							if a == ast.Expr(cs.Lit) && fieldSel(info, Recv(call), utField) {
								iter = call
							}
						}
					}
					return true
				})
				if iter != nil {
					loads := false
					ast.Inspect(cs.Lit.Body, func(x ast.Node) bool {
						call, ok := x.(*ast.CallExpr)
						if !ok {
							return true
						}
						if nm, ok := isSchemaMethod(info, call); ok && loading[nm] {
							loads = true
						}
						if g := Callee(info, call); g != nil && c.P.Decl(g) != nil && reaches(g, 0) {
							loads = true
						}
						return true
					})
					if !loads {
						sc.Holds(key, pos, "inside the rules-only pass over all user types")
						passes = append(passes, rulePass{iter, cs})
						return
					}
					sc.Violation(key, pos, "the pass that adds rules to user types also loads schemas: a type visited earlier is loaded before a later type got its rules")
					return
				}
			}
		}
		sc.Violation(key, pos, "AddRule is called on a shared user-type schema outside a rules-only pass over all user types: compiling one type loads the types it refers to, which have no rules yet (\"Enum rule not found\" or a failing late AddRule, depending on declaration order)")
	})
	if len(passes) == 0 {
		sc.Violation("rules-pass", "-", "no rules-only pass over core.userTypes exists")
		return
	}
	// (b) the pass dominates every loading call of the function it is in, and - when the
	// pass lives in a helper that runs it unconditionally - of every function that calls
	// that helper (the call of the helper then stands for the pass), up to three levels
	type passAt struct {
		decl *ast.FuncDecl
		pk   *pkgT
		at   ast.Node // the iterator call, or the call of the helper containing it
		skip ast.Node // sub-tree that is the pass itself (not judged)
	}
	var work []passAt
	for _, p := range passes {
		work = append(work, passAt{p.cs.Decl, p.cs.Pk, p.call, p.cs.Lit})
	}
	seenDecl := map[*ast.FuncDecl]bool{}
	for level := 0; level < 4 && len(work) > 0; level++ {
		var next []passAt
		for _, w := range work {
			if seenDecl[w.decl] {
				continue
			}
			seenDecl[w.decl] = true
			info := w.pk.TypesInfo
			cf := c.CFG(w.pk, w.decl.Body)
			m := 0
			ast.Inspect(w.decl.Body, func(x ast.Node) bool {
				call, ok := x.(*ast.CallExpr)
				if !ok || ast.Node(call) == w.at {
					return true
				}
				if w.skip != nil && w.skip.Pos() <= call.Pos() && call.End() <= w.skip.End() {
					return true
				}
				loads := false
				if nm, ok := isSchemaMethod(info, call); ok && loading[nm] {
					loads = true
				}
				if g := Callee(info, call); g != nil && c.P.Decl(g) != nil && reaches(g, 0) {
					loads = true
				}
				if !loads {
					return true
				}
				at := ast.Node(call)
				if lit := innermostBody(w.decl, call).lit; lit != nil {
					if outer := callReceivingLit(w.decl, lit); outer != nil {
						at = outer
					}
				}
				m++
				key := fmt.Sprintf("dominates:%s:%s#%d", c.P.DeclName(w.decl), types.ExprString(call.Fun), m)
				before := false
				cf.Before(at, func(nd ast.Node) {
					ast.Inspect(nd, func(y ast.Node) bool {
						if y == w.at {
							before = true
						}
						return true
					})
				})
				if before {
					sc.Holds(key, c.P.Pos(call.Pos()), "runs after the rules pass on every path")
				} else {
					sc.Violation(key, c.P.Pos(call.Pos()), "a call that can load a user-type schema is not dominated by the pass that adds the enum rules to all user types")
				}
				return true
			})
			// does this function run the pass on every path to a success return?
			always := true
			inspectNoLit(w.decl.Body, func(x ast.Node) bool {
				ret, ok := x.(*ast.ReturnStmt)
				if !ok {
					return true
				}
				inRet := false
				ast.Inspect(ret, func(y ast.Node) bool {
					if y == w.at {
						inRet = true
					}
					return true
				})
				if inRet {
					return true
				}
				if n := len(ret.Results); n > 0 {
					if tv, has := info.Types[ret.Results[n-1]]; has && !tv.IsNil() && isErrorLike(tv.Type) {
						return true // an error return
					}
				}
				genStmt := func(nd ast.Node) bool {
					hit := false
					ast.Inspect(nd, func(y ast.Node) bool {
						if y == w.at {
							hit = true
						}
						return true
					})
					return hit
				}
				if !cf.MustAt(ret, nil, genStmt, nil) {
					always = false
				}
				return true
			})
			self, _ := info.Defs[w.decl.Name].(*types.Func)
			if !always || self == nil {
				continue
			}
			for _, cs := range c.callSitesOf(self) {
				if cs.Decl == w.decl {
					continue
				}
				next = append(next, passAt{cs.Decl, cs.Pk, cs.Call, nil})
			}
		}
		work = next
	}
}

// ---------------------------------------------------------------- E3(ii) effect memo

// RuleE3ii: work skipped by a run-wide "already processed" mark must not have
// caller-specific effects.
func RuleE3ii(c *Ctx) {
	sc := c.Run.Begin("E3ii", "a call guarded by a run-wide visited set (`if _, ok := M[k]; !ok { M[k] = ...; call(args) }`) passes no accumulator that belongs to the caller: otherwise the side effect lands on whichever caller got there first", 1)
	defer sc.End()
	coreT := c.Named("core", "JApiCore")
	n := 0
	c.P.Funcs(func(pk *pkgT, fd *ast.FuncDecl) {
		info := pk.TypesInfo
		cf := c.CFG(pk, fd.Body)
		params := map[types.Object]bool{}
		for _, fl := range fd.Type.Params.List {
			for _, nm := range fl.Names {
				if o := info.ObjectOf(nm); o != nil {
					params[o] = true
				}
			}
		}
		ast.Inspect(fd.Body, func(x ast.Node) bool {
			ifs, ok := x.(*ast.IfStmt)
			if !ok {
				return true
			}
			// a conjunct `!ok` of the condition, ok coming from a lookup in a run-wide set
			var okId *ast.Ident
			var ix *ast.IndexExpr
			var conj func(e ast.Expr)
			conj = func(e ast.Expr) {
				e = ast.Unparen(e)
				if be, isBe := e.(*ast.BinaryExpr); isBe && be.Op.String() == "&&" {
					conj(be.X)
					conj(be.Y)
					return
				}
				if u, isU := e.(*ast.UnaryExpr); isU && u.Op.String() == "!" {
					if id, isId := ast.Unparen(u.X).(*ast.Ident); isId {
						if m, k, found := mapLookupOf(info, cf, id); found {
							okId = id
							ix = &ast.IndexExpr{X: m, Index: k}
						}
					}
				}
			}
			conj(ifs.Cond)
			if okId == nil {
				return true
			}
			// run-wide set: a map field of JApiCore
			sel, ok := ast.Unparen(ix.X).(*ast.SelectorExpr)
			if !ok {
				return true
			}
			fld, ok := info.ObjectOf(sel.Sel).(*types.Var)
			if !ok || coreT == nil || !fieldOwner(coreT, fld) {
				return true
			}
			// calls inside the guarded block
			keyObj := cfgx.RootObj(info, ix.Index)
			ast.Inspect(ifs.Body, func(y ast.Node) bool {
				call, ok := y.(*ast.CallExpr)
				if !ok {
					return true
				}
				g := Callee(info, call)
				if g == nil || c.P.Decl(g) == nil {
					return true
				}
				n++
				key := fmt.Sprintf("%s->%s", fld.Name(), g.Name()) // the construct: the visited set and the call it guards, wherever they are written
				var bad []string
				for i, a := range call.Args {
					id, ok := ast.Unparen(a).(*ast.Ident)
					if !ok {
						continue
					}
					obj := info.ObjectOf(id)
					if !params[obj] || obj == keyObj {
						continue
					}
					// pointer-like parameter of the caller that the callee may mutate
					switch obj.Type().Underlying().(type) {
					case *types.Pointer, *types.Map, *types.Slice:
						if c.mayMutateParam(g, i, 0, map[*types.Func]bool{}) {
							bad = append(bad, id.Name)
						}
					}
				}
				_ = cf
				// VB1: what the guarded call prepares (its first argument) is read afterwards only
				// on paths where the key was already marked or the call has just run
				if len(call.Args) > 0 {
					prep := call.Args[0]
					ast.Inspect(fd.Body, func(z ast.Node) bool {
						var loop ast.Node
						switch l := z.(type) {
						case *ast.ForStmt:
							loop = l
						case *ast.RangeStmt:
							loop = l
						}
						if loop == nil || loop.Pos() < ifs.End() {
							return true
						}
						uses := false
						ast.Inspect(loop, func(w ast.Node) bool {
							if e, isE := w.(ast.Expr); isE && cfgx.SameExpr(info, e, prep) {
								uses = true
							}
							return !uses
						})
						if !uses {
							return true
						}
						vkey := fmt.Sprintf("VB1:%s:%s", c.P.DeclName(fd), types.ExprString(prep))
						gen := func(fa cfgx.Fact) bool {
							id, isId := ast.Unparen(fa.Expr).(*ast.Ident)
							return isId && info.ObjectOf(id) == info.ObjectOf(okId) && fa.Truth
						}
						genStmt := func(nd ast.Node) bool {
							found := false
							ast.Inspect(nd, func(q ast.Node) bool {
								if q == ast.Node(call) {
									found = true
								}
								return !found
							})
							return found
						}
						var at ast.Node = loop
						switch l := loop.(type) {
						case *ast.ForStmt:
							if l.Init != nil {
								at = l.Init
							} else if l.Cond != nil {
								at = l.Cond
							}
						case *ast.RangeStmt:
							at = l.X
						}
						if cf.MustAt(at, gen, genStmt, nil) {
							sc.Holds(vkey, c.P.Pos(loop.Pos()), "read only after it was prepared (already marked, or the guarded call just ran)")
						} else {
							sc.Violation(vkey, c.P.Pos(loop.Pos()), fmt.Sprintf("%s is read here although on some path it was neither marked as processed nor processed: whether its own inheritance has been applied depends on which declaration was handled first", types.ExprString(prep)))
						}
						return true
					})
				}
				if len(bad) == 0 {
					sc.Holds(key, c.P.Pos(call.Pos()), "no caller-owned accumulator crosses the memo")
				} else {
					sc.Violation(key, c.P.Pos(call.Pos()), fmt.Sprintf("the call is executed once per %s key, yet it updates the caller's own %s: the first schema that reaches a type receives the effects (e.g. used user types) and later ones do not - the result depends on declaration/processing order", fld.Name(), strings.Join(bad, ", ")))
				}
				return true
			})
			return true
		})
	})
}

// mayMutateParam: f (transitively) calls a mutating method on, stores through, or
// appends to its i-th parameter.
func (c *Ctx) mayMutateParam(f *types.Func, i, depth int, seen map[*types.Func]bool) bool {
	fd := c.P.Decl(f)
	if fd == nil || depth > 5 || seen[f] {
		return false
	}
	seen[f] = true
	pk := c.P.PkgOfDecl(fd)
	info := pk.TypesInfo
	var obj types.Object
	k := 0
	for _, fl := range fd.Type.Params.List {
		for _, nm := range fl.Names {
			if k == i {
				obj = info.ObjectOf(nm)
			}
			k++
		}
	}
	if obj == nil {
		return false
	}
	res := false
	ast.Inspect(fd.Body, func(n ast.Node) bool {
		if res {
			return false
		}
		switch x := n.(type) {
		case *ast.AssignStmt:
			for _, l := range x.Lhs {
				if _, isId := ast.Unparen(l).(*ast.Ident); !isId && cfgx.RootObj(info, l) == obj {
					res = true
				}
			}
		case *ast.CallExpr:
			// method with pointer receiver named like a mutator on the parameter
			if sel, ok := ast.Unparen(x.Fun).(*ast.SelectorExpr); ok {
				if id, ok := ast.Unparen(sel.X).(*ast.Ident); ok && info.ObjectOf(id) == obj {
					if m, ok := info.ObjectOf(sel.Sel).(*types.Func); ok {
						if md := c.P.Decl(m); md != nil && writesReceiver(c.P.PkgOfDecl(md).TypesInfo, md) {
							res = true
						}
					}
				}
			}
			// passed on
			if g := Callee(info, x); g != nil {
				for j, a := range x.Args {
					if id, ok := ast.Unparen(a).(*ast.Ident); ok && info.ObjectOf(id) == obj {
						if c.mayMutateParam(g, j, depth+1, seen) {
							res = true
						}
					}
				}
			}
		}
		return true
	})
	return res
}

// writesReceiver: a method assigns through its receiver.
func writesReceiver(info *types.Info, fd *ast.FuncDecl) bool {
	if fd.Recv == nil || len(fd.Recv.List) != 1 || len(fd.Recv.List[0].Names) != 1 {
		return false
	}
	recv := info.ObjectOf(fd.Recv.List[0].Names[0])
	res := false
	ast.Inspect(fd.Body, func(n ast.Node) bool {
		if as, ok := n.(*ast.AssignStmt); ok {
			for _, l := range as.Lhs {
				if _, isId := ast.Unparen(l).(*ast.Ident); !isId && cfgx.RootObj(info, l) == recv {
					res = true
				}
			}
		}
		return !res
	})
	return res
}

var _ = sort.Strings

// RuleSO1: collection stages precede the stage that builds the catalog.
func RuleSO1(c *Ctx) {
	sc := c.Run.Begin("SO1", "the pipeline runs its stages in the order scan, compileCore (macros, paste, rules, tags, user types, paths), buildCatalog, compileCatalog, validateCatalog, each later stage dominated by the success of the earlier ones; inside compileCore every collect step precedes compileUserTypes", 1)
	defer sc.End()
	pk := c.P.Pkg("core")
	scan := c.scanStage()
	later := c.laterStages()
	if pk == nil || scan == nil || len(later) < 3 {
		sc.Undecided("stages", "-", "unresolved anchor: pipeline stages")
		return
	}
	// the pipeline function
	var pipeline *ast.FuncDecl
	c.P.Funcs(func(p *pkgT, fd *ast.FuncDecl) {
		if p != pk {
			return
		}
		n := 0
		for _, g := range staticCallees(c.P, pk.TypesInfo, fd.Body) {
			if g == scan {
				n++
			}
			for _, l := range later {
				if g == l {
					n++
				}
			}
		}
		if n >= 4 {
			pipeline = fd
		}
	})
	if pipeline == nil {
		sc.Undecided("pipeline", "-", "the function calling all stages was not found")
		return
	}
	cf := c.CFG(pk, pipeline.Body)
	info := pk.TypesInfo
	stages := append([]*types.Func{scan}, later...)
	callOf := map[*types.Func]*ast.CallExpr{}
	ast.Inspect(pipeline.Body, func(n ast.Node) bool {
		if call, ok := n.(*ast.CallExpr); ok {
			if f := Callee(info, call); f != nil {
				callOf[f] = call
			}
		}
		return true
	})
	for i := 1; i < len(stages); i++ {
		prev, cur := stages[i-1], stages[i]
		key := prev.Name() + "<" + cur.Name()
		// cur's call is reached only when prev returned nil:  je := prev(); je != nil -> return
		gen := func(fa cfgx.Fact) bool {
			be, ok := ast.Unparen(fa.Expr).(*ast.BinaryExpr)
			if !ok {
				return false
			}
			id, ok := ast.Unparen(be.X).(*ast.Ident)
			if !ok {
				return false
			}
			def, ok := ast.Unparen(cf.Resolve(id)).(*ast.CallExpr)
			if !ok || Callee(info, def) != prev {
				return false
			}
			isNil := false
			if nid, ok := ast.Unparen(be.Y).(*ast.Ident); ok && nid.Name == "nil" {
				isNil = true
			}
			return isNil && ((be.Op.String() == "!=" && !fa.Truth) || (be.Op.String() == "==" && fa.Truth))
		}
		if callOf[cur] != nil && cf.MustAt(callOf[cur], gen, nil, nil) {
			sc.Holds(key, c.P.Pos(callOf[cur].Pos()), "runs only after the previous stage returned nil")
		} else {
			sc.Violation(key, c.P.Pos(pipeline.Pos()), fmt.Sprintf("stage %s is not dominated by the success of stage %s", cur.Name(), prev.Name()))
		}
	}
	// inside compileCore: every other step precedes the user-type compilation and path collection
	cc := later[0]
	ccfd := c.P.Decl(cc)
	ccf := c.CFG(pk, ccfd.Body)
	var order []*types.Func
	var calls []*ast.CallExpr
	ast.Inspect(ccfd.Body, func(n ast.Node) bool {
		if call, ok := n.(*ast.CallExpr); ok {
			if f := Callee(info, call); f != nil && c.P.Decl(f) != nil && recvNamedOf(f) != nil {
				order = append(order, f)
				calls = append(calls, call)
			}
		}
		return true
	})
	var compileUT *types.Func
	var compileUTCall *ast.CallExpr
	for i, f := range order {
		if fd := c.P.Decl(f); fd != nil {
			reachesSet := false
			for _, g := range reachStatic(c.P, pk, []*types.Func{f}) {
				if gd := c.P.Decl(g); gd != nil {
					ast.Inspect(gd.Body, func(n ast.Node) bool {
						if call, ok := n.(*ast.CallExpr); ok {
							if h := Callee(info, call); h != nil && h.Name() == "Set" && fieldSel(info, Recv(call), c.Field("core", "JApiCore", "userTypes")) {
								reachesSet = true
							}
						}
						return true
					})
				}
			}
			if reachesSet {
				compileUT, compileUTCall = f, calls[i]
			}
		}
	}
	if compileUT == nil {
		sc.Undecided("compileCore", c.P.Pos(ccfd.Pos()), "the step that builds core.userTypes was not found in "+cc.Name())
		return
	}
	for i, f := range order {
		if f == compileUT || calls[i].Pos() > compileUTCall.Pos() {
			continue
		}
		key := cc.Name() + ":" + f.Name() + "<" + compileUT.Name()
		before := false
		ccf.Before(compileUTCall, func(nd ast.Node) {
			ast.Inspect(nd, func(y ast.Node) bool {
				if y == ast.Node(calls[i]) {
					before = true
				}
				return true
			})
		})
		if before {
			sc.Holds(key, c.P.Pos(calls[i].Pos()), "collected before user types are compiled, whatever the declaration order in the document")
		} else {
			sc.Violation(key, c.P.Pos(calls[i].Pos()), f.Name()+" does not run before "+compileUT.Name()+" on every path")
		}
	}
}

// ---------------------------------------------------------------- BR1

// RuleBR1: the build walk does not consult the declarations it is still collecting. The
// handlers of the directive table run once per directive in document order and fill the
// catalog; user types and enums may be declared after their first use, so at that moment
// the collection holds only what happened to be written earlier. A handler (or anything it
// calls in package core) that looks a name up in catalog.UserTypes / catalog.UserEnums
// decides by position in the document; every such lookup belongs to the stages after the
// walk (compile, validate).
func RuleBR1(c *Ctx) {
	sc := c.Run.Begin("BR1", "no function reachable from the build-stage handler table reads catalog.UserTypes or catalog.UserEnums (the collections of declarations that may follow their use)", 1)
	defer sc.End()
	pk := c.P.Pkg("core")
	table := c.handlerTable()
	if pk == nil || len(table) == 0 {
		sc.Undecided("anchors", "-", "unresolved anchor: the handler table JApiCore.directiveFunctions")
		return
	}
	var roots []*types.Func
	var names []string
	for k := range table {
		names = append(names, k)
	}
	sort.Strings(names)
	for _, k := range names {
		roots = append(roots, table[k])
	}
	// frozen: the by-name collections whose members may be declared after they are used
	late := map[*types.Var]bool{}
	for _, n := range []string{"UserTypes", "UserEnums"} {
		if f := c.Field("catalog", "Catalog", n); f != nil {
			late[f] = true
		}
	}
	if len(late) != 2 {
		sc.Undecided("anchors", "-", "unresolved anchor: catalog.Catalog.UserTypes / UserEnums")
		return
	}
	info := pk.TypesInfo
	reach := reachStatic(c.P, pk, roots)
	bad := 0
	for _, f := range reach {
		fd := c.P.Decl(f)
		k := 0
		ast.Inspect(fd.Body, func(n ast.Node) bool {
			call, ok := n.(*ast.CallExpr)
			if !ok {
				return true
			}
			sel, ok := ast.Unparen(call.Fun).(*ast.SelectorExpr)
			if !ok {
				return true
			}
			rsel, ok := ast.Unparen(sel.X).(*ast.SelectorExpr)
			if !ok {
				return true
			}
			fld, ok := info.ObjectOf(rsel.Sel).(*types.Var)
			if !ok || !late[fld] {
				return true
			}
			switch sel.Sel.Name {
			case "Set", "SetToTop", "Update", "Delete":
				return true
			}
			k++
			bad++
			sc.Violation(fmt.Sprintf("%s:%s.%s#%d", c.P.DeclName(fd), fld.Name(), sel.Sel.Name, k), c.P.Pos(call.Pos()), fmt.Sprintf("%s is consulted while the directive handlers are still filling it: a declaration written further down in the document is not there yet, so the outcome depends on where the declaration stands (an alias declared before the block and its target after it)", fld.Name()))
			return true
		})
	}
	if bad == 0 {
		sc.Holds("handlers", "-", fmt.Sprintf("%d functions reachable from the %d handlers of the build stage, none reads UserTypes/UserEnums", len(reach), len(roots)))
	}
	// and it does not add to what schemas are parsed against: the rule set (the map of
	// JApiCore whose values are the schema library's Rule) is complete before the walk
	// starts - a rule stored by a handler exists only for the schemas parsed after it
	var rulesField *types.Var
	if coreT := c.Named("core", "JApiCore"); coreT != nil {
		if st, ok := coreT.Underlying().(*types.Struct); ok {
			for i := 0; i < st.NumFields(); i++ {
				if mt, ok := st.Field(i).Type().Underlying().(*types.Map); ok {
					if n, ok := mt.Elem().(*types.Named); ok && n.Obj().Name() == "Rule" && n.Obj().Pkg() != nil && strings.Contains(n.Obj().Pkg().Path(), "jsight-schema-go-library") {
						rulesField = st.Field(i)
					}
				}
			}
		}
	}
	if rulesField == nil {
		sc.Undecided("rules", "-", "unresolved anchor: the rule-set field of JApiCore (map to the schema library's Rule)")
		return
	}
	late2 := 0
	for _, f := range reach {
		fd := c.P.Decl(f)
		ast.Inspect(fd.Body, func(n ast.Node) bool {
			as, ok := n.(*ast.AssignStmt)
			if !ok {
				return true
			}
			for _, l := range as.Lhs {
				if ix, ok := ast.Unparen(l).(*ast.IndexExpr); ok {
					if sel, ok := ast.Unparen(ix.X).(*ast.SelectorExpr); ok && info.ObjectOf(sel.Sel) == types.Object(rulesField) {
						late2++
						sc.Violation(fmt.Sprintf("%s:%s-store#%d", c.P.DeclName(fd), rulesField.Name(), late2), c.P.Pos(as.Pos()), fmt.Sprintf("a rule is added to core.%s while the directive handlers are building the catalog: the schemas parsed earlier in the walk did not have it (a body using an enum that a later PASTE brings in is rejected, the same body after the PASTE is accepted)", rulesField.Name()))
					}
				}
			}
			return true
		})
	}
	if late2 == 0 {
		sc.Holds("rules-complete", "-", fmt.Sprintf("no function reachable from the handlers stores into core.%s", rulesField.Name()))
	}
}
