package rules

func init() {
	reg("C18", &PropSpec{
		Rules:       []Rule{r("B2", RuleB2), r("NI", RuleNI("bannedDirectives")), r("OP1", RuleOP1)},
		Explanation: "B2: directives are created at the call sites of the directive constructors (today one, in setCurrentDirective, shared by written, pasted and included directives); each such site, and every file-system call of core, is dominated by a bannedDirectives lookup (on the created kind / on INCLUDE) whose found branch returns the 'not allowed' error - so every occurrence of a banned kind, including INCLUDE, MACRO and PASTE, is refused before any file it names is touched. NI: every read of the option's set is such a reject-only lookup, so a project without banned kinds takes exactly the path it takes without the option (a sufficient argument for the second sentence). OP1: option closures store no captured map/slice/pointer into the core, so an option value reused across parses carries no state from one to the next. NI distinguishes sets the run fills from sets only options fill: the latter may only reject (no skip-or-do-once on them) and the constructor stores no element of its own.",
		Trusted:     trustedCommon,
	})
}
