package rules

import (
	"fmt"
	"go/ast"
	"go/token"
	"go/types"
	"sort"
	"strings"

	"verif/checker/cfgx"
)

// ---------------------------------------------------------------- D1 map ranges

const d1ExceptionWhy = "AddRule cannot fail here: every rule was Check()ed when it was built and the receiving schema was created in this very function, so it is not loaded; the rules land in a keyed collection of the library, so insertion order is immaterial"

// d1FreshSchemaRules: the frozen exception by role - the loop body's only call with
// element data is AddRule on a schema this function has just created with the library's
// constructor.
func d1FreshSchemaRules(info *types.Info, fd *ast.FuncDecl, rs *ast.RangeStmt) bool {
	ok := false
	n := 0
	ast.Inspect(rs.Body, func(x ast.Node) bool {
		call, isCall := x.(*ast.CallExpr)
		if !isCall {
			return true
		}
		sel, isSel := call.Fun.(*ast.SelectorExpr)
		if !isSel {
			return true
		}
		f, isF := info.ObjectOf(sel.Sel).(*types.Func)
		if !isF || f.Pkg() == nil {
			return true
		}
		n++
		if f.Name() != "AddRule" || !strings.Contains(f.Pkg().Path(), "jsight-schema-go-library") {
			n += 100
			return true
		}
		// receiver created in this function by a library constructor
		id, isId := sel.X.(*ast.Ident)
		if !isId {
			return true
		}
		obj := info.ObjectOf(id)
		ast.Inspect(fd.Body, func(y ast.Node) bool {
			as, isAs := y.(*ast.AssignStmt)
			if !isAs || len(as.Lhs) != 1 || len(as.Rhs) != 1 {
				return true
			}
			if lid, isL := as.Lhs[0].(*ast.Ident); isL && info.ObjectOf(lid) == obj {
				if ctor, isC := as.Rhs[0].(*ast.CallExpr); isC {
					if g := Callee(info, ctor); g != nil && g.Pkg() != nil && strings.Contains(g.Pkg().Path(), "jsight-schema-go-library") {
						ok = true
					}
				}
			}
			return true
		})
		return true
	})
	return ok && n == 1
}

// RuleD1: every range over a map is order-insensitive.
func RuleD1(c *Ctx) {
	sc := c.Run.Begin("D1", "every range over a map (by type) is order-insensitive: it only fills maps/sets, accumulates commutatively, appends to a slice that is sorted before use, and never returns, breaks or emits data that depend on which element came first", 1)
	defer sc.End()
	c.P.Funcs(func(pk *pkgT, fd *ast.FuncDecl) {
		info := pk.TypesInfo
		n := 0
		ast.Inspect(fd.Body, func(x ast.Node) bool {
			rs, ok := x.(*ast.RangeStmt)
			if !ok {
				return true
			}
			t := info.TypeOf(rs.X)
			if t == nil {
				return true
			}
			if _, isMap := t.Underlying().(*types.Map); !isMap {
				return true
			}
			n++
			key := fmt.Sprintf("%s:range#%d", c.P.DeclName(fd), n)
			pos := c.P.Pos(rs.Pos())
			why := orderSensitive(info, fd, rs)
			switch {
			case why == "":
				sc.Holds(key, pos, "order-insensitive body over "+types.ExprString(rs.X))
			case d1FreshSchemaRules(info, fd, rs):
				sc.Exception(key, pos, d1ExceptionWhy)
			default:
				sc.Violation(key, pos, fmt.Sprintf("range over map %s is order-sensitive: %s — Go randomises map iteration, so the same project can give different diagnostics or output from run to run", types.ExprString(rs.X), why))
			}
			return true
		})
	})
}

// orderSensitive returns "" if the loop body is order-insensitive, else the reason.
func orderSensitive(info *types.Info, fd *ast.FuncDecl, rs *ast.RangeStmt) string {
	loopVars := map[types.Object]bool{}
	for _, e := range []ast.Expr{rs.Key, rs.Value} {
		if id, ok := e.(*ast.Ident); ok && id.Name != "_" {
			if o := info.ObjectOf(id); o != nil {
				loopVars[o] = true
			}
		}
	}
	// locals defined inside the body depend on the element
	ast.Inspect(rs.Body, func(n ast.Node) bool {
		if as, ok := n.(*ast.AssignStmt); ok && as.Tok == token.DEFINE {
			for _, l := range as.Lhs {
				if id, ok := l.(*ast.Ident); ok {
					if o := info.ObjectOf(id); o != nil {
						loopVars[o] = true
					}
				}
			}
		}
		return true
	})
	mentions := func(e ast.Node) bool {
		found := false
		ast.Inspect(e, func(n ast.Node) bool {
			if id, ok := n.(*ast.Ident); ok && loopVars[info.ObjectOf(id)] {
				found = true
			}
			return !found
		})
		return found
	}
	var appended []ast.Expr
	reason := ""
	var walk func(list []ast.Stmt)
	walk = func(list []ast.Stmt) {
		for _, st := range list {
			if reason != "" {
				return
			}
			switch s := st.(type) {
			case *ast.AssignStmt:
				for i, l := range s.Lhs {
					l = ast.Unparen(l)
					if id, ok := l.(*ast.Ident); ok {
						if id.Name == "_" || s.Tok == token.DEFINE {
							continue
						}
						// x = append(x, ...)
						if i < len(s.Rhs) {
							if call, ok := s.Rhs[i].(*ast.CallExpr); ok {
								if fid, ok := call.Fun.(*ast.Ident); ok && fid.Name == "append" && len(call.Args) > 0 && cfgx.SameExpr(info, call.Args[0], l) {
									appended = append(appended, l)
									continue
								}
							}
						}
						if s.Tok == token.ADD_ASSIGN || s.Tok == token.OR_ASSIGN {
							if b, ok := info.TypeOf(l).Underlying().(*types.Basic); ok && b.Info()&types.IsString == 0 {
								continue // commutative numeric accumulation
							}
						}
						if loopVars[info.ObjectOf(id)] {
							continue
						}
						reason = fmt.Sprintf("assigns %s from an element (last one in map order wins)", id.Name)
						return
					}
					if ix, ok := l.(*ast.IndexExpr); ok {
						if _, isMap := info.TypeOf(ix.X).Underlying().(*types.Map); isMap {
							continue // keyed insert
						}
						// filling a pre-sized slice by a running index is an append in another
						// spelling: fine when the slice is sorted afterwards
						if _, isSl := info.TypeOf(ix.X).Underlying().(*types.Slice); isSl {
							if _, isID := ast.Unparen(ix.X).(*ast.Ident); isID {
								appended = append(appended, ix.X)
								continue
							}
						}
					}
					if sel, ok := l.(*ast.SelectorExpr); ok && mentions(sel.X) {
						continue // writes into the element itself
					}
					reason = "assigns " + types.ExprString(l) + " inside the loop"
					return
				}
				// calls on the right-hand side
				for _, r := range s.Rhs {
					if why := callsWithElement(info, r, mentions); why != "" {
						reason = why
						return
					}
				}
			case *ast.IncDecStmt:
			case *ast.ExprStmt:
				call, ok := s.X.(*ast.CallExpr)
				if !ok {
					reason = "expression statement"
					return
				}
				if id, ok := call.Fun.(*ast.Ident); ok && id.Name == "delete" {
					continue
				}
				if why := callsWithElement(info, call, mentions); why != "" {
					reason = why
					return
				}
			case *ast.IfStmt:
				if s.Init != nil {
					walk([]ast.Stmt{s.Init})
				}
				if why := callsWithElement(info, s.Cond, mentions); why != "" {
					reason = why
					return
				}
				walk(s.Body.List)
				switch e := s.Else.(type) {
				case *ast.BlockStmt:
					walk(e.List)
				case *ast.IfStmt:
					walk([]ast.Stmt{e})
				}
			case *ast.BlockStmt:
				walk(s.List)
			case *ast.ReturnStmt:
				for _, r := range s.Results {
					if mentions(r) {
						reason = "returns a value that depends on the element reached first (" + types.ExprString(r) + ")"
						return
					}
				}
			case *ast.BranchStmt:
				if s.Tok == token.BREAK {
					reason = "breaks out at the first matching element"
					return
				}
			case *ast.SwitchStmt:
				for _, cl := range s.Body.List {
					walk(cl.(*ast.CaseClause).Body)
				}
			case *ast.RangeStmt:
				walk(s.Body.List)
			case *ast.ForStmt:
				walk(s.Body.List)
			case *ast.DeclStmt, *ast.EmptyStmt:
			default:
				reason = fmt.Sprintf("unsupported statement %T", st)
				return
			}
		}
	}
	walk(rs.Body.List)
	if reason != "" {
		return reason
	}
	// every appended slice must be sorted after the loop, before the function ends
	for _, sl := range appended {
		if !sortedAfter(info, fd, rs, sl) {
			return "appends to " + types.ExprString(sl) + " in map order and the slice is not sorted afterwards by a total order on its elements"
		}
	}
	return ""
}

// callsWithElement: a call that hands element data to a function with possible
// order-dependent effects (anything but builtins and pure lookups).
func callsWithElement(info *types.Info, e ast.Node, mentions func(ast.Node) bool) string {
	why := ""
	ast.Inspect(e, func(n ast.Node) bool {
		call, ok := n.(*ast.CallExpr)
		if !ok || why != "" {
			return why == ""
		}
		if id, ok := call.Fun.(*ast.Ident); ok {
			if _, isB := info.ObjectOf(id).(*types.Builtin); isB {
				return true
			}
			if tv, ok := info.Types[call.Fun]; ok && tv.IsType() {
				return true
			}
		}
		if tv, ok := info.Types[call.Fun]; ok && tv.IsType() {
			return true
		}
		uses := false
		for _, a := range call.Args {
			if mentions(a) {
				uses = true
			}
		}
		if r := Recv(call); r != nil && mentions(r) {
			uses = true
		}
		if uses {
			why = "calls " + types.ExprString(call.Fun) + " with element data in map order (effects or a first error depend on the order)"
		}
		return true
	})
	return why
}

func sortedAfter(info *types.Info, fd *ast.FuncDecl, rs *ast.RangeStmt, sl ast.Expr) bool {
	found := false
	ast.Inspect(fd.Body, func(n ast.Node) bool {
		call, ok := n.(*ast.CallExpr)
		if !ok || call.Pos() < rs.End() || len(call.Args) == 0 {
			return true
		}
		f := Callee(info, call)
		if f == nil || f.Pkg() == nil || f.Pkg().Path() != "sort" {
			return true
		}
		if cfgx.SameExpr(info, call.Args[0], sl) && totalOrderSort(info, f, call) {
			found = true
		}
		return true
	})
	return found
}

// totalOrderSort: the sort call leaves no two distinct elements in their input (map) order.
// sort.Strings/Ints/Float64s and sort.Sort/Stable (an interface implemented elsewhere) are
// taken as such; sort.Slice and its relatives only when the less function compares the two
// elements themselves - `s[i] < s[j]`, possibly through one field - and not a value derived
// from them by a call (`strings.ToLower(s[i])`, `len(s[i])`): elements that such a key maps
// to one value keep the order the map iteration gave them.
func totalOrderSort(info *types.Info, f *types.Func, call *ast.CallExpr) bool {
	if !strings.HasPrefix(f.Name(), "Slice") {
		return true
	}
	if len(call.Args) != 2 {
		return false
	}
	lit, ok := ast.Unparen(call.Args[1]).(*ast.FuncLit)
	if !ok || len(lit.Body.List) != 1 {
		return false
	}
	ret, ok := lit.Body.List[0].(*ast.ReturnStmt)
	if !ok || len(ret.Results) != 1 {
		return false
	}
	be, ok := ast.Unparen(ret.Results[0]).(*ast.BinaryExpr)
	if !ok || (be.Op != token.LSS && be.Op != token.GTR) {
		return false
	}
	element := func(e ast.Expr) bool {
		e = ast.Unparen(e)
		if sel, ok := e.(*ast.SelectorExpr); ok {
			e = ast.Unparen(sel.X)
		}
		ix, ok := e.(*ast.IndexExpr)
		return ok && cfgx.SameExpr(info, ix.X, call.Args[0])
	}
	return element(be.X) && element(be.Y)
}

// ---------------------------------------------------------------- D2 nondeterministic sources

var d2Banned = map[string][]string{
	"time":        {"Now", "Since", "Until"},
	"math/rand":   nil, // everything
	"crypto/rand": nil,
	"os":          {"Getenv", "Environ", "Getpid", "Getppid", "Hostname", "LookupEnv", "Getwd"},
	"runtime":     {"NumGoroutine", "Caller", "Callers", "Stack", "NumCPU", "GOMAXPROCS"},
	"unsafe":      nil,
	"reflect":     {"ValueOf"},
}

// RuleD2: no clock, randomness, environment, goroutines or address-dependent values.
func RuleD2(c *Ctx) {
	sc := c.Run.Begin("D2", "no call to a clock, random source, environment, goroutine/scheduler or address-dependent facility in the library's own code (a Go program without these and without order-sensitive map ranges or writable globals is a function of its input)", 150)
	defer sc.End()
	nf := 0
	c.P.Funcs(func(pk *pkgT, fd *ast.FuncDecl) {
		nf++
		info := pk.TypesInfo
		var bad []string
		ast.Inspect(fd.Body, func(n ast.Node) bool {
			switch x := n.(type) {
			case *ast.GoStmt:
				bad = append(bad, "go statement at "+c.P.Pos(x.Pos()))
			case *ast.SelectStmt:
				bad = append(bad, "select statement at "+c.P.Pos(x.Pos()))
			case *ast.BasicLit:
				if x.Kind == token.STRING && strings.Contains(x.Value, "%p") {
					bad = append(bad, "%p format verb at "+c.P.Pos(x.Pos()))
				}
			case *ast.SelectorExpr:
				obj := info.ObjectOf(x.Sel)
				if obj == nil || obj.Pkg() == nil {
					return true
				}
				names, ok := d2Banned[obj.Pkg().Path()]
				if !ok {
					return true
				}
				if names == nil {
					bad = append(bad, obj.Pkg().Path()+"."+obj.Name()+" at "+c.P.Pos(x.Pos()))
				}
				for _, nm := range names {
					if nm == obj.Name() {
						bad = append(bad, obj.Pkg().Path()+"."+obj.Name()+" at "+c.P.Pos(x.Pos()))
					}
				}
			}
			return true
		})
		key := c.P.DeclName(fd)
		if len(bad) == 0 {
			sc.Holds(key, c.P.Pos(fd.Pos()), "")
		} else {
			sc.Violation(key, c.P.Pos(fd.Pos()), "nondeterministic source: "+strings.Join(bad, "; "))
		}
	})
}

// RuleD3: regex example generators are seeded with constants.
func RuleD3(c *Ctx) {
	sc := c.Run.Begin("D3", "every regex.WithGeneratorSeed argument is a constant", 1)
	defer sc.End()
	n := 0
	c.eachCall(func(cs callSite) {
		f := Callee(cs.Pk.TypesInfo, cs.Call)
		if f == nil || f.Name() != "WithGeneratorSeed" || f.Pkg() == nil || !strings.HasSuffix(f.Pkg().Path(), "notations/regex") {
			return
		}
		n++
		key := fmt.Sprintf("%s:WithGeneratorSeed#%d", c.P.DeclName(cs.Decl), n)
		if tv, ok := cs.Pk.TypesInfo.Types[cs.Call.Args[0]]; ok && tv.Value != nil {
			sc.Holds(key, c.P.Pos(cs.Call.Pos()), "constant seed "+tv.Value.ExactString())
		} else {
			sc.Violation(key, c.P.Pos(cs.Call.Pos()), "regex example generator seeded with a non-constant value: examples differ between runs")
		}
	})
}

// orderedColl describes a struct with a map field and an order slice (generated collections).
type orderedColl struct {
	named *types.Named
	data  *types.Var
	order *types.Var
	mx    *types.Var
	pk    *pkgT
}

func (c *Ctx) orderedCollections() []orderedColl {
	var out []orderedColl
	for _, pk := range c.P.Repo {
		for _, name := range pk.Types.Scope().Names() {
			tn, ok := pk.Types.Scope().Lookup(name).(*types.TypeName)
			if !ok {
				continue
			}
			named, ok := tn.Type().(*types.Named)
			if !ok {
				continue
			}
			st, ok := named.Underlying().(*types.Struct)
			if !ok {
				continue
			}
			oc := orderedColl{named: named, pk: pk}
			for i := 0; i < st.NumFields(); i++ {
				f := st.Field(i)
				switch t := f.Type().Underlying().(type) {
				case *types.Map:
					if oc.data == nil {
						oc.data = f
					}
				case *types.Slice:
					_ = t
					if f.Name() == "order" || oc.order == nil {
						oc.order = f
					}
				case *types.Struct:
					if n, ok := f.Type().(*types.Named); ok && n.Obj().Pkg() != nil && n.Obj().Pkg().Path() == "sync" {
						oc.mx = f
					}
				}
			}
			// a collection type consists of nothing but the map, the order slice and (optionally) a lock
			nOther := 0
			for i := 0; i < st.NumFields(); i++ {
				if f := st.Field(i); f != oc.data && f != oc.order && f != oc.mx {
					nOther++
				}
			}
			if oc.data != nil && oc.order != nil && nOther == 0 {
				// the order slice must hold the map's key type
				if sl, ok := oc.order.Type().Underlying().(*types.Slice); ok {
					if mp, ok := oc.data.Type().Underlying().(*types.Map); ok && types.Identical(sl.Elem(), mp.Key()) {
						out = append(out, oc)
					}
				}
			}
		}
	}
	sort.Slice(out, func(i, j int) bool { return out[i].named.String() < out[j].named.String() })
	return out
}

// RuleD4: ordered collections iterate their order slice.
func RuleD4(c *Ctx) {
	sc := c.Run.Begin("D4", "every iterating or serialising method of an insertion-ordered collection walks its order slice, never the map; Tag.MarshalJSON reads its protocol groups by constant keys", 1)
	defer sc.End()
	colls := c.orderedCollections()
	if len(colls) < 5 {
		sc.Undecided("collections", "-", fmt.Sprintf("only %d ordered collection types found", len(colls)))
	}
	for _, oc := range colls {
		for i := 0; i < oc.named.NumMethods(); i++ {
			m := oc.named.Method(i)
			fd := c.P.Decl(m)
			if fd == nil {
				continue
			}
			info := oc.pk.TypesInfo
			loops := 0
			bad := ""
			ast.Inspect(fd.Body, func(n ast.Node) bool {
				switch x := n.(type) {
				case *ast.RangeStmt:
					loops++
					if fieldSel(info, x.X, oc.data) {
						bad = "ranges over the map " + types.ExprString(x.X)
					} else if !fieldSel(info, x.X, oc.order) {
						if _, isMap := info.TypeOf(x.X).Underlying().(*types.Map); isMap {
							bad = "ranges over a map " + types.ExprString(x.X)
						}
					}
				case *ast.ForStmt:
					loops++
					usesOrder := false
					ast.Inspect(x, func(y ast.Node) bool {
						if e, ok := y.(ast.Expr); ok && fieldSel(info, e, oc.order) {
							usesOrder = true
						}
						return true
					})
					if !usesOrder {
						bad = "index loop that does not walk the order slice"
					}
				}
				return true
			})
			if loops == 0 {
				continue
			}
			key := oc.named.Obj().Name() + "." + m.Name()
			if bad == "" {
				sc.Holds(key, c.P.Pos(fd.Pos()), "iterates the order slice")
			} else {
				sc.Violation(key, c.P.Pos(fd.Pos()), bad+": iteration/serialisation order of "+oc.named.Obj().Name()+" would follow Go's random map order instead of insertion order")
			}
		}
	}
	// MarshalJSON methods never range over a map
	c.P.Funcs(func(pk *pkgT, fd *ast.FuncDecl) {
		if fd.Name.Name != "MarshalJSON" && fd.Name.Name != "MarshalText" {
			return
		}
		bad := ""
		ast.Inspect(fd.Body, func(n ast.Node) bool {
			if rs, ok := n.(*ast.RangeStmt); ok {
				if t := pk.TypesInfo.TypeOf(rs.X); t != nil {
					if _, isMap := t.Underlying().(*types.Map); isMap {
						bad = "ranges over map " + types.ExprString(rs.X)
					}
				}
			}
			return true
		})
		key := "marshal:" + c.P.DeclName(fd)
		if bad == "" {
			sc.Holds(key, c.P.Pos(fd.Pos()), "no map range")
		} else {
			sc.Violation(key, c.P.Pos(fd.Pos()), bad+" while serialising: output order is random")
		}
	})
}

// ---------------------------------------------------------------- G2 package-level state

// RuleG2: package-level variables are written only while initialising.
func RuleG2(c *Ctx) {
	sc := c.Run.Begin("G2", "every package-level variable of the library is stored to (including element and field stores, and address-taking) only in its initialiser, in init, or inside a sync.Once.Do closure", 1)
	defer sc.End()
	type gv struct {
		v  *types.Var
		pk *pkgT
	}
	var vars []gv
	for _, pk := range c.P.Repo {
		for _, name := range pk.Types.Scope().Names() {
			if v, ok := pk.Types.Scope().Lookup(name).(*types.Var); ok {
				// skip blank interface assertions  var _ I = T{}
				if v.Name() == "_" {
					continue
				}
				vars = append(vars, gv{v, pk})
			}
		}
	}
	writes := map[*types.Var][]string{}
	// named functions that run only under a sync.Once: every reference to them is an
	// argument of (*sync.Once).Do
	onceFuncs := map[*types.Func]bool{}
	otherRefs := map[*types.Func]bool{}
	c.P.Funcs(func(pk *pkgT, fd *ast.FuncDecl) {
		info := pk.TypesInfo
		doArgs := map[*ast.Ident]bool{}
		ast.Inspect(fd.Body, func(n ast.Node) bool {
			call, ok := n.(*ast.CallExpr)
			if !ok {
				return true
			}
			if f := Callee(info, call); f != nil && f.Name() == "Do" && f.Pkg() != nil && f.Pkg().Path() == "sync" {
				for _, a := range call.Args {
					if id, ok := ast.Unparen(a).(*ast.Ident); ok {
						if g, ok := info.ObjectOf(id).(*types.Func); ok {
							onceFuncs[g] = true
							doArgs[id] = true
						}
					}
				}
			}
			return true
		})
		ast.Inspect(fd.Body, func(n ast.Node) bool {
			if id, ok := n.(*ast.Ident); ok && !doArgs[id] {
				if g, ok := info.Uses[id].(*types.Func); ok {
					otherRefs[g] = true
				}
			}
			return true
		})
	})
	c.P.Funcs(func(pk *pkgT, fd *ast.FuncDecl) {
		info := pk.TypesInfo
		if fd.Name.Name == "init" && fd.Recv == nil {
			return
		}
		if self, _ := info.Defs[fd.Name].(*types.Func); self != nil && onceFuncs[self] && !otherRefs[self] {
			return // runs once, under the Once: the same as the closure form
		}
		// once.Do closures
		onceLits := map[*ast.FuncLit]bool{}
		ast.Inspect(fd.Body, func(n ast.Node) bool {
			call, ok := n.(*ast.CallExpr)
			if !ok {
				return true
			}
			if f := Callee(info, call); f != nil && f.Name() == "Do" && f.Pkg() != nil && f.Pkg().Path() == "sync" {
				for _, a := range call.Args {
					if lit, ok := a.(*ast.FuncLit); ok {
						onceLits[lit] = true
					}
				}
			}
			return true
		})
		inOnce := func(n ast.Node) bool {
			for lit := range onceLits {
				if lit.Pos() <= n.Pos() && n.End() <= lit.End() {
					return true
				}
			}
			return false
		}
		globalRoot := func(e ast.Expr) *types.Var {
			obj := cfgx.RootObj(info, e)
			v, ok := obj.(*types.Var)
			if !ok || v.Pkg() == nil || v.Parent() != v.Pkg().Scope() {
				return nil
			}
			return v
		}
		record := func(e ast.Expr, n ast.Node, how string) {
			if v := globalRoot(e); v != nil && !inOnce(n) {
				writes[v] = append(writes[v], fmt.Sprintf("%s in %s at %s", how, c.P.DeclName(fd), c.P.Pos(n.Pos())))
			}
		}
		ast.Inspect(fd.Body, func(n ast.Node) bool {
			switch x := n.(type) {
			case *ast.AssignStmt:
				if x.Tok == token.DEFINE {
					return true
				}
				for _, l := range x.Lhs {
					record(l, x, "assignment")
				}
			case *ast.IncDecStmt:
				record(x.X, x, "inc/dec")
			case *ast.UnaryExpr:
				if x.Op == token.AND {
					if _, isLit := x.X.(*ast.CompositeLit); !isLit {
						record(x.X, x, "address taken")
					}
				}
			case *ast.CallExpr:
				// pointer-receiver method called on a global value: may mutate it
				if sel, ok := x.Fun.(*ast.SelectorExpr); ok {
					if f, ok := info.ObjectOf(sel.Sel).(*types.Func); ok {
						sig := f.Type().(*types.Signature)
						if sig.Recv() != nil {
							if _, isPtr := sig.Recv().Type().(*types.Pointer); isPtr {
								if v := globalRoot(sel.X); v != nil && !inOnce(x) {
									if !immutableUse(v.Type(), f) {
										writes[v] = append(writes[v], fmt.Sprintf("pointer-receiver call %s in %s at %s", f.Name(), c.P.DeclName(fd), c.P.Pos(x.Pos())))
									}
								}
							}
						}
					}
				}
			}
			return true
		})
	})
	for _, g := range vars {
		key := strings.TrimPrefix(g.v.Pkg().Path(), "github.com/jsightapi/jsight-api-go-library/") + "." + g.v.Name()
		if w := writes[g.v]; len(w) == 0 {
			sc.Holds(key, c.P.Pos(g.v.Pos()), "written only while initialising ("+types.TypeString(g.v.Type(), func(p *types.Package) string { return p.Name() })+")")
		} else {
			sc.Violation(key, c.P.Pos(g.v.Pos()), "package-level variable is written after initialisation: "+strings.Join(w, "; ")+" — state shared by all parses in the process (data race, and one parse can influence another)")
		}
	}
}

// immutableUse: calling pointer-receiver method f on a package-level variable of
// type t does not change state that later parses can observe. sync.Once.Do and the
// lock methods only synchronise; compiled regexps and replacers are immutable.
// Everything else - in particular sync.Map, sync.Pool, atomic values - is shared
// mutable state: race free, but one parse can then influence another.
func immutableUse(t types.Type, f *types.Func) bool {
	if p, ok := t.(*types.Pointer); ok {
		t = p.Elem()
	}
	n, ok := t.(*types.Named)
	if !ok || n.Obj().Pkg() == nil {
		return false
	}
	switch n.Obj().Pkg().Path() + "." + n.Obj().Name() {
	case "strings.Replacer", "regexp.Regexp":
		return true
	case "sync.Once":
		return f.Name() == "Do"
	case "sync.Mutex", "sync.RWMutex":
		return true
	}
	return false
}
