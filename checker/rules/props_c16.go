package rules

func init() {
	reg("C16", &PropSpec{
		Rules:       []Rule{r("G1", RuleG1), r("G2", RuleG2), r("L1", RuleL1), r("D2", RuleD2), r("OP1", RuleOP1), r("RO1", RuleRO1), r("LK1", RuleLK1)},
		Explanation: "A sufficient condition for race freedom of the collection types and independence of parses: every type carrying a mutex reads its guarded fields under R/W and writes them under W on every path, with membership test, order append and data store in one write section (G1); no package-level variable is written or mutated after initialisation, including sync.Map/Pool style containers (G2); the library starts no goroutine and uses no shared scheduler state, so all other state hangs off per-parse objects (D2 = G3); no callback run under a collection lock re-enters the same collection with an incompatible lock (L1). Not decided: equality of concurrent and solo results beyond what G2/D2 imply; the schema library's pooled buffers (trusted). No locking read of the same receiver precedes the write lock of the same method (check-then-act, G1). Serialisers (Marshal*/String and what they reach) store into nothing reachable from their receiver or parameters through an indirection (RO1). A mutex taken without a deferred release is released on every way out (LK1).",
		Trusted:     trustedCommon,
	})
}
