package rules

import (
	"fmt"
	"go/ast"
	"go/constant"
	"go/token"
	"go/types"
	"sort"
	"strings"

	"verif/checker/cfgx"
	"verif/checker/load"
)

// ---------------------------------------------------------------- X1 exhaustive switches

// switchCoverage returns the declared constants of the tag's named type that no
// case lists, or ok=false when the switch is not over such a type.
func (c *Ctx) switchCoverage(pk *pkgT, sw *ast.SwitchStmt) (typ *types.Named, missing []string, total int, ok bool) {
	if sw.Tag == nil {
		return nil, nil, 0, false
	}
	tv, has := pk.TypesInfo.Types[sw.Tag]
	if !has {
		return nil, nil, 0, false
	}
	named, isNamed := tv.Type.(*types.Named)
	if !isNamed || named.Obj().Pkg() == nil {
		return nil, nil, 0, false
	}
	var declPk *pkgT
	for _, p := range c.P.Repo {
		if p.Types == named.Obj().Pkg() {
			declPk = p
		}
	}
	if declPk == nil {
		return nil, nil, 0, false
	}
	consts := EnumConsts(declPk, named)
	if len(consts) < 2 {
		return nil, nil, 0, false
	}
	covered := map[string]bool{}
	for _, cl := range sw.Body.List {
		for _, e := range cl.(*ast.CaseClause).List {
			if tv, has := pk.TypesInfo.Types[e]; has && tv.Value != nil {
				covered[tv.Value.ExactString()] = true
			}
		}
	}
	for _, k := range consts {
		if !covered[k.Val().ExactString()] {
			missing = append(missing, k.Name())
		}
	}
	if len(missing) > 0 {
		// the tag may be a parameter whose callers have narrowed it with a predicate of
		// the enumeration (`if e.IsEnding() { ... f(e) }`): only the values the predicate
		// admits can arrive
		if possible, ok := c.narrowedByCallers(pk, sw, named, declPk); ok {
			var still []string
			for _, k := range consts {
				if !covered[k.Val().ExactString()] && possible[k.Val().ExactString()] {
					still = append(still, k.Name())
				}
			}
			missing = still
		}
	}
	return named, missing, len(consts), true
}

// narrowedByCallers: the switch tag is an unmodified parameter of the enclosing function and
// every static caller reaches its call only where a bool method of the enumeration type was
// found true for the argument; the result is the union of those methods' true-sets.
func (c *Ctx) narrowedByCallers(pk *pkgT, sw *ast.SwitchStmt, named *types.Named, declPk *pkgT) (map[string]bool, bool) {
	info := pk.TypesInfo
	id, ok := ast.Unparen(sw.Tag).(*ast.Ident)
	if !ok {
		return nil, false
	}
	obj := info.ObjectOf(id)
	var encl *ast.FuncDecl
	c.P.Funcs(func(p *pkgT, fd *ast.FuncDecl) {
		if p == pk && fd.Pos() <= sw.Pos() && sw.End() <= fd.End() {
			encl = fd
		}
	})
	if encl == nil {
		return nil, false
	}
	pidx := paramIndexOf(info, encl, obj)
	if pidx < 0 || assignedAnywhere(info, encl.Body, obj) {
		return nil, false
	}
	self, _ := info.Defs[encl.Name].(*types.Func)
	if self == nil || c.usedAsValue(self) {
		return nil, false
	}
	sites := c.callSitesOf(self)
	if len(sites) == 0 {
		return nil, false
	}
	possible := map[string]bool{}
	for _, cs := range sites {
		if pidx >= len(cs.Call.Args) {
			return nil, false
		}
		cinfo := cs.Pk.TypesInfo
		cf := c.CFG(cs.Pk, cs.Body)
		arg := cs.Call.Args[pidx]
		narrowed := false
		for _, fa := range cf.FactsAt(cs.Call) {
			call, ok := ast.Unparen(fa.Expr).(*ast.CallExpr)
			if !ok || !fa.Truth || len(call.Args) != 0 {
				continue
			}
			g := Callee(cinfo, call)
			if g == nil || recvNamedOf(g) != named || !cf.SameResolved(Recv(call), arg) {
				continue
			}
			gd := c.P.Decl(g)
			if gd == nil {
				continue
			}
			set, ok := enumPredTrueSet(declPk.TypesInfo, gd)
			if !ok {
				continue
			}
			for k := range set {
				possible[k] = true
			}
			narrowed = true
			break
		}
		if !narrowed {
			return nil, false
		}
	}
	return possible, true
}

// enumPredTrueSet: the constants for which a predicate `switch e { case A, B: return true };
// return false` answers true (by exact constant value).
func enumPredTrueSet(info *types.Info, fd *ast.FuncDecl) (map[string]bool, bool) {
	out := map[string]bool{}
	okShape := false
	for _, st := range fd.Body.List {
		sw, ok := st.(*ast.SwitchStmt)
		if !ok || sw.Tag == nil {
			continue
		}
		for _, cl := range sw.Body.List {
			cc := cl.(*ast.CaseClause)
			if len(cc.Body) != 1 {
				continue
			}
			ret, ok := cc.Body[0].(*ast.ReturnStmt)
			if !ok || len(ret.Results) != 1 {
				continue
			}
			tv, has := info.Types[ret.Results[0]]
			if !has || tv.Value == nil {
				return nil, false
			}
			if tv.Value.String() == "true" {
				for _, e := range cc.List {
					if etv, has := info.Types[e]; has && etv.Value != nil {
						out[etv.Value.ExactString()] = true
						okShape = true
					}
				}
			}
		}
	}
	return out, okShape
}

func hasPanic(info *types.Info, n ast.Node) bool {
	found := false
	ast.Inspect(n, func(x ast.Node) bool {
		if call, ok := x.(*ast.CallExpr); ok {
			if id, ok := call.Fun.(*ast.Ident); ok {
				if b, ok := info.ObjectOf(id).(*types.Builtin); ok && b.Name() == "panic" {
					found = true
				}
			}
		}
		return !found
	})
	return found
}

func returnsNonNilError(info *types.Info, stmts []ast.Stmt) bool {
	for _, st := range stmts {
		ret, ok := st.(*ast.ReturnStmt)
		if !ok || len(ret.Results) == 0 {
			continue
		}
		last := ret.Results[len(ret.Results)-1]
		tv, ok := info.Types[last]
		if !ok {
			continue
		}
		if tv.IsNil() {
			continue
		}
		if isErrorType(tv.Type) {
			return true
		}
	}
	return false
}

func isErrorType(t types.Type) bool {
	if t == nil {
		return false
	}
	if types.Identical(t, types.Universe.Lookup("error").Type()) {
		return true
	}
	if p, ok := t.(*types.Pointer); ok {
		if n, ok := p.Elem().(*types.Named); ok && n.Obj().Name() == "JApiError" {
			return true
		}
	}
	return false
}

// RuleX1: switches whose fall-back arm is an internal failure must list every
// declared constant of the switched type.
func RuleX1(c *Ctx) {
	sc := c.Run.Begin("X1", "a switch over an enumerated type whose fall-back arm panics, or fails inside a Marshal*/String method, or is the lexeme dispatch, lists every declared constant; begin/end/single event predicates partition the event constants; the directive name table has one entry per directive constant", 1)
	defer sc.End()
	dispatchFn, _, _ := c.lexemeDispatch()
	c.P.Funcs(func(pk *pkgT, fd *ast.FuncDecl) {
		info := pk.TypesInfo
		fn := c.P.DeclName(fd)
		n := 0
		ast.Inspect(fd.Body, func(x ast.Node) bool {
			sw, ok := x.(*ast.SwitchStmt)
			if !ok {
				return true
			}
			named, missing, total, ok := c.switchCoverage(pk, sw)
			if !ok {
				return true
			}
			var deflt *ast.CaseClause
			for _, cl := range sw.Body.List {
				if cl.(*ast.CaseClause).List == nil {
					deflt = cl.(*ast.CaseClause)
				}
			}
			role := ""
			switch {
			case deflt != nil && hasPanic(info, deflt):
				role = "panicking default"
			case deflt != nil && isMarshalLike(fd) && returnsNonNilError(info, deflt.Body):
				role = "error default in a serialisation method"
			case fd == dispatchFn:
				role = "lexeme dispatch"
			}
			if role == "" {
				return true
			}
			n++
			key := fmt.Sprintf("%s:switch(%s)#%d", fn, named.Obj().Name(), n)
			if len(missing) == 0 {
				sc.Holds(key, c.P.Pos(sw.Pos()), fmt.Sprintf("%s; all %d constants of %s listed", role, total, named.Obj().Name()))
			} else {
				sc.Violation(key, c.P.Pos(sw.Pos()), fmt.Sprintf("%s, but constant(s) %s of %s are not listed: a declared value reaches the failure arm", role, strings.Join(missing, ","), named.Obj().Name()))
			}
			return true
		})
	})
	// event predicates partition the event constants (from the extracted tables)
	m, _, err := c.Machine()
	if err != nil {
		sc.Undecided("event-partition", "-", err.Error())
	} else {
		var bad []string
		for _, e := range m.EventConsts {
			k := 0
			if m.Begin[e] {
				k++
			}
			if m.End[e] {
				k++
			}
			if m.Single[e] {
				k++
			}
			if k != 1 {
				bad = append(bad, fmt.Sprintf("%s in %d classes", e, k))
			}
			if m.LexKind[e] == "" {
				bad = append(bad, e+" has no lexeme type")
			}
			if m.End[e] && m.PairOf[e] == "" {
				bad = append(bad, e+" has no matching begin")
			}
		}
		if len(bad) == 0 {
			sc.Holds("event-partition", "-", fmt.Sprintf("%d event constants: begin/end/single partition, every one maps to a lexeme type, every end has its begin", len(m.EventConsts)))
		} else {
			sc.Violation("event-partition", "-", "lexeme event constants are not partitioned by the begin/end/single predicates: "+strings.Join(bad, "; ")+" — such an event reaches the 'unsupported lexeme event' arm or the panic in ToLexemeType")
		}
	}
	// directive table: ss has exactly one string per Enumeration constant
	names := c.DirectiveNames()
	dpk := c.P.Pkg("directive")
	en := c.Named("directive", "Enumeration")
	if dpk == nil || en == nil || names == nil {
		sc.Undecided("directive-table", "-", "unresolved anchor: directive.Enumeration / name table")
	} else {
		consts := EnumConsts(dpk, en)
		tableLen := c.directiveTableLen()
		if tableLen == len(consts) && len(names) == len(consts) {
			sc.Holds("directive-table", "-", fmt.Sprintf("%d directive constants, %d names", len(consts), tableLen))
		} else {
			sc.Violation("directive-table", "-", fmt.Sprintf("%d directive constants but %d entries in the name table: Enumeration.String() indexes out of range or names shift", len(consts), tableLen))
		}
	}
}

func (c *Ctx) directiveTableLen() int {
	names := c.DirectiveNames()
	// DirectiveNames maps only indices that exist; count table elements directly
	pk := c.P.Pkg("directive")
	strM := c.Func("directive", "Enumeration.String")
	fd := c.P.Decl(strM)
	if fd == nil {
		return len(names)
	}
	var table *types.Var
	ast.Inspect(fd.Body, func(n ast.Node) bool {
		if ix, ok := n.(*ast.IndexExpr); ok {
			if id, ok := ix.X.(*ast.Ident); ok {
				if v, ok := pk.TypesInfo.ObjectOf(id).(*types.Var); ok {
					table = v
				}
			}
		}
		return true
	})
	n := -1
	for _, f := range pk.Syntax {
		ast.Inspect(f, func(x ast.Node) bool {
			vs, ok := x.(*ast.ValueSpec)
			if !ok {
				return true
			}
			for i, nm := range vs.Names {
				if pk.TypesInfo.ObjectOf(nm) == table && i < len(vs.Values) {
					if cl, ok := vs.Values[i].(*ast.CompositeLit); ok {
						n = len(cl.Elts)
					}
				}
			}
			return true
		})
	}
	return n
}

func isMarshalLike(fd *ast.FuncDecl) bool {
	switch fd.Name.Name {
	case "MarshalJSON", "MarshalText", "String":
		return fd.Recv != nil
	}
	return false
}

// ---------------------------------------------------------------- P1 explicit panics

// RuleP1: every explicit panic is discharged.
func RuleP1(c *Ctx) {
	sc := c.Run.Begin("P1", "every explicit panic() in the library is unreachable: exhaustive switch (X1), empty-stack panics (S1a/S1b on the automaton), guarded queue shift, adoptError fed only *JApiError values, panic(err) under a recover barrier (P2)", 1)
	defer sc.End()
	m, pds, merr := c.Machine()
	counts := map[string]int{}
	c.P.Funcs(func(pk *pkgT, fd *ast.FuncDecl) {
		info := pk.TypesInfo
		ast.Inspect(fd.Body, func(x ast.Node) bool {
			call, ok := x.(*ast.CallExpr)
			if !ok {
				return true
			}
			id, ok := call.Fun.(*ast.Ident)
			if !ok {
				return true
			}
			if b, ok := info.ObjectOf(id).(*types.Builtin); !ok || b.Name() != "panic" {
				return true
			}
			fn := c.P.DeclName(fd)
			counts[fn]++
			key := fmt.Sprintf("%s:panic#%d", fn, counts[fn])
			pos := c.P.Pos(call.Pos())
			obj, _ := info.Defs[fd.Name].(*types.Func)
			switch {
			case inRecoverHandler(info, fd, call):
				// a barrier that passes a recovered value on is not a barrier for that value: the
				// schema library's regex generator panics with a string (F16)
				sc.Violation(key, pos, "the recover handler panics again with the value it recovered: whatever the guarded calls panic with that the handler does not convert (a string from the schema library's regex generator, say) leaves the library as a panic instead of an error")
			case inDefaultOfExhaustiveSwitch(c, pk, fd, call):
				sc.Holds(key, pos, "default arm of a switch that lists every declared constant (X1)")
			case beyondCompleteTable(c, pk, fd, call):
				sc.Holds(key, pos, "reached only for a value beyond a table that has an element for every declared constant of the type (the table form of X1)")
			case isEmptyGuardPanic(info, fd, call):
				// panics when a container is empty: discharge by role
				ok, why := c.dischargeEmptyPanic(pk, fd, obj, m, pds, merr)
				if ok {
					sc.Holds(key, pos, why)
				} else {
					sc.Violation(key, pos, "panic on an empty container is reachable: "+why)
				}
			case isErrorRepanic(info, call):
				ok, why := c.underRecoverBarrier(obj)
				if ok {
					sc.Holds(key, pos, "panic(err): "+why)
				} else {
					sc.Violation(key, pos, "panic(err) is not under a recover barrier on every call chain: "+why)
				}
			default:
				// a conversion helper that panics on a foreign error type
				ok, why := c.adoptErrorDischarged(pk, fd, obj)
				if ok {
					sc.Holds(key, pos, why)
				} else {
					sc.Violation(key, pos, "explicit panic is not discharged by any recognised argument: "+why)
				}
			}
			return true
		})
	})
}

func inRecoverHandler(info *types.Info, fd *ast.FuncDecl, call *ast.CallExpr) bool {
	// inside a deferred func literal that calls recover(), and the panic argument is the recovered value
	found := false
	// ... or in a named handler (meant to be deferred directly): the argument is the value
	// recover() gave this very function, so a panic was in flight already
	if aid, ok := ast.Unparen(call.Args[0]).(*ast.Ident); ok && len(call.Args) == 1 {
		inLit := false
		ast.Inspect(fd.Body, func(n ast.Node) bool {
			if lit, ok := n.(*ast.FuncLit); ok && lit.Pos() <= call.Pos() && call.End() <= lit.End() {
				inLit = true
			}
			return true
		})
		if !inLit {
			defs := 0
			fromRecover := false
			inspectNoLit(fd.Body, func(n ast.Node) bool {
				as, ok := n.(*ast.AssignStmt)
				if !ok {
					return true
				}
				for i, l := range as.Lhs {
					lid, ok := l.(*ast.Ident)
					if !ok || info.ObjectOf(lid) != info.ObjectOf(aid) {
						continue
					}
					defs++
					if len(as.Lhs) == len(as.Rhs) {
						if rc, ok := ast.Unparen(as.Rhs[i]).(*ast.CallExpr); ok {
							if rid, ok := rc.Fun.(*ast.Ident); ok {
								if b, ok := info.ObjectOf(rid).(*types.Builtin); ok && b.Name() == "recover" {
									fromRecover = true
								}
							}
						}
					}
				}
				return true
			})
			if defs == 1 && fromRecover {
				return true
			}
		}
	}
	ast.Inspect(fd.Body, func(n ast.Node) bool {
		d, ok := n.(*ast.DeferStmt)
		if !ok {
			return true
		}
		lit, ok := d.Call.Fun.(*ast.FuncLit)
		if !ok || !(lit.Pos() <= call.Pos() && call.End() <= lit.End()) {
			return true
		}
		var recObj types.Object
		ast.Inspect(lit.Body, func(x ast.Node) bool {
			if as, ok := x.(*ast.AssignStmt); ok && len(as.Rhs) == 1 && len(as.Lhs) == 1 {
				if rc, ok := as.Rhs[0].(*ast.CallExpr); ok {
					if rid, ok := rc.Fun.(*ast.Ident); ok {
						if b, ok := info.ObjectOf(rid).(*types.Builtin); ok && b.Name() == "recover" {
							if lid, ok := as.Lhs[0].(*ast.Ident); ok {
								recObj = info.ObjectOf(lid)
							}
						}
					}
				}
			}
			return true
		})
		if recObj != nil && len(call.Args) == 1 {
			if aid, ok := call.Args[0].(*ast.Ident); ok && info.ObjectOf(aid) == recObj {
				found = true
			}
		}
		return true
	})
	return found
}

func inDefaultOfExhaustiveSwitch(c *Ctx, pk *pkgT, fd *ast.FuncDecl, call *ast.CallExpr) bool {
	res := false
	ast.Inspect(fd.Body, func(n ast.Node) bool {
		sw, ok := n.(*ast.SwitchStmt)
		if !ok {
			return true
		}
		for _, cl := range sw.Body.List {
			cc := cl.(*ast.CaseClause)
			if cc.List == nil && cc.Pos() <= call.Pos() && call.End() <= cc.End() {
				if _, missing, _, ok := c.switchCoverage(pk, sw); ok && len(missing) == 0 {
					res = true
				}
			}
		}
		return true
	})
	return res
}

// beyondCompleteTable: the panic is reached only under `int(e) >= len(T)` where e is of a
// repository enumeration type and T is a package-level array with an element for every
// declared constant of that type (all of them lie in [0, len(T))).
func beyondCompleteTable(c *Ctx, pk *pkgT, fd *ast.FuncDecl, call *ast.CallExpr) bool {
	info := pk.TypesInfo
	cf := c.CFG(pk, fd.Body)
	gen := func(fa cfgx.Fact) bool {
		be, ok := ast.Unparen(fa.Expr).(*ast.BinaryExpr)
		if !ok {
			return false
		}
		x, y, op := be.X, be.Y, be.Op
		if !fa.Truth {
			switch op {
			case token.LSS:
				op = token.GEQ
			case token.LEQ:
				op = token.GTR
			default:
				return false
			}
		}
		// normalise to  e >= len(T)
		switch op {
		case token.GEQ:
		case token.LEQ:
			x, y = y, x
		default:
			return false
		}
		lenOf, isLen := lengthExpr(info, cf.Resolve(y))
		if !isLen {
			return false
		}
		tid, ok := ast.Unparen(lenOf).(*ast.Ident)
		if !ok {
			return false
		}
		tab, ok := info.ObjectOf(tid).(*types.Var)
		if !ok || tab.Pkg() == nil || tab.Parent() != tab.Pkg().Scope() {
			return false
		}
		arr, ok := tab.Type().Underlying().(*types.Array)
		if !ok {
			return false
		}
		// e, possibly under a conversion to an integer type
		ex := ast.Unparen(cf.Resolve(x))
		if conv, ok := ex.(*ast.CallExpr); ok && len(conv.Args) == 1 {
			if tv, ok := info.Types[conv.Fun]; ok && tv.IsType() {
				ex = ast.Unparen(conv.Args[0])
			}
		}
		named, ok := info.TypeOf(ex).(*types.Named)
		if !ok || named.Obj().Pkg() == nil {
			return false
		}
		var declPk *pkgT
		for _, p := range c.P.Repo {
			if p.Types == named.Obj().Pkg() {
				declPk = p
			}
		}
		if declPk == nil {
			return false
		}
		consts := EnumConsts(declPk, named)
		if len(consts) < 2 {
			return false
		}
		for _, k := range consts {
			v, exact := constant.Int64Val(constant.ToInt(k.Val()))
			if !exact || v < 0 || v >= arr.Len() {
				return false
			}
		}
		return true
	}
	return cf.MustAt(call, gen, nil, nil)
}

// isEmptyGuardPanic: panic inside `if <len var> == 0 { panic(...) }`.
func isEmptyGuardPanic(info *types.Info, fd *ast.FuncDecl, call *ast.CallExpr) bool {
	res := false
	ast.Inspect(fd.Body, func(n ast.Node) bool {
		ifs, ok := n.(*ast.IfStmt)
		if !ok || !(ifs.Body.Pos() <= call.Pos() && call.End() <= ifs.Body.End()) {
			return true
		}
		cf := cfgx.New(fd.Body, info)
		if _, _, empty := lenFactR(info, cfgx.Fact{Expr: ifs.Cond, Truth: true}, cf.Resolve); empty {
			res = true
		}
		return true
	})
	if res {
		return true
	}
	// the guard in any other shape: on every path to the panic the container is known to be empty
	cf := cfgx.New(fd.Body, info)
	return cf.MustAt(call, func(fa cfgx.Fact) bool {
		_, _, empty := lenFactR(info, fa, cf.Resolve)
		return empty
	}, nil, nil)
}

func isErrorRepanic(info *types.Info, call *ast.CallExpr) bool {
	if len(call.Args) != 1 {
		return false
	}
	tv, ok := info.Types[call.Args[0]]
	return ok && isErrorType(tv.Type)
}

// dischargeEmptyPanic: the panic guards an empty container. Three roles exist:
// the step stack (S1a), the event stack (S1b) and the finds queue (guarded callers).
func (c *Ctx) dischargeEmptyPanic(pk *pkgT, fd *ast.FuncDecl, obj *types.Func, m machineT, pds resultT, merr error) (bool, string) {
	if merr != nil {
		return false, merr.Error()
	}
	recv := recvNamedOf(obj)
	switch {
	case recv != nil && m.IsStepStackType(recv):
		// every caller chain must be a step function or an inlined helper (modelled by the automaton)
		if bad := c.callersOutside(obj, func(f *types.Func) bool { return m.FuncsSeen[f.Name()] || recvNamedOf(f) == recv }); bad != "" {
			return false, "step stack is popped outside the modelled step functions: " + bad
		}
		for _, f := range pds.Findings {
			if f.Rule == "S1a" {
				return false, "S1a: " + f.Detail
			}
		}
		return true, "step stack: post* shows no pop with an empty stack (S1a)"
	case recv != nil && m.IsEventStackType(recv):
		if bad := c.callersOutside(obj, func(f *types.Func) bool { return m.IsEventProcessor(f) || recvNamedOf(f) == recv }); bad != "" {
			return false, "event stack is popped outside the event processor: " + bad
		}
		for _, f := range pds.Findings {
			if f.Rule == "S1b" {
				return false, "S1b: " + f.Detail
			}
		}
		return true, "event stack: post* shows no end event without an open lexeme (S1b)"
	default:
		// a queue shift: every call site must be guarded by len(q) != 0 or sit directly in `for range q`
		sites := c.callSitesOf(obj)
		if len(sites) == 0 {
			return true, "no caller"
		}
		for _, cs := range sites {
			if !c.shiftGuarded(cs) {
				return false, fmt.Sprintf("call at %s is not guarded by a non-empty test", c.P.Pos(cs.Call.Pos()))
			}
		}
		return true, fmt.Sprintf("all %d call sites are guarded by len != 0 or `for range` over the queue", len(sites))
	}
}

func (c *Ctx) shiftGuarded(cs callSite) bool {
	info := cs.Pk.TypesInfo
	cf := c.CFG(cs.Pk, cs.Body)
	gen := func(fa cfgx.Fact) bool {
		_, nonEmpty, _ := lenFact(info, fa)
		return nonEmpty
	}
	if cf.MustAt(cs.Call, gen, nil, nil) {
		return true
	}
	// a drain loop: `for range q` or `for n := len(q); n > 0; n--` whose body shifts exactly
	// once per iteration (the call is not nested in an inner loop and is the only call of
	// the shift function in the body): the queue holds at least as many elements as there
	// are iterations left, whatever else the body appends
	shift := Callee(info, cs.Call)
	ok := false
	ast.Inspect(cs.Body, func(n ast.Node) bool {
		var body *ast.BlockStmt
		switch l := n.(type) {
		case *ast.RangeStmt:
			if l.Key == nil && l.Value == nil {
				body = l.Body
			}
		case *ast.ForStmt:
			if isCountdownOverLen(info, l) {
				body = l.Body
			}
		}
		if body == nil || !(body.Pos() <= cs.Call.Pos() && cs.Call.End() <= body.End()) {
			return true
		}
		shifts, nested := 0, false
		ast.Inspect(body, func(y ast.Node) bool {
			switch z := y.(type) {
			case *ast.ForStmt:
				if z.Pos() <= cs.Call.Pos() && cs.Call.End() <= z.End() {
					nested = true
				}
			case *ast.RangeStmt:
				if z.Pos() <= cs.Call.Pos() && cs.Call.End() <= z.End() {
					nested = true
				}
			case *ast.CallExpr:
				if Callee(info, z) == shift {
					shifts++
				}
			}
			return true
		})
		if shifts == 1 && !nested {
			ok = true
		}
		return true
	})
	return ok
}

// isCountdownOverLen: for n := len(q); n > 0; n-- { body does not assign n }.
func isCountdownOverLen(info *types.Info, l *ast.ForStmt) bool {
	init, ok := l.Init.(*ast.AssignStmt)
	if !ok || len(init.Lhs) != 1 || len(init.Rhs) != 1 {
		return false
	}
	id, ok := init.Lhs[0].(*ast.Ident)
	if !ok {
		return false
	}
	if _, isLen := lengthExpr(info, init.Rhs[0]); !isLen {
		return false
	}
	obj := info.ObjectOf(id)
	cond, ok := ast.Unparen(l.Cond).(*ast.BinaryExpr)
	if !ok {
		return false
	}
	isN := func(e ast.Expr) bool {
		x, ok := ast.Unparen(e).(*ast.Ident)
		return ok && info.ObjectOf(x) == obj
	}
	isConst := func(e ast.Expr, v string) bool {
		tv, ok := info.Types[e]
		return ok && tv.Value != nil && tv.Value.ExactString() == v
	}
	condOK := (isN(cond.X) && ((cond.Op == token.GTR && isConst(cond.Y, "0")) || (cond.Op == token.NEQ && isConst(cond.Y, "0")) || (cond.Op == token.GEQ && isConst(cond.Y, "1")))) ||
		(isN(cond.Y) && ((cond.Op == token.LSS && isConst(cond.X, "0")) || (cond.Op == token.LEQ && isConst(cond.X, "1"))))
	if !condOK {
		return false
	}
	post, ok := l.Post.(*ast.IncDecStmt)
	if !ok || post.Tok != token.DEC || !isN(post.X) {
		return false
	}
	return !assignedAnywhere(info, l.Body, obj)
}

// callersOutside returns a description of a caller of f (transitively through
// methods of the same receiver type) that allowed() rejects, or "".
func (c *Ctx) callersOutside(f *types.Func, allowed func(*types.Func) bool) string {
	seen := map[*types.Func]bool{}
	var walk func(f *types.Func) string
	walk = func(f *types.Func) string {
		if seen[f] {
			return ""
		}
		seen[f] = true
		for _, cs := range c.callSitesOf(f) {
			caller := declObj(cs)
			if caller == nil || !allowed(caller) {
				return fmt.Sprintf("%s at %s", c.P.DeclName(cs.Decl), c.P.Pos(cs.Call.Pos()))
			}
			if recvNamedOf(caller) != nil && recvNamedOf(caller) == recvNamedOf(f) {
				if bad := walk(caller); bad != "" {
					return bad
				}
			}
		}
		return ""
	}
	return walk(f)
}

func recvNamedOf(f *types.Func) *types.Named {
	if f == nil {
		return nil
	}
	sig, ok := f.Type().(*types.Signature)
	if !ok || sig.Recv() == nil {
		return nil
	}
	t := sig.Recv().Type()
	if p, ok := t.(*types.Pointer); ok {
		t = p.Elem()
	}
	n, _ := t.(*types.Named)
	return n
}

// ---------------------------------------------------------------- P2 recover barriers

// hasRecoverBarrier: fd defers a func literal that calls recover() and assigns a named result.
func (c *Ctx) hasRecoverBarrier(info *types.Info, fd *ast.FuncDecl) bool {
	if fd.Type.Results == nil {
		return false
	}
	named := map[types.Object]bool{}
	for _, fl := range fd.Type.Results.List {
		for _, nm := range fl.Names {
			named[info.ObjectOf(nm)] = true
		}
	}
	ok := false
	for _, st := range fd.Body.List {
		d, isDefer := st.(*ast.DeferStmt)
		if !isDefer {
			continue
		}
		lit, isLit := d.Call.Fun.(*ast.FuncLit)
		if !isLit {
			// `defer recoverAsError(&err)`: a declared function deferred directly (recover
			// works one frame below the panicking function) that calls recover() and stores
			// through the pointer it was handed, the address of a named result
			if g := Callee(info, d.Call); g != nil {
				if gd := c.P.Decl(g); gd != nil && gd.Body != nil {
					ginfo := c.P.PkgOfDecl(gd).TypesInfo
					ptrParam := map[types.Object]bool{}
					pi := 0
					for _, fl := range gd.Type.Params.List {
						for _, nm := range fl.Names {
							if pi < len(d.Call.Args) {
								if u, isAddr := ast.Unparen(d.Call.Args[pi]).(*ast.UnaryExpr); isAddr && u.Op == token.AND {
									if id, isId := ast.Unparen(u.X).(*ast.Ident); isId && named[info.ObjectOf(id)] {
										ptrParam[ginfo.ObjectOf(nm)] = true
									}
								}
							}
							pi++
						}
					}
					rec, assigns := false, false
					ast.Inspect(gd.Body, func(n ast.Node) bool {
						switch x := n.(type) {
						case *ast.FuncLit:
							return false // recover() in a nested function would not stop the panic
						case *ast.CallExpr:
							if id, isId := x.Fun.(*ast.Ident); isId {
								if b, isB := ginfo.ObjectOf(id).(*types.Builtin); isB && b.Name() == "recover" {
									rec = true
								}
							}
						case *ast.AssignStmt:
							for _, l := range x.Lhs {
								if st, isStar := ast.Unparen(l).(*ast.StarExpr); isStar {
									if id, isId := ast.Unparen(st.X).(*ast.Ident); isId && ptrParam[ginfo.ObjectOf(id)] {
										assigns = true
									}
								}
							}
						}
						return true
					})
					if rec && assigns {
						ok = true
					}
				}
			}
			continue
		}
		rec, assigns := false, false
		ast.Inspect(lit.Body, func(n ast.Node) bool {
			switch x := n.(type) {
			case *ast.CallExpr:
				if id, isId := x.Fun.(*ast.Ident); isId {
					if b, isB := info.ObjectOf(id).(*types.Builtin); isB && b.Name() == "recover" {
						rec = true
					}
				}
			case *ast.AssignStmt:
				for _, l := range x.Lhs {
					if id, isId := l.(*ast.Ident); isId && named[info.ObjectOf(id)] {
						assigns = true
					}
				}
			}
			return true
		})
		if rec && assigns {
			ok = true
		}
	}
	return ok
}

// underRecoverBarrier: every static call chain into f passes through a function
// with a recover barrier before reaching an exported function or a root.
func (c *Ctx) underRecoverBarrier(f *types.Func) (bool, string) {
	seen := map[*types.Func]bool{}
	var visit func(g *types.Func) (bool, string)
	visit = func(g *types.Func) (bool, string) {
		if seen[g] {
			return true, ""
		}
		seen[g] = true
		fd := c.P.Decl(g)
		if fd == nil {
			return false, "no declaration for " + g.Name()
		}
		if c.hasRecoverBarrier(c.P.PkgOfDecl(fd).TypesInfo, fd) {
			return true, ""
		}
		if g.Exported() {
			return false, "exported " + load.FuncName(g) + " can be called directly without a barrier"
		}
		if c.usedAsValue(g) {
			return false, load.FuncName(g) + " is used as a value"
		}
		callers := c.callSitesOf(g)
		if len(callers) == 0 {
			return true, "" // dead code
		}
		for _, cs := range callers {
			caller := declObj(cs)
			if caller == nil {
				return false, "caller without declaration"
			}
			if ok, why := visit(caller); !ok {
				return false, why
			}
		}
		return true, ""
	}
	ok, why := visit(f)
	if ok {
		return true, "every caller chain passes a function with a deferred recover() that sets the error result"
	}
	return false, why
}

// RuleP2: calls into functions the trusted base documents as panicking sit under a barrier.
func RuleP2(c *Ctx) {
	sc := c.Run.Begin("P2", "every call to reader.Read (documented to panic) is inside a function whose deferred recover() sets its error result; the recover barriers around the schema library turn every recovered value into the error result", 1)
	defer sc.End()
	n := 0
	c.eachCall(func(cs callSite) {
		callee := Callee(cs.Pk.TypesInfo, cs.Call)
		if callee == nil || callee.Pkg() == nil || !strings.HasSuffix(callee.Pkg().Path(), "jsight-schema-go-library/reader") {
			return
		}
		n++
		key := fmt.Sprintf("%s:%s#%d", c.P.DeclName(cs.Decl), callee.Name(), n)
		if c.hasRecoverBarrier(cs.Pk.TypesInfo, cs.Decl) {
			sc.Holds(key, c.P.Pos(cs.Call.Pos()), "under a recover barrier")
		} else {
			sc.Violation(key, c.P.Pos(cs.Call.Pos()), "reader."+callee.Name()+" panics on I/O errors and this call is not under a deferred recover() that sets the error result")
		}
	})
	// inventory of barriers
	c.P.Funcs(func(pk *pkgT, fd *ast.FuncDecl) {
		if c.hasRecoverBarrier(pk.TypesInfo, fd) {
			sc.Holds("barrier:"+c.P.DeclName(fd), c.P.Pos(fd.Pos()), "deferred recover() assigns the named error result")
		}
	})
}

// ---------------------------------------------------------------- adoptError

// adoptErrorDischarged: fd is a helper  func(err error) *JApiError  that panics when
// err is not a *JApiError; every value flowing into it must be nil or a *JApiError.
func (c *Ctx) adoptErrorDischarged(pk *pkgT, fd *ast.FuncDecl, obj *types.Func) (bool, string) {
	if obj == nil {
		return false, "no object"
	}
	sig := obj.Type().(*types.Signature)
	if sig.Params().Len() != 1 || !types.Identical(sig.Params().At(0).Type(), types.Universe.Lookup("error").Type()) {
		return false, "not an error-adopting helper"
	}
	j := &jerrOnly{c: c, memo: map[ast.Node]int{}}
	sites := c.callSitesOf(obj)
	if len(sites) == 0 {
		return true, "no caller"
	}
	for _, cs := range sites {
		if ok, why := j.exprOK(cs, cs.Call.Args[0], 0); !ok {
			return false, fmt.Sprintf("argument at %s may be an error that is not a *JApiError: %s", c.P.Pos(cs.Call.Pos()), why)
		}
	}
	return true, fmt.Sprintf("all %d call sites pass nil or values produced as *JApiError (callbacks analysed transitively)", len(sites))
}

type jerrOnly struct {
	c    *Ctx
	memo map[ast.Node]int // 1 in progress/ok, 2 bad
	why  string
}

// exprOK: expression e (of type error or *JApiError) is nil or a *JApiError on every path.
func (j *jerrOnly) exprOK(cs callSite, e ast.Expr, depth int) (bool, string) {
	info := cs.Pk.TypesInfo
	e = ast.Unparen(e)
	if depth > 12 {
		return false, "analysis depth exceeded"
	}
	tv, ok := info.Types[e]
	if !ok {
		return false, "untyped expression"
	}
	if tv.IsNil() {
		return true, ""
	}
	if p, isPtr := tv.Type.(*types.Pointer); isPtr {
		if n, isNamed := p.Elem().(*types.Named); isNamed && n.Obj().Name() == "JApiError" {
			return true, ""
		}
	}
	switch x := e.(type) {
	case *ast.Ident:
		// every assignment to the variable in the enclosing body
		obj := info.ObjectOf(x)
		var rhs []ast.Expr
		tupleCalls := []*ast.CallExpr{}
		ast.Inspect(cs.Body, func(n ast.Node) bool {
			as, ok := n.(*ast.AssignStmt)
			if !ok {
				return true
			}
			for i, l := range as.Lhs {
				if id, ok := l.(*ast.Ident); ok && info.ObjectOf(id) == obj {
					if len(as.Lhs) == len(as.Rhs) {
						rhs = append(rhs, as.Rhs[i])
					} else if call, ok := as.Rhs[0].(*ast.CallExpr); ok {
						tupleCalls = append(tupleCalls, call)
					}
				}
			}
			return true
		})
		// also var declarations with a value
		if len(rhs) == 0 && len(tupleCalls) == 0 {
			// a parameter of the enclosing function
			if pi := paramIndex(cs, info, obj); pi >= 0 {
				return false, "parameter " + x.Name + " of unknown provenance"
			}
			return true, "" // zero value: nil
		}
		for _, r := range rhs {
			if ok, why := j.exprOK(cs, r, depth+1); !ok {
				return false, why
			}
		}
		for _, call := range tupleCalls {
			if ok, why := j.callOK(cs, call, depth+1); !ok {
				return false, why
			}
		}
		return true, ""
	case *ast.CallExpr:
		return j.callOK(cs, x, depth+1)
	}
	return false, "unsupported expression " + types.ExprString(e)
}

// callOK: the error result of the call is nil or a *JApiError.
func (j *jerrOnly) callOK(cs callSite, call *ast.CallExpr, depth int) (bool, string) {
	c := j.c
	info := cs.Pk.TypesInfo
	callee := Callee(info, call)
	if callee == nil {
		// a call through a function-typed variable: only the collection iterators do this with their parameter
		return false, "call through a function value " + types.ExprString(call.Fun)
	}
	sig := callee.Type().(*types.Signature)
	if sig.Results().Len() == 0 {
		return false, "callee returns nothing"
	}
	last := sig.Results().At(sig.Results().Len() - 1).Type()
	if p, ok := last.(*types.Pointer); ok {
		if n, ok := p.Elem().(*types.Named); ok && n.Obj().Name() == "JApiError" {
			return true, ""
		}
	}
	fd := c.P.Decl(callee)
	if fd == nil {
		return false, "result of " + callee.FullName() + " (outside the repository) is not known to be a *JApiError"
	}
	// iterator shape: the callee returns nil or what its function-typed parameter returned
	if fi := funcParamIndex(sig); fi >= 0 {
		if iteratorShape(c.P.PkgOfDecl(fd).TypesInfo, fd, fi) {
			if fi >= len(call.Args) {
				return false, "iterator called without its callback"
			}
			lit, ok := ast.Unparen(call.Args[fi]).(*ast.FuncLit)
			if !ok {
				// a named function or a method value as the callback
				var cb *types.Func
				switch a := ast.Unparen(call.Args[fi]).(type) {
				case *ast.Ident:
					cb, _ = info.ObjectOf(a).(*types.Func)
				case *ast.SelectorExpr:
					cb, _ = info.ObjectOf(a.Sel).(*types.Func)
				}
				if cbd := c.P.Decl(cb); cbd != nil {
					return j.bodyOK(callSite{Pk: c.P.PkgOfDecl(cbd), Decl: cbd, Body: cbd.Body}, cbd.Body, depth+1)
				}
				return false, "iterator callback is neither a function literal nor a named function of the repository"
			}
			return j.bodyOK(callSite{Pk: cs.Pk, Decl: cs.Decl, Body: lit.Body, Lit: lit}, lit.Body, depth+1)
		}
	}
	dpk := c.P.PkgOfDecl(fd)
	return j.bodyOK(callSite{Pk: dpk, Decl: fd, Body: fd.Body}, fd.Body, depth+1)
}

// bodyOK: every return of the body yields nil or a *JApiError as its last result.
func (j *jerrOnly) bodyOK(cs callSite, body *ast.BlockStmt, depth int) (bool, string) {
	switch j.memo[body] {
	case 1:
		return true, "" // recursion: assume, verified by the outer frame
	case 2:
		return false, j.why
	}
	j.memo[body] = 1
	res, why := true, ""
	var walk func(n ast.Node) bool
	walk = func(n ast.Node) bool {
		if !res {
			return false
		}
		switch x := n.(type) {
		case *ast.FuncLit:
			return false
		case *ast.ReturnStmt:
			if len(x.Results) == 0 {
				res, why = false, "bare return at "+j.c.P.Pos(x.Pos())
				return false
			}
			if ok, w := j.exprOK(cs, x.Results[len(x.Results)-1], depth+1); !ok {
				res, why = false, fmt.Sprintf("return at %s: %s", j.c.P.Pos(x.Pos()), w)
			}
		}
		return true
	}
	ast.Inspect(body, walk)
	if !res {
		j.memo[body] = 2
		j.why = why
	}
	return res, why
}

func funcParamIndex(sig *types.Signature) int {
	for i := 0; i < sig.Params().Len(); i++ {
		if fs, ok := sig.Params().At(i).Type().Underlying().(*types.Signature); ok {
			if fs.Results().Len() > 0 && isErrorType(fs.Results().At(fs.Results().Len()-1).Type()) {
				return i
			}
		}
	}
	return -1
}

// iteratorShape: every return of fd is nil, or a variable assigned only from calls
// of its fi-th parameter.
func iteratorShape(info *types.Info, fd *ast.FuncDecl, fi int) bool {
	var fobj types.Object
	i := 0
	for _, fl := range fd.Type.Params.List {
		for _, nm := range fl.Names {
			if i == fi {
				fobj = info.ObjectOf(nm)
			}
			i++
		}
	}
	if fobj == nil {
		return false
	}
	fromCallback := map[types.Object]bool{}
	ast.Inspect(fd.Body, func(n ast.Node) bool {
		as, ok := n.(*ast.AssignStmt)
		if !ok || len(as.Rhs) != 1 {
			return true
		}
		call, ok := as.Rhs[0].(*ast.CallExpr)
		if !ok {
			return true
		}
		id, ok := call.Fun.(*ast.Ident)
		if !ok || info.ObjectOf(id) != fobj {
			return true
		}
		if lid, ok := as.Lhs[len(as.Lhs)-1].(*ast.Ident); ok {
			fromCallback[info.ObjectOf(lid)] = true
		}
		return true
	})
	ok := true
	ast.Inspect(fd.Body, func(n ast.Node) bool {
		if _, isLit := n.(*ast.FuncLit); isLit {
			return false
		}
		ret, isRet := n.(*ast.ReturnStmt)
		if !isRet || len(ret.Results) == 0 {
			return true
		}
		last := ast.Unparen(ret.Results[len(ret.Results)-1])
		if tv, has := info.Types[last]; has && tv.IsNil() {
			return true
		}
		if id, isId := last.(*ast.Ident); isId && fromCallback[info.ObjectOf(id)] {
			return true
		}
		ok = false
		return true
	})
	return ok
}

var _ = sort.Strings
