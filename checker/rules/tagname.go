package rules

import (
	"fmt"
	"go/ast"
	"go/constant"
	"go/token"
	"go/types"
	"net/url"
	"sort"
	"strings"
)

// TN1 - injectivity of the automatic tag name, decided for ALL first segments.
//
// The automatic name is computed by a short pipeline of string functions. The rule reads
// that pipeline from the source and interprets it abstractly: the argument is modelled as
// a literal prefix followed by a free string s over a known alphabet, and each recognised
// step (ReplaceAll of a single byte, Replace of the first occurrence when that occurrence
// lies in the literal prefix, url.PathEscape, strings.ToLower/ToUpper) is a byte-wise
// homomorphism, so the whole pipeline is  s |-> prefix . h(s)  for a table h: byte -> string.
// Such a map is injective on all strings iff the set {h(b)} is a uniquely decodable code,
// which the Sardinas-Patterson procedure decides exactly. Special cases (`if x == "lit"
// { return "const" }`) are checked not to collide with the general image or each other.
// A step the interpreter does not recognise makes the rule undecided (which fails).
//
// The per-byte table of url.PathEscape is obtained from the standard library itself (it
// escapes byte by byte); that is library semantics, not the repository's code.

type tnState struct {
	prefix string          // literal part
	h      map[byte]string // homomorphism on the free part
	alpha  []byte          // alphabet of the free part
	sep    string          // the literal prefix of the input
	approx string          // non-empty: a step was modelled on part of the alphabet only
}

func (s *tnState) clone() *tnState {
	c := &tnState{prefix: s.prefix, h: map[byte]string{}, alpha: s.alpha, sep: s.sep, approx: s.approx}
	for k, v := range s.h {
		c.h[k] = v
	}
	return c
}

func (s *tnState) mapBytes(f func(string) string) {
	s.prefix = f(s.prefix)
	for _, b := range s.alpha {
		s.h[b] = f(s.h[b])
	}
}

// RuleTN1 decides the injectivity clause of the tag property.
func RuleTN1(c *Ctx) {
	sc := c.Run.Begin("TN1", "the automatic tag name is an injective function of the first path segment: its pipeline of string steps is a byte-wise homomorphism whose images form a uniquely decodable code (Sardinas-Patterson), and its special cases do not collide with the general image", 1)
	defer sc.End()
	pk := c.P.Pkg("catalog")
	tn := c.Named("catalog", "TagName")
	if pk == nil || tn == nil {
		sc.Undecided("anchors", "-", "unresolved anchor: catalog.TagName")
		return
	}
	info := pk.TypesInfo
	// the name function: the package function  func(string) TagName
	var nameFn *types.Func
	c.P.Funcs(func(p *pkgT, fd *ast.FuncDecl) {
		if p != pk || fd.Recv != nil {
			return
		}
		f, _ := info.Defs[fd.Name].(*types.Func)
		if f == nil {
			return
		}
		sig := f.Type().(*types.Signature)
		if sig.Params().Len() == 1 && sig.Results().Len() == 1 && types.Identical(sig.Results().At(0).Type(), tn) {
			if b, ok := sig.Params().At(0).Type().Underlying().(*types.Basic); ok && b.Kind() == types.String {
				nameFn = f
			}
		}
	})
	if nameFn == nil {
		sc.Undecided("anchors", "-", "unresolved anchor: the function string -> TagName")
		return
	}
	nfd := c.P.Decl(nameFn)
	// --- the domain: every caller passes the result of the title function, whose returns
	// are "/" or "/" + an element of strings.Split(path, "/")
	var titleFn *types.Func
	okDomain := true
	sites := c.callSitesOf(nameFn)
	for _, cs := range sites {
		cf := c.CFG(cs.Pk, cs.Body)
		call, ok := ast.Unparen(cf.Resolve(cs.Call.Args[0])).(*ast.CallExpr)
		var g *types.Func
		if ok {
			g = Callee(cs.Pk.TypesInfo, call)
		}
		if g == nil || c.P.Decl(g) == nil || (titleFn != nil && g != titleFn) {
			okDomain = false
			sc.Undecided("domain:"+c.P.DeclName(cs.Decl), c.P.Pos(cs.Call.Pos()), "the argument of the name function is not the result of the one title function: the set of strings it must be injective on is not known")
			continue
		}
		titleFn = g
	}
	if len(sites) == 0 {
		sc.Undecided("domain", c.P.Pos(nfd.Pos()), "the name function has no caller")
		return
	}
	if !okDomain || titleFn == nil {
		return
	}
	sep, why := c.titleDomain(pk, c.P.Decl(titleFn))
	if why != "" {
		sc.Undecided("domain:"+titleFn.Name(), c.P.Pos(c.P.Decl(titleFn).Pos()), "the title function's results are not of the form SEP or SEP + segment-of-Split(path, SEP): "+why)
		return
	}
	sc.Holds("domain:"+titleFn.Name(), c.P.Pos(c.P.Decl(titleFn).Pos()), fmt.Sprintf("%d call site(s) pass %s(...), whose results are %q or %q + a non-empty element of strings.Split(path, %q)", len(sites), titleFn.Name(), sep, sep, sep))

	// --- abstract interpretation of the pipeline: an environment maps the parameter and
	// local string variables to abstract values; expressions are evaluated recursively, so
	// `x = f(x)` sequences, fresh locals and nested calls `g(f(x))` are all understood
	st0 := &tnState{prefix: sep, sep: sep, h: map[byte]string{}}
	for b := 0; b < 256; b++ {
		if !strings.Contains(sep, string([]byte{byte(b)})) {
			st0.alpha = append(st0.alpha, byte(b))
			st0.h[byte(b)] = string([]byte{byte(b)})
		}
	}
	param := info.ObjectOf(nfd.Type.Params.List[0].Names[0])
	env := map[types.Object]*tnState{param: st0}
	special := map[string]string{}
	var specialOrder []string
	steps := 0
	var st *tnState
	constStr := func(e ast.Expr) (string, bool) {
		if tv, ok := info.Types[e]; ok && tv.Value != nil && tv.Value.Kind() == constant.String {
			return constant.StringVal(tv.Value), true
		}
		return "", false
	}
	isRawParam := func(e ast.Expr) bool {
		id, ok := ast.Unparen(e).(*ast.Ident)
		return ok && info.ObjectOf(id) == param && env[param] == st0
	}
	helperDepth := 0
	var runHelper func(gd *ast.FuncDecl, in *tnState) (*tnState, string)
	var eval func(e ast.Expr) (*tnState, string)
	eval = func(e ast.Expr) (*tnState, string) {
		e = ast.Unparen(e)
		switch x := e.(type) {
		case *ast.Ident:
			if v, ok := env[info.ObjectOf(x)]; ok {
				return v, ""
			}
			return nil, "the variable " + x.Name + " does not hold a value derived from the argument"
		case *ast.CallExpr:
			if tv, isT := info.Types[x.Fun]; isT && tv.IsType() && len(x.Args) == 1 {
				if b, ok := tv.Type.Underlying().(*types.Basic); ok && b.Info()&types.IsString != 0 {
					return eval(x.Args[0]) // string-to-string conversion
				}
				return nil, "conversion " + types.ExprString(x)
			}
			g := Callee(info, x)
			full := ""
			if g != nil && g.Pkg() != nil {
				full = g.Pkg().Path() + "." + g.Name()
			}
			if len(x.Args) == 0 {
				return nil, "unrecognised step " + types.ExprString(x)
			}
			in, why := eval(x.Args[0])
			if in == nil {
				return nil, why
			}
			out := in.clone()
			steps++
			switch full {
			case "strings.ReplaceAll":
				old, ok1 := constStr(x.Args[1])
				nw, ok2 := constStr(x.Args[2])
				if !ok1 || !ok2 || len(old) != 1 {
					return nil, "ReplaceAll with a non-constant or multi-byte pattern: " + types.ExprString(x)
				}
				out.mapBytes(func(y string) string { return strings.ReplaceAll(y, old, nw) })
			case "strings.Replace":
				old, ok1 := constStr(x.Args[1])
				nw, ok2 := constStr(x.Args[2])
				cnt := int64(-2)
				if tv, has := info.Types[x.Args[3]]; has && tv.Value != nil {
					cnt, _ = constant.Int64Val(tv.Value)
				}
				if !ok1 || !ok2 || len(old) != 1 {
					return nil, "Replace with a non-constant or multi-byte pattern: " + types.ExprString(x)
				}
				switch {
				case cnt < 0:
					out.mapBytes(func(y string) string { return strings.ReplaceAll(y, old, nw) })
				case cnt == 1 && strings.Contains(out.prefix, old):
					// the first occurrence lies in the literal prefix, whatever s is
					out.prefix = strings.Replace(out.prefix, old, nw, 1)
				default:
					return nil, "Replace of the first n occurrences where they may fall into the free part of the argument: " + types.ExprString(x)
				}
			case "net/url.PathEscape":
				out.mapBytes(bytewise(url.PathEscape))
			case "net/url.QueryEscape":
				out.mapBytes(bytewise(url.QueryEscape))
			case "strings.ToLower":
				out.mapBytes(bytewise(asciiOnly(strings.ToLower)))
				out.approx = "strings.ToLower is modelled on ASCII bytes only"
			case "strings.ToUpper":
				out.mapBytes(bytewise(asciiOnly(strings.ToUpper)))
				out.approx = "strings.ToUpper is modelled on ASCII bytes only"
			default:
				// a helper of the repository that takes the string and hands the transformed
				// string back: its body is interpreted with its parameter bound to the value
				if gd := c.P.Decl(g); gd != nil && len(x.Args) == 1 && helperDepth < 3 {
					if hv, hwhy := runHelper(gd, in); hv != nil {
						return hv, ""
					} else if hwhy != "" {
						return nil, hwhy
					}
				}
				return nil, "unrecognised step " + types.ExprString(x) + ": it is not one of the byte-wise steps whose composition this rule can decide (a decoder such as PathUnescape, a trim, a case fold on non-ASCII text are not)"
			}
			return out, ""
		case *ast.BinaryExpr:
			// literal + value: a longer literal prefix
			if x.Op == token.ADD {
				if lit, ok := constStr(x.X); ok {
					in, why := eval(x.Y)
					if in == nil {
						return nil, why
					}
					out := in.clone()
					out.prefix = lit + out.prefix
					return out, ""
				}
			}
		}
		return nil, "unrecognised expression " + types.ExprString(e)
	}
	runHelper = func(gd *ast.FuncDecl, in *tnState) (*tnState, string) {
		if c.P.PkgOfDecl(gd) != pk || gd.Recv != nil || gd.Type.Params == nil || len(gd.Type.Params.List) != 1 || len(gd.Type.Params.List[0].Names) != 1 {
			return nil, ""
		}
		hp := info.ObjectOf(gd.Type.Params.List[0].Names[0])
		saved := env
		env = map[types.Object]*tnState{hp: in}
		helperDepth++
		defer func() { env = saved; helperDepth-- }()
		for i, stmt := range gd.Body.List {
			switch hs := stmt.(type) {
			case *ast.AssignStmt:
				if len(hs.Lhs) != 1 || len(hs.Rhs) != 1 || (hs.Tok != token.ASSIGN && hs.Tok != token.DEFINE) {
					return nil, "unrecognised statement in the helper " + gd.Name.Name
				}
				id, ok := ast.Unparen(hs.Lhs[0]).(*ast.Ident)
				if !ok {
					return nil, "unrecognised assignment target in the helper " + gd.Name.Name
				}
				v, why := eval(hs.Rhs[0])
				if v == nil {
					return nil, why
				}
				env[info.ObjectOf(id)] = v
			case *ast.ReturnStmt:
				if len(hs.Results) != 1 || i != len(gd.Body.List)-1 {
					return nil, "unrecognised return in the helper " + gd.Name.Name
				}
				return eval(hs.Results[0])
			default:
				return nil, "unrecognised statement in the helper " + gd.Name.Name
			}
		}
		return nil, "the helper " + gd.Name.Name + " has no final return"
	}
	for si, stmt := range nfd.Body.List {
		pos := c.P.Pos(stmt.Pos())
		// the inverted special case: `if x != "lit" { return <general> }; return "const"`
		if ifs, isIf := stmt.(*ast.IfStmt); isIf && st == nil && si == len(nfd.Body.List)-2 && ifs.Else == nil && ifs.Init == nil && len(ifs.Body.List) == 1 {
			if be, ok := ast.Unparen(ifs.Cond).(*ast.BinaryExpr); ok && be.Op == token.NEQ {
				lit, okLit := "", false
				if isRawParam(be.X) {
					lit, okLit = constStr(be.Y)
				} else if isRawParam(be.Y) {
					lit, okLit = constStr(be.X)
				}
				gen, isRet := ifs.Body.List[0].(*ast.ReturnStmt)
				last, isLast := nfd.Body.List[si+1].(*ast.ReturnStmt)
				if okLit && isRet && isLast && len(gen.Results) == 1 && len(last.Results) == 1 {
					if out, okOut := constStr(last.Results[0]); okOut {
						e := ast.Unparen(gen.Results[0])
						if conv, ok := e.(*ast.CallExpr); ok && len(conv.Args) == 1 {
							if tv, isT := info.Types[conv.Fun]; isT && tv.IsType() {
								e = ast.Unparen(conv.Args[0])
							}
						}
						v, why := eval(e)
						if v == nil {
							sc.Undecided("pipeline", pos, why+" - injectivity of the automatic tag name is not established")
							return
						}
						special[lit] = out
						specialOrder = append(specialOrder, lit)
						st = v
						break
					}
				}
			}
		}
		if st != nil {
			sc.Undecided("pipeline", pos, "statement after the return")
			return
		}
		switch s := stmt.(type) {
		case *ast.IfStmt:
			// if x == "lit" { return "const" }   (only while x is still the raw argument)
			be, ok := ast.Unparen(s.Cond).(*ast.BinaryExpr)
			in, okIn := "", false
			if ok && be.Op == token.EQL && isRawParam(be.X) {
				in, okIn = constStr(be.Y)
			} else if ok && be.Op == token.EQL && isRawParam(be.Y) {
				in, okIn = constStr(be.X)
			}
			var out string
			okOut := false
			if len(s.Body.List) == 1 && s.Else == nil && s.Init == nil {
				if ret, isRet := s.Body.List[0].(*ast.ReturnStmt); isRet && len(ret.Results) == 1 {
					out, okOut = constStr(ret.Results[0])
				}
			}
			if !okIn || !okOut {
				sc.Undecided("pipeline", pos, "unrecognised step in the name function (only `if x == \"lit\" { return \"const\" }` on the untransformed argument is understood): "+nodeString(c, s.Cond)+" - injectivity of the automatic tag name is not established")
				return
			}
			special[in] = out
			specialOrder = append(specialOrder, in)
		case *ast.AssignStmt:
			if len(s.Lhs) != 1 || len(s.Rhs) != 1 || (s.Tok != token.ASSIGN && s.Tok != token.DEFINE) {
				sc.Undecided("pipeline", pos, "unrecognised statement in the name function: "+nodeString(c, s)+" - injectivity of the automatic tag name is not established")
				return
			}
			id, ok := ast.Unparen(s.Lhs[0]).(*ast.Ident)
			if !ok {
				sc.Undecided("pipeline", pos, "unrecognised assignment target: "+nodeString(c, s.Lhs[0]))
				return
			}
			v, why := eval(s.Rhs[0])
			if v == nil {
				sc.Undecided("pipeline", pos, why+" - injectivity of the automatic tag name is not established")
				return
			}
			if id.Name != "_" {
				env[info.ObjectOf(id)] = v
			}
		case *ast.DeclStmt:
			gd, ok := s.Decl.(*ast.GenDecl)
			if !ok || gd.Tok != token.VAR {
				sc.Undecided("pipeline", pos, "unrecognised declaration in the name function")
				return
			}
			for _, sp := range gd.Specs {
				vs := sp.(*ast.ValueSpec)
				for k, nm := range vs.Names {
					if k < len(vs.Values) {
						v, why := eval(vs.Values[k])
						if v == nil {
							sc.Undecided("pipeline", pos, why+" - injectivity of the automatic tag name is not established")
							return
						}
						env[info.ObjectOf(nm)] = v
					}
				}
			}
		case *ast.ReturnStmt:
			if len(s.Results) != 1 {
				sc.Undecided("pipeline", pos, "unrecognised return")
				return
			}
			e := ast.Unparen(s.Results[0])
			if conv, ok := e.(*ast.CallExpr); ok && len(conv.Args) == 1 {
				if tv, isT := info.Types[conv.Fun]; isT && tv.IsType() {
					e = ast.Unparen(conv.Args[0])
				}
			}
			v, why := eval(e)
			if v == nil {
				sc.Undecided("pipeline", pos, why+" - injectivity of the automatic tag name is not established")
				return
			}
			st = v
		default:
			sc.Undecided("pipeline", pos, "unrecognised statement in the name function: "+nodeString(c, stmt)+" - injectivity of the automatic tag name is not established")
			return
		}
	}
	if st == nil {
		sc.Undecided("pipeline", c.P.Pos(nfd.Pos()), "no final return found")
		return
	}
	sc.Holds("pipeline", c.P.Pos(nfd.Pos()), fmt.Sprintf("%d steps interpreted; result = %q + h(segment), h a byte-wise table over %d bytes", steps, st.prefix, len(st.alpha)))

	// --- the code property
	words := make([]string, 0, len(st.alpha))
	owner := map[string]byte{}
	for _, b := range st.alpha {
		w := st.h[b]
		if w == "" {
			sc.Violation("code", c.P.Pos(nfd.Pos()), fmt.Sprintf("byte %q is mapped to the empty string: segments that differ only by it get one tag name", string([]byte{b})))
			return
		}
		if o, dup := owner[w]; dup {
			sc.Violation("code", c.P.Pos(nfd.Pos()), fmt.Sprintf("first segments %q and %q get the same automatic tag name %q", string([]byte{o}), string([]byte{b}), st.prefix+w))
			return
		}
		owner[w] = b
		words = append(words, w)
	}
	if ok, explored, a, b := st.sardinasPatterson(); ok && st.approx != "" {
		sc.Undecided("code", c.P.Pos(nfd.Pos()), "no collision among the modelled bytes, but "+st.approx+": injectivity on all segments is not established")
		return
	} else if ok {
		sc.Holds("code", c.P.Pos(nfd.Pos()), fmt.Sprintf("the %d images are a uniquely decodable code (Sardinas-Patterson: %d dangling suffixes explored, none closes): different segments give different names", len(words), explored))
	} else {
		sc.Violation("code", c.P.Pos(nfd.Pos()), fmt.Sprintf("the byte images are not uniquely decodable: first segments %q and %q get the same automatic tag name %q", a, b, st.prefix+st.image(a)))
		return
	}
	// --- special cases
	sort.Strings(specialOrder)
	outs := map[string]string{}
	for _, in := range specialOrder {
		out := special[in]
		key := "special:" + in
		if prev, dup := outs[out]; dup {
			sc.Violation(key, c.P.Pos(nfd.Pos()), fmt.Sprintf("special cases %q and %q return the same name %q", prev, in, out))
			continue
		}
		outs[out] = in
		if !strings.HasPrefix(in, sep) {
			sc.Holds(key, c.P.Pos(nfd.Pos()), "input outside the domain: never taken")
			continue
		}
		// does the general image contain out?
		if !strings.HasPrefix(out, st.prefix) {
			sc.Holds(key, c.P.Pos(nfd.Pos()), fmt.Sprintf("%q -> %q, which lacks the general prefix %q", in, out, st.prefix))
			continue
		}
		pre, decodable := st.decode(out[len(st.prefix):])
		switch {
		case !decodable:
			sc.Holds(key, c.P.Pos(nfd.Pos()), fmt.Sprintf("%q -> %q, which no other segment can produce (%q is not a concatenation of byte images)", in, out, out[len(st.prefix):]))
		case sep+pre == in:
			sc.Holds(key, c.P.Pos(nfd.Pos()), fmt.Sprintf("%q -> %q, its own general image", in, out))
		default:
			if _, alsoSpecial := special[sep+pre]; alsoSpecial {
				sc.Holds(key, c.P.Pos(nfd.Pos()), fmt.Sprintf("%q -> %q; the only other preimage %q is itself a special case", in, out, sep+pre))
			} else {
				sc.Violation(key, c.P.Pos(nfd.Pos()), fmt.Sprintf("first segments %q and %q get the same automatic tag name %q", in, sep+pre, out))
			}
		}
	}
}

func nodeString(c *Ctx, n ast.Node) string {
	switch x := n.(type) {
	case ast.Expr:
		return types.ExprString(x)
	}
	return fmt.Sprintf("%T at %s", n, c.P.Pos(n.Pos()))
}

// bytewise lifts a library function that works byte by byte to arbitrary strings by
// applying it to each byte separately (the lifted function is what the table records).
func bytewise(f func(string) string) func(string) string {
	return func(x string) string {
		var sb strings.Builder
		for i := 0; i < len(x); i++ {
			sb.WriteString(f(x[i : i+1]))
		}
		return sb.String()
	}
}

func asciiOnly(f func(string) string) func(string) string {
	return func(x string) string {
		if len(x) == 1 && x[0] < 0x80 {
			return f(x)
		}
		return x
	}
}

// titleDomain checks that every return of the title function is the literal SEP or
// SEP + v[i] with v assigned only from strings.Split(_, SEP) and re-slicings of itself,
// and that the indexed element is tested non-empty. It returns SEP.
func (c *Ctx) titleDomain(pk *pkgT, fd *ast.FuncDecl) (string, string) {
	info := pk.TypesInfo
	sep := ""
	why := ""
	constStr := func(e ast.Expr) (string, bool) {
		if tv, ok := info.Types[e]; ok && tv.Value != nil && tv.Value.Kind() == constant.String {
			return constant.StringVal(tv.Value), true
		}
		return "", false
	}
	var vec types.Object
	ast.Inspect(fd.Body, func(n ast.Node) bool {
		ret, ok := n.(*ast.ReturnStmt)
		if !ok || len(ret.Results) != 1 {
			return true
		}
		e := ast.Unparen(ret.Results[0])
		if s, isConst := constStr(e); isConst {
			if sep != "" && s != sep {
				why = "two different literal results"
			}
			sep = s
			return true
		}
		be, isBin := e.(*ast.BinaryExpr)
		if !isBin || be.Op != token.ADD {
			why = "result " + types.ExprString(e)
			return true
		}
		s, isConst := constStr(be.X)
		ix, isIx := ast.Unparen(be.Y).(*ast.IndexExpr)
		if isConst && !isIx {
			// SEP + v where v is the value variable of `for _, v := range strings.Split(_, SEP)`
			if id, isId := ast.Unparen(be.Y).(*ast.Ident); isId {
				okRange := false
				ast.Inspect(fd.Body, func(m ast.Node) bool {
					rs, isRange := m.(*ast.RangeStmt)
					if !isRange || rs.Value == nil {
						return true
					}
					if v, isV := rs.Value.(*ast.Ident); !isV || info.ObjectOf(v) != info.ObjectOf(id) {
						return true
					}
					if call, isCall := ast.Unparen(rs.X).(*ast.CallExpr); isCall {
						if g := Callee(info, call); g != nil && g.Pkg() != nil && g.Pkg().Path() == "strings" && g.Name() == "Split" && len(call.Args) == 2 {
							if sp, isC := constStr(call.Args[1]); isC && sp == s {
								okRange = true
							}
						}
					}
					if vid, isV := ast.Unparen(rs.X).(*ast.Ident); isV {
						vec = info.ObjectOf(vid)
						okRange = true
					}
					return true
				})
				// ... or what a helper hands out: a function whose every first result is "" or an
				// element of strings.Split(<its parameter>, SEP)
				if !okRange {
					if rhs, idx, isTuple := c.CFG(pk, fd.Body).TupleDefOf(info.ObjectOf(id)); isTuple && idx == 0 {
						if hc, isCall := ast.Unparen(rhs).(*ast.CallExpr); isCall && c.returnsSplitSegment(Callee(info, hc), s) {
							okRange = true
						}
					} else if def := c.CFG(pk, fd.Body).DefOf(info.ObjectOf(id)); def != nil {
						if hc, isCall := ast.Unparen(def).(*ast.CallExpr); isCall && c.returnsSplitSegment(Callee(info, hc), s) {
							okRange = true
						}
					}
				}
				if okRange {
					if sep != "" && s != sep {
						why = "two different literal prefixes"
					}
					sep = s
					return true
				}
			}
		}
		if !isConst || !isIx {
			why = "result " + types.ExprString(e)
			return true
		}
		if sep != "" && s != sep {
			why = "two different literal prefixes"
		}
		sep = s
		id, isId := ast.Unparen(ix.X).(*ast.Ident)
		if !isId {
			why = "result indexes " + types.ExprString(ix.X)
			return true
		}
		if vec != nil && vec != info.ObjectOf(id) {
			why = "two different vectors"
		}
		vec = info.ObjectOf(id)
		return true
	})
	if why != "" {
		return "", why
	}
	if sep == "" || len(sep) != 1 {
		return "", "no single-byte literal separator result"
	}
	if vec != nil {
		ast.Inspect(fd.Body, func(n ast.Node) bool {
			as, ok := n.(*ast.AssignStmt)
			if !ok {
				return true
			}
			for i, l := range as.Lhs {
				id, isId := ast.Unparen(l).(*ast.Ident)
				if !isId || info.ObjectOf(id) != vec || i >= len(as.Rhs) {
					continue
				}
				r := ast.Unparen(as.Rhs[i])
				if call, isCall := r.(*ast.CallExpr); isCall {
					if g := Callee(info, call); g != nil && g.Pkg() != nil && g.Pkg().Path() == "strings" && g.Name() == "Split" && len(call.Args) == 2 {
						if s, isConst := constStr(call.Args[1]); isConst && s == sep {
							continue
						}
					}
				}
				if sl, isSl := r.(*ast.SliceExpr); isSl {
					if id2, isId2 := ast.Unparen(sl.X).(*ast.Ident); isId2 && info.ObjectOf(id2) == vec {
						continue
					}
				}
				why = "the vector is assigned " + types.ExprString(r)
			}
			return true
		})
	}
	return sep, why
}

// sardinasPatterson decides unique decodability of the code {h(b)}. The search keeps, for
// every dangling suffix w, two byte sequences X, Y with h(X) = h(Y).w, so that an empty
// suffix yields two different segments with one image. It returns ok, the number of
// suffixes explored and, when ambiguous, the two colliding segments.
func (s *tnState) sardinasPatterson() (bool, int, string, string) {
	type item struct {
		w    string
		x, y []byte
	}
	var queue []item
	seen := map[string]bool{}
	push := func(it item) {
		if !seen[it.w] {
			seen[it.w] = true
			queue = append(queue, it)
		}
	}
	for _, u := range s.alpha {
		for _, v := range s.alpha {
			hu, hv := s.h[u], s.h[v]
			if u != v && strings.HasPrefix(hv, hu) {
				if hu == hv {
					return false, 0, string([]byte{u}), string([]byte{v})
				}
				push(item{hv[len(hu):], []byte{v}, []byte{u}})
			}
		}
	}
	for n := 0; n < len(queue); n++ {
		it := queue[n]
		for _, b := range s.alpha {
			c := s.h[b]
			switch {
			case c == it.w:
				y := append(append([]byte{}, it.y...), b)
				return false, len(seen), string(it.x), string(y)
			case strings.HasPrefix(it.w, c):
				push(item{it.w[len(c):], it.x, append(append([]byte{}, it.y...), b)})
			case strings.HasPrefix(c, it.w):
				push(item{c[len(it.w):], append(append([]byte{}, it.y...), b), it.x})
			}
		}
	}
	return true, len(seen), "", ""
}

// decode returns the unique preimage of w under h, if w is a concatenation of images.
func (s *tnState) decode(w string) (string, bool) {
	inv := map[string]byte{}
	maxLen := 0
	for _, b := range s.alpha {
		inv[s.h[b]] = b
		if len(s.h[b]) > maxLen {
			maxLen = len(s.h[b])
		}
	}
	// DP over positions
	type cell struct {
		ok   bool
		prev int
		b    byte
	}
	dp := make([]cell, len(w)+1)
	dp[0].ok = true
	for i := 0; i < len(w); i++ {
		if !dp[i].ok {
			continue
		}
		for l := 1; l <= maxLen && i+l <= len(w); l++ {
			if b, ok := inv[w[i:i+l]]; ok && !dp[i+l].ok {
				dp[i+l] = cell{true, i, b}
			}
		}
	}
	if !dp[len(w)].ok {
		return "", false
	}
	var out []byte
	for i := len(w); i > 0; i = dp[i].prev {
		out = append([]byte{dp[i].b}, out...)
	}
	return string(out), true
}

func (s *tnState) prefixIn() string { return s.sep }

func (s *tnState) image(seg string) string {
	var sb strings.Builder
	for i := 0; i < len(seg); i++ {
		sb.WriteString(s.h[seg[i]])
	}
	return sb.String()
}


// returnsSplitSegment: every first result of g is the empty string or an element of
// strings.Split(<a parameter of g>, sep) - the value variable of a range over it, or an
// index into it.
func (c *Ctx) returnsSplitSegment(g *types.Func, sep string) bool {
	gd := c.P.Decl(g)
	if gd == nil || gd.Type.Params == nil {
		return false
	}
	gpk := c.P.PkgOfDecl(gd)
	info := gpk.TypesInfo
	cf := c.CFG(gpk, gd.Body)
	params := map[types.Object]bool{}
	for _, fl := range gd.Type.Params.List {
		for _, nm := range fl.Names {
			params[info.ObjectOf(nm)] = true
		}
	}
	isSplit := func(e ast.Expr) bool {
		call, ok := ast.Unparen(cf.Resolve(e)).(*ast.CallExpr)
		if !ok || len(call.Args) != 2 {
			return false
		}
		f := Callee(info, call)
		if f == nil || f.Pkg() == nil || f.Pkg().Path() != "strings" || f.Name() != "Split" {
			return false
		}
		tv, ok := info.Types[call.Args[1]]
		if !ok || tv.Value == nil || tv.Value.Kind() != constant.String || constant.StringVal(tv.Value) != sep {
			return false
		}
		id, ok := ast.Unparen(call.Args[0]).(*ast.Ident)
		return ok && params[info.ObjectOf(id)]
	}
	good, n := true, 0
	inspectNoLit(gd.Body, func(x ast.Node) bool {
		ret, ok := x.(*ast.ReturnStmt)
		if !ok || len(ret.Results) == 0 {
			return true
		}
		n++
		r := ast.Unparen(ret.Results[0])
		if tv, ok := info.Types[r]; ok && tv.Value != nil && tv.Value.Kind() == constant.String && constant.StringVal(tv.Value) == "" {
			return true
		}
		switch v := r.(type) {
		case *ast.IndexExpr:
			if isSplit(v.X) {
				return true
			}
		case *ast.Ident:
			obj := info.ObjectOf(v)
			found := false
			ast.Inspect(gd.Body, func(y ast.Node) bool {
				if rs, ok := y.(*ast.RangeStmt); ok && rs.Value != nil {
					if vid, ok := rs.Value.(*ast.Ident); ok && info.ObjectOf(vid) == obj && isSplit(rs.X) && !assignedInBody(info, rs.Body, obj) {
						found = true
					}
				}
				return true
			})
			if found {
				return true
			}
		}
		good = false
		return true
	})
	return good && n > 0
}

func assignedInBody(info *types.Info, body *ast.BlockStmt, obj types.Object) bool {
	hit := false
	ast.Inspect(body, func(n ast.Node) bool {
		if as, ok := n.(*ast.AssignStmt); ok {
			for _, l := range as.Lhs {
				if id, ok := l.(*ast.Ident); ok && info.ObjectOf(id) == obj {
					hit = true
				}
			}
		}
		return !hit
	})
	return hit
}
