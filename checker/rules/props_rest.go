package rules

func init() {
	reg("C07", &PropSpec{
		Rules:       []Rule{r("T1", RuleT1), r("H1", RuleH1), r("MP1", RuleMP1), r("R1", RuleR1), r("R5", RuleR5), r("K1", RuleK1), r("MC1", RuleMC1), r("MU1", RuleMU1)},
		Explanation: "Decided: expansion is guarded against every cycle of macros, direct or mutual - the expansion SCC contains an on-stack-set guard (T1); a second macro with one name is refused before the insert and the on-stack mark precedes the recursion (H1); a pasted macro is used only where the table lookup found it (MP1); pasted children are nested by the same resolver as written ones (R1); MACRO and PASTE are consumed by the expansion stage and never reach the catalog builder, so an unpasted macro contributes nothing (K1). Not decided: equality of the catalog with the inlined document; a cycle among macros none of which is pasted is not rejected (it is never expanded). No function returns success because a key is already present without calling the duplicate-rejecting inserter (MC1); the paste pass restores the context by a Parent step only (R5).",
		Trusted:     trustedCommon,
	})
	reg("C12", &PropSpec{
		Rules:       []Rule{r("H1", RuleH1), r("IM1", RuleIM1), r("E3ii", RuleE3ii), r("N2", RuleN2), r("T1", RuleT1), r("RV1", RuleRV1), r("PA1", RulePA1), r("CP1", RuleCP1)},
		Explanation: "Decided: an inherited property is inserted only when the object has no property with that key - an own property is an override error, an already inherited one is skipped (H1 on Unshift: each at most once); inheriting never stores through a pointer into the base type, nodes are inserted as value copies (IM1: bases left as declared); the per-run 'already expanded' memo must not carry a caller-owned accumulator (E3ii: known finding F13); ContentJSight only under a JSight notation test (N2); the allOf recursion is guarded by a visited set (T1); every loop over an interaction's responses visits all of them, so allOf in a later response is expanded whatever precedes it (RV1). Not decided: order of inherited properties, transitive completeness, shared grandchildren. Every per-kind expansion call and the walk over a node's children are unconditional up to nil/notation tests on the argument's own access path, user types first (PA1); the membership test guarding Unshift compares nothing but the key (H1).",
		Trusted:     trustedCommon,
	})
	reg("C13", &PropSpec{
		Rules:       []Rule{r("H1", RuleH1), r("PS1", RulePS1), r("N2", RuleN2), r("D1", RuleD1), r("CK1", RuleCK1), r("TW1", RuleTW1), r("FC1", RuleFC1), r("LC1", RuleLC1("core/collect_core_path.go", "core/path_parameter.go", "core/path_variables.go", "core/compile_catalog.go", "core/raw_path_variables.go", "directive/path.go"))},
		Explanation: "Decided: a parameter declared twice for one prefix is refused before the insert into the project-wide prefix map (H1); Path schemas are read only after all of them passed the flat-object check, and leftover properties are an error for every Path directive (PS1); a Path body that resolves to a non-JSight type is a diagnostic (N2); the unused-names message is deterministic (D1); every path-registering handler runs the similar-paths check (CK1). Not decided: the splitting of a path into (prefix, name) pairs and the binding itself (string logic). Accumulating loops of the binding code run over all elements (LC1); the Path walk visits every subtree (TW1); token types of a Path property's user type are an allow-list (FC1).",
		Trusted:     trustedCommon,
	})
	reg("C15", &PropSpec{
		Rules:       []Rule{r("DN1", RuleDN1), r("DN2", RuleDN2), r("AN1", RuleAN1), r("K2p", RuleK2p), r("K1", RuleK1)},
		Explanation: "Decided: the description setters are reached only from the one Description handler, after the normaliser succeeded and its result was found non-empty, and they store exactly string(result) for all four hosts (DN1); every store into Directive.Annotation and SchemaContentJSight.Note takes the result of the one annotation normaliser, whichever spelling the scanner saw (AN1); the look-ahead that ends a description reads the same table as the keyword lookup and is what the scanner's description state calls (K2p); Description has one consumer (K1). Not decided: the normal form itself, idempotence, agreement of the scanner's delimitation with the re-parse (string semantics). The look-ahead's length guard, first-byte filter, skip list and byte classes agree with the scanner's keyword set (K2p); CR/CRLF are replaced on every value path of the normaliser (DN2).",
		Trusted:     trustedCommon,
	})
	reg("C20", &PropSpec{
		Rules:       []Rule{r("E3i", RuleE3i), r("E3ii", RuleE3ii), r("NI", RuleNI("uniqURLPath", "similarPaths", "onlyOneProtocolIntoURL", "expandingMacros", "processedUserTypes", "processedByAllOf")), r("G2", RuleG2), r("OP1", RuleOP1), r("PA1", RulePA1), r("R4", RuleR4), r("K2p", RuleK2p)},
		Explanation: "Decided over every run-wide memo and uniqueness set of the core: a cached value depends on nothing its key does not cover (E3i: known finding F11) and a visited set carries no caller-owned accumulator (E3ii: known finding F13); the uniqueness sets are read only by lookups whose outcome is an error return (or, for visited sets, skipping work), so a fresh, non-colliding declaration cannot change another entry through them (NI); no package-level state (G2) and no state shared through option closures (OP1). Not decided: coupling through the schema objects that receive all types and rules (library behaviour); entry-by-entry equality of two catalogs. The expansion of a declared schema is not conditional on its content (PA1); a hoisted method keeps no Parent through which another URL's Tags leak (R4); a keyword followed by a tab still ends a preceding description (K2p).",
		Trusted:     trustedCommon,
	})
}
