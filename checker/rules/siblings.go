package rules

import (
	"fmt"
	"go/ast"
	"go/token"
	"go/types"
	"sort"
	"strings"

	"verif/checker/cfgx"
)

// RuleSB1: the functions that walk back from an error position to find its line
// number and its line beginning must treat the byte AT the position alike, or the
// reported line and the quoted line belong to different lines.
func RuleSB1(c *Ctx) {
	sc := c.Run.Begin("SB1", "sibling agreement: the walk-back loops that compute the line number and the line beginning of an error position (same signature, same loop shape) test the same conditions on the current byte, in particular whether the byte at the position itself counts as a line break (a contradiction rule: it decides nothing when the functions are not written as sibling loops)", 0)
	defer sc.End()
	pk := c.P.Pkg("jerr")
	if pk == nil {
		sc.Undecided("anchors", "-", "unresolved anchor: package jerr")
		return
	}
	type walker struct {
		fd    *ast.FuncDecl
		conds []string
	}
	var ws []walker
	c.P.Funcs(func(p *pkgT, fd *ast.FuncDecl) {
		if p != pk || fd.Recv != nil {
			return
		}
		sig := pk.TypesInfo.Defs[fd.Name].Type().(*types.Signature)
		if sig.Params().Len() != 3 || sig.Results().Len() != 1 {
			return
		}
		// (content, position, nl) -> index, with an infinite loop that decrements a local
		var loop *ast.ForStmt
		ast.Inspect(fd.Body, func(n ast.Node) bool {
			if fs, ok := n.(*ast.ForStmt); ok && fs.Cond == nil && fs.Init == nil {
				dec := false
				ast.Inspect(fs.Body, func(x ast.Node) bool {
					if id, ok := x.(*ast.IncDecStmt); ok && id.Tok == token.DEC {
						dec = true
					}
					return true
				})
				if dec {
					loop = fs
				}
			}
			return true
		})
		if loop == nil {
			return
		}
		// normalise parameter names to p0,p1,p2 and collect the if-conditions of the loop
		names := map[string]string{}
		i := 0
		for _, fl := range fd.Type.Params.List {
			for _, nm := range fl.Names {
				names[nm.Name] = fmt.Sprintf("p%d", i)
				i++
			}
		}
		// single-assignment locals of the loop body are replaced by their definitions
		alias := map[string]string{}
		ast.Inspect(loop.Body, func(n ast.Node) bool {
			if as, ok := n.(*ast.AssignStmt); ok && as.Tok == token.DEFINE && len(as.Lhs) == 1 && len(as.Rhs) == 1 {
				if id, ok := as.Lhs[0].(*ast.Ident); ok {
					alias[id.Name] = "(" + types.ExprString(as.Rhs[0]) + ")"
				}
			}
			return true
		})
		var conds []string
		ast.Inspect(loop.Body, func(n ast.Node) bool {
			if ifs, ok := n.(*ast.IfStmt); ok {
				s := types.ExprString(ifs.Cond)
				for from, to := range alias {
					s = replaceIdent(s, from, to)
				}
				s = strings.ReplaceAll(strings.ReplaceAll(s, "(", ""), ")", "")
				for from, to := range names {
					s = replaceIdent(s, from, to)
				}
				conds = append(conds, s)
			}
			return true
		})
		sort.Strings(conds)
		ws = append(ws, walker{fd, conds})
	})
	if len(ws) < 2 {
		// not written as sibling loops (any more): nothing to contradict; the line arithmetic
		// itself is value-level and is not decided by this family of technique
		sc.Info("walkers", "-", fmt.Sprintf("found %d walk-back loop(s) in package jerr: no sibling pair to cross-check", len(ws)))
		return
	}
	ref := strings.Join(ws[0].conds, " ; ")
	for _, w := range ws {
		key := c.P.DeclName(w.fd)
		got := strings.Join(w.conds, " ; ")
		if got == ref {
			sc.Holds(key, c.P.Pos(w.fd.Pos()), "conditions on the current byte: "+got)
		} else {
			sc.Violation(key, c.P.Pos(w.fd.Pos()), fmt.Sprintf("the walk-back loops disagree: %s tests {%s} but %s tests {%s} — an error placed on a line break gets a line number and a quoted line that belong to different lines (and the quote arithmetic can underflow)", c.P.DeclName(ws[0].fd), ref, key, got))
		}
	}
}

func replaceIdent(s, from, to string) string {
	var b strings.Builder
	i := 0
	isId := func(ch byte) bool {
		return ch == '_' || (ch >= 'a' && ch <= 'z') || (ch >= 'A' && ch <= 'Z') || (ch >= '0' && ch <= '9')
	}
	for i < len(s) {
		if strings.HasPrefix(s[i:], from) && (i == 0 || !isId(s[i-1])) && (i+len(from) == len(s) || !isId(s[i+len(from)])) {
			b.WriteString(to)
			i += len(from)
			continue
		}
		b.WriteByte(s[i])
		i++
	}
	return b.String()
}

// RuleAP1: the value stored for a directive parameter is the unescaped lexeme text,
// untouched.
func RuleAP1(c *Ctx) {
	sc := c.Run.Begin("AP1", "every value AppendParameter stores (SetNamedParameter / AppendUnnamedParameter) is exactly the string of the unescaped parameter bytes - no trimming, case folding or other transformation on any path", 1)
	defer sc.End()
	ap := c.Func("directive", "Directive.AppendParameter")
	fd := c.P.Decl(ap)
	if fd == nil {
		sc.Undecided("anchors", "-", "unresolved anchor: directive.Directive.AppendParameter")
		return
	}
	pk := c.P.PkgOfDecl(fd)
	info := pk.TypesInfo
	cf := c.CFG(pk, fd.Body)
	// the parameter bytes b, reassigned once from the unescape helper; s := b.String()
	var bParam types.Object
	for _, fl := range fd.Type.Params.List {
		for _, nm := range fl.Names {
			bParam = info.ObjectOf(nm)
		}
	}
	// the unescaped bytes: the variable (the parameter itself or a new local) that receives
	// unescape(<raw parameter>); the text: a local defined as <that variable>.String()
	var uObj, sObj types.Object
	var unescapeCall *ast.CallExpr
	for _, st := range fd.Body.List {
		as, ok := st.(*ast.AssignStmt)
		if !ok || len(as.Lhs) != 1 || len(as.Rhs) != 1 {
			continue
		}
		lid, ok := as.Lhs[0].(*ast.Ident)
		if !ok {
			continue
		}
		call, ok := as.Rhs[0].(*ast.CallExpr)
		if !ok {
			continue
		}
		if uObj == nil && len(call.Args) == 1 && c.P.Decl(Callee(info, call)) != nil {
			if aid, ok := call.Args[0].(*ast.Ident); ok && info.ObjectOf(aid) == bParam {
				uObj, unescapeCall = info.ObjectOf(lid), call // b = unescape(b)  /  v := unescape(b)
				continue
			}
		}
		if sel, ok := call.Fun.(*ast.SelectorExpr); ok && sel.Sel.Name == "String" && len(call.Args) == 0 && uObj != nil {
			if rid, ok := sel.X.(*ast.Ident); ok && info.ObjectOf(rid) == uObj {
				sObj = info.ObjectOf(lid)
			}
		}
	}
	// once the unescaped value exists under a name of its own, the raw lexeme is not looked
	// at again: a test made on the raw bytes sees the quotes
	if uObj != nil && uObj != bParam {
		k := 0
		ast.Inspect(fd.Body, func(x ast.Node) bool {
			id, ok := x.(*ast.Ident)
			if !ok || info.ObjectOf(id) != bParam || id.Pos() <= unescapeCall.End() {
				return true
			}
			k++
			sc.Violation(fmt.Sprintf("raw-after-unescape#%d", k), c.P.Pos(id.Pos()), "the parameter as written (with its quotes) is used after the unescaped value was taken: a quoted spelling of a value that needs no quotes is judged differently from the bare one")
			return true
		})
		if k == 0 {
			sc.Holds("raw-after-unescape", c.P.Pos(fd.Pos()), "the raw lexeme is not used after unescaping")
		}
	}
	if sObj == nil {
		sc.Undecided("value", c.P.Pos(fd.Pos()), "cannot find  <v> = unescape(b); s := <v>.String()  at the top of AppendParameter")
		return
	}
	if !cf.AssignedOnce(sObj) {
		sc.Violation("value-reassigned", c.P.Pos(fd.Pos()), "the parameter string is reassigned inside AppendParameter")
	}
	n := 0
	ast.Inspect(fd.Body, func(x ast.Node) bool {
		call, ok := x.(*ast.CallExpr)
		if !ok {
			return true
		}
		f := Callee(info, call)
		if f == nil || recvNamedOf(f) == nil || recvNamedOf(f).Obj().Name() != "Directive" {
			return true
		}
		var val ast.Expr
		switch {
		case f.Name() == "SetNamedParameter" && len(call.Args) == 2:
			val = call.Args[1]
		case f.Name() == "AppendUnnamedParameter" && len(call.Args) == 1:
			val = call.Args[0]
		default:
			return true
		}
		n++
		name := "unnamed"
		if len(call.Args) == 2 {
			name = types.ExprString(call.Args[0])
		}
		key := fmt.Sprintf("%s#%d", name, n)
		if id, ok := ast.Unparen(val).(*ast.Ident); ok && info.ObjectOf(id) == sObj {
			sc.Holds(key, c.P.Pos(call.Pos()), "stores the unescaped text itself")
		} else {
			sc.Violation(key, c.P.Pos(call.Pos()), fmt.Sprintf("stores %s instead of the unescaped parameter text: what is written in the document is not what the catalog gets", types.ExprString(val)))
		}
		return true
	})
}

// ---------------------------------------------------------------- PF1 parallel slices

// RulePF1: slice fields of one struct that grow together shrink together. Two slice fields
// that some function appends to side by side (or truncates side by side) are parallel
// arrays - the include stack and the hash of each level, for instance; every function that
// appends to one appends to the other on each success path, and every function that
// truncates one truncates the other. A level popped from one and left on the other makes
// every later lookup by position read the wrong level.
func RulePF1(c *Ctx) {
	sc := c.Run.Begin("PF1", "slice fields of one struct that are appended to (or truncated) side by side in some function are kept in lockstep by every function that appends to or truncates either of them", 1)
	defer sc.End()
	type use struct {
		fd   *ast.FuncDecl
		pk   *pkgT
		grow map[*types.Var]ast.Node
		cut  map[*types.Var]ast.Node
	}
	var uses []use
	c.P.Funcs(func(pk *pkgT, fd *ast.FuncDecl) {
		info := pk.TypesInfo
		u := use{fd: fd, pk: pk, grow: map[*types.Var]ast.Node{}, cut: map[*types.Var]ast.Node{}}
		ast.Inspect(fd.Body, func(n ast.Node) bool {
			as, ok := n.(*ast.AssignStmt)
			if !ok || len(as.Lhs) != 1 || len(as.Rhs) != 1 {
				return true
			}
			sel, ok := ast.Unparen(as.Lhs[0]).(*ast.SelectorExpr)
			if !ok {
				return true
			}
			fld, ok := info.ObjectOf(sel.Sel).(*types.Var)
			if !ok || !fld.IsField() {
				return true
			}
			if _, isSlice := fld.Type().Underlying().(*types.Slice); !isSlice {
				return true
			}
			switch r := ast.Unparen(as.Rhs[0]).(type) {
			case *ast.CallExpr:
				if id, ok := ast.Unparen(r.Fun).(*ast.Ident); ok && id.Name == "append" && len(r.Args) >= 2 && cfgx.SameExpr(info, r.Args[0], as.Lhs[0]) {
					u.grow[fld] = as
				}
			case *ast.SliceExpr:
				if cfgx.SameExpr(info, r.X, as.Lhs[0]) && r.High != nil && r.Low == nil {
					u.cut[fld] = as
				}
			}
			return true
		})
		if len(u.grow)+len(u.cut) > 0 {
			uses = append(uses, u)
		}
	})
	ownerOf := func(f *types.Var) *types.Named {
		var out *types.Named
		for _, pk := range c.P.Repo {
			for _, nm := range pk.Types.Scope().Names() {
				tn, ok := pk.Types.Scope().Lookup(nm).(*types.TypeName)
				if !ok {
					continue
				}
				named, ok := tn.Type().(*types.Named)
				if !ok {
					continue
				}
				if st, ok := named.Underlying().(*types.Struct); ok {
					for i := 0; i < st.NumFields(); i++ {
						if st.Field(i) == f {
							out = named
						}
					}
				}
			}
		}
		return out
	}
	// groups: union of fields co-grown or co-cut in one function, per owner
	parent := map[*types.Var]*types.Var{}
	var find func(v *types.Var) *types.Var
	find = func(v *types.Var) *types.Var {
		if p, ok := parent[v]; ok && p != v {
			r := find(p)
			parent[v] = r
			return r
		}
		parent[v] = v
		return v
	}
	union := func(m map[*types.Var]ast.Node) {
		var first *types.Var
		var fo *types.Named
		for f := range m {
			o := ownerOf(f)
			if o == nil {
				continue
			}
			if first == nil {
				first, fo = f, o
				find(f)
				continue
			}
			if o == fo {
				parent[find(f)] = find(first)
			}
		}
	}
	for _, u := range uses {
		if len(u.grow) >= 2 {
			union(u.grow)
		}
		if len(u.cut) >= 2 {
			union(u.cut)
		}
	}
	groups := map[*types.Var][]*types.Var{}
	for v := range parent {
		r := find(v)
		groups[r] = append(groups[r], v)
	}
	// effects made through a method of the same receiver count for the caller too
	// (`return s.appendScannerHash(scanner)`): one level, the node is the call
	direct := map[*types.Func]use{}
	for _, u := range uses {
		if f, ok := u.pk.TypesInfo.Defs[u.fd.Name].(*types.Func); ok {
			direct[f] = u
		}
	}
	helperOnly := map[*ast.FuncDecl]bool{} // partial by design: every caller completes the group
	c.P.Funcs(func(pk *pkgT, fd *ast.FuncDecl) {
		if fd.Recv == nil || len(fd.Recv.List) != 1 || len(fd.Recv.List[0].Names) != 1 {
			return
		}
		info := pk.TypesInfo
		recvObj := info.ObjectOf(fd.Recv.List[0].Names[0])
		self, _ := info.Defs[fd.Name].(*types.Func)
		var mine *use
		for i := range uses {
			if uses[i].fd == fd {
				mine = &uses[i]
			}
		}
		ast.Inspect(fd.Body, func(n ast.Node) bool {
			call, ok := n.(*ast.CallExpr)
			if !ok {
				return true
			}
			g := Callee(info, call)
			du, has := direct[g]
			if !has || g == self {
				return true
			}
			rid, ok := ast.Unparen(Recv(call)).(*ast.Ident)
			if !ok || info.ObjectOf(rid) != recvObj {
				return true
			}
			if mine == nil {
				uses = append(uses, use{fd: fd, pk: pk, grow: map[*types.Var]ast.Node{}, cut: map[*types.Var]ast.Node{}})
				mine = &uses[len(uses)-1]
			}
			for f := range du.grow {
				if _, own := mine.grow[f]; !own {
					mine.grow[f] = call
				}
			}
			for f := range du.cut {
				if _, own := mine.cut[f]; !own {
					mine.cut[f] = call
				}
			}
			return true
		})
	})
	n := 0
	for _, members := range groups {
		if len(members) < 2 {
			continue
		}
		sort.Slice(members, func(i, j int) bool { return members[i].Name() < members[j].Name() })
		var names []string
		for _, m := range members {
			names = append(names, m.Name())
		}
		owner := ownerOf(members[0])
		for _, u := range uses {
			for _, kind := range []struct {
				what string
				m    map[*types.Var]ast.Node
			}{{"appends to", u.grow}, {"truncates", u.cut}} {
				var have, miss []string
				var at ast.Node
				for _, f := range members {
					if nd, ok := kind.m[f]; ok {
						have = append(have, f.Name())
						at = nd
					} else {
						miss = append(miss, f.Name())
					}
				}
				if len(have) == 0 {
					continue
				}
				// an unexported method that does one member's part and is called only from
				// methods of the same type that do the whole group is a helper, not a culprit
				if len(miss) > 0 && !ast.IsExported(u.fd.Name.Name) {
					if self, ok := u.pk.TypesInfo.Defs[u.fd.Name].(*types.Func); ok && !c.usedAsValue(self) {
						sites := c.callSitesOf(self)
						all := len(sites) > 0
						for _, cs := range sites {
							complete := false
							for _, w := range uses {
								if w.fd != cs.Decl {
									continue
								}
								wm := w.grow
								if kind.what != "appends to" {
									wm = w.cut
								}
								complete = true
								for _, f := range members {
									if _, ok := wm[f]; !ok {
										complete = false
									}
								}
							}
							if !complete {
								all = false
							}
						}
						if all {
							helperOnly[u.fd] = true
							continue
						}
					}
				}
				n++
				k := fmt.Sprintf("%s{%s}:%s:%s", owner.Obj().Name(), strings.Join(names, ","), c.P.DeclName(u.fd), strings.Fields(kind.what)[0])
				if len(miss) == 0 {
					sc.Holds(k, c.P.Pos(at.Pos()), kind.what+" all of "+strings.Join(names, ", "))
					// a push that reports success has pushed: where the function returns an
					// error, each `return nil` comes after the append to every member
					if kind.what == "appends to" {
						info := u.pk.TypesInfo
						cf := c.CFG(u.pk, u.fd.Body)
						bad := ""
						inspectNoLit(u.fd.Body, func(nd ast.Node) bool {
							ret, ok := nd.(*ast.ReturnStmt)
							if !ok || len(ret.Results) == 0 {
								return true
							}
							last := ret.Results[len(ret.Results)-1]
							tv, has := info.Types[last]
							if !has || !tv.IsNil() {
								return true
							}
							for _, f := range members {
								grow := kind.m[f]
								if !cf.MustAt(ret, nil, func(x ast.Node) bool {
									hit := false
									ast.Inspect(x, func(y ast.Node) bool {
										if y == grow {
											hit = true
										}
										return !hit
									})
									return hit
								}, nil) {
									bad = fmt.Sprintf("the success return at %s is reached without the append to %s", c.P.Pos(ret.Pos()), f.Name())
								}
							}
							return true
						})
						k2 := fmt.Sprintf("%s{%s}:%s:success-means-grown", owner.Obj().Name(), strings.Join(names, ","), c.P.DeclName(u.fd))
						if bad == "" {
							sc.Holds(k2, c.P.Pos(u.fd.Pos()), "every success return comes after the appends")
						} else {
							sc.Violation(k2, c.P.Pos(u.fd.Pos()), bad+": the caller is told the level was pushed and goes on as if it were on the stack - the file is missing from the on-stack record (an INCLUDE cycle through it is not seen, a JSIGHT directive in the included file is taken for the root's) and from every later trace")
						}
					}
				} else {
					sc.Violation(k, c.P.Pos(at.Pos()), fmt.Sprintf("%s %s of %s but not %s, although these slices are kept side by side elsewhere: from here on element i of one no longer belongs to element i of the other (a stale include-stack hash makes later directives pick up the include chain of a file that was already left)", kind.what, strings.Join(have, ", "), owner.Obj().Name(), strings.Join(miss, ", ")))
				}
			}
		}
	}
	if n == 0 {
		sc.Undecided("groups", "-", "no parallel slice fields found (the include stack and its hashes were confirmed by hand)")
	}
}

// ---------------------------------------------------------------- CP1

// RuleCP1: a field-by-field copy copies every field. A composite literal of a struct type T
// in which at least three fields are initialised from the same field of one value of type T
// (`Key: c.Key, Type: c.Type, ...`) is a hand-written copy; every field of T is either in
// the literal or assigned on the result later in the same function. A field that is left
// out is silently reset in the copy - for a schema node the inheritance mark, so a copied
// subtree no longer says which base a property came from.
func RuleCP1(c *Ctx) {
	sc := c.Run.Begin("CP1", "every hand-written field-by-field copy of a struct (a literal with at least three `F: x.F` initialisers from one same-typed value) accounts for every field of the struct, in the literal or by a later assignment on the result", 0)
	defer sc.End()
	n := 0
	perFn := map[*ast.FuncDecl]int{}
	c.P.Funcs(func(pk *pkgT, fd *ast.FuncDecl) {
		info := pk.TypesInfo
		ast.Inspect(fd.Body, func(x ast.Node) bool {
			cl, ok := x.(*ast.CompositeLit)
			if !ok {
				return true
			}
			t := info.TypeOf(cl)
			if t == nil {
				return true
			}
			st, ok := t.Underlying().(*types.Struct)
			if !ok {
				return true
			}
			// count `F: src.F` with src of (pointer to) the same type
			srcCount := map[types.Object]int{}
			listed := map[string]bool{}
			for _, el := range cl.Elts {
				kv, ok := el.(*ast.KeyValueExpr)
				if !ok {
					return true // positional literal: the compiler demands every field
				}
				kid, ok := kv.Key.(*ast.Ident)
				if !ok {
					continue
				}
				listed[kid.Name] = true
				sel, ok := ast.Unparen(kv.Value).(*ast.SelectorExpr)
				if !ok || sel.Sel.Name != kid.Name {
					continue
				}
				base, ok := ast.Unparen(sel.X).(*ast.Ident)
				if !ok {
					continue
				}
				bt := info.TypeOf(base)
				if p, isP := bt.(*types.Pointer); isP {
					bt = p.Elem()
				}
				if bt != nil && types.Identical(bt, t) {
					srcCount[info.ObjectOf(base)]++
				}
			}
			best := 0
			for _, k := range srcCount {
				if k > best {
					best = k
				}
			}
			if best < 3 {
				return true
			}
			// the variable the literal is stored in, and the fields assigned on it later
			var holder types.Object
			ast.Inspect(fd.Body, func(y ast.Node) bool {
				as, ok := y.(*ast.AssignStmt)
				if !ok || len(as.Lhs) != 1 || len(as.Rhs) != 1 {
					return true
				}
				r := ast.Unparen(as.Rhs[0])
				if u, ok := r.(*ast.UnaryExpr); ok && u.Op == token.AND {
					r = ast.Unparen(u.X)
				}
				if r == ast.Expr(cl) {
					if id, ok := as.Lhs[0].(*ast.Ident); ok {
						holder = info.ObjectOf(id)
					}
				}
				return true
			})
			if holder != nil {
				ast.Inspect(fd.Body, func(y ast.Node) bool {
					as, ok := y.(*ast.AssignStmt)
					if !ok {
						return true
					}
					for _, l := range as.Lhs {
						if sel, ok := ast.Unparen(l).(*ast.SelectorExpr); ok {
							if id, ok := ast.Unparen(sel.X).(*ast.Ident); ok && info.ObjectOf(id) == holder {
								listed[sel.Sel.Name] = true
							}
						}
					}
					return true
				})
			}
			var missing []string
			for i := 0; i < st.NumFields(); i++ {
				if f := st.Field(i); !listed[f.Name()] {
					missing = append(missing, f.Name())
				}
			}
			n++
			perFn[fd]++
			key := fmt.Sprintf("%s#%d", c.P.DeclName(fd), perFn[fd])
			if len(missing) == 0 {
				sc.Holds(key, c.P.Pos(cl.Pos()), fmt.Sprintf("field-by-field copy of %s accounts for all %d fields", types.TypeString(t, types.RelativeTo(pk.Types)), st.NumFields()))
			} else {
				sc.Violation(key, c.P.Pos(cl.Pos()), fmt.Sprintf("field-by-field copy of %s leaves out %s: the copy silently loses it (for a schema node the inheritance mark: copied properties no longer name the base they were taken from)", types.TypeString(t, types.RelativeTo(pk.Types)), strings.Join(missing, ", ")))
			}
			return true
		})
	})
	sc.Info("copies", "-", fmt.Sprintf("%d hand-written field-by-field copies found", n))
}
