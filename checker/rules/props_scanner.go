package rules

func init() {
	reg("C05", &PropSpec{
		Rules:       []Rule{r("W1", RuleW1), r("W2", RuleW2), r("W3", RuleS1("W3")), r("K2p", RuleK2p), r("Q2", RuleQ2), r("CX1", RuleCX1), r("US1", RuleUS1), r("AP1", RuleAP1), r("R6", RuleR6), r("PQ1", RulePQ1)},
		Explanation: "Decided on the extracted scanner automaton for all inputs: in each of the 160 states LF and CR take exactly the same arms and so do space and tab (W1: a state that told them apart would behave differently under LF/CR/CRLF or indentation rewriting); the comment sub-machine entered by startComment emits no lexeme event, moves no index, pushes nothing, accepts every byte, and leaves only by popping the frame that startComment pushed - line comments re-dispatch the terminating line end to the interrupted state, block comments do not (W2: comment transparency); in every reachable configuration at the start of a line outside lexemes and comments, a blank or a further line end is not an error arm (W3: blank lines and indentation cannot turn an accepted document into a rejected one at the scanner level). Not decided: the positions at which the grammar admits a comment, blank-line idempotence as a bisimulation, parenthesis equivalence (C06), quoting (C17). The description look-ahead treats LF/CR and space/tab alike and sees every keyword (K2p); Unquote precedes every other end-sensitive transformation of a parameter value (Q2). The handler of the opening parenthesis refuses no directive kind that can have children (CX1: evaluated per kind). A block comment is opened on the comment sign only and the comment machine is entered on the sign only (W2); no arm consumes a byte it has not looked at (US1). The unescaped parameter text is what the directive-kind tests see (AP1); no rejection of the context resolver depends on the placed directive's own parentheses (R6). The scanner's own looks at a parameter lexeme unquote it first (PQ1).",
		Trusted:     trustedCommon,
	})
	reg("C17", &PropSpec{
		Rules:       []Rule{r("Q1", RuleQ1), r("S1c,S1f", RuleS1("S1c", "S1f")), r("AP1", RuleAP1), r("Q2", RuleQ2), r("WQ1", RuleWQ1), r("PQ1", RulePQ1), r("UB1", RuleUB1)},
		Explanation: "The rejection clauses of the property are decided on the quoted-parameter sub-automaton, found by role (the state entered by the arm that begins a Parameter lexeme on '\"'): a line end or end of input inside quotes is an error arm with no effect, a backslash enters an escape state that continues only on \\ and \" and is an error arm on every other byte, the closing quote emits ParameterEnd at its own position, every other byte stays inside. Plus S1c/S1f on all states: parameter lexemes are well formed and ordered; AP1: AppendParameter stores the unescaped text itself on every path (no transformation between the lexeme and the catalog). Not decided: that the decoded value equals what was written (unescapeParameter is a pure string function over all strings). Unquote is applied to the value as written (Q2). The unquoted-parameter state ends the lexeme on the current byte alone - no look-back, no data-dependent predicate (WQ1); a quote test or a second Unquote is never asked of an already unquoted value (Q2). After the unescaped value has a name of its own the raw lexeme is not used again (AP1 raw-after-unescape). The scanner's own looks at the parameters of the directive just read go through Unquote() (PQ1), and no byte of the document is classified with a unicode predicate (UB1: a continuation byte is not white space), so the bare and the quoted spelling are cut and judged alike.",
		Trusted:     trustedCommon,
	})
	reg("C14", &PropSpec{
		Rules: []Rule{
			r("S1b,S1c,S1d,S1f,S1g,S1i", RuleS1("S1b", "S1c", "S1d", "S1f", "S1g", "S1i")),
			r("K2", RuleK2),
			r("LJ1", RuleLJ1),
			r("ES1", RuleES1),
			r("US1", RuleUS1),
			r("W2", RuleW2),
			r("Z1", RuleZ1),
			r("LX1", RuleLX1), r("NX1", RuleNX1),
		},
		Explanation: "The scanner's 160 step functions are read from the typed syntax as guarded arms (byte sets by set algebra), assembled into a pushdown system (stack = current step + stepStack) whose finite control abstracts the event stack and the distances begin/end offsets depend on; post* saturation computes every reachable (control, step) pair for ALL inputs, and on each the rules check: no end event without begin (S1b), end+1>=begin and inside the input (S1c), no unsigned underflow of curIndex-k (S1d), strictly increasing non-overlapping lexemes (S1f), only trivia skipped (S1g), no lexeme left open at end of input (S1i), spelled keywords == directive table (K2), body lexeme == library extent (LJ1), escape states take the escaped byte blindly (ES1). Decides the structural part; that the library's Len() delimits one value is trusted. Length helpers return only lengths obtained from the library; the comment machine is entered on the comment sign only (W2); no byte is consumed unseen (US1). The end-of-input sentinel never comes from the data: the driver tests every data byte against it (Z1). The lexeme constructor stores the positions it is given (LX1) and the driver hands out a lexeme of the event processor only when there is one (NX1: a begin event's (nil, nil) is not the end of the file).",
		Trusted:     trustedCommon,
		Assume:      []string{"symbol 0 reaches a step function only as end of input (Scanner.Next rejects NUL; shape-checked)", "data-dependent predicates (isDirective, parameter look-back, data[cur-1]) may go either way"},
	})
}
