package rules

func init() {
	reg("C14", &PropSpec{
		Rules: []Rule{
			r("S1b,S1c,S1d,S1f,S1g,S1i", RuleS1("S1b", "S1c", "S1d", "S1f", "S1g", "S1i")),
			r("K2", RuleK2),
			r("LJ1", RuleLJ1),
		},
		Explanation: "The scanner's 160 step functions are read from the typed syntax as guarded arms (byte sets by set algebra), assembled into a pushdown system (stack = current step + stepStack) whose finite control abstracts the event stack and the distances begin/end offsets depend on; post* saturation computes every reachable (control, step) pair for ALL inputs, and on each the rules check: no end event without begin (S1b), end+1>=begin and inside the input (S1c), no unsigned underflow of curIndex-k (S1d), strictly increasing non-overlapping lexemes (S1f), only trivia skipped (S1g), no lexeme left open at end of input (S1i), spelled keywords == directive table (K2), body lexeme == library extent (LJ1). Decides the structural part; that the library's Len() delimits one value is trusted.",
		Trusted:     trustedCommon,
		Assume:      []string{"symbol 0 reaches a step function only as end of input (Scanner.Next rejects NUL; shape-checked)", "data-dependent predicates (isDirective, parameter look-back, data[cur-1]) may go either way"},
	})
}
