package rules

import (
	"fmt"
	"go/ast"
	"go/token"
	"go/types"
	"sort"
	"strings"

	"verif/checker/cfgx"
)

// RuleN2: Schema.ContentJSight is only meaningful for the JSight notation.
func RuleN2(c *Ctx) {
	sc := c.Run.Begin("N2", "Schema.ContentJSight is dereferenced only where the same schema is known to be of JSight notation (Notation test, nil test, fresh assignment, or the JSight-only rawPathVariable.schema slot whose every store is checked)", 1)
	defer sc.End()
	content := c.Field("catalog", "Schema", "ContentJSight")
	notationF := c.Field("catalog", "Schema", "Notation")
	slot := c.Field("core", "rawPathVariable", "schema")
	unmarshal := c.Func("catalog", "UnmarshalJSightSchema")
	npk := c.P.Pkg("notation")
	if content == nil || notationF == nil || slot == nil || unmarshal == nil || npk == nil {
		sc.Undecided("anchors", "-", "unresolved anchor: catalog.Schema.ContentJSight/Notation, core.rawPathVariable.schema, catalog.UnmarshalJSightSchema")
		return
	}
	jsightConst, _ := npk.Types.Scope().Lookup("SchemaNotationJSight").(*types.Const)
	if jsightConst == nil {
		sc.Undecided("anchors", "-", "unresolved anchor: notation.SchemaNotationJSight")
		return
	}
	n2 := &n2{c: c, content: content, notation: notationF, slot: slot, unmarshal: unmarshal, jsight: jsightConst}

	// (b) the JSight-only slot: every store into rawPathVariable.schema
	n2.slotOK = true
	nStores := 0
	c.P.Funcs(func(pk *pkgT, fd *ast.FuncDecl) {
		info := pk.TypesInfo
		cf := c.CFG(pk, fd.Body)
		check := func(val ast.Expr, at ast.Node, how string) {
			nStores++
			key := fmt.Sprintf("slot:%s:%s#%d", c.P.DeclName(fd), how, nStores)
			if ok, why := n2.isJSightValue(pk, cf, val, at); ok {
				sc.Holds(key, c.P.Pos(at.Pos()), why)
			} else {
				n2.slotOK = false
				sc.Violation(key, c.P.Pos(at.Pos()), "a schema of unknown notation is stored into rawPathVariable.schema, whose readers dereference ContentJSight unconditionally ("+why+"): a Path body resolving to a regex/any/empty type is a nil dereference instead of a diagnostic")
			}
		}
		ast.Inspect(fd.Body, func(n ast.Node) bool {
			switch x := n.(type) {
			case *ast.AssignStmt:
				for i, l := range x.Lhs {
					if fieldSel(info, l, slot) && len(x.Lhs) == len(x.Rhs) {
						check(x.Rhs[i], x, "assign")
					}
				}
			case *ast.CompositeLit:
				tv, ok := info.Types[x]
				if !ok {
					return true
				}
				st, ok := tv.Type.Underlying().(*types.Struct)
				if !ok {
					return true
				}
				for i, el := range x.Elts {
					if kv, ok := el.(*ast.KeyValueExpr); ok {
						if id, ok := kv.Key.(*ast.Ident); ok && info.ObjectOf(id) == slot {
							check(kv.Value, x, "literal")
						}
					} else if i < st.NumFields() && st.Field(i) == slot {
						check(el, x, "literal")
					}
				}
			}
			return true
		})
	})
	if nStores == 0 {
		sc.Undecided("slot", "-", "no store into rawPathVariable.schema found")
	}

	// other JSight-only slots: every struct field of type Schema / *Schema all of whose stores
	// are JSight values (e.g. Query.Schema, headers) needs no test at its readers either
	n2.jsightSlots = map[*types.Var]bool{slot: n2.slotOK}
	schemaT := c.Named("catalog", "Schema")
	for _, pk := range c.P.Repo {
		for _, name := range pk.Types.Scope().Names() {
			tn, ok := pk.Types.Scope().Lookup(name).(*types.TypeName)
			if !ok {
				continue
			}
			st, ok := tn.Type().Underlying().(*types.Struct)
			if !ok {
				continue
			}
			for i := 0; i < st.NumFields(); i++ {
				f := st.Field(i)
				t := f.Type()
				if p, ok := t.(*types.Pointer); ok {
					t = p.Elem()
				}
				if schemaT != nil && types.Identical(t, schemaT) && f != slot {
					n2.jsightSlots[f] = n2.allStoresJSight(f)
				}
			}
		}
	}
	var jsOnly []string
	for f, ok := range n2.jsightSlots {
		if ok {
			jsOnly = append(jsOnly, f.Name()+"@"+ownerTypeName(f))
		}
	}
	sort.Strings(jsOnly)
	sc.Info("jsight-only-slots", "-", strings.Join(jsOnly, ", "))

	// (a) every dereference / hand-over of S.ContentJSight
	counts := map[string]int{}
	c.P.Funcs(func(pk *pkgT, fd *ast.FuncDecl) {
		info := pk.TypesInfo
		match := func(e ast.Expr) bool { return fieldSel(info, e, content) }
		for _, us := range usesOf(fd.Body, match) {
			fn := c.P.DeclName(fd)
			counts[fn]++
			key := fmt.Sprintf("%s:ContentJSight#%d", fn, counts[fn])
			pos := c.P.Pos(us.Node.Pos())
			body := innermostBody(fd, us.Node)
			cs := callSite{Pk: pk, Decl: fd, Body: body.body, Lit: body.lit}
			sExpr := ast.Unparen(us.Target).(*ast.SelectorExpr).X
			if us.Arg {
				// handed to a callee: a use only if the callee dereferences the parameter unguarded
				if call := enclosingCall(fd.Body, us.Node); call != nil {
					if callee := Callee(info, call); callee != nil && (c.P.Decl(callee) == nil || c.paramNilSafe(callee, argIndex(call, us.Node))) {
						continue
					}
				}
			}
			if why := n2ExceptionFor(c, pk, fd); why != "" {
				if ok2, _ := n2.discharged(cs, sExpr, us.Node, 0); ok2 {
					sc.Holds(key, pos, "guarded")
				} else {
					sc.Exception(key, pos, why)
				}
				continue
			}
			if ok, why := n2.discharged(cs, sExpr, us.Node, 0); ok {
				sc.Holds(key, pos, why)
			} else {
				sc.Violation(key, pos, "Schema.ContentJSight is used without establishing that the schema has JSight notation ("+why+"): it is nil for regex/any/empty schemas")
			}
		}
	})
}

// n2ExceptionFor: the one frozen exception, found by role - the function that inserts
// inherited properties (it calls SchemaContentJSight.Unshift) reads the base type's content.
func n2ExceptionFor(c *Ctx, pk *pkgT, fd *ast.FuncDecl) string {
	unshift := c.Func("catalog", "SchemaContentJSight.Unshift")
	if unshift == nil {
		return ""
	}
	found := false
	ast.Inspect(fd.Body, func(n ast.Node) bool {
		if call, ok := n.(*ast.CallExpr); ok && Callee(pk.TypesInfo, call) == unshift {
			found = true
		}
		return !found
	})
	// the insertion may be split over helpers: a function inside the allOf expansion (reachable
	// from the expander) that fetches the base type from the user types has the same role
	if !found {
		if exp := c.allOfExpander(); exp != nil {
			if self, _ := pk.TypesInfo.Defs[fd.Name].(*types.Func); self != nil {
				inside := false
				for _, f := range reachStatic(c.P, pk, []*types.Func{exp}) {
					if f == self {
						inside = true
					}
				}
				utGet := c.Func("catalog", "UserTypes.Get")
				if inside && utGet != nil {
					ast.Inspect(fd.Body, func(n ast.Node) bool {
						if call, ok := n.(*ast.CallExpr); ok && Callee(pk.TypesInfo, call) == utGet {
							found = true
						}
						return !found
					})
				}
			}
		}
	}
	if found {
		return "the base of an allOf rule (in the function that inserts inherited properties): the schema library rejects a non-object (hence any non-JSight) allOf base when the referring schema is compiled, before compileCatalog runs"
	}
	return ""
}

type n2 struct {
	c           *Ctx
	content     *types.Var
	notation    *types.Var
	slot        *types.Var
	unmarshal   *types.Func
	jsight      *types.Const
	slotOK      bool
	jsightSlots map[*types.Var]bool
}

// allStoresJSight: every store into the field (assignment or composite literal) is a
// JSight value, following setter parameters to their callers.
func (n *n2) allStoresJSight(f *types.Var) bool {
	c := n.c
	ok := true
	found := 0
	c.P.Funcs(func(pk *pkgT, fd *ast.FuncDecl) {
		info := pk.TypesInfo
		check := func(val ast.Expr, at ast.Node) {
			found++
			body := innermostBody(fd, at)
			cs := callSite{Pk: pk, Decl: fd, Body: body.body, Lit: body.lit}
			if !n.jsightValueDeep(cs, val, at, 0) {
				ok = false
			}
		}
		ast.Inspect(fd.Body, func(x ast.Node) bool {
			switch y := x.(type) {
			case *ast.AssignStmt:
				for i, l := range y.Lhs {
					if fieldSel(info, l, f) && len(y.Lhs) == len(y.Rhs) {
						check(y.Rhs[i], y)
					}
				}
			case *ast.KeyValueExpr:
				if id, isId := y.Key.(*ast.Ident); isId && info.ObjectOf(id) == f {
					check(y.Value, y)
				}
			}
			return true
		})
	})
	return ok && found > 0
}

func (n *n2) jsightValueDeep(cs callSite, val ast.Expr, at ast.Node, depth int) bool {
	c := n.c
	info := cs.Pk.TypesInfo
	cf := c.CFG(cs.Pk, cs.Body)
	val = stripPtr(val)
	if ok, _ := n.isJSightValue(cs.Pk, cf, val, at); ok {
		return true
	}
	if depth > 3 || cs.Lit != nil {
		// a value captured by a literal from the enclosing function
		if cs.Lit != nil {
			outer := callSite{Pk: cs.Pk, Decl: cs.Decl, Body: cs.Decl.Body}
			if id, isId := ast.Unparen(val).(*ast.Ident); isId && paramIndex(outer, info, info.ObjectOf(id)) >= 0 {
				return n.paramJSight(outer, info.ObjectOf(id), depth)
			}
			ocf := c.CFG(cs.Pk, cs.Decl.Body)
			if ok, _ := n.isJSightValue(cs.Pk, ocf, val, at); ok {
				return true
			}
		}
		return false
	}
	if id, isId := ast.Unparen(cf.Resolve(val)).(*ast.Ident); isId && paramIndex(cs, info, info.ObjectOf(id)) >= 0 {
		return n.paramJSight(cs, info.ObjectOf(id), depth)
	}
	return false
}

func (n *n2) paramJSight(cs callSite, obj types.Object, depth int) bool {
	c := n.c
	pi := paramIndex(cs, cs.Pk.TypesInfo, obj)
	f := declObj(cs)
	if f == nil || pi < 0 || c.usedAsValue(f) {
		return false
	}
	callers := c.callSitesOf(f)
	if len(callers) == 0 {
		return false
	}
	for _, cc := range callers {
		if pi >= len(cc.Call.Args) || !n.jsightValueDeep(cc, cc.Call.Args[pi], cc.Call, depth+1) {
			return false
		}
	}
	return true
}

// isJSightValue: the stored value is the result of UnmarshalJSightSchema or is
// guarded by a Notation == JSight test on the same value.
func (n *n2) isJSightValue(pk *pkgT, cf *cfgx.Func, val ast.Expr, at ast.Node) (bool, string) {
	info := pk.TypesInfo
	rv := cf.Resolve(val)
	if call, ok := ast.Unparen(rv).(*ast.CallExpr); ok && Callee(info, call) == n.unmarshal {
		return true, "result of UnmarshalJSightSchema"
	}
	// x, err := UnmarshalJSightSchema(...) — a two-value define
	if id, ok := ast.Unparen(val).(*ast.Ident); ok {
		if def := multiDefCall(cf, info, id); def != nil && Callee(info, def) == n.unmarshal {
			if cf.WrittenOnce(info.ObjectOf(id)) {
				return true, "result of UnmarshalJSightSchema"
			}
		}
	}
	// result i of a repository helper whose success returns all hand out, at position i, a
	// local that is itself a result of UnmarshalJSightSchema
	if id, ok := ast.Unparen(val).(*ast.Ident); ok && cf.WrittenOnce(info.ObjectOf(id)) {
		if rhs, idx, isTuple := cf.TupleDefOf(info.ObjectOf(id)); isTuple {
			if call, isCall := ast.Unparen(rhs).(*ast.CallExpr); isCall {
				if h := Callee(info, call); h != nil && h != n.unmarshal {
					if hd := n.c.P.Decl(h); hd != nil {
						hpk := n.c.P.PkgOfDecl(hd)
						ros := n.c.resultObjs(hpk, hd, retSuccess)
						if idx < len(ros) && ros[idx] != nil {
							hcf := n.c.CFG(hpk, hd.Body)
							var hid *ast.Ident
							ast.Inspect(hd.Body, func(x ast.Node) bool {
								if i2, isId := x.(*ast.Ident); isId && hpk.TypesInfo.ObjectOf(i2) == ros[idx] && hid == nil {
									hid = i2
								}
								return true
							})
							if hid != nil {
								if def := multiDefCall(hcf, hpk.TypesInfo, hid); def != nil && Callee(hpk.TypesInfo, def) == n.unmarshal && hcf.WrittenOnce(ros[idx]) {
									return true, "result of UnmarshalJSightSchema handed out by " + h.Name()
								}
							}
						}
					}
				}
			}
		}
	}
	if cf.MustAt(at, n.genFor(info, cf, val), nil, nil) {
		return true, "guarded by a Notation == JSight test on the stored value"
	}
	return false, "neither a result of UnmarshalJSightSchema nor guarded by a notation test"
}

// multiDefCall finds `id, ... := call(...)`.
func multiDefCall(cf *cfgx.Func, info *types.Info, id *ast.Ident) *ast.CallExpr {
	obj := info.ObjectOf(id)
	var res *ast.CallExpr
	ast.Inspect(cf.Body, func(n ast.Node) bool {
		as, ok := n.(*ast.AssignStmt)
		if !ok || len(as.Rhs) != 1 || len(as.Lhs) < 2 {
			return true
		}
		for _, l := range as.Lhs {
			if lid, ok := l.(*ast.Ident); ok && info.ObjectOf(lid) == obj {
				if call, ok := as.Rhs[0].(*ast.CallExpr); ok {
					res = call
				}
			}
		}
		return true
	})
	return res
}

// genFor accepts facts that establish JSight notation for schema expression s.
func (n *n2) genFor(info *types.Info, cf *cfgx.Func, s ast.Expr) func(cfgx.Fact) bool {
	s = stripPtr(s)
	rs := stripPtr(cf.Resolve(s))
	same := func(e ast.Expr) bool {
		e = stripPtr(e)
		return cfgx.SameExpr(info, e, s) || cfgx.SameExpr(info, stripPtr(cf.Resolve(e)), rs) || cf.SameResolved(e, s)
	}
	return func(fa cfgx.Fact) bool {
		be, ok := ast.Unparen(fa.Expr).(*ast.BinaryExpr)
		if !ok || (be.Op != token.EQL && be.Op != token.NEQ) {
			return false
		}
		positive := (be.Op == token.EQL) == fa.Truth
		for _, pair := range [][2]ast.Expr{{be.X, be.Y}, {be.Y, be.X}} {
			l, r := pair[0], pair[1]
			sel, ok := ast.Unparen(l).(*ast.SelectorExpr)
			if !ok {
				continue
			}
			switch info.ObjectOf(sel.Sel) {
			case n.notation:
				// S.Notation == SchemaNotationJSight
				if positive && same(sel.X) {
					if tv, ok := info.Types[r]; ok && tv.Value != nil && tv.Value.ExactString() == n.jsight.Val().ExactString() {
						return true
					}
				}
			case n.content:
				// S.ContentJSight != nil
				if !positive && same(sel.X) {
					if id, ok := ast.Unparen(r).(*ast.Ident); ok {
						if _, isNil := info.ObjectOf(id).(*types.Nil); isNil {
							return true
						}
					}
				}
			}
		}
		return false
	}
}

func (n *n2) discharged(cs callSite, s ast.Expr, at ast.Node, depth int) (bool, string) {
	c := n.c
	info := cs.Pk.TypesInfo
	cf := c.CFG(cs.Pk, cs.Body)
	s = stripPtr(s)
	rs := stripPtr(cf.Resolve(s))
	genStmt := func(nd ast.Node) bool {
		// S.ContentJSight = &T{...}
		as, ok := nd.(*ast.AssignStmt)
		if !ok || len(as.Lhs) != 1 || len(as.Rhs) != 1 {
			return false
		}
		sel, ok := ast.Unparen(as.Lhs[0]).(*ast.SelectorExpr)
		if !ok || info.ObjectOf(sel.Sel) != n.content || !cfgx.SameExpr(info, stripPtr(sel.X), s) {
			return false
		}
		u, ok := ast.Unparen(as.Rhs[0]).(*ast.UnaryExpr)
		return ok && u.Op == token.AND
	}
	root := cfgx.RootObj(info, rs)
	kill := func(nd ast.Node) bool {
		if genStmt(nd) {
			return false
		}
		return cfgx.Assigns(nd, func(l ast.Expr) bool {
			if sel, ok := ast.Unparen(l).(*ast.SelectorExpr); ok {
				o := info.ObjectOf(sel.Sel)
				if (o == n.content || o == n.notation) && cfgx.SameExpr(info, stripPtr(sel.X), s) {
					return true
				}
				if cfgx.SameExpr(info, stripPtr(l), s) {
					return true
				}
			}
			id, ok := ast.Unparen(l).(*ast.Ident)
			return ok && root != nil && info.ObjectOf(id) == root && !isDefineOf(nd, id)
		})
	}
	if cf.MustAt(at, n.genFor(info, cf, s), genStmt, kill) {
		return true, "notation / nil test or fresh assignment on every path"
	}
	// any other JSight-only slot
	if sel, ok := ast.Unparen(rs).(*ast.SelectorExpr); ok {
		if fv, ok := info.ObjectOf(sel.Sel).(*types.Var); ok && fv != n.slot && n.jsightSlots[fv] {
			return true, fv.Name() + " of " + ownerTypeName(fv) + " is a JSight-only slot (every store is a result of UnmarshalJSightSchema)"
		}
	}
	// the JSight-only slot
	if sel, ok := ast.Unparen(rs).(*ast.SelectorExpr); ok && info.ObjectOf(sel.Sel) == n.slot {
		if n.slotOK {
			return true, "rawPathVariable.schema: JSight-only slot (every store checked)"
		}
		return true, "rawPathVariable.schema: JSight-only slot; one of its stores is of unknown notation and is reported as the violation"
	}
	if depth > 3 {
		return false, "precondition chain too deep"
	}
	// parameter precondition
	if id, ok := ast.Unparen(rs).(*ast.Ident); ok {
		if pi := paramIndex(cs, info, info.ObjectOf(id)); pi >= 0 && cs.Lit == nil {
			f := declObj(cs)
			if f == nil || c.usedAsValue(f) {
				return false, "parameter of a function used as a value"
			}
			callers := c.callSitesOf(f)
			if len(callers) == 0 {
				return true, "precondition of a function with no caller in non-test code"
			}
			for _, cc := range callers {
				if ok, why := n.discharged(cc, cc.Call.Args[pi], cc.Call, depth+1); !ok {
					return false, fmt.Sprintf("caller %s at %s: %s", c.P.DeclName(cc.Decl), c.P.Pos(cc.Call.Pos()), why)
				}
			}
			return true, fmt.Sprintf("precondition established by all %d callers", len(callers))
		}
	}
	return false, "no notation test dominates the use of " + strings.TrimSpace(types.ExprString(s))
}

type bodyInfo struct {
	body *ast.BlockStmt
	lit  *ast.FuncLit
}

// innermostBody returns the innermost function body (of fd or a literal in it) containing n.
func innermostBody(fd *ast.FuncDecl, n ast.Node) bodyInfo {
	res := bodyInfo{body: fd.Body}
	ast.Inspect(fd.Body, func(x ast.Node) bool {
		if lit, ok := x.(*ast.FuncLit); ok && lit.Body.Pos() <= n.Pos() && n.End() <= lit.Body.End() {
			res = bodyInfo{lit.Body, lit}
		}
		return true
	})
	return res
}
