package rules

import (
	"fmt"
	"go/ast"
	"go/token"
	"go/types"
	"regexp"
	"sort"
	"strings"

	"verif/checker/cfgx"
	"verif/checker/report"
)

// ---------------------------------------------------------------- H1 has-before-set

// catalogCollFields are the serialised collections of catalog.Catalog (by role:
// fields of Catalog whose type is an insertion-ordered collection).
func (c *Ctx) catalogCollFields() map[*types.Var]bool {
	out := map[*types.Var]bool{}
	cat := c.Named("catalog", "Catalog")
	if cat == nil {
		return out
	}
	colls := map[*types.Named]bool{}
	for _, oc := range c.orderedCollections() {
		colls[oc.named] = true
	}
	st := cat.Underlying().(*types.Struct)
	for i := 0; i < st.NumFields(); i++ {
		f := st.Field(i)
		t := f.Type()
		if p, ok := t.(*types.Pointer); ok {
			t = p.Elem()
		}
		if n, ok := t.(*types.Named); ok && colls[n] && f.Exported() {
			out[f] = true
		}
	}
	return out
}

// h1MapKind classifies a run-wide Go map of JApiCore by its type (not its name):
// sets (struct{} values) and maps to directives are uniqueness / visited collections whose
// every insert needs a preceding lookup; a map to strings remembers one value per key and
// may be re-stored with an equal value; maps to functions (the handler table) and to
// schema-library rules (uniqueness is enforced by the UserEnums collection in the same
// function, whose error returns) are not uniqueness collections.
func h1MapKind(fld *types.Var) string {
	mp, ok := fld.Type().Underlying().(*types.Map)
	if !ok {
		return ""
	}
	switch e := mp.Elem().Underlying().(type) {
	case *types.Struct:
		if e.NumFields() == 0 {
			return "unique"
		}
	case *types.Pointer:
		return "unique"
	case *types.Basic:
		if e.Info()&types.IsString != 0 {
			return "unique-or-equal"
		}
	}
	return ""
}

// RuleH1: every insert into a uniqueness collection is dominated by a membership
// test on the same collection and key whose found-branch does not reach the insert.
func RuleH1(c *Ctx) {
	sc := c.Run.Begin("H1", "every insert into a uniqueness collection (catalog Tags/Servers/UserTypes/UserEnums/Interactions, core macro/uniqURLPath/onlyOneProtocolIntoURL/similarPaths/visited sets, allProjectProperties, inherited-property Unshift) is dominated by a membership test on the same collection and key whose found branch cannot reach it", 1)
	defer sc.End()
	collFields := c.catalogCollFields()
	if len(collFields) < 4 {
		sc.Undecided("collections", "-", "unresolved anchor: collection fields of catalog.Catalog")
		return
	}
	counts := map[string]int{}
	// (1) ordered collections: X.Set(k, v)
	c.eachCall(func(cs callSite) {
		info := cs.Pk.TypesInfo
		f := Callee(info, cs.Call)
		if f == nil || (f.Name() != "Set" && f.Name() != "SetToTop") || len(cs.Call.Args) != 2 {
			return
		}
		recv := Recv(cs.Call)
		sel, ok := ast.Unparen(recv).(*ast.SelectorExpr)
		if !ok {
			return
		}
		fld, ok := info.ObjectOf(sel.Sel).(*types.Var)
		if !ok || !collFields[fld] {
			return
		}
		fn := c.P.DeclName(cs.Decl)
		counts[fn+fld.Name()]++
		key := fmt.Sprintf("%s:%s.Set#%d", fn, fld.Name(), counts[fn+fld.Name()])
		cf := c.CFG(cs.Pk, cs.Body)
		k := cs.Call.Args[0]
		gen := func(fa cfgx.Fact) bool {
			if fa.Truth {
				return false
			}
			// X.Has(k) is false
			if call, ok := ast.Unparen(fa.Expr).(*ast.CallExpr); ok {
				if g := Callee(info, call); g != nil && g.Name() == "Has" && len(call.Args) == 1 {
					return cf.SameResolved(Recv(call), recv) && (cf.SameResolved(call.Args[0], k) || c.canonKey(cs.Pk, cf, call.Args[0]) == c.canonKey(cs.Pk, cf, k))
				}
			}
			// ok from  v, ok := X.Get(k)  is false
			if id, ok := ast.Unparen(fa.Expr).(*ast.Ident); ok {
				if call := tupleDefCall(cf, info, id, 1); call != nil {
					if g := Callee(info, call); g != nil && g.Name() == "Get" && len(call.Args) == 1 {
						return cf.SameResolved(Recv(call), recv) && (cf.SameResolved(call.Args[0], k) || c.canonKey(cs.Pk, cf, call.Args[0]) == c.canonKey(cs.Pk, cf, k))
					}
				}
			}
			return false
		}
		if cf.MustAt(cs.Call, gen, nil, nil) {
			sc.Holds(key, c.P.Pos(cs.Call.Pos()), "preceded by Has/Get(not found) on the same key")
		} else if why, ok := c.h1SetCallersLookedUp(cs, fld, c.canonKey(cs.Pk, cf, k)); ok {
			sc.Holds(key, c.P.Pos(cs.Call.Pos()), why)
		} else {
			sc.Violation(key, c.P.Pos(cs.Call.Pos()), fmt.Sprintf("%s.Set(%s, …) is reachable without a membership test on the same key: a second declaration with the same name silently replaces the first instead of being rejected", fld.Name(), types.ExprString(k)))
		}
	})
	// (2) Go maps: M[k] = v
	coreT := c.Named("core", "JApiCore")
	c.P.Funcs(func(pk *pkgT, fd *ast.FuncDecl) {
		info := pk.TypesInfo
		var lits []*ast.FuncLit
		ast.Inspect(fd.Body, func(n ast.Node) bool {
			if l, ok := n.(*ast.FuncLit); ok {
				lits = append(lits, l)
			}
			return true
		})
		ast.Inspect(fd.Body, func(n ast.Node) bool {
			as, ok := n.(*ast.AssignStmt)
			if !ok || len(as.Lhs) != 1 || as.Tok != token.ASSIGN {
				return true
			}
			ix, ok := ast.Unparen(as.Lhs[0]).(*ast.IndexExpr)
			if !ok {
				return true
			}
			if _, isMap := info.TypeOf(ix.X).Underlying().(*types.Map); !isMap {
				return true
			}
			kind := ""
			name := ""
			if sel, ok := ast.Unparen(ix.X).(*ast.SelectorExpr); ok {
				if fld, ok := info.ObjectOf(sel.Sel).(*types.Var); ok && fld.IsField() && coreT != nil {
					if fieldOwner(coreT, fld) && !c.isOptionSetup(pk, fd) && !strings.HasPrefix(fd.Name.Name, "New") {
						kind, name = h1MapKind(fld), fld.Name()
					}
				}
			}
			if id, ok := ast.Unparen(ix.X).(*ast.Ident); ok && id.Name == "allProjectProperties" {
				kind, name = "unique", id.Name
			}
			if kind == "" {
				return true
			}
			fn := c.P.DeclName(fd)
			counts[fn+name]++
			key := fmt.Sprintf("%s:%s[k]=#%d", fn, name, counts[fn+name])
			body := innermostBody(fd, as)
			cf := c.CFG(pk, body.body)
			var valueVar types.Object
			sameMap := func(a, b ast.Expr) bool {
				if cfgx.SameExpr(info, a, b) {
					return true
				}
				// the same field reached through differently named receivers (a fact handed
				// over by a helper's summary, or a caller's view of the callee's map)
				sa, ok1 := ast.Unparen(a).(*ast.SelectorExpr)
				sb, ok2 := ast.Unparen(b).(*ast.SelectorExpr)
				return ok1 && ok2 && info.ObjectOf(sa.Sel) != nil && info.ObjectOf(sa.Sel) == info.ObjectOf(sb.Sel)
			}
			gen := func(fa cfgx.Fact) bool {
				if !fa.Truth {
					if m, k, found := mapLookupOf(info, cf, fa.Expr); found && sameMap(m, ix.X) && (cfgx.SameExpr(info, k, ix.Index) || cf.SameResolved(k, ix.Index)) {
						return true
					}
				}
				if kind == "unique-or-equal" {
					// found, but the stored value equals the one being stored:  v != x  is false
					if be, ok := ast.Unparen(fa.Expr).(*ast.BinaryExpr); ok && ((be.Op == token.NEQ && !fa.Truth) || (be.Op == token.EQL && fa.Truth)) {
						if id, ok := ast.Unparen(be.X).(*ast.Ident); ok {
							if vobj := lookupValueVar(info, cf, ix.X, ix.Index); vobj != nil && info.ObjectOf(id) == vobj {
								valueVar = vobj
								return cfgx.SameExpr(info, be.Y, as.Rhs[0])
							}
						}
					}
				}
				return false
			}
			_ = valueVar
			// a declaration is either refused or registered: when the insert is a statement
			// of the function body itself (not in a loop or a branch) and the function
			// rejects an existing key with an error, every success return comes after the
			// insert - no early `return nil` that drops the declaration unregistered and
			// unchecked ("a macro nobody pastes need not be kept")
			if kind == "unique" && body.lit == nil {
				top := false
				for _, st := range fd.Body.List {
					if st == ast.Stmt(as) {
						top = true
					}
				}
				rejects := false
				if top {
					inspectNoLit(fd.Body, func(y ast.Node) bool {
						ret, ok := y.(*ast.ReturnStmt)
						if !ok || len(ret.Results) == 0 {
							return true
						}
						if tv, has := info.Types[ret.Results[len(ret.Results)-1]]; has && tv.IsNil() {
							return true
						}
						for _, fa := range cf.FactsAt(ret) {
							if fa.Truth {
								if m, k, found := mapLookupOf(info, cf, fa.Expr); found && sameMap(m, ix.X) && cfgx.SameExpr(info, k, ix.Index) {
									rejects = true
								}
							}
						}
						return true
					})
				}
				if top && rejects {
					skip := ""
					inspectNoLit(fd.Body, func(y ast.Node) bool {
						ret, ok := y.(*ast.ReturnStmt)
						if !ok || len(ret.Results) == 0 {
							return true
						}
						if tv, has := info.Types[ret.Results[len(ret.Results)-1]]; !has || !tv.IsNil() {
							return true
						}
						stored := func(nd ast.Node) bool { return nd == ast.Node(as) }
						if !cf.MustAt(ret, nil, stored, nil) {
							skip = c.P.Pos(ret.Pos())
						}
						return true
					})
					rkey := fmt.Sprintf("%s:%s:registered-or-refused", fn, name)
					if skip == "" {
						sc.Holds(rkey, c.P.Pos(as.Pos()), "every success return comes after the insert")
					} else {
						sc.Violation(rkey, c.P.Pos(as.Pos()), "the success return at "+skip+" leaves the function before "+name+"["+types.ExprString(ix.Index)+"] is stored and before the duplicate test: a declaration that takes this exit is neither registered nor checked, so a second one with the same name is accepted")
					}
				}
			}
			if cf.MustAt(as, gen, nil, nil) {
				sc.Holds(key, c.P.Pos(as.Pos()), kind+": preceded by a lookup (not found) of the same key")
			} else if why, ok := c.h1CallersLookedUp(pk, fd, ix); ok {
				sc.Holds(key, c.P.Pos(as.Pos()), kind+": "+why)
			} else {
				sc.Violation(key, c.P.Pos(as.Pos()), fmt.Sprintf("%s[%s] is stored without a lookup of the same key on every path: a repeated declaration is not detected (or a visited mark no longer stops a second visit)", name, types.ExprString(ix.Index)))
			}
			return true
		})
	})
	// (3) inherited properties: Unshift only when the object has no property of that key
	c.checkUnshift(sc, counts)
}

// canonKey renders a key expression after resolving local aliases and fields of values
// built by a single-return constructor (t.Name with t := NewTag(name, ...) where NewTag
// returns &Tag{Name: TagName(name)} becomes "TagName(name)").
func (c *Ctx) canonKey(pk *pkgT, cf *cfgx.Func, e ast.Expr) string {
	info := pk.TypesInfo
	e = cf.Resolve(e)
	if sel, ok := ast.Unparen(e).(*ast.SelectorExpr); ok {
		if call, ok := ast.Unparen(cf.Resolve(sel.X)).(*ast.CallExpr); ok {
			var args []string
			for _, a := range call.Args {
				args = append(args, types.ExprString(cf.Resolve(a)))
			}
			if s, ok := c.ctorField(info, call, args, sel.Sel.Name, 0); ok {
				return s
			}
		}
	}
	return types.ExprString(e)
}

// ctorField renders field `name` of the value a single-return constructor builds, with the
// constructor's parameters replaced by the given argument texts; a constructor that
// delegates to another one (`return newTag(TagName(name), title)`) is followed.
func (c *Ctx) ctorField(info *types.Info, call *ast.CallExpr, args []string, name string, depth int) (string, bool) {
	if depth > 3 {
		return "", false
	}
	f := Callee(info, call)
	if f == nil {
		return "", false
	}
	fd := c.P.Decl(f)
	if fd == nil || len(fd.Body.List) != 1 {
		return "", false
	}
	ret, ok := fd.Body.List[0].(*ast.ReturnStmt)
	if !ok || len(ret.Results) != 1 {
		return "", false
	}
	subst := map[string]string{}
	i := 0
	for _, fl := range fd.Type.Params.List {
		for _, nm := range fl.Names {
			if i < len(args) {
				subst[nm.Name] = args[i]
			}
			i++
		}
	}
	fpk := c.P.PkgOfDecl(fd)
	r := ast.Unparen(ret.Results[0])
	if u, ok := r.(*ast.UnaryExpr); ok && u.Op == token.AND {
		r = u.X
	}
	switch x := r.(type) {
	case *ast.CompositeLit:
		for _, el := range x.Elts {
			kv, ok := el.(*ast.KeyValueExpr)
			if !ok {
				continue
			}
			if id, ok := kv.Key.(*ast.Ident); ok && id.Name == name {
				return substExpr(kv.Value, subst), true
			}
		}
	case *ast.CallExpr:
		if fpk == nil {
			return "", false
		}
		var inner []string
		for _, a := range x.Args {
			inner = append(inner, substExpr(a, subst))
		}
		return c.ctorField(fpk.TypesInfo, x, inner, name, depth+1)
	}
	return "", false
}

func substExpr(e ast.Expr, subst map[string]string) string {
	switch x := ast.Unparen(e).(type) {
	case *ast.Ident:
		if s, ok := subst[x.Name]; ok {
			return s
		}
		return x.Name
	case *ast.CallExpr:
		var args []string
		for _, a := range x.Args {
			args = append(args, substExpr(a, subst))
		}
		return substExpr(x.Fun, subst) + "(" + strings.Join(args, ", ") + ")"
	case *ast.SelectorExpr:
		return substExpr(x.X, subst) + "." + x.Sel.Name
	}
	return types.ExprString(e)
}

func fieldOwner(named *types.Named, fld *types.Var) bool {
	st, ok := named.Underlying().(*types.Struct)
	if !ok {
		return false
	}
	for i := 0; i < st.NumFields(); i++ {
		if st.Field(i) == fld {
			return true
		}
	}
	return false
}

// tupleDefCall: id is the pos-th variable of `a, b := call(...)` / `if a, b := call(); ...`.
func tupleDefCall(cf *cfgx.Func, info *types.Info, id *ast.Ident, pos int) *ast.CallExpr {
	obj := info.ObjectOf(id)
	var res *ast.CallExpr
	n := 0
	ast.Inspect(cf.Body, func(x ast.Node) bool {
		as, ok := x.(*ast.AssignStmt)
		if !ok || len(as.Rhs) != 1 || len(as.Lhs) <= pos {
			return true
		}
		if lid, ok := as.Lhs[pos].(*ast.Ident); ok && info.ObjectOf(lid) == obj {
			if call, ok := as.Rhs[0].(*ast.CallExpr); ok {
				res = call
				n++
			}
		}
		return true
	})
	if n != 1 {
		return nil
	}
	return res
}

// lookupValueVar: v of `v, ok := M[k]`.
func lookupValueVar(info *types.Info, cf *cfgx.Func, m, k ast.Expr) types.Object {
	var res types.Object
	ast.Inspect(cf.Body, func(n ast.Node) bool {
		as, ok := n.(*ast.AssignStmt)
		if !ok || len(as.Lhs) != 2 || len(as.Rhs) != 1 {
			return true
		}
		ix, ok := ast.Unparen(as.Rhs[0]).(*ast.IndexExpr)
		if !ok || !cfgx.SameExpr(info, ix.X, m) || !cfgx.SameExpr(info, ix.Index, k) {
			return true
		}
		if id, ok := as.Lhs[0].(*ast.Ident); ok {
			res = info.ObjectOf(id)
		}
		return true
	})
	return res
}

func (c *Ctx) checkUnshift(sc interface {
	Holds(string, string, string)
	Violation(string, string, string)
	Undecided(string, string, string)
}, counts map[string]int) {
	unshift := c.Func("catalog", "SchemaContentJSight.Unshift")
	objProp := c.Func("catalog", "SchemaContentJSight.ObjectProperty")
	inh := c.Field("catalog", "SchemaContentJSight", "InheritedFrom")
	if unshift == nil || objProp == nil || inh == nil {
		sc.Undecided("Unshift", "-", "unresolved anchor: SchemaContentJSight.Unshift/ObjectProperty/InheritedFrom")
		return
	}
	// the membership test itself looks at every child and at nothing but its key
	if ofd := c.P.Decl(objProp); ofd != nil {
		opk := c.P.PkgOfDecl(ofd)
		oinfo := opk.TypesInfo
		var kObj types.Object
		if len(ofd.Type.Params.List) == 1 && len(ofd.Type.Params.List[0].Names) == 1 {
			kObj = oinfo.ObjectOf(ofd.Type.Params.List[0].Names[0])
		}
		bad := ""
		loops := 0
		ast.Inspect(ofd.Body, func(n ast.Node) bool {
			var body *ast.BlockStmt
			switch l := n.(type) {
			case *ast.RangeStmt:
				body = l.Body
			case *ast.ForStmt:
				body = l.Body
			}
			if body == nil {
				return true
			}
			loops++
			ast.Inspect(body, func(y ast.Node) bool {
				ifs, ok := y.(*ast.IfStmt)
				if !ok {
					return true
				}
				var atoms func(e ast.Expr)
				atoms = func(e ast.Expr) {
					e = ast.Unparen(e)
					if be, ok := e.(*ast.BinaryExpr); ok && (be.Op == token.LAND || be.Op == token.LOR) {
						atoms(be.X)
						atoms(be.Y)
						return
					}
					if u, ok := e.(*ast.UnaryExpr); ok && u.Op == token.NOT {
						atoms(u.X)
						return
					}
					mentionsKey, isNilTest := false, false
					ast.Inspect(e, func(z ast.Node) bool {
						if id, ok := z.(*ast.Ident); ok && kObj != nil && oinfo.ObjectOf(id) == kObj {
							mentionsKey = true
						}
						return true
					})
					if be, ok := e.(*ast.BinaryExpr); ok && (isNilIdentExpr(oinfo, be.X) || isNilIdentExpr(oinfo, be.Y)) {
						isNilTest = true
					}
					if !mentionsKey && !isNilTest {
						bad = types.ExprString(e) + " at " + c.P.Pos(e.Pos())
					}
				}
				atoms(ifs.Cond)
				return true
			})
			return true
		})
		switch {
		case loops == 0:
			sc.Undecided("ObjectProperty:complete", c.P.Pos(ofd.Pos()), "the membership test has no loop over the children")
		case bad == "":
			sc.Holds("ObjectProperty:complete", c.P.Pos(ofd.Pos()), "every condition in the search loop compares the key (or is a nil test)")
		default:
			sc.Violation("ObjectProperty:complete", c.P.Pos(ofd.Pos()), "the membership test that guards the insertion of inherited properties skips children by something other than their key ("+bad+"): a property it does not see is inserted a second time when its type is expanded again")
		}
	}
	for i, cs := range c.callSitesOf(unshift) {
		info := cs.Pk.TypesInfo
		cf := c.CFG(cs.Pk, cs.Body)
		key := fmt.Sprintf("%s:Unshift#%d", c.P.DeclName(cs.Decl), i+1)
		recv := Recv(cs.Call)
		// p := recv.ObjectProperty(key); the site must hold p == nil, established either directly
		// or by the pair  !(p != nil && p.InheritedFrom == "")  and  !(p != nil && p.InheritedFrom != "")
		isP := func(e ast.Expr) bool {
			r := cf.Resolve(e)
			call, ok := ast.Unparen(r).(*ast.CallExpr)
			return ok && Callee(info, call) == objProp && cf.SameResolved(Recv(call), recv)
		}
		direct := func(fa cfgx.Fact) bool {
			be, ok := ast.Unparen(fa.Expr).(*ast.BinaryExpr)
			if !ok || !isP(be.X) {
				return false
			}
			if id, ok := ast.Unparen(be.Y).(*ast.Ident); !ok || id.Name != "nil" {
				return false
			}
			return (be.Op == token.EQL) == fa.Truth
		}
		half := func(wantEmpty bool) func(cfgx.Fact) bool {
			return func(fa cfgx.Fact) bool {
				if fa.Truth {
					return false
				}
				and, ok := ast.Unparen(fa.Expr).(*ast.BinaryExpr)
				if !ok || and.Op != token.LAND {
					return false
				}
				l, ok := ast.Unparen(and.X).(*ast.BinaryExpr)
				if !ok || l.Op != token.NEQ || !isP(l.X) {
					return false
				}
				r, ok := ast.Unparen(and.Y).(*ast.BinaryExpr)
				if !ok {
					return false
				}
				sel, ok := ast.Unparen(r.X).(*ast.SelectorExpr)
				if !ok || info.ObjectOf(sel.Sel) != inh || !isP(sel.X) {
					return false
				}
				tv, ok := info.Types[r.Y]
				if !ok || tv.Value == nil || tv.Value.ExactString() != `""` {
					return false
				}
				return (r.Op == token.EQL) == wantEmpty
			}
		}
		ok := cf.MustAt(cs.Call, direct, nil, nil) ||
			(cf.MustAt(cs.Call, half(true), nil, nil) && cf.MustAt(cs.Call, half(false), nil, nil))
		if ok {
			sc.Holds(key, c.P.Pos(cs.Call.Pos()), "reached only when the object has no property with that key (own property -> override error, inherited -> skipped)")
		} else {
			sc.Violation(key, c.P.Pos(cs.Call.Pos()), "an inherited property is inserted without establishing that the object has no property with the same key: a property can appear twice, or an own property can be silently overridden")
		}
	}
}

// ---------------------------------------------------------------- H2 required names

// RuleH2: a directive parameter that becomes a key of a catalog collection is tested
// for emptiness first.
func RuleH2(c *Ctx) {
	sc := c.Run.Begin("H2", "a NamedParameter value used as the key of a catalog collection insert is compared with \"\" (empty -> error) on every path, through parameters", 1)
	defer sc.End()
	collFields := c.catalogCollFields()
	named := c.Func("directive", "Directive.NamedParameter")
	if named == nil || len(collFields) == 0 {
		sc.Undecided("anchors", "-", "unresolved anchor: Directive.NamedParameter / catalog collections")
		return
	}
	h := &h2{c: c, named: named}
	n := 0
	c.eachCall(func(cs callSite) {
		info := cs.Pk.TypesInfo
		f := Callee(info, cs.Call)
		if f == nil || f.Name() != "Set" || len(cs.Call.Args) != 2 {
			return
		}
		sel, ok := ast.Unparen(Recv(cs.Call)).(*ast.SelectorExpr)
		if !ok {
			return
		}
		fld, ok := info.ObjectOf(sel.Sel).(*types.Var)
		if !ok || !collFields[fld] {
			return
		}
		// only string-like keys that come from a parameter of a directive
		res, why, relevant := h.keyChecked(cs, cs.Call.Args[0], cs.Call, nil, 0)
		if !relevant {
			return
		}
		n++
		key := fmt.Sprintf("%s:%s.Set#%d", c.P.DeclName(cs.Decl), fld.Name(), n)
		if res {
			sc.Holds(key, c.P.Pos(cs.Call.Pos()), why)
		} else {
			sc.Violation(key, c.P.Pos(cs.Call.Pos()), fmt.Sprintf("the key of %s.Set comes from a directive parameter that is never compared with \"\" on this path (%s): a declaration without a name is stored under the empty key instead of being rejected", fld.Name(), why))
		}
	})
}

type h2 struct {
	c     *Ctx
	named *types.Func
}

// paramCall: e resolves to X.NamedParameter("lit"); returns X and lit.
func (h *h2) paramCall(cs callSite, cf *cfgx.Func, e ast.Expr) (ast.Expr, string, bool) {
	info := cs.Pk.TypesInfo
	r := cf.Resolve(e)
	// conversions such as TagName(name)
	if call, ok := ast.Unparen(r).(*ast.CallExpr); ok && len(call.Args) == 1 {
		if tv, ok := info.Types[call.Fun]; ok && tv.IsType() {
			r = cf.Resolve(call.Args[0])
		}
	}
	call, ok := ast.Unparen(r).(*ast.CallExpr)
	if !ok || Callee(info, call) != h.named || len(call.Args) != 1 {
		return nil, "", false
	}
	tv, ok := info.Types[call.Args[0]]
	if !ok || tv.Value == nil {
		return nil, "", false
	}
	return Recv(call), tv.Value.ExactString(), true
}

// keyChecked decides the obligation for key expression k at node at. subst, when
// non-nil, says "the directive is this caller-side expression" (after crossing a call).
func (h *h2) keyChecked(cs callSite, k ast.Expr, at ast.Node, want *h2want, depth int) (ok bool, why string, relevant bool) {
	c := h.c
	info := cs.Pk.TypesInfo
	cf := c.CFG(cs.Pk, cs.Body)
	if depth > 4 {
		return false, "chain too deep", true
	}
	if want == nil {
		recv, lit, isParam := h.paramCall(cs, cf, k)
		if isParam {
			want = &h2want{recv: recv, lit: lit}
		} else {
			// a plain parameter of this function: look at the callers
			r := cf.Resolve(k)
			if call, ok := ast.Unparen(r).(*ast.CallExpr); ok && len(call.Args) == 1 {
				if tv, ok := info.Types[call.Fun]; ok && tv.IsType() {
					r = cf.Resolve(call.Args[0])
				}
			}
			// t.Name where t := NewTag(name, ...) : follow the constructor's first argument
			if sel, ok := ast.Unparen(r).(*ast.SelectorExpr); ok {
				if inner, ok := ast.Unparen(cf.Resolve(sel.X)).(*ast.CallExpr); ok && len(inner.Args) >= 1 {
					if g := Callee(info, inner); g != nil && strings.HasPrefix(g.Name(), "New") {
						r = cf.Resolve(inner.Args[0])
					}
				}
			}
			id, isId := ast.Unparen(r).(*ast.Ident)
			if !isId {
				return false, "", false
			}
			pi := paramIndex(cs, info, info.ObjectOf(id))
			if pi < 0 || cs.Lit != nil {
				return false, "", false
			}
			// local emptiness test on the parameter itself?
			if cf.MustAt(at, emptinessGen(info, cf, func(e ast.Expr) bool { return cfgx.SameExpr(info, cf.Resolve(e), id) }), nil, nil) {
				return true, "compared with \"\" before the insert", true
			}
			f := declObj(cs)
			callers := c.callSitesOf(f)
			if f == nil || len(callers) == 0 {
				return false, "", false
			}
			anyRelevant := false
			for _, cc := range callers {
				if pi >= len(cc.Call.Args) {
					continue
				}
				ok2, why2, rel := h.keyChecked(cc, cc.Call.Args[pi], cc.Call, nil, depth+1)
				if !rel {
					continue
				}
				anyRelevant = true
				if !ok2 {
					return false, fmt.Sprintf("caller %s: %s", c.P.DeclName(cc.Decl), why2), true
				}
			}
			return true, "compared with \"\" in every caller", anyRelevant
		}
	}
	// want: <recv>.NamedParameter(lit) tested for emptiness here
	match := func(e ast.Expr) bool {
		recv, lit, isParam := h.paramCall(cs, cf, e)
		return isParam && lit == want.lit && cf.SameResolved(stripPtr(recv), stripPtr(want.recv))
	}
	if cf.MustAt(at, emptinessGen(info, cf, match), nil, nil) {
		return true, "NamedParameter(" + want.lit + ") compared with \"\" before the insert", true
	}
	// the directive is a parameter: look at the callers
	if id, ok := stripPtr(cf.Resolve(want.recv)).(*ast.Ident); ok && cs.Lit == nil {
		if pi := paramIndex(cs, info, info.ObjectOf(id)); pi >= 0 {
			f := declObj(cs)
			callers := c.callSitesOf(f)
			if f != nil && len(callers) > 0 && !c.usedAsValue(f) {
				for _, cc := range callers {
					w := &h2want{recv: cc.Call.Args[pi], lit: want.lit}
					if ok2, why2, _ := h.keyChecked(cc, nil, cc.Call, w, depth+1); !ok2 {
						return false, fmt.Sprintf("caller %s: %s", c.P.DeclName(cc.Decl), why2), true
					}
				}
				return true, "NamedParameter(" + want.lit + ") compared with \"\" in every caller", true
			}
		}
	}
	return false, "no comparison of NamedParameter(" + want.lit + ") with \"\" dominates the insert", true
}

type h2want struct {
	recv ast.Expr
	lit  string
}

// emptinessGen accepts facts meaning "e is not empty" for e accepted by match.
func emptinessGen(info *types.Info, cf *cfgx.Func, match func(ast.Expr) bool) func(cfgx.Fact) bool {
	return func(fa cfgx.Fact) bool {
		be, ok := ast.Unparen(fa.Expr).(*ast.BinaryExpr)
		if !ok || (be.Op != token.EQL && be.Op != token.NEQ) {
			return false
		}
		x, y := be.X, be.Y
		if tv, ok := info.Types[x]; ok && tv.Value != nil {
			x, y = y, x
		}
		tv, ok := info.Types[y]
		if !ok || tv.Value == nil || tv.Value.ExactString() != `""` {
			return false
		}
		if !match(x) {
			return false
		}
		return (be.Op == token.NEQ) == fa.Truth
	}
}

// ---------------------------------------------------------------- H3 set-once slots

// RuleH3: singleton slots of the catalog model are written only after a test that
// they are still empty.
func RuleH3(c *Ctx) {
	sc := c.Run.Begin("H3", "every assignment of a singleton slot of the catalog model in the Catalog.Add* setters is dominated by a test that the slot is still zero (declared singletons are never silently overwritten)", 1)
	defer sc.End()
	pk := c.P.Pkg("catalog")
	cat := c.Named("catalog", "Catalog")
	if pk == nil || cat == nil {
		sc.Undecided("anchors", "-", "unresolved anchor: catalog.Catalog")
		return
	}
	info := pk.TypesInfo
	for i := 0; i < cat.NumMethods(); i++ {
		m := cat.Method(i)
		// the setters and their helpers (`addDescriptionToInteraction`)
		if !strings.HasPrefix(m.Name(), "Add") && !strings.HasPrefix(m.Name(), "add") {
			continue
		}
		fd := c.P.Decl(m)
		if fd == nil {
			continue
		}
		cfOuter := c.CFG(pk, fd.Body)
		n := 0
		ast.Inspect(fd.Body, func(x ast.Node) bool {
			as, ok := x.(*ast.AssignStmt)
			if !ok || len(as.Lhs) != 1 || as.Tok != token.ASSIGN {
				return true
			}
			lhs := as.Lhs[0]
			if _, isSel := ast.Unparen(lhs).(*ast.SelectorExpr); !isSel {
				return true
			}
			// accumulation is not a singleton write
			if call, ok := ast.Unparen(as.Rhs[0]).(*ast.CallExpr); ok {
				if id, ok := call.Fun.(*ast.Ident); ok && id.Name == "append" {
					return true
				}
			}
			body := innermostBody(fd, as)
			slot := c.slotOf(pk, fd, body, lhs)
			if slot == "" {
				if freshLocal(pk, c.CFG(pk, body.body), lhs) {
					return true // a structure created in this function is being filled
				}
				n++
				sc.Violation(fmt.Sprintf("%s:unresolved#%d", m.Name(), n), c.P.Pos(as.Pos()), "UNDECIDED: store into "+types.ExprString(lhs)+" whose target in the catalog model cannot be resolved")
				return true
			}
			n++
			key := fmt.Sprintf("%s:%s", m.Name(), slot)
			pos := c.P.Pos(as.Pos())
			gen := func(bi bodyInfo) func(cfgx.Fact) bool {
				return func(fa cfgx.Fact) bool {
					be, ok := ast.Unparen(fa.Expr).(*ast.BinaryExpr)
					if !ok || (be.Op != token.EQL && be.Op != token.NEQ) {
						return false
					}
					tv, ok := info.Types[be.Y]
					if !ok {
						return false
					}
					isZero := tv.IsNil() || (tv.Value != nil && (tv.Value.ExactString() == `""` || tv.Value.ExactString() == "0"))
					if !isZero {
						return false
					}
					if (be.Op == token.EQL) != fa.Truth {
						return false
					}
					return c.slotOf(pk, fd, bi, be.X) == slot
				}
			}
			ok2 := false
			if body.lit != nil {
				cfIn := c.CFG(pk, body.body)
				ok2 = cfIn.MustAt(as, gen(body), nil, nil)
				if !ok2 {
					// guard before the Update call that receives the literal
					if call := callReceivingLit(fd, body.lit); call != nil {
						ok2 = cfOuter.MustAt(call, gen(bodyInfo{body: fd.Body}), nil, nil)
					}
				}
			} else {
				ok2 = cfOuter.MustAt(as, gen(body), nil, nil)
			}
			if ok2 {
				// the occupied branch must reject: some `if <slot is not zero> { ... return <error> }`
				rejects := false
				ast.Inspect(fd.Body, func(y ast.Node) bool {
					ifs, ok := y.(*ast.IfStmt)
					if !ok || ifs.Else != nil {
						return true
					}
					be, ok := ast.Unparen(ifs.Cond).(*ast.BinaryExpr)
					if !ok || be.Op != token.NEQ {
						return true
					}
					bi := innermostBody(fd, ifs)
					if bi.lit != nil {
						return true // a test inside a callback cannot return the error to the caller
					}
					if c.slotOf(pk, fd, bi, be.X) == slot && endsWithErrorReturn(info, ifs.Body) {
						rejects = true
					}
					return true
				})
				if !rejects {
					// the same in any other shape: an error return that is reached only with the slot occupied
					occupied := func(fa cfgx.Fact) bool {
						be, ok := ast.Unparen(fa.Expr).(*ast.BinaryExpr)
						if !ok || (be.Op != token.EQL && be.Op != token.NEQ) {
							return false
						}
						tv, ok := info.Types[be.Y]
						if !ok {
							return false
						}
						isZero := tv.IsNil() || (tv.Value != nil && (tv.Value.ExactString() == `""` || tv.Value.ExactString() == "0"))
						if !isZero || (be.Op == token.NEQ) != fa.Truth {
							return false
						}
						if c.slotOf(pk, fd, bodyInfo{body: fd.Body}, be.X) == slot {
							return true
						}
						// `if err := mustBeUnset(slot); err != nil { return err }`: the helper answers
						// non-nil only for a non-zero argument
						if be.Op == token.NEQ == fa.Truth && tv.IsNil() {
							if hc, ok := ast.Unparen(cfOuter.Resolve(be.X)).(*ast.CallExpr); ok {
								if pi := c.rejectsNonZeroParam(Callee(info, hc)); pi >= 0 && pi < len(hc.Args) {
									return c.slotOf(pk, fd, bodyInfo{body: fd.Body}, hc.Args[pi]) == slot
								}
							}
						}
						return false
					}
					inspectNoLit(fd.Body, func(y ast.Node) bool {
						ret, ok := y.(*ast.ReturnStmt)
						if !ok || len(ret.Results) == 0 {
							return true
						}
						last := ret.Results[len(ret.Results)-1]
						if tv, has := info.Types[last]; !has || tv.IsNil() {
							return true
						}
						if cfOuter.MustAt(ret, occupied, nil, nil) {
							rejects = true
						}
						return true
					})
				}
				switch {
				case rejects:
					sc.Holds(key, pos, "dominated by a test that the slot is empty; an occupied slot is an error")
				case m.Name() == "AddRequest" && strings.HasSuffix(slot, ".Request"):
					sc.Exception(key, pos, h3SilentWhy)
				default:
					sc.Violation(key, pos, fmt.Sprintf("slot %s is protected against overwriting, but an occupied slot is not reported: a second directive of a kind that may occur once is silently ignored (the first one wins) instead of being rejected", slot))
				}
			} else {
				sc.Violation(key, pos, fmt.Sprintf("slot %s is assigned without a test that it is still empty: a second directive of a kind that may occur once silently overwrites the first (the last one wins) instead of being rejected", slot))
			}
			return true
		})
	}
}

// h3SilentOK: setters whose slot is created on first use by design.
const h3SilentWhy = "the Request record is created on first use: the Request directive and its Body child both call the same setter; Request itself is not in the property's list of singletons"

func callReceivingLit(fd *ast.FuncDecl, lit *ast.FuncLit) *ast.CallExpr {
	// the literal itself, or the local it was bound to (`set := func(...) {...}; X.Update(k, set)`)
	holder := ""
	ast.Inspect(fd.Body, func(n ast.Node) bool {
		if as, ok := n.(*ast.AssignStmt); ok && len(as.Lhs) == len(as.Rhs) {
			for i, r := range as.Rhs {
				if r == ast.Expr(lit) {
					if id, ok := as.Lhs[i].(*ast.Ident); ok {
						holder = id.Name
					}
				}
			}
		}
		return true
	})
	var res *ast.CallExpr
	ast.Inspect(fd.Body, func(n ast.Node) bool {
		if call, ok := n.(*ast.CallExpr); ok {
			for _, a := range call.Args {
				if a == ast.Expr(lit) {
					res = call
				}
				if id, ok := a.(*ast.Ident); ok && holder != "" && id.Name == holder && id.Pos() > lit.End() {
					res = call
				}
			}
		}
		return true
	})
	return res
}

// slotOf normalises an access path of the catalog model to "<collection>[<key>].path"
// or "c.path"; it returns "" for paths rooted at a structure created in this function.
func (c *Ctx) slotOf(pk *pkgT, fd *ast.FuncDecl, bi bodyInfo, e ast.Expr) string {
	info := pk.TypesInfo
	cf := c.CFG(pk, bi.body)
	var path []string
	cur := ast.Unparen(e)
	for depth := 0; depth < 12; depth++ {
		switch x := cur.(type) {
		case *ast.SelectorExpr:
			if v, ok := info.ObjectOf(x.Sel).(*types.Var); ok && v.IsField() {
				path = append([]string{x.Sel.Name}, path...)
				cur = ast.Unparen(x.X)
				continue
			}
			return ""
		case *ast.IndexExpr:
			path = append([]string{"[" + types.ExprString(x.Index) + "]"}, path...)
			cur = ast.Unparen(x.X)
			continue
		case *ast.TypeAssertExpr:
			cur = ast.Unparen(x.X)
			continue
		case *ast.StarExpr:
			cur = ast.Unparen(x.X)
			continue
		case *ast.UnaryExpr:
			if x.Op == token.AND {
				cur = ast.Unparen(x.X)
				continue
			}
			return ""
		case *ast.CallExpr:
			// COLL.GetValue(k) / COLL.Get(k)
			if f := Callee(info, x); f != nil && (f.Name() == "GetValue" || f.Name() == "Get") && len(x.Args) == 1 {
				return types.ExprString(Recv(x)) + "[" + types.ExprString(x.Args[0]) + "]." + strings.Join(path, ".")
			}
			return ""
		case *ast.Ident:
			obj := info.ObjectOf(x)
			if obj == nil {
				return ""
			}
			// receiver of the method
			if fd.Recv != nil && len(fd.Recv.List) == 1 && len(fd.Recv.List[0].Names) == 1 && info.ObjectOf(fd.Recv.List[0].Names[0]) == obj {
				return x.Name + "." + strings.Join(path, ".")
			}
			// parameter of a literal passed to COLL.Update(k, lit)
			if bi.lit != nil && paramIndexOfLit(info, bi.lit, obj) == 0 {
				if call := callReceivingLit(fd, bi.lit); call != nil && len(call.Args) == 2 {
					coll := types.ExprString(Recv(call))
					// a typed wrapper `c.updateX(id, func(v *X) {...})` around COLL.Update(id, ...):
					// the collection is the one the wrapper updates under its first parameter
					if g := Callee(info, call); g != nil && g.Name() != "Update" {
						if gd := c.P.Decl(g); gd != nil && len(gd.Type.Params.List) > 0 && len(gd.Type.Params.List[0].Names) > 0 {
							gpk := c.P.PkgOfDecl(gd)
							p0 := gpk.TypesInfo.ObjectOf(gd.Type.Params.List[0].Names[0])
							ast.Inspect(gd.Body, func(y ast.Node) bool {
								if inner, ok := y.(*ast.CallExpr); ok && len(inner.Args) == 2 {
									if h := Callee(gpk.TypesInfo, inner); h != nil && h.Name() == "Update" {
										if id0, ok := ast.Unparen(inner.Args[0]).(*ast.Ident); ok && gpk.TypesInfo.ObjectOf(id0) == p0 {
											coll = types.ExprString(Recv(inner))
										}
									}
								}
								return true
							})
						}
					}
					return coll + "[" + types.ExprString(call.Args[0]) + "]." + strings.Join(path, ".")
				}
				return ""
			}
			// local alias:  v := COLL.GetValue(k).(*T)   /   t, ok := COLL.Get(k)
			if cf.AssignedOnce(obj) {
				if r := cf.Resolve(x); r != ast.Expr(x) {
					cur = ast.Unparen(r)
					continue
				}
				if call := tupleDefCall(cf, info, x, 0); call != nil {
					if f := Callee(info, call); f != nil && (f.Name() == "GetValue" || f.Name() == "Get") {
						cur = call
						continue
					}
				}
				// result i of a lookup helper:  id, v, err := c.findInteraction(d)  where the
				// helper returns  id, COLL.GetValue(id).(*T), nil
				if s := c.slotThroughHelper(pk, cf, obj, path); s != "" {
					return s
				}
				// defined in the enclosing function body
				if bi.lit != nil {
					ocf := c.CFG(pk, fd.Body)
					if r := ocf.Resolve(x); r != ast.Expr(x) {
						cur = ast.Unparen(r)
						continue
					}
				}
			}
			return ""
		default:
			return ""
		}
	}
	return ""
}

func paramIndexOfLit(info *types.Info, lit *ast.FuncLit, obj types.Object) int {
	i := 0
	for _, fl := range lit.Type.Params.List {
		for _, nm := range fl.Names {
			if info.ObjectOf(nm) == obj {
				return i
			}
			i++
		}
	}
	return -1
}

// ---------------------------------------------------------------- K1 every kind has a consumer

// RuleK1: every directive kind is consumed somewhere.
func RuleK1(c *Ctx) {
	sc := c.Run.Begin("K1", "each directive kind is either a key of the handler table or is matched by a consumer in the scan/compile stages (a kind with no consumer is silently dropped by addDirective)", 1)
	defer sc.End()
	dpk := c.P.Pkg("directive")
	en := c.Named("directive", "Enumeration")
	table := c.handlerTable()
	if dpk == nil || en == nil || len(table) == 0 {
		sc.Undecided("anchors", "-", "unresolved anchor: directive.Enumeration / handler table")
		return
	}
	// references to each constant in core and catalog outside the table literal
	refs := map[string][]string{}
	for _, rel := range []string{"core", "catalog"} {
		pk := c.P.Pkg(rel)
		if pk == nil {
			continue
		}
		c.P.Funcs(func(p *pkgT, fd *ast.FuncDecl) {
			if p != pk {
				return
			}
			ast.Inspect(fd.Body, func(n ast.Node) bool {
				switch x := n.(type) {
				case *ast.CompositeLit:
					if _, isMap := pk.TypesInfo.TypeOf(x).Underlying().(*types.Map); isMap {
						return false // the handler table itself
					}
				case *ast.SelectorExpr:
					if cst, ok := pk.TypesInfo.ObjectOf(x.Sel).(*types.Const); ok && types.Identical(cst.Type(), en) {
						refs[cst.Name()] = append(refs[cst.Name()], c.P.DeclName(fd))
					}
				}
				return true
			})
		})
	}
	for _, cst := range EnumConsts(dpk, en) {
		name := cst.Name()
		if h, ok := table[name]; ok {
			sc.Holds(name, "-", "handler "+h.Name())
			continue
		}
		if fs := refs[name]; len(fs) > 0 {
			sort.Strings(fs)
			sc.Holds(name, "-", "consumed by "+strings.Join(uniq(fs), ", "))
			continue
		}
		sc.Violation(name, "-", fmt.Sprintf("directive kind %s has no handler in the table and is matched by no consumer: a directive of this kind is accepted by the scanner and then silently ignored", name))
	}
}

// RuleCK1: handlers that register a path run the similar-paths check on every
// successful path.
func RuleCK1(c *Ctx) {
	sc := c.Run.Begin("CK1", "every directive handler that derives path parameters (PathParameters) runs the similar-paths check on them on every path that does not end in an error", 1)
	defer sc.End()
	pp := c.Func("core", "PathParameters")
	chk := c.similarPathsCheck(pp)
	table := c.handlerTable()
	if pp == nil || chk == nil || len(table) == 0 {
		sc.Undecided("anchors", "-", "unresolved anchor: core.PathParameters / checkSimilarPaths / handler table")
		return
	}
	// every function that derives path parameters on behalf of a handler: the handlers
	// themselves, and the helpers they (transitively) call
	seen := map[*types.Func]bool{}
	var cands []*types.Func
	for _, h := range table {
		if hd := c.P.Decl(h); hd != nil {
			for _, f := range reachStatic(c.P, c.P.PkgOfDecl(hd), []*types.Func{h}) {
				if !seen[f] && f != chk && f != pp {
					seen[f] = true
					cands = append(cands, f)
				}
			}
		}
	}
	sort.Slice(cands, func(i, j int) bool { return cands[i].FullName() < cands[j].FullName() })
	for _, h := range cands {
		fd := c.P.Decl(h)
		if fd == nil {
			continue
		}
		pk := c.P.PkgOfDecl(fd)
		info := pk.TypesInfo
		calls := false
		ast.Inspect(fd.Body, func(n ast.Node) bool {
			if call, ok := n.(*ast.CallExpr); ok && Callee(info, call) == pp {
				calls = true
			}
			return true
		})
		if !calls {
			continue
		}
		cf := c.CFG(pk, fd.Body)
		genStmt := func(nd ast.Node) bool {
			found := false
			ast.Inspect(nd, func(x ast.Node) bool {
				if call, ok := x.(*ast.CallExpr); ok && Callee(info, call) == chk {
					found = true
				}
				return true
			})
			return found
		}
		bad := ""
		nRet := 0
		ast.Inspect(fd.Body, func(n ast.Node) bool {
			if _, isLit := n.(*ast.FuncLit); isLit {
				return false
			}
			ret, ok := n.(*ast.ReturnStmt)
			if !ok || len(ret.Results) != 1 {
				return true
			}
			// an error return built on the spot is not a success path
			if call, ok := ast.Unparen(ret.Results[0]).(*ast.CallExpr); ok {
				if g := Callee(info, call); g != nil && (g.Name() == "KeywordError" || g.Name() == "BodyError") {
					return true
				}
			}
			nRet++
			if !cf.MustAt(ret, nil, genStmt, nil) {
				bad = c.P.Pos(ret.Pos())
			}
			return true
		})
		key := h.Name()
		if bad == "" {
			sc.Holds(key, c.P.Pos(fd.Pos()), fmt.Sprintf("%d non-error returns, all after the similar-paths check", nRet))
		} else {
			sc.Violation(key, c.P.Pos(fd.Pos()), "the return at "+bad+" can be reached without running checkSimilarPaths on the path parameters: two paths that differ only in a parameter name are accepted when they go through this branch")
		}
	}
}

// similarPathsCheck finds, by signature, the method of JApiCore that takes the result type
// of PathParameters ([]PathParameter) as its only parameter and returns an error.
func (c *Ctx) similarPathsCheck(pp *types.Func) *types.Func {
	core := c.Named("core", "JApiCore")
	if pp == nil || core == nil {
		return nil
	}
	want := pp.Type().(*types.Signature).Results().At(0).Type()
	var found *types.Func
	n := 0
	for i := 0; i < core.NumMethods(); i++ {
		m := core.Method(i)
		sig := m.Type().(*types.Signature)
		if sig.Params().Len() == 1 && types.Identical(sig.Params().At(0).Type(), want) && sig.Results().Len() == 1 && isErrorType(sig.Results().At(0).Type()) {
			found = m
			n++
		}
	}
	if n != 1 {
		return nil
	}
	return found
}

// freshLocal: the access path is rooted at a local variable that this function
// created (composite literal, new, constructor call) - not yet part of the model.
func freshLocal(pk *pkgT, cf *cfgx.Func, e ast.Expr) bool {
	info := pk.TypesInfo
	root := cfgx.RootObj(info, e)
	v, ok := root.(*types.Var)
	if !ok || v.IsField() {
		return false
	}
	var def ast.Expr
	ast.Inspect(cf.Body, func(n ast.Node) bool {
		if as, ok := n.(*ast.AssignStmt); ok && len(as.Lhs) == len(as.Rhs) {
			for i, l := range as.Lhs {
				if id, ok := l.(*ast.Ident); ok && info.ObjectOf(id) == root {
					def = as.Rhs[i]
				}
			}
		}
		if vs, ok := n.(*ast.ValueSpec); ok {
			for _, nm := range vs.Names {
				if info.ObjectOf(nm) == root && len(vs.Values) == 0 {
					def = &ast.CompositeLit{}
				}
			}
		}
		return true
	})
	switch x := ast.Unparen(def).(type) {
	case *ast.CompositeLit:
		return true
	case *ast.UnaryExpr:
		_, isLit := x.X.(*ast.CompositeLit)
		return isLit
	case *ast.CallExpr:
		if id, ok := x.Fun.(*ast.Ident); ok && (id.Name == "new" || strings.HasPrefix(id.Name, "New") || strings.HasPrefix(id.Name, "new")) {
			return true
		}
	}
	return false
}

// ---------------------------------------------------------------- MC1

// RuleMC1: a uniqueness collection is never consulted to skip its own duplicate test.
// Where an inserter refuses a second entry (`if X.Has(k) { return error }; X.Set(k, v)`), no
// function on the way to that inserter may return success *because* the entry is already
// there without having gone through the inserter: "found means done" and "found means
// duplicate" are contradictory beliefs about one collection, and the shortcut turns the
// second declaration (the same macro pasted twice, the same file included twice) into a
// silent success.
func RuleMC1(c *Ctx) {
	sc := c.Run.Begin("MC1", "for every collection whose inserter rejects an existing key, no function that reaches that inserter returns success under the fact 'the key is already present' without having called the inserter", 1)
	defer sc.End()
	// collection fields: selector X.f where the type of f (or what it points to) has methods Set and Has
	isColl := func(t types.Type) bool {
		ms := types.NewMethodSet(t)
		if ms.Lookup(nil, "Set") == nil {
			ms = types.NewMethodSet(types.NewPointer(t))
		}
		hasSet, hasHas := false, false
		for i := 0; i < ms.Len(); i++ {
			switch ms.At(i).Obj().Name() {
			case "Set":
				hasSet = true
			case "Has":
				hasHas = true
			}
		}
		return hasSet && hasHas
	}
	collOf := func(info *types.Info, call *ast.CallExpr) (*types.Var, string) {
		sel, ok := ast.Unparen(call.Fun).(*ast.SelectorExpr)
		if !ok {
			return nil, ""
		}
		rsel, ok := ast.Unparen(sel.X).(*ast.SelectorExpr)
		if !ok {
			return nil, ""
		}
		fld, ok := info.ObjectOf(rsel.Sel).(*types.Var)
		if !ok || !fld.IsField() || !isColl(fld.Type()) {
			return nil, ""
		}
		return fld, sel.Sel.Name
	}
	// found-fact on collection X: `X.Has(k)` true, or ok (true) of `_, ok := X.Get(k)`
	foundFact := func(pk *pkgT, cf *cfgx.Func, fa cfgx.Fact) *types.Var {
		info := pk.TypesInfo
		e := ast.Unparen(fa.Expr)
		if !fa.Truth {
			return nil
		}
		if call, ok := e.(*ast.CallExpr); ok {
			if f, m := collOf(info, call); f != nil && m == "Has" {
				return f
			}
		}
		if id, ok := e.(*ast.Ident); ok {
			obj := info.ObjectOf(id)
			var out *types.Var
			ast.Inspect(cf.Body, func(n ast.Node) bool {
				as, isAs := n.(*ast.AssignStmt)
				if !isAs || len(as.Lhs) != 2 || len(as.Rhs) != 1 {
					return true
				}
				if l, isId := as.Lhs[1].(*ast.Ident); isId && info.ObjectOf(l) == obj {
					if call, isCall := ast.Unparen(as.Rhs[0]).(*ast.CallExpr); isCall {
						if f, m := collOf(info, call); f != nil && m == "Get" {
							out = f
						}
					}
				}
				return true
			})
			return out
		}
		return nil
	}
	isSuccess := func(info *types.Info, ret *ast.ReturnStmt) bool {
		if len(ret.Results) == 0 {
			return false
		}
		last := ret.Results[len(ret.Results)-1]
		tv, ok := info.Types[last]
		return ok && tv.IsNil() && isErrorLike(info.TypeOf(last)) || (ok && tv.IsNil())
	}
	// rejecting inserters per collection
	inserters := map[*types.Var]map[*types.Func]bool{}
	c.P.Funcs(func(pk *pkgT, fd *ast.FuncDecl) {
		info := pk.TypesInfo
		self, _ := info.Defs[fd.Name].(*types.Func)
		if self == nil {
			return
		}
		sets := map[*types.Var]bool{}
		ast.Inspect(fd.Body, func(n ast.Node) bool {
			if call, ok := n.(*ast.CallExpr); ok {
				if f, m := collOf(info, call); f != nil && m == "Set" {
					sets[f] = true
				}
			}
			return true
		})
		if len(sets) == 0 {
			return
		}
		cf := c.CFG(pk, fd.Body)
		inspectNoLit(fd.Body, func(n ast.Node) bool {
			ret, ok := n.(*ast.ReturnStmt)
			if !ok || len(ret.Results) == 0 || isSuccess(info, ret) {
				return true
			}
			for _, fa := range cf.FactsAt(ret) {
				if x := foundFact(pk, cf, fa); x != nil && sets[x] {
					if inserters[x] == nil {
						inserters[x] = map[*types.Func]bool{}
					}
					inserters[x][self] = true
				}
			}
			return true
		})
	})
	if len(inserters) == 0 {
		sc.Undecided("inserters", "-", "no duplicate-rejecting inserter found")
		return
	}
	n := 0
	c.P.Funcs(func(pk *pkgT, fd *ast.FuncDecl) {
		info := pk.TypesInfo
		self, _ := info.Defs[fd.Name].(*types.Func)
		// which collections' inserters does this function reach (itself, or by a static call, depth 2)?
		reach := map[*types.Var][]*types.Func{}
		for x, fs := range inserters {
			for f := range fs {
				if f == self {
					reach[x] = append(reach[x], f)
				}
			}
		}
		for _, g := range staticCallees(c.P, info, fd.Body) {
			for x, fs := range inserters {
				if fs[g] {
					reach[x] = append(reach[x], g)
					continue
				}
				if gd := c.P.Decl(g); gd != nil {
					for _, h := range staticCallees(c.P, c.P.PkgOfDecl(gd).TypesInfo, gd.Body) {
						if fs[h] {
							reach[x] = append(reach[x], g)
						}
					}
				}
			}
		}
		if len(reach) == 0 {
			return
		}
		cf := c.CFG(pk, fd.Body)
		for x, via := range reach {
			n++
			key := fmt.Sprintf("%s:%s", x.Name(), c.P.DeclName(fd))
			callsInserter := func(nd ast.Node) bool {
				hit := false
				ast.Inspect(nd, func(y ast.Node) bool {
					if call, ok := y.(*ast.CallExpr); ok {
						g := Callee(info, call)
						for _, v := range via {
							if g == v {
								hit = true
							}
						}
						if f, m := collOf(info, call); f == x && m == "Set" {
							hit = true
						}
					}
					return true
				})
				return hit
			}
			bad := ""
			inspectNoLit(fd.Body, func(nd ast.Node) bool {
				ret, ok := nd.(*ast.ReturnStmt)
				if !ok || !isSuccess(info, ret) {
					return true
				}
				found := false
				for _, fa := range cf.FactsAt(ret) {
					if foundFact(pk, cf, fa) == x {
						found = true
					}
				}
				if !found {
					return true
				}
				// a return statement that itself calls the inserter (return X.add(...)) is fine
				if callsInserter(ret) || cf.MustAt(ret, nil, callsInserter, nil) {
					return true
				}
				bad = c.P.Pos(ret.Pos())
				return true
			})
			if bad == "" {
				sc.Holds(key, c.P.Pos(fd.Pos()), "no success return that skips the inserter because the key is present")
			} else {
				sc.Violation(key, c.P.Pos(fd.Pos()), "the success return at "+bad+" is taken because "+x.Name()+" already holds the key, and skips the inserter whose job is to reject exactly that: a second declaration of the same name (the same macro pasted twice, a file included twice) is silently accepted")
			}
		}
	})
	if n == 0 {
		sc.Undecided("sites", "-", "no function reaching a duplicate-rejecting inserter")
	}
	c.mc2MemoSkips(sc, inserters, isSuccess)
}

// mc2MemoSkips: the same contradiction through a memo of the caller's own. A call that
// leads to a duplicate-rejecting inserter is made once per DECLARATION; the memo idiom
//
//	if _, done := core.seen[k]; !done { je := core.collect(...); ...; core.seen[k] = struct{}{} }
//
// makes it once per KEY and lets every later declaration with that key through to a success
// return without the inserter having been asked. Obligation (per function, map field and
// guarded call): where a call that reaches a rejecting inserter is dominated by the fact
// "k is absent from M" for a map field M that the function also stores into, every success
// return that can follow the lookup is reached only over that same fact or over the call.
// The recursion guard (`if _, on := M[k]; on { return error }`) satisfies it: the present
// branch ends in an error.
func (c *Ctx) mc2MemoSkips(sc *report.RuleScope, inserters map[*types.Var]map[*types.Func]bool, isSuccess func(*types.Info, *ast.ReturnStmt) bool) {
	ins := map[*types.Func]bool{}
	for _, fs := range inserters {
		for f := range fs {
			ins[f] = true
		}
	}
	// reaches: functions from which a rejecting inserter is reachable by static calls
	reaches := map[*types.Func]bool{}
	for f := range ins {
		reaches[f] = true
	}
	type fn struct {
		self    *types.Func
		callees []*types.Func
	}
	var all []fn
	c.P.Funcs(func(pk *pkgT, fd *ast.FuncDecl) {
		self, _ := pk.TypesInfo.Defs[fd.Name].(*types.Func)
		if self != nil {
			all = append(all, fn{self, staticCallees(c.P, pk.TypesInfo, fd.Body)})
		}
	})
	for changed := true; changed; {
		changed = false
		for _, f := range all {
			if reaches[f.self] {
				continue
			}
			for _, g := range f.callees {
				if reaches[g] {
					reaches[f.self] = true
					changed = true
					break
				}
			}
		}
	}
	pk := c.P.Pkg("core")
	if pk == nil {
		return
	}
	info := pk.TypesInfo
	nGuarded := 0
	c.P.Funcs(func(p *pkgT, fd *ast.FuncDecl) {
		if p != pk {
			return
		}
		// map fields stored into by this function
		stored := map[*types.Var]bool{}
		mapField := func(e ast.Expr) *types.Var {
			sel, ok := ast.Unparen(e).(*ast.SelectorExpr)
			if !ok {
				return nil
			}
			v, ok := info.ObjectOf(sel.Sel).(*types.Var)
			if !ok || !v.IsField() {
				return nil
			}
			if _, isMap := v.Type().Underlying().(*types.Map); !isMap {
				return nil
			}
			return v
		}
		inspectNoLit(fd.Body, func(n ast.Node) bool {
			if as, ok := n.(*ast.AssignStmt); ok {
				for _, l := range as.Lhs {
					if ix, ok := ast.Unparen(l).(*ast.IndexExpr); ok {
						if m := mapField(ix.X); m != nil {
							stored[m] = true
						}
					}
				}
			}
			return true
		})
		if len(stored) == 0 {
			return
		}
		cf := c.CFG(pk, fd.Body)
		absentOf := func(m *types.Var) func(cfgx.Fact) bool {
			return func(fa cfgx.Fact) bool {
				if fa.Truth || fa.Derived {
					return false
				}
				if _, isId := ast.Unparen(fa.Expr).(*ast.Ident); !isId {
					return false
				}
				mm, _, found := mapLookupOf(info, cf, fa.Expr)
				return found && mapField(mm) == m
			}
		}
		isLookupOf := func(m *types.Var) func(ast.Node) bool {
			return func(n ast.Node) bool {
				as, ok := n.(*ast.AssignStmt)
				if !ok || len(as.Lhs) != 2 || len(as.Rhs) != 1 {
					return false
				}
				ix, ok := ast.Unparen(as.Rhs[0]).(*ast.IndexExpr)
				return ok && mapField(ix.X) == m
			}
		}
		var ms []*types.Var
		for m := range stored {
			ms = append(ms, m)
		}
		sort.Slice(ms, func(i, j int) bool { return ms[i].Name() < ms[j].Name() })
		for _, m := range ms {
			absent := absentOf(m)
			var guarded []*ast.CallExpr
			inspectNoLit(fd.Body, func(n ast.Node) bool {
				call, ok := n.(*ast.CallExpr)
				if !ok {
					return true
				}
				if g := Callee(info, call); g != nil && reaches[g] && cf.MustAt(call, absent, nil, nil) {
					guarded = append(guarded, call)
				}
				return true
			})
			if len(guarded) == 0 {
				continue
			}
			nGuarded++
			isGuarded := func(nd ast.Node) bool {
				hit := false
				ast.Inspect(nd, func(y ast.Node) bool {
					for _, g := range guarded {
						if y == ast.Node(g) {
							hit = true
						}
					}
					return true
				})
				return hit
			}
			key := fmt.Sprintf("memo:%s:%s", m.Name(), c.P.DeclName(fd))
			bad := ""
			inspectNoLit(fd.Body, func(nd ast.Node) bool {
				ret, ok := nd.(*ast.ReturnStmt)
				if !ok || !(isSuccess(info, ret) || handsOnVerdict(info, ret)) {
					return true
				}
				if cf.MustAtInit(ret, true, nil, nil, isLookupOf(m)) {
					return true // no path to this return passes the lookup
				}
				if cf.MustAt(ret, absent, nil, nil) || cf.MustAt(ret, nil, isGuarded, nil) {
					return true
				}
				bad = c.P.Pos(ret.Pos())
				return true
			})
			if bad == "" {
				sc.Holds(key, c.P.Pos(fd.Pos()), fmt.Sprintf("%d call(s) towards a duplicate-rejecting inserter run only when the key is absent from %s, and the present branch never ends in success", len(guarded), m.Name()))
			} else {
				sc.Violation(key, c.P.Pos(guarded[0].Pos()), "the call that leads to a duplicate-rejecting inserter is skipped when "+m.Name()+" already holds the key, and the function still returns success at "+bad+": what the call would have declared a second time (an ENUM of a macro pasted twice) is never offered to the duplicate test")
			}
		}
	})
	sc.Info("memo", "-", fmt.Sprintf("%d function/map pairs in which a call towards a rejecting inserter is guarded by key absence", nGuarded))
}

// h1CallersLookedUp: the key of the insert is a parameter of the function and every static
// caller reaches the call only after a lookup (not found) of its argument in the same map -
// made there or, through a fact summary, by a helper the caller consulted first.
func (c *Ctx) h1CallersLookedUp(pk *pkgT, fd *ast.FuncDecl, ix *ast.IndexExpr) (string, bool) {
	info := pk.TypesInfo
	id, ok := ast.Unparen(ix.Index).(*ast.Ident)
	if !ok {
		return "", false
	}
	obj := info.ObjectOf(id)
	pidx := paramIndexOf(info, fd, obj)
	if pidx < 0 || assignedAnywhere(info, fd.Body, obj) {
		return "", false
	}
	msel, ok := ast.Unparen(ix.X).(*ast.SelectorExpr)
	if !ok {
		return "", false
	}
	self, _ := info.Defs[fd.Name].(*types.Func)
	if self == nil || c.usedAsValue(self) {
		return "", false
	}
	sites := c.callSitesOf(self)
	if len(sites) == 0 {
		return "", false
	}
	for _, cs := range sites {
		if pidx >= len(cs.Call.Args) {
			return "", false
		}
		cinfo := cs.Pk.TypesInfo
		cf := c.CFG(cs.Pk, cs.Body)
		arg := cs.Call.Args[pidx]
		gen := func(fa cfgx.Fact) bool {
			if fa.Truth {
				return false
			}
			m, k, found := mapLookupOf(cinfo, cf, fa.Expr)
			if !found {
				return false
			}
			sm, ok := ast.Unparen(m).(*ast.SelectorExpr)
			if !ok || cinfo.ObjectOf(sm.Sel) != info.ObjectOf(msel.Sel) {
				return false
			}
			return cfgx.SameExpr(cinfo, k, arg) || cf.SameResolved(k, arg)
		}
		if !cf.MustAt(cs.Call, gen, nil, nil) {
			return "", false
		}
	}
	return fmt.Sprintf("the key is a parameter and all %d callers reach the call only after a lookup (not found) of it", len(sites)), true
}

// h1SetCallersLookedUp: the insert sits in a helper whose key is built from its parameters
// only; every static caller reaches the call after Has/Get (not found) on the same
// collection with the key the helper will build from that caller's arguments.
func (c *Ctx) h1SetCallersLookedUp(cs callSite, fld *types.Var, canon string) (string, bool) {
	if cs.Lit != nil {
		return "", false
	}
	self := declObj(cs)
	if self == nil || c.usedAsValue(self) {
		return "", false
	}
	sites := c.callSitesOf(self)
	if len(sites) == 0 {
		return "", false
	}
	var params []string
	for _, fl := range cs.Decl.Type.Params.List {
		for _, nm := range fl.Names {
			params = append(params, nm.Name)
		}
	}
	for _, up := range sites {
		uinfo := up.Pk.TypesInfo
		ucf := c.CFG(up.Pk, up.Body)
		want := canon
		for i, p := range params {
			if i < len(up.Call.Args) {
				want = regexp.MustCompile(`\b`+regexp.QuoteMeta(p)+`\b`).ReplaceAllString(want, types.ExprString(ucf.Resolve(up.Call.Args[i])))
			}
		}
		gen := func(fa cfgx.Fact) bool {
			if fa.Truth {
				return false
			}
			var look *ast.CallExpr
			if call, ok := ast.Unparen(fa.Expr).(*ast.CallExpr); ok {
				if g := Callee(uinfo, call); g != nil && g.Name() == "Has" && len(call.Args) == 1 {
					look = call
				}
			}
			if id, ok := ast.Unparen(fa.Expr).(*ast.Ident); ok {
				if call := tupleDefCall(ucf, uinfo, id, 1); call != nil {
					if g := Callee(uinfo, call); g != nil && g.Name() == "Get" && len(call.Args) == 1 {
						look = call
					}
				}
			}
			if look == nil {
				return false
			}
			rs, ok := ast.Unparen(Recv(look)).(*ast.SelectorExpr)
			if !ok || uinfo.ObjectOf(rs.Sel) != types.Object(fld) {
				return false
			}
			return c.canonKey(up.Pk, ucf, look.Args[0]) == want || types.ExprString(ucf.Resolve(look.Args[0])) == want
		}
		if !ucf.MustAt(up.Call, gen, nil, nil) {
			return "", false
		}
	}
	return fmt.Sprintf("the key is built from the helper's parameters and all %d callers reach the call only after Has/Get (not found) on that key", len(sites)), true
}

// slotThroughHelper: obj is result i of a helper call `a, obj, err := h(...)`; the helper's
// success returns hand out, at position i, a local defined as COLL.GetValue(k) / COLL.Get(k)
// with k the local handed out at position j: the slot is COLL[<caller's j-th variable>].
func (c *Ctx) slotThroughHelper(pk *pkgT, cf *cfgx.Func, obj types.Object, path []string) string {
	info := pk.TypesInfo
	rhs, idx, ok := cf.TupleDefOf(obj)
	if !ok {
		return ""
	}
	call, ok := ast.Unparen(rhs).(*ast.CallExpr)
	if !ok {
		return ""
	}
	h := Callee(info, call)
	hd := c.P.Decl(h)
	if hd == nil {
		return ""
	}
	hpk := c.P.PkgOfDecl(hd)
	ros := c.resultObjs(hpk, hd, retSuccess)
	if s := c.slotOfHelperResult(pk, cf, obj, call, hpk, hd, idx, ros); s != "" {
		if len(path) == 0 {
			return s
		}
		return strings.TrimSuffix(s, ".") + "." + strings.Join(path, ".")
	}
	if idx >= len(ros) || ros[idx] == nil {
		return ""
	}
	cfh := c.CFG(hpk, hd.Body)
	def := cfh.DefOf(ros[idx])
	if def == nil {
		return ""
	}
	e := ast.Unparen(def)
	if ta, ok := e.(*ast.TypeAssertExpr); ok {
		e = ast.Unparen(ta.X)
	}
	get, ok := e.(*ast.CallExpr)
	if !ok || len(get.Args) != 1 {
		return ""
	}
	if f := Callee(hpk.TypesInfo, get); f == nil || (f.Name() != "GetValue" && f.Name() != "Get") {
		return ""
	}
	kid, ok := ast.Unparen(get.Args[0]).(*ast.Ident)
	if !ok {
		return ""
	}
	kobj := hpk.TypesInfo.ObjectOf(kid)
	lhs := cf.AssignOf(obj)
	if lhs == nil {
		return ""
	}
	for j, ro := range ros {
		if ro != nil && ro == kobj && j < len(lhs.Lhs) {
			return types.ExprString(Recv(get)) + "[" + types.ExprString(lhs.Lhs[j]) + "]." + strings.Join(path, ".")
		}
	}
	return ""
}

// slotOfHelperResult: the i-th result of a lookup helper on its success returns is an access
// path of the catalog model (`return id, v.Request, nil` with v := COLL.GetValue(id).(*T)); it
// is normalised in the helper and re-expressed in the caller's names (the key the helper
// returns as result j is the caller's j-th left-hand side, a key parameter is the argument,
// the receiver is the caller's receiver expression).
func (c *Ctx) slotOfHelperResult(pk *pkgT, cf *cfgx.Func, obj types.Object, call *ast.CallExpr, hpk *pkgT, hd *ast.FuncDecl, idx int, ros []types.Object) string {
	hinfo := hpk.TypesInfo
	var res ast.Expr
	agree := true
	inspectNoLit(hd.Body, func(n ast.Node) bool {
		ret, ok := n.(*ast.ReturnStmt)
		if !ok || idx >= len(ret.Results) {
			return true
		}
		last := ret.Results[len(ret.Results)-1]
		if tv, has := hinfo.Types[last]; !has || !(tv.IsNil() || (tv.Value != nil && tv.Value.String() == "true")) {
			return true
		}
		if res != nil && !cfgx.SameExpr(hinfo, res, ret.Results[idx]) {
			agree = false
		}
		res = ret.Results[idx]
		return true
	})
	if res == nil || !agree {
		return ""
	}
	s := c.slotOf(hpk, hd, bodyInfo{body: hd.Body}, res)
	if s == "" {
		return ""
	}
	lhs := cf.AssignOf(obj)
	if lhs == nil {
		return ""
	}
	// keys
	for j, ro := range ros {
		if ro != nil && j < len(lhs.Lhs) {
			s = strings.ReplaceAll(s, "["+ro.Name()+"]", "["+types.ExprString(lhs.Lhs[j])+"]")
		}
	}
	i := 0
	for _, fl := range hd.Type.Params.List {
		for _, nm := range fl.Names {
			if i < len(call.Args) {
				s = strings.ReplaceAll(s, "["+nm.Name+"]", "["+types.ExprString(call.Args[i])+"]")
			}
			i++
		}
	}
	// receiver
	if hd.Recv != nil && len(hd.Recv.List) == 1 && len(hd.Recv.List[0].Names) == 1 {
		if r := Recv(call); r != nil {
			rn := hd.Recv.List[0].Names[0].Name
			if strings.HasPrefix(s, rn+".") {
				s = types.ExprString(r) + s[len(rn):]
			}
		}
	}
	return s
}

// handsOnVerdict: `return f(...)` where f is not an error constructor - the function
// succeeds whenever f does.
func handsOnVerdict(info *types.Info, ret *ast.ReturnStmt) bool {
	if len(ret.Results) == 0 {
		return false
	}
	call, ok := ast.Unparen(ret.Results[len(ret.Results)-1]).(*ast.CallExpr)
	if !ok {
		return false
	}
	g := Callee(info, call)
	if g == nil {
		return false
	}
	nm := g.Name()
	if strings.Contains(nm, "Error") || strings.Contains(nm, "Errorf") || (g.Pkg() != nil && g.Pkg().Path() == "errors") {
		return false
	}
	return true
}

// ---------------------------------------------------------------- PU1

// RulePU1: "only one Path under a parent" is decided against ALL the Paths met under that
// parent. The walk that collects Path directives (the function that switches on the kind
// directive.Path, and what it calls) contains a rejection with the not-unique diagnostic;
// and no such rejection is decided by comparing with one neighbouring element only - the
// last collected entry (`s[len(s)-1]`) or the previous sibling (`dd[i-1]`). A neighbour test
// finds a repeat only when equal things are adjacent, and in a walk that descends into the
// children between two siblings, or with another child standing between two Paths, they
// are not.
func RulePU1(c *Ctx) {
	sc := c.Run.Begin("PU1", "the walk that collects Path directives rejects a second Path of one parent with the not-unique diagnostic, and decides it from everything met so far, never from one neighbouring element (s[len(s)-1], dd[i-1])", 1)
	defer sc.End()
	pk := c.P.Pkg("core")
	dpk := c.P.Pkg("directive")
	if pk == nil || dpk == nil {
		sc.Undecided("anchors", "-", "unresolved anchor: packages core / directive")
		return
	}
	pathConst, _ := dpk.Types.Scope().Lookup("Path").(*types.Const)
	if pathConst == nil {
		sc.Undecided("anchors", "-", "unresolved anchor: directive.Path")
		return
	}
	info := pk.TypesInfo
	// the collectors: functions with `case directive.Path` inside a loop over a []*Directive
	var collectors []*ast.FuncDecl
	c.P.Funcs(func(p *pkgT, fd *ast.FuncDecl) {
		if p != pk {
			return
		}
		loops := false
		ast.Inspect(fd.Body, func(n ast.Node) bool {
			switch n.(type) {
			case *ast.ForStmt, *ast.RangeStmt:
				loops = true
			}
			return true
		})
		if !loops {
			return
		}
		hit := false
		isPath := func(e ast.Expr) bool {
			sel, ok := ast.Unparen(e).(*ast.SelectorExpr)
			return ok && info.ObjectOf(sel.Sel) == types.Object(pathConst)
		}
		ast.Inspect(fd.Body, func(n ast.Node) bool {
			switch x := n.(type) {
			case *ast.CaseClause:
				if len(x.List) == 1 && isPath(x.List[0]) {
					hit = true
				}
			case *ast.BinaryExpr:
				// the if-chain form: d.Type() == directive.Path
				if x.Op == token.EQL && (isPath(x.X) || isPath(x.Y)) {
					hit = true
				}
			}
			return true
		})
		// the walk recurses into the children
		if hit {
			self, _ := info.Defs[fd.Name].(*types.Func)
			rec := false
			for _, g := range staticCallees(c.P, info, fd.Body) {
				if g == self {
					rec = true
				}
			}
			hit = rec
		}
		// only the walk that hands the Path on to a collecting function, not the handler table
		if hit && strings.Contains(strings.ToLower(fd.Name.Name), "path") {
			collectors = append(collectors, fd)
		}
	})
	if len(collectors) == 0 {
		sc.Undecided("collector", "-", "unresolved anchor: the walk that switches on directive.Path")
		return
	}
	for _, col := range collectors {
		family := []*ast.FuncDecl{col}
		seen := map[*ast.FuncDecl]bool{col: true}
		for depth := 0; depth < 2; depth++ {
			for _, fd := range append([]*ast.FuncDecl(nil), family...) {
				for _, g := range staticCallees(c.P, info, fd.Body) {
					if gd := c.P.Decl(g); gd != nil && c.P.PkgOfDecl(gd) == pk && !seen[gd] {
						seen[gd] = true
						family = append(family, gd)
					}
				}
			}
		}
		rejections, adjacent := 0, 0
		for _, fd := range family {
			cf := c.CFG(pk, fd.Body)
			inspectNoLit(fd.Body, func(n ast.Node) bool {
				ifs, ok := n.(*ast.IfStmt)
				if !ok || !endsWithErrorReturn(info, ifs.Body) {
					return true
				}
				ret := ifs.Body.List[len(ifs.Body.List)-1]
				notUnique := false
				ast.Inspect(ret, func(y ast.Node) bool {
					if id, ok := y.(*ast.Ident); ok {
						if k, ok := info.ObjectOf(id).(*types.Const); ok && k.Name() == "NotUniqueDirective" {
							notUnique = true
						}
					}
					return true
				})
				if !notUnique {
					return true
				}
				rejections++
				// the condition with the definitions of the locals it reads
				var neighbour ast.Node
				var look func(e ast.Node, depth int)
				look = func(e ast.Node, depth int) {
					ast.Inspect(e, func(y ast.Node) bool {
						switch z := y.(type) {
						case *ast.IndexExpr:
							if be, ok := ast.Unparen(z.Index).(*ast.BinaryExpr); ok && be.Op == token.SUB {
								if tv, ok := info.Types[be.Y]; ok && tv.Value != nil && tv.Value.ExactString() == "1" {
									if neighbour == nil {
										neighbour = z
									}
								}
							}
						case *ast.Ident:
							if depth < 3 {
								if def := cf.DefOf(info.ObjectOf(z)); def != nil {
									look(def, depth+1)
								}
							}
						}
						return true
					})
				}
				look(ifs.Cond, 0)
				if neighbour != nil {
					adjacent++
					sc.Violation(c.P.DeclName(fd)+":neighbour-only", c.P.Pos(neighbour.Pos()), "the not-unique rejection is decided by comparing with one neighbouring element ("+types.ExprString(neighbour.(ast.Expr))+"): two Paths of one parent are found only when nothing was collected or stands between them - `URL ( Path GET ( Path ) Path )` is accepted - and two pasted copies of one directive that follow each other are taken for one parent")
				}
				return true
			})
		}
		key := c.P.DeclName(col) + ":second-path-rejected"
		switch {
		case rejections == 0:
			sc.Violation(key, c.P.Pos(col.Pos()), "the walk that collects Path directives has no rejection with the not-unique diagnostic: a second Path under one parent is accepted")
		case adjacent == 0:
			sc.Holds(key, c.P.Pos(col.Pos()), fmt.Sprintf("%d rejection(s) with the not-unique diagnostic in the walk (%d functions), none decided from a neighbouring element only", rejections, len(family)))
		}
	}
}

// ---------------------------------------------------------------- RP1

// RuleRP1: "required parameter P not specified" is said exactly when P is empty. An error
// return that builds its message from jerr.RequiredParameterNotSpecified and the literal
// name of a directive parameter is reached under the fact `NamedParameter(P) == ""` for that
// same P (directly, or through a local that holds the value). A guard borrowed from an
// accessor (`_, err := d.JsonRpcMethodName(); err != nil`) reports other failures under this
// message and lets the empty parameter through.
func RuleRP1(c *Ctx) {
	sc := c.Run.Begin("RP1", "every 'required parameter P not specified' rejection of a directive parameter is guarded by NamedParameter(P) == \"\" for the same P", 1)
	defer sc.End()
	named := c.Func("directive", "Directive.NamedParameter")
	if named == nil {
		sc.Undecided("anchors", "-", "unresolved anchor: Directive.NamedParameter")
		return
	}
	// reporters: helpers that build the message from the constant and a string parameter
	// (`missingParameterError(d, "Name")`); reporter -> index of that parameter
	reporters := map[*types.Func]int{}
	c.P.Funcs(func(pk *pkgT, fd *ast.FuncDecl) {
		info := pk.TypesInfo
		self, _ := info.Defs[fd.Name].(*types.Func)
		if self == nil {
			return
		}
		uses := false
		ast.Inspect(fd.Body, func(y ast.Node) bool {
			if z, ok := y.(*ast.SelectorExpr); ok {
				if k, ok := info.ObjectOf(z.Sel).(*types.Const); ok && k.Name() == "RequiredParameterNotSpecified" {
					uses = true
				}
			}
			return true
		})
		if !uses {
			return
		}
		pi := 0
		for _, fl := range fd.Type.Params.List {
			for _, nm := range fl.Names {
				o := info.ObjectOf(nm)
				if b, ok := o.Type().Underlying().(*types.Basic); ok && b.Info()&types.IsString != 0 {
					used := false
					ast.Inspect(fd.Body, func(y ast.Node) bool {
						if id, ok := y.(*ast.Ident); ok && info.ObjectOf(id) == o {
							used = true
						}
						return true
					})
					if used {
						reporters[self] = pi
					}
				}
				pi++
			}
		}
	})
	n := 0
	perFn := map[*ast.FuncDecl]int{}
	c.P.Funcs(func(pk *pkgT, fd *ast.FuncDecl) {
		info := pk.TypesInfo
		if self, _ := info.Defs[fd.Name].(*types.Func); self != nil {
			if _, isRep := reporters[self]; isRep {
				return
			}
		}
		// only functions that read named parameters at all (the INCLUDE file name, for
		// instance, is a lexeme, not a named parameter)
		reads := false
		dirT := c.Named("directive", "Directive")
		for _, fl := range fd.Type.Params.List {
			t := info.TypeOf(fl.Type)
			if p, ok := t.(*types.Pointer); ok {
				t = p.Elem()
			}
			if dirT != nil && t != nil && types.Identical(t, dirT) {
				reads = true // the function handles a directive
			}
		}
		ast.Inspect(fd.Body, func(x ast.Node) bool {
			if call, ok := x.(*ast.CallExpr); ok && Callee(info, call) == named {
				reads = true
			}
			return !reads
		})
		ast.Inspect(fd.Body, func(x ast.Node) bool {
			ret, ok := x.(*ast.ReturnStmt)
			if !ok || len(ret.Results) == 0 {
				return true
			}
			isReq, lit := false, ""
			ast.Inspect(ret, func(y ast.Node) bool {
				switch z := y.(type) {
				case *ast.SelectorExpr:
					if k, ok := info.ObjectOf(z.Sel).(*types.Const); ok && k.Name() == "RequiredParameterNotSpecified" {
						isReq = true
					}
				case *ast.BasicLit:
					if z.Kind == token.STRING && !strings.ContainsAny(z.Value, "% ") {
						lit = strings.Trim(z.Value, "\"`")
					}
				}
				return true
			})
			// or through a reporter helper with the name as a literal argument
			if !isReq {
				ast.Inspect(ret, func(y ast.Node) bool {
					if call, ok := y.(*ast.CallExpr); ok {
						if pi, isRep := reporters[Callee(info, call)]; isRep && pi < len(call.Args) {
							if tv, ok := info.Types[call.Args[pi]]; ok && tv.Value != nil {
								isReq, lit = true, strings.Trim(tv.Value.ExactString(), "\"")
							}
						}
					}
					return true
				})
			}
			if !isReq || lit == "" {
				return true
			}
			if !reads {
				return true
			}
			n++
			perFn[fd]++
			key := fmt.Sprintf("%s:%s#%d", c.P.DeclName(fd), lit, perFn[fd])
			body := innermostBody(fd, ret)
			cf := c.CFG(pk, body.body)
			isParam := func(e ast.Expr) bool {
				r := ast.Unparen(cf.Resolve(e))
				if conv, ok := r.(*ast.CallExpr); ok && len(conv.Args) == 1 {
					if tv, ok := info.Types[conv.Fun]; ok && tv.IsType() {
						r = ast.Unparen(cf.Resolve(conv.Args[0]))
					}
				}
				call, ok := r.(*ast.CallExpr)
				if !ok || Callee(info, call) != named || len(call.Args) != 1 {
					return false
				}
				tv, ok := info.Types[call.Args[0]]
				return ok && tv.Value != nil && strings.Trim(tv.Value.ExactString(), "\"") == lit
			}
			good := false
			for _, fa := range cf.FactsAt(ret) {
				be, ok := ast.Unparen(fa.Expr).(*ast.BinaryExpr)
				if !ok || !((be.Op == token.EQL && fa.Truth) || (be.Op == token.NEQ && !fa.Truth)) {
					continue
				}
				for _, pair := range [][2]ast.Expr{{be.X, be.Y}, {be.Y, be.X}} {
					if tv, ok := info.Types[pair[1]]; ok && tv.Value != nil && tv.Value.ExactString() == `""` && isParam(pair[0]) {
						good = true
					}
				}
			}
			if good {
				sc.Holds(key, c.P.Pos(ret.Pos()), "reported exactly when NamedParameter("+lit+") is empty")
			} else {
				sc.Violation(key, c.P.Pos(ret.Pos()), "the rejection 'required parameter "+lit+" not specified' is not guarded by NamedParameter(\""+lit+"\") == \"\": a directive without that parameter is accepted (stored under an empty name), or another failure is reported under this message")
			}
			return true
		})
	})
	if n == 0 {
		sc.Undecided("sites", "-", "no required-parameter rejection found")
	}
}


// rejectsNonZeroParam: g returns an error-like value that is non-nil only on paths on which
// one of its parameters was found different from its zero value (`if p == nil { return nil };
// return errors.New(...)`). Returns that parameter's index, or -1.
func (c *Ctx) rejectsNonZeroParam(g *types.Func) int {
	gd := c.P.Decl(g)
	if gd == nil || gd.Type.Results == nil || len(gd.Type.Results.List) != 1 || gd.Type.Params == nil {
		return -1
	}
	gpk := c.P.PkgOfDecl(gd)
	info := gpk.TypesInfo
	if !isErrorLike(info.TypeOf(gd.Type.Results.List[0].Type)) {
		return -1
	}
	cf := c.CFG(gpk, gd.Body)
	idx := 0
	for _, fl := range gd.Type.Params.List {
		for _, nm := range fl.Names {
			obj := info.ObjectOf(nm)
			i := idx
			idx++
			nonZero := func(fa cfgx.Fact) bool {
				be, ok := ast.Unparen(fa.Expr).(*ast.BinaryExpr)
				if !ok || (be.Op != token.EQL && be.Op != token.NEQ) || (be.Op == token.NEQ) != fa.Truth {
					return false
				}
				id, ok := ast.Unparen(be.X).(*ast.Ident)
				if !ok || info.ObjectOf(id) != obj {
					return false
				}
				tv, ok := info.Types[be.Y]
				return ok && (tv.IsNil() || (tv.Value != nil && (tv.Value.ExactString() == `""` || tv.Value.ExactString() == "0")))
			}
			good, n := true, 0
			inspectNoLit(gd.Body, func(x ast.Node) bool {
				ret, ok := x.(*ast.ReturnStmt)
				if !ok || len(ret.Results) != 1 {
					return true
				}
				if tv, has := info.Types[ret.Results[0]]; has && tv.IsNil() {
					return true
				}
				n++
				if !cf.MustAt(ret, nonZero, nil, nil) {
					good = false
				}
				return true
			})
			if good && n > 0 && !assignedAnywhere(info, gd.Body, obj) {
				return i
			}
		}
	}
	return -1
}
