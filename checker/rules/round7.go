package rules

import (
	"fmt"
	"go/ast"
	"go/constant"
	"go/token"
	"go/types"
	"strings"

	"verif/checker/cfgx"
)

// ---------------------------------------------------------------- UX1

// RuleUX1: `x[v-K]` is evaluated only where v >= K is known. For an index computed by
// subtracting a positive constant from an integer variable, some test of that variable
// (v > 0, v != 0 for a count, v >= K, ...) holds on every path to the very expression - in
// evaluation order: an `if prev := x[i-1]; i > 0 && ...` reads the element BEFORE its own
// guard. With an unsigned index the subtraction wraps and the diagnostic machinery itself
// dies with an index out of range.
func RuleUX1(c *Ctx) {
	sc := c.Run.Begin("UX1", "every index expression x[v-K] (v an integer variable, K a positive constant) is dominated, in evaluation order, by a test that v is at least K", 3)
	defer sc.End()
	c.P.Funcs(func(pk *pkgT, fd *ast.FuncDecl) {
		info := pk.TypesInfo
		n := 0
		ast.Inspect(fd.Body, func(x ast.Node) bool {
			ix, ok := x.(*ast.IndexExpr)
			if !ok {
				return true
			}
			sub, ok := ast.Unparen(ix.Index).(*ast.BinaryExpr)
			if !ok || sub.Op != token.SUB {
				return true
			}
			vid, ok := ast.Unparen(sub.X).(*ast.Ident)
			if !ok {
				return true
			}
			vobj, ok := info.ObjectOf(vid).(*types.Var)
			if !ok {
				return true
			}
			ktv, ok := info.Types[sub.Y]
			if !ok || ktv.Value == nil {
				return true
			}
			k, exact := constant.Int64Val(constant.ToInt(ktv.Value))
			if !exact || k <= 0 {
				return true
			}
			if t := info.TypeOf(ix.X); t != nil {
				if _, isMap := t.Underlying().(*types.Map); isMap {
					return true
				}
			}
			n++
			key := fmt.Sprintf("%s:%s-%d#%d", c.P.DeclName(fd), vid.Name, k, n)
			body := innermostBody(fd, ix)
			cf := c.CFG(pk, body.body)
			// v cannot be negative: an unsigned type, or a length
			nonNeg := false
			if b, ok := vobj.Type().Underlying().(*types.Basic); ok && b.Info()&types.IsUnsigned != 0 {
				nonNeg = true
			}
			if def := cf.DefOf(vobj); def != nil {
				if _, isLen := lengthExpr(info, def); isLen {
					nonNeg = true
				}
			}
			isV := func(e ast.Expr) bool {
				id, ok := ast.Unparen(e).(*ast.Ident)
				return ok && info.ObjectOf(id) == types.Object(vobj)
			}
			constOf := func(e ast.Expr) (int64, bool) {
				tv, ok := info.Types[e]
				if !ok || tv.Value == nil {
					return 0, false
				}
				return constant.Int64Val(constant.ToInt(tv.Value))
			}
			gen := func(fa cfgx.Fact) bool {
				be, ok := ast.Unparen(fa.Expr).(*ast.BinaryExpr)
				if !ok {
					return false
				}
				op, l, r := be.Op, be.X, be.Y
				if !isV(l) {
					if !isV(r) {
						return false
					}
					// c OP v  ==  v OP' c
					l, r = r, l
					switch op {
					case token.LSS:
						op = token.GTR
					case token.LEQ:
						op = token.GEQ
					case token.GTR:
						op = token.LSS
					case token.GEQ:
						op = token.LEQ
					}
				}
				cv, ok := constOf(r)
				if !ok {
					return false
				}
				if !fa.Truth {
					switch op {
					case token.LSS:
						op = token.GEQ
					case token.LEQ:
						op = token.GTR
					case token.GTR:
						op = token.LEQ
					case token.GEQ:
						op = token.LSS
					case token.EQL:
						op = token.NEQ
					case token.NEQ:
						op = token.EQL
					}
				}
				switch op {
				case token.GTR:
					return cv >= k-1
				case token.GEQ:
					return cv >= k
				case token.NEQ:
					return nonNeg && cv == 0 && k == 1
				}
				return false
			}
			kill := func(nd ast.Node) bool {
				return cfgx.Assigns(nd, func(l ast.Expr) bool {
					id, ok := ast.Unparen(l).(*ast.Ident)
					return ok && info.ObjectOf(id) == types.Object(vobj) && !isDefineOf(nd, id)
				})
			}
			// a counter that starts at a constant >= K and is only ever incremented
			monotone := false
			var def ast.Expr
			ast.Inspect(body.body, func(y ast.Node) bool {
				if st, ok := y.(*ast.AssignStmt); ok && st.Tok == token.DEFINE && len(st.Lhs) == len(st.Rhs) {
					for i, l := range st.Lhs {
						if id, ok := l.(*ast.Ident); ok && info.Defs[id] == types.Object(vobj) {
							def = st.Rhs[i]
						}
					}
				}
				return true
			})
			if def != nil {
				if c0, ok := constOf(def); ok && c0 >= k {
					monotone = true
					ast.Inspect(body.body, func(y ast.Node) bool {
						switch st := y.(type) {
						case *ast.AssignStmt:
							for _, l := range st.Lhs {
								if isV(l) && st.Tok != token.DEFINE {
									inc := false
									if st.Tok == token.ADD_ASSIGN && len(st.Rhs) == 1 {
										if cv, ok := constOf(st.Rhs[0]); ok && cv >= 0 {
											inc = true
										}
									}
									if !inc {
										monotone = false
									}
								}
							}
						case *ast.IncDecStmt:
							if isV(st.X) && st.Tok != token.INC {
								monotone = false
							}
						case *ast.UnaryExpr:
							if st.Op == token.AND && isV(st.X) {
								monotone = false
							}
						}
						return true
					})
				}
			}
			if monotone {
				sc.Holds(key, c.P.Pos(ix.Pos()), vid.Name+" starts at a constant >= K and is only incremented")
			} else if cf.MustAt(ix, gen, nil, kill) {
				sc.Holds(key, c.P.Pos(ix.Pos()), "dominated by a test of "+vid.Name)
			} else {
				sc.Violation(key, c.P.Pos(ix.Pos()), fmt.Sprintf("%s is evaluated on a path on which %s >= %d is not known (a guard written after it in the same condition or statement does not count): for %s == 0 the index wraps or is negative and the library reports a Go runtime fault, or panics while building a diagnostic", types.ExprString(ix), vid.Name, k, vid.Name))
			}
			return true
		})
	})
}

// ---------------------------------------------------------------- FP1

// RuleFP1: no message prints an address. An operand of a formatting call (fmt.Sprintf,
// Errorf, Fprintf ...) whose static type is a pointer to a basic type or to a struct
// without String/Error method is printed as its address (%v, %s, %q, %d alike): the text
// differs between two runs on the same input.
func RuleFP1(c *Ctx) {
	sc := c.Run.Begin("FP1", "no operand of a fmt formatting call is a pointer whose printed form is its address", 50)
	defer sc.End()
	errT := types.Universe.Lookup("error").Type().Underlying().(*types.Interface)
	hasMethod := func(t types.Type, name string) bool {
		ms := types.NewMethodSet(t)
		for i := 0; i < ms.Len(); i++ {
			if ms.At(i).Obj().Name() == name {
				return true
			}
		}
		return false
	}
	seen := map[string]int{}
	c.eachCall(func(cs callSite) {
		info := cs.Pk.TypesInfo
		f := Callee(info, cs.Call)
		if f == nil || f.Pkg() == nil || f.Pkg().Path() != "fmt" {
			return
		}
		sig := f.Type().(*types.Signature)
		if !sig.Variadic() {
			return
		}
		first := sig.Params().Len() - 1
		for i, a := range cs.Call.Args {
			if i < first {
				continue
			}
			t := info.TypeOf(a)
			if t == nil {
				continue
			}
			base := fmt.Sprintf("%s:%s:%s", c.P.DeclName(cs.Decl), f.Name(), types.ExprString(a))
			seen[base]++
			key := fmt.Sprintf("%s#%d", base, seen[base])
			p, ok := t.Underlying().(*types.Pointer)
			if !ok {
				sc.Holds(key, c.P.Pos(a.Pos()), "")
				continue
			}
			if types.Implements(t, errT) || hasMethod(t, "String") || hasMethod(t, "Error") || hasMethod(t, "Format") || hasMethod(t, "GoString") {
				sc.Holds(key, c.P.Pos(a.Pos()), "prints through its own method")
				continue
			}
			switch p.Elem().Underlying().(type) {
			case *types.Struct, *types.Array, *types.Slice, *types.Map:
				// fmt prints &{...}: the pointee, not the address, at the top level
				sc.Holds(key, c.P.Pos(a.Pos()), "a pointer to a composite is printed as &{...}")
				continue
			}
			sc.Violation(key, c.P.Pos(a.Pos()), "the operand "+types.ExprString(a)+" of "+f.Name()+" is a "+t.String()+": what is printed is its address, which differs from run to run - the same input gives different messages")
		}
	})
}

// ---------------------------------------------------------------- LX1

// RuleLX1: a lexeme is what the automaton said. The constructor of scanner.Lexeme stores
// the begin and end positions it is given: it never assigns its position parameters. The
// bounds are decided on the automaton (S1c: end+1 >= begin, an empty lexeme being
// end == begin-1); a constructor that "normalises" them makes an empty lexeme own a byte
// that belongs to its neighbour.
func RuleLX1(c *Ctx) {
	sc := c.Run.Begin("LX1", "the constructor of scanner.Lexeme stores its begin/end parameters as given (they are not reassigned and initialise the fields directly)", 1)
	defer sc.End()
	pk := c.P.Pkg("scanner")
	lexT := c.Named("scanner", "Lexeme")
	if pk == nil || lexT == nil {
		sc.Undecided("anchors", "-", "unresolved anchor: scanner.Lexeme")
		return
	}
	info := pk.TypesInfo
	n := 0
	c.P.Funcs(func(p *pkgT, fd *ast.FuncDecl) {
		if p != pk || fd.Recv != nil || fd.Type.Results == nil || len(fd.Type.Results.List) != 1 {
			return
		}
		rt := info.TypeOf(fd.Type.Results.List[0].Type)
		if pt, ok := rt.(*types.Pointer); ok {
			rt = pt.Elem()
		}
		if rt == nil || !types.Identical(rt, lexT) {
			return
		}
		// the integer parameters
		var posParams []types.Object
		for _, fl := range fd.Type.Params.List {
			for _, nm := range fl.Names {
				o := info.ObjectOf(nm)
				if b, ok := o.Type().Underlying().(*types.Basic); ok && b.Info()&types.IsInteger != 0 {
					posParams = append(posParams, o)
				}
			}
		}
		if len(posParams) < 2 {
			return
		}
		n++
		key := c.P.DeclName(fd)
		bad := ""
		for _, o := range posParams {
			if assignedAnywhere(info, fd.Body, o) {
				bad = o.Name() + " is reassigned"
			}
		}
		// every position field of the literal comes straight from a parameter
		ast.Inspect(fd.Body, func(x ast.Node) bool {
			cl, ok := x.(*ast.CompositeLit)
			if !ok || !types.Identical(info.TypeOf(cl), lexT) {
				return true
			}
			for _, el := range cl.Elts {
				kv, ok := el.(*ast.KeyValueExpr)
				if !ok {
					continue
				}
				ft := info.TypeOf(kv.Value)
				if b, ok := ft.Underlying().(*types.Basic); !ok || b.Info()&types.IsInteger == 0 {
					continue
				}
				id, ok := ast.Unparen(kv.Value).(*ast.Ident)
				isParam := false
				if ok {
					for _, o := range posParams {
						if info.ObjectOf(id) == o {
							isParam = true
						}
					}
				}
				if !isParam {
					bad = "field " + types.ExprString(kv.Key) + " is initialised with " + types.ExprString(kv.Value)
				}
			}
			return true
		})
		if bad == "" {
			sc.Holds(key, c.P.Pos(fd.Pos()), "positions stored as given")
		} else {
			sc.Violation(key, c.P.Pos(fd.Pos()), "the lexeme constructor changes the positions it is given ("+bad+"): the bounds proved on the automaton are not the bounds of the lexeme that is handed out - an empty lexeme (end == begin-1) turned into a one-byte lexeme owns a byte of its neighbour or lies outside the input")
		}
	})
	if n == 0 {
		sc.Undecided("sites", "-", "no constructor of scanner.Lexeme with two position parameters found")
	}
}

// ---------------------------------------------------------------- NX1

// RuleNX1: the driver hands out a lexeme only when there is one. `Next` turns found events
// into lexemes through the event processor, which answers (nil, nil) for a begin event;
// (nil, nil) from Next means end of input to the core. So every return of Next whose first
// result comes from the event processor is reached only where that result was found
// non-nil (or carries an error); `return s.processLexemeEvent(...)` hands a begin event's
// (nil, nil) out and the scan ends in the middle of the file, silently.
func RuleNX1(c *Ctx) {
	sc := c.Run.Begin("NX1", "in Scanner.Next, a lexeme obtained from the event processor is returned only under the fact that it is not nil", 1)
	defer sc.End()
	pk := c.P.Pkg("scanner")
	next := c.Func("scanner", "Scanner.Next")
	lexT := c.Named("scanner", "Lexeme")
	fd := c.P.Decl(next)
	if pk == nil || fd == nil || lexT == nil {
		sc.Undecided("anchors", "-", "unresolved anchor: scanner.Scanner.Next")
		return
	}
	info := pk.TypesInfo
	returnsLexeme := func(call *ast.CallExpr) bool {
		g := Callee(info, call)
		if g == nil || g.Pkg() != pk.Types {
			return false
		}
		res := g.Type().(*types.Signature).Results()
		if res.Len() != 2 {
			return false
		}
		pt, ok := res.At(0).Type().(*types.Pointer)
		return ok && types.Identical(pt.Elem(), lexT)
	}
	n := 0
	ast.Inspect(fd.Body, func(x ast.Node) bool {
		if _, isLit := x.(*ast.FuncLit); isLit {
			return false
		}
		ret, ok := x.(*ast.ReturnStmt)
		if !ok || len(ret.Results) == 0 {
			return true
		}
		body := innermostBody(fd, ret)
		cf := c.CFG(pk, body.body)
		if len(ret.Results) == 1 {
			if call, ok := ast.Unparen(ret.Results[0]).(*ast.CallExpr); ok && returnsLexeme(call) {
				n++
				sc.Violation(fmt.Sprintf("Next:return#%d", n), c.P.Pos(ret.Pos()), "the event processor's answer is handed out as it is: for a begin event it is (nil, nil), which the core takes for the end of the file - the rest of the document is dropped without a diagnostic")
			}
			return true
		}
		id, ok := ast.Unparen(ret.Results[0]).(*ast.Ident)
		if !ok {
			return true
		}
		obj := info.ObjectOf(id)
		rhs, idx, ok := cf.TupleDefOf(obj)
		if !ok || idx != 0 {
			return true
		}
		call, ok := ast.Unparen(rhs).(*ast.CallExpr)
		if !ok || !returnsLexeme(call) {
			return true
		}
		n++
		key := fmt.Sprintf("Next:return#%d", n)
		// the error that travels with the lexeme in the same return
		var errObj types.Object
		if len(ret.Results) == 2 {
			if eid, ok := ast.Unparen(ret.Results[1]).(*ast.Ident); ok && !isNilIdentExpr(info, eid) {
				errObj = info.ObjectOf(eid)
			}
		}
		notNil := func(e ast.Expr, objs ...types.Object) bool {
			be, ok := ast.Unparen(e).(*ast.BinaryExpr)
			if !ok || be.Op != token.NEQ {
				return false
			}
			a, b := be.X, be.Y
			if isNilIdentExpr(info, a) {
				a, b = b, a
			}
			if !isNilIdentExpr(info, b) {
				return false
			}
			aid, ok := ast.Unparen(a).(*ast.Ident)
			if !ok {
				return false
			}
			for _, o := range objs {
				if o != nil && info.ObjectOf(aid) == o {
					return true
				}
			}
			return false
		}
		var allNotNil func(e ast.Expr) bool
		allNotNil = func(e ast.Expr) bool {
			if be, ok := ast.Unparen(e).(*ast.BinaryExpr); ok && be.Op == token.LOR {
				return allNotNil(be.X) && allNotNil(be.Y)
			}
			return notNil(e, obj, errObj)
		}
		gen := func(fa cfgx.Fact) bool {
			if fa.Truth && allNotNil(fa.Expr) {
				// `lex != nil`, or `je != nil || lex != nil` with je returned alongside
				return true
			}
			be, ok := ast.Unparen(fa.Expr).(*ast.BinaryExpr)
			if !ok || be.Op != token.EQL || fa.Truth {
				return false
			}
			neq := *be
			neq.Op = token.NEQ
			return notNil(&neq, obj)
		}
		if cf.MustAt(ret, gen, nil, nil) {
			sc.Holds(key, c.P.Pos(ret.Pos()), "returned only when not nil")
		} else {
			sc.Violation(key, c.P.Pos(ret.Pos()), "a lexeme from the event processor is returned without having been found non-nil: a begin event's (nil, nil) reaches the core as the end of the file")
		}
		return true
	})
	if n == 0 {
		sc.Undecided("sites", "-", "Next returns no lexeme obtained from an event processor")
	}
}

// ---------------------------------------------------------------- PW1

// RulePW1: a climb along the Parent chain is not cut off by a counter. A loop of package
// core that steps `x = x.Parent` ends because the chain ends (nil) or because it found what
// it looks for (a flag, a kind); its condition does not compare an integer counter with a
// constant. "Directives nest at most four deep" is false as soon as the chain stands inside
// a parenthesised MACRO, and the `)` of that macro is then refused.
func RulePW1(c *Ctx) {
	sc := c.Run.Begin("PW1", "no loop of package core that walks the Parent chain is bounded by a comparison of a counter with a constant", 2)
	defer sc.End()
	pk := c.P.Pkg("core")
	parent := c.Field("directive", "Directive", "Parent")
	if pk == nil || parent == nil {
		sc.Undecided("anchors", "-", "unresolved anchor: directive.Directive.Parent")
		return
	}
	info := pk.TypesInfo
	c.P.Funcs(func(p *pkgT, fd *ast.FuncDecl) {
		if p != pk {
			return
		}
		n := 0
		ast.Inspect(fd.Body, func(x ast.Node) bool {
			loop, ok := x.(*ast.ForStmt)
			if !ok {
				return true
			}
			steps := false
			ast.Inspect(loop, func(y ast.Node) bool {
				as, ok := y.(*ast.AssignStmt)
				if !ok || len(as.Lhs) != 1 || len(as.Rhs) != 1 {
					return true
				}
				if sel, ok := ast.Unparen(as.Rhs[0]).(*ast.SelectorExpr); ok && info.ObjectOf(sel.Sel) == types.Object(parent) {
					if cfgx.SameExpr(info, sel.X, as.Lhs[0]) {
						steps = true
					}
				}
				return true
			})
			if !steps {
				return true
			}
			n++
			key := fmt.Sprintf("%s:walk#%d", c.P.DeclName(fd), n)
			bad := ""
			if loop.Cond != nil {
				ast.Inspect(loop.Cond, func(y ast.Node) bool {
					be, ok := y.(*ast.BinaryExpr)
					if !ok {
						return true
					}
					switch be.Op {
					case token.LSS, token.LEQ, token.GTR, token.GEQ, token.NEQ:
					default:
						return true
					}
					for _, pair := range [][2]ast.Expr{{be.X, be.Y}, {be.Y, be.X}} {
						id, ok := ast.Unparen(pair[0]).(*ast.Ident)
						if !ok {
							continue
						}
						b, ok := info.TypeOf(id).Underlying().(*types.Basic)
						if !ok || b.Info()&types.IsInteger == 0 {
							continue
						}
						if tv, ok := info.Types[pair[1]]; ok && tv.Value != nil {
							bad = types.ExprString(be)
						}
					}
					return true
				})
			}
			if bad == "" {
				sc.Holds(key, c.P.Pos(loop.Pos()), "ends with the chain or with what it looks for")
			} else {
				sc.Violation(key, c.P.Pos(loop.Pos()), "the climb along the Parent chain stops after a fixed number of steps ("+bad+"): a context that lies further out - the ( of a MACRO around a URL, a method, a response and its Body - is not found, and a balanced ) is refused")
			}
			return true
		})
	})
}

// ---------------------------------------------------------------- LT1

// RuleLT1: no counted loop has a constant trip count of at most one. `for j := 0; j < 1;
// j++` runs its body once: written where `j < i` was meant, a pairwise comparison looks at
// the first element only, and a repeated path parameter that is not the first one is not
// noticed.
func RuleLT1(c *Ctx) {
	sc := c.Run.Begin("LT1", "no loop `for v := C0; v < C1; v++` with constants C0, C1 runs at most once", 20)
	defer sc.End()
	c.P.Funcs(func(pk *pkgT, fd *ast.FuncDecl) {
		info := pk.TypesInfo
		n := 0
		ast.Inspect(fd.Body, func(x ast.Node) bool {
			loop, ok := x.(*ast.ForStmt)
			if !ok || loop.Cond == nil {
				return true
			}
			n++
			key := fmt.Sprintf("%s:for#%d", c.P.DeclName(fd), n)
			init, ok := loop.Init.(*ast.AssignStmt)
			be, ok2 := ast.Unparen(loop.Cond).(*ast.BinaryExpr)
			if !ok || !ok2 || len(init.Lhs) != 1 || len(init.Rhs) != 1 {
				sc.Holds(key, c.P.Pos(loop.Pos()), "")
				return true
			}
			id, isID := init.Lhs[0].(*ast.Ident)
			c0, has0 := info.Types[init.Rhs[0]]
			c1, has1 := info.Types[be.Y]
			vid, isV := ast.Unparen(be.X).(*ast.Ident)
			if !isID || !isV || !has0 || !has1 || c0.Value == nil || c1.Value == nil || info.ObjectOf(vid) != info.ObjectOf(id) || (be.Op != token.LSS && be.Op != token.LEQ) {
				sc.Holds(key, c.P.Pos(loop.Pos()), "")
				return true
			}
			lo, _ := constant.Int64Val(constant.ToInt(c0.Value))
			hi, _ := constant.Int64Val(constant.ToInt(c1.Value))
			if be.Op == token.LEQ {
				hi++
			}
			if hi-lo <= 1 {
				sc.Violation(key, c.P.Pos(loop.Pos()), fmt.Sprintf("the loop `%s` runs its body at most once: elements beyond the first are never looked at (a bound that was meant to be another variable)", types.ExprString(loop.Cond)))
			} else {
				sc.Holds(key, c.P.Pos(loop.Pos()), "")
			}
			return true
		})
	})
	_ = strings.TrimSpace
}

// ---------------------------------------------------------------- BF1

// RuleBF1: a body is stored with the format its creator computed for its notation. The
// catalog's body structures carry a schema and a serialisation format side by side; the
// core derives the format from the notation of that very schema and hands both to the
// setter. In every composite literal of such a structure the format is the setter's own
// parameter, untouched: a format recomputed inside the setter from something else (the
// notation of a type the schema merely refers to) makes `format` and `schema.notation`
// disagree in the output.
func RuleBF1(c *Ctx) {
	sc := c.Run.Begin("BF1", "every literal of a catalog structure holding a Schema and a SerializeFormat takes the format from a parameter of the enclosing setter, unmodified", 2)
	defer sc.End()
	pk := c.P.Pkg("catalog")
	fmtT := c.Named("catalog", "SerializeFormat")
	schT := c.Named("catalog", "Schema")
	if pk == nil || fmtT == nil || schT == nil {
		sc.Undecided("anchors", "-", "unresolved anchor: catalog.SerializeFormat / catalog.Schema")
		return
	}
	info := pk.TypesInfo
	c.P.Funcs(func(p *pkgT, fd *ast.FuncDecl) {
		if p != pk {
			return
		}
		n := 0
		ast.Inspect(fd.Body, func(x ast.Node) bool {
			cl, ok := x.(*ast.CompositeLit)
			if !ok {
				return true
			}
			st, ok := info.TypeOf(cl).Underlying().(*types.Struct)
			if !ok {
				return true
			}
			hasSchema := false
			for i := 0; i < st.NumFields(); i++ {
				t := st.Field(i).Type()
				if pt, ok := t.(*types.Pointer); ok {
					t = pt.Elem()
				}
				if types.Identical(t, schT) {
					hasSchema = true
				}
			}
			if !hasSchema {
				return true
			}
			for _, el := range cl.Elts {
				kv, ok := el.(*ast.KeyValueExpr)
				if !ok || !types.Identical(info.TypeOf(kv.Value), fmtT) {
					continue
				}
				n++
				key := fmt.Sprintf("%s:%s#%d", c.P.DeclName(fd), types.ExprString(kv.Key), n)
				id, isID := ast.Unparen(kv.Value).(*ast.Ident)
				ok2 := false
				if isID {
					obj := info.ObjectOf(id)
					if paramIndexOf(info, fd, obj) >= 0 && !assignedAnywhere(info, fd.Body, obj) {
						ok2 = true
					}
				}
				if ok2 {
					sc.Holds(key, c.P.Pos(kv.Pos()), "the format parameter itself")
				} else {
					sc.Violation(key, c.P.Pos(kv.Pos()), "the format stored with the schema is "+types.ExprString(kv.Value)+", not the setter's own format parameter: it is no longer the format the core computed for this schema's notation, so `format` and `schema.notation` can disagree in the catalog")
				}
			}
			return true
		})
	})
}

// ---------------------------------------------------------------- EC1

// RuleEC1: "a parenthesis is still open" is a verdict about the whole project, not about
// the file that happens to end. The scan loop runs its end-of-file handler for every
// scanner it drains - the root file's and each included file's. A rejection that is reached
// under the fact that an explicit context is unclosed must also be reached under the fact
// that the stack of suspended scanners is empty (the root file has ended): at the end of an
// included file the parentheses of the including files are, correctly, still open, so
// `URL /a ( INCLUDE part.jst )` is refused although the same text written in place, and the
// same INCLUDE without the parentheses, are accepted.
func RuleEC1(c *Ctx) {
	sc := c.Run.Begin("EC1", "every rejection reached under 'an explicit context is unclosed' is also reached under 'the scanner stack is empty'", 1)
	defer sc.End()
	pk := c.P.Pkg("core")
	unclosed := c.Func("core", "JApiCore.HasUnclosedExplicitContext")
	stackT := c.Named("scanner", "Stack")
	if pk == nil || unclosed == nil || stackT == nil {
		sc.Undecided("anchors", "-", "unresolved anchor: core.JApiCore.HasUnclosedExplicitContext / scanner.Stack")
		return
	}
	info := pk.TypesInfo
	isUnclosed := func(fa cfgx.Fact) bool {
		call, ok := ast.Unparen(fa.Expr).(*ast.CallExpr)
		return ok && fa.Truth && Callee(info, call) == unclosed
	}
	isRoot := func(fa cfgx.Fact) bool {
		call, ok := ast.Unparen(fa.Expr).(*ast.CallExpr)
		if !ok || !fa.Truth || len(call.Args) != 0 {
			return false
		}
		g := Callee(info, call)
		if g == nil || recvNamedOf(g) != stackT {
			return false
		}
		b, ok := g.Type().(*types.Signature).Results().At(0).Type().Underlying().(*types.Basic)
		return ok && b.Kind() == types.Bool
	}
	n := 0
	c.P.Funcs(func(p *pkgT, fd *ast.FuncDecl) {
		if p != pk {
			return
		}
		inspectNoLit(fd.Body, func(x ast.Node) bool {
			ret, ok := x.(*ast.ReturnStmt)
			if !ok || len(ret.Results) == 0 {
				return true
			}
			last := ret.Results[len(ret.Results)-1]
			if tv, has := info.Types[last]; !has || tv.IsNil() || !isErrorLike(info.TypeOf(last)) {
				return true
			}
			cf := c.CFG(pk, fd.Body)
			if !cf.MustAt(ret, isUnclosed, nil, nil) {
				return true
			}
			n++
			// keyed by the predicate, not by the function the test happens to stand in
			key := fmt.Sprintf("rejection-under:%s#%d", unclosed.Name(), n)
			if cf.MustAt(ret, isRoot, nil, nil) {
				sc.Holds(key, c.P.Pos(ret.Pos()), "only at the end of the root file")
			} else {
				sc.Violation(key, c.P.Pos(ret.Pos()), "'not all explicit contexts are closed' is decided at the end of every file, included ones too: an INCLUDE inside a parenthesised block is refused at the end of the included file, where the parentheses of the including file are still - rightly - open; the same INCLUDE without the parentheses, and the same text written in place, are accepted")
			}
			return true
		})
	})
	if n == 0 {
		sc.Undecided("sites", "-", "no rejection under HasUnclosedExplicitContext found")
	}
}

// ---------------------------------------------------------------- PQ2

// RulePQ2: a parameter the core takes from the scanner by itself is unquoted like the
// others. Parameters normally reach a directive through AppendParameter, which takes the
// quotes off; a lexeme fetched directly with `scanner.Next()` (the file name of INCLUDE)
// bypasses it, so its value must go through Unquote() before it is used as text - otherwise
// `INCLUDE "part.jst"` looks for a file whose name begins with a quote while `INCLUDE
// part.jst` finds it.
func RulePQ2(c *Ctx) {
	sc := c.Run.Begin("PQ2", "in package core, the value of a lexeme fetched directly from Scanner.Next is unquoted before it is used as text", 1)
	defer sc.End()
	pk := c.P.Pkg("core")
	next := c.Func("scanner", "Scanner.Next")
	valueM := c.Func("scanner", "Lexeme.Value")
	if pk == nil || next == nil || valueM == nil {
		sc.Undecided("anchors", "-", "unresolved anchor: scanner.Scanner.Next / Lexeme.Value")
		return
	}
	info := pk.TypesInfo
	n := 0
	c.P.Funcs(func(p *pkgT, fd *ast.FuncDecl) {
		if p != pk {
			return
		}
		cf := c.CFG(pk, fd.Body)
		parents := map[ast.Node]ast.Node{}
		var stack []ast.Node
		ast.Inspect(fd.Body, func(y ast.Node) bool {
			if y == nil {
				stack = stack[:len(stack)-1]
				return true
			}
			if len(stack) > 0 {
				parents[y] = stack[len(stack)-1]
			}
			stack = append(stack, y)
			return true
		})
		k := 0
		ast.Inspect(fd.Body, func(y ast.Node) bool {
			call, ok := y.(*ast.CallExpr)
			if !ok {
				return true
			}
			if f := Callee(info, call); f == nil || f.Origin() != valueM.Origin() {
				return true
			}
			rid, ok := ast.Unparen(Recv(call)).(*ast.Ident)
			if !ok {
				return true
			}
			rhs, idx, ok := cf.TupleDefOf(info.ObjectOf(rid))
			if !ok || idx != 0 {
				return true
			}
			src, ok := ast.Unparen(rhs).(*ast.CallExpr)
			if !ok || Callee(info, src) == nil || Callee(info, src).Origin() != next.Origin() {
				return true
			}
			n++
			k++
			// keyed by where the lexeme comes from, not by the function that fetches it
			key := fmt.Sprintf("lexeme-from:%s:Value#%d", next.Name(), n)
			uses := valueUses(info, cf, fd.Body, call, parents)
			bad := ""
			for _, u := range uses {
				if u != "Unquote" {
					bad = u
				}
			}
			if bad == "" {
				sc.Holds(key, c.P.Pos(call.Pos()), "unquoted first")
			} else {
				sc.Violation(key, c.P.Pos(call.Pos()), "the value of a parameter lexeme taken straight from the scanner is used as written ("+bad+"), quotes included: the quoted spelling of the parameter means something else than the bare one (a file whose name begins with a quote)")
			}
			return true
		})
	})
	if n == 0 {
		sc.Holds("none", "-", "the core fetches no parameter lexeme by itself")
	}
}
