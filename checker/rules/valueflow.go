package rules

import (
	"fmt"
	"go/constant"
	"go/token"
	"go/types"

	"golang.org/x/tools/go/ssa"
	"golang.org/x/tools/go/ssa/ssautil"
)

// Value-flow must-pass analysis over SSA.
//
// flowMustPass decides whether every value path from a parameter of fn to one of its
// success results passes through a "stage" (a call accepted by isStage). The walk goes
// backwards from the operands of every success return (the trailing error result is the
// nil constant, or there is no error result); it follows phi edges, slices, conversions,
// element/field addressing, loads of local cells (through every store into the cell), the
// data arguments of library calls, and the success results of repository callees (with
// the parameter mapped back to the call's argument). A walk that arrives at a parameter
// of fn itself has found a path that skipped the stage.
//
// Verdicts: flowAll (every path passes a stage), flowSkips (a witness path reaches the
// raw parameter), flowUnknown (an instruction kind the walk does not model).

type flowVerdict int

const (
	flowAll flowVerdict = iota
	flowSkips
	flowUnknown
)

type flowWalker struct {
	c       *Ctx
	root    *ssa.Function
	isStage func(*ssa.Call) bool
	seen    map[flowKey]bool
	witness []string
	unknown string
	nodes   int
	up      int
	callers map[*ssa.Function][]ssa.CallInstruction
}

// callersOf lists the static call sites of fn in the repository's code.
func (w *flowWalker) callersOf(fn *ssa.Function) []ssa.CallInstruction {
	if w.callers == nil {
		w.callers = map[*ssa.Function][]ssa.CallInstruction{}
		for f := range ssautil.AllFunctions(w.c.P.SSA()) {
			if !w.c.P.IsRepoFunc(f) {
				continue
			}
			for _, b := range f.Blocks {
				for _, in := range b.Instrs {
					if ci, ok := in.(ssa.CallInstruction); ok {
						if callee := ci.Common().StaticCallee(); callee != nil {
							w.callers[callee] = append(w.callers[callee], ci)
						}
					}
				}
			}
		}
	}
	return w.callers[fn]
}

type flowKey struct {
	v   ssa.Value
	ctx string
}

type flowCtx struct {
	call *ssa.Call
	up   *flowCtx
}

func (k *flowCtx) id() string {
	s := ""
	for x := k; x != nil; x = x.up {
		s += fmt.Sprintf("%p/", x.call)
	}
	return s
}

func (c *Ctx) flowMustPass(fn *ssa.Function, resultIdx int, isStage func(*ssa.Call) bool) (flowVerdict, string, int) {
	w := &flowWalker{c: c, root: fn, isStage: isStage, seen: map[flowKey]bool{}}
	verdict := flowAll
	rets := 0
	for _, ret := range successReturns(fn) {
		if resultIdx >= len(ret.Results) {
			continue
		}
		rets++
		switch w.walk(ret.Results[resultIdx], nil, 0) {
		case flowSkips:
			return flowSkips, "return at " + c.P.Pos(ret.Pos()) + " <- " + joinRev(w.witness), w.nodes
		case flowUnknown:
			verdict = flowUnknown
		}
	}
	if rets == 0 {
		return flowUnknown, "no success return found", w.nodes
	}
	return verdict, w.unknown, w.nodes
}

// flowFrom is flowMustPass started at one value of fn instead of at its returns.
func (c *Ctx) flowFrom(fn *ssa.Function, start ssa.Value, isStage func(*ssa.Call) bool) (flowVerdict, string, int) {
	w := &flowWalker{c: c, root: fn, isStage: isStage, seen: map[flowKey]bool{}}
	switch w.walk(start, nil, 0) {
	case flowSkips:
		return flowSkips, joinRev(w.witness), w.nodes
	case flowUnknown:
		return flowUnknown, w.unknown, w.nodes
	}
	return flowAll, "", w.nodes
}

func joinRev(xs []string) string {
	s := ""
	for i := len(xs) - 1; i >= 0; i-- {
		if s != "" {
			s += " <- "
		}
		s += xs[i]
	}
	return s
}

// successReturns lists the returns of fn whose trailing error-typed result, if any, is the
// nil constant (or not a constant at all: then the return may be a success).
func successReturns(fn *ssa.Function) []*ssa.Return {
	var out []*ssa.Return
	for _, b := range fn.Blocks {
		for _, in := range b.Instrs {
			ret, ok := in.(*ssa.Return)
			if !ok {
				continue
			}
			if n := len(ret.Results); n > 0 {
				last := ret.Results[n-1]
				if isErrorLike(last.Type()) {
					if k, isConst := last.(*ssa.Const); !isConst || k.Value != nil {
						// a non-constant error: built by a call => an error return
						if _, isCall := last.(*ssa.Call); isCall {
							continue
						}
						if _, isMI := last.(*ssa.MakeInterface); isMI {
							continue
						}
						if onNonNilEdge(b, last) {
							continue
						}
					}
				}
			}
			out = append(out, ret)
		}
	}
	return out
}

// onNonNilEdge: block b is entered only by the edge of `if v != nil` (or the else edge of
// `if v == nil`) for this very value v.
func onNonNilEdge(b *ssa.BasicBlock, v ssa.Value) bool {
	if len(b.Preds) != 1 {
		return false
	}
	p := b.Preds[0]
	if len(p.Instrs) == 0 {
		return false
	}
	iff, ok := p.Instrs[len(p.Instrs)-1].(*ssa.If)
	if !ok {
		return false
	}
	cmp, ok := iff.Cond.(*ssa.BinOp)
	if !ok || (cmp.X != v && cmp.Y != v) {
		return false
	}
	other := cmp.Y
	if cmp.Y == v {
		other = cmp.X
	}
	if k, isConst := other.(*ssa.Const); !isConst || k.Value != nil {
		return false
	}
	switch cmp.Op {
	case token.NEQ:
		return p.Succs[0] == b
	case token.EQL:
		return p.Succs[1] == b
	}
	return false
}

func isErrorLike(t types.Type) bool {
	if isErrorType(t) {
		return true
	}
	if p, ok := t.(*types.Pointer); ok {
		if n, ok := p.Elem().(*types.Named); ok && n.Obj().Name() == "JApiError" {
			return true
		}
	}
	return false
}

func carriesData(t types.Type) bool {
	switch u := t.Underlying().(type) {
	case *types.Slice:
		return true
	case *types.Basic:
		return u.Info()&types.IsString != 0
	case *types.Array, *types.Struct, *types.Pointer, *types.Map, *types.Interface:
		return true
	}
	return false
}

func (w *flowWalker) note(v interface{ Pos() token.Pos }, what string) {
	pos := "-"
	if v.Pos() != token.NoPos {
		pos = w.c.P.Pos(v.Pos())
	}
	w.witness = append(w.witness, what+"@"+pos)
}

func (w *flowWalker) walk(v ssa.Value, ctx *flowCtx, depth int) flowVerdict {
	if depth > 200 {
		w.unknown = "value path deeper than 200"
		return flowUnknown
	}
	key := flowKey{v, ctx.id()}
	if w.seen[key] {
		return flowAll
	}
	w.seen[key] = true
	w.nodes++
	all := func(vs ...ssa.Value) flowVerdict {
		res := flowAll
		for _, x := range vs {
			if x == nil {
				continue
			}
			switch w.walk(x, ctx, depth+1) {
			case flowSkips:
				return flowSkips
			case flowUnknown:
				res = flowUnknown
			}
		}
		return res
	}
	switch x := v.(type) {
	case *ssa.Const, *ssa.Global, *ssa.Function, *ssa.Builtin:
		return flowAll
	case *ssa.Parameter:
		if ctx == nil {
			// a parameter of the function the walk is in: the value comes from its static
			// callers (at most three levels up); a function nobody calls statically (an
			// entry point, a handler stored in a table) receives raw input
			fn := x.Parent()
			idx := -1
			for i, p := range fn.Params {
				if p == x {
					idx = i
				}
			}
			sites := w.callersOf(fn)
			if len(sites) == 0 || w.up >= 3 || idx < 0 {
				w.note(x, "parameter "+x.Name()+" of "+fn.Name())
				return flowSkips
			}
			w.up++
			defer func() { w.up-- }()
			res := flowAll
			for _, site := range sites {
				args := site.Common().Args
				if idx >= len(args) {
					w.unknown = "parameter not mapped at " + w.c.P.Pos(site.Pos())
					return flowUnknown
				}
				switch w.walk(args[idx], nil, depth+1) {
				case flowSkips:
					w.note(site, "argument of "+fn.Name())
					return flowSkips
				case flowUnknown:
					res = flowUnknown
				}
			}
			return res
		}
		// map to the argument of the call we descended through
		idx := -1
		for i, p := range x.Parent().Params {
			if p == x {
				idx = i
			}
		}
		args := ctx.call.Call.Args
		if idx < 0 || idx >= len(args) {
			w.unknown = "parameter not mapped at " + w.c.P.Pos(ctx.call.Pos())
			return flowUnknown
		}
		r := w.walk(args[idx], ctx.up, depth+1)
		if r == flowSkips {
			w.note(ctx.call, "argument of "+ctx.call.Call.Value.Name())
		}
		return r
	case *ssa.FreeVar:
		w.unknown = "captured variable " + x.Name()
		return flowUnknown
	case *ssa.Phi:
		r := all(x.Edges...)
		return r
	case *ssa.Slice:
		return all(x.X)
	case *ssa.Convert:
		return all(x.X)
	case *ssa.ChangeType:
		return all(x.X)
	case *ssa.ChangeInterface:
		return all(x.X)
	case *ssa.MakeInterface:
		return all(x.X)
	case *ssa.SliceToArrayPointer:
		return all(x.X)
	case *ssa.TypeAssert:
		return all(x.X)
	case *ssa.IndexAddr:
		return all(x.X)
	case *ssa.Index:
		return all(x.X)
	case *ssa.Lookup:
		return all(x.X)
	case *ssa.FieldAddr:
		return all(x.X)
	case *ssa.Field:
		return all(x.X)
	case *ssa.BinOp:
		// string concatenation carries both operands
		return all(x.X, x.Y)
	case *ssa.Extract:
		if call, ok := x.Tuple.(*ssa.Call); ok {
			return w.call(call, x.Index, ctx, depth)
		}
		return all(x.Tuple)
	case *ssa.UnOp:
		if x.Op == token.MUL {
			return all(x.X)
		}
		return all(x.X)
	case *ssa.Alloc:
		return w.cell(x, ctx, depth)
	case *ssa.MakeSlice:
		return w.cell(x, ctx, depth)
	case *ssa.MakeMap, *ssa.MakeChan, *ssa.MakeClosure:
		return flowAll
	case *ssa.Call:
		return w.call(x, 0, ctx, depth)
	case *ssa.Range, *ssa.Next:
		w.unknown = "range iteration at " + w.c.P.Pos(v.Pos())
		return flowUnknown
	}
	w.unknown = fmt.Sprintf("unmodelled value %T at %s", v, w.c.P.Pos(v.Pos()))
	return flowUnknown
}

// cell: a local memory cell (Alloc / MakeSlice): the value read from it is any value
// stored into it (flow-insensitive), directly or through element/field addresses.
func (w *flowWalker) cell(v ssa.Value, ctx *flowCtx, depth int) flowVerdict {
	res := flowAll
	var visit func(addr ssa.Value, d int) flowVerdict
	visit = func(addr ssa.Value, d int) flowVerdict {
		if d > 6 || addr.Referrers() == nil {
			return flowAll
		}
		out := flowAll
		for _, ref := range *addr.Referrers() {
			switch r := ref.(type) {
			case *ssa.Store:
				if r.Addr == addr {
					switch w.walk(r.Val, ctx, depth+1) {
					case flowSkips:
						return flowSkips
					case flowUnknown:
						out = flowUnknown
					}
				}
			case *ssa.IndexAddr:
				if r.X == addr {
					if x := visit(r, d+1); x == flowSkips {
						return x
					} else if x == flowUnknown {
						out = x
					}
				}
			case *ssa.FieldAddr:
				if r.X == addr {
					if x := visit(r, d+1); x == flowSkips {
						return x
					} else if x == flowUnknown {
						out = x
					}
				}
			case *ssa.Slice:
				if r.X == addr {
					if x := visit(r, d+1); x == flowSkips {
						return x
					} else if x == flowUnknown {
						out = x
					}
				}
			case *ssa.Call:
				// copy(dst, src) / append into the cell
				if b, ok := r.Call.Value.(*ssa.Builtin); ok && b.Name() == "copy" && len(r.Call.Args) == 2 && r.Call.Args[0] == addr {
					switch w.walk(r.Call.Args[1], ctx, depth+1) {
					case flowSkips:
						return flowSkips
					case flowUnknown:
						out = flowUnknown
					}
				}
			}
		}
		return out
	}
	if x := visit(v, 0); x != flowAll {
		res = x
	}
	return res
}

func (w *flowWalker) call(call *ssa.Call, resultIdx int, ctx *flowCtx, depth int) flowVerdict {
	if w.isStage(call) {
		return flowAll
	}
	if b, ok := call.Call.Value.(*ssa.Builtin); ok {
		switch b.Name() {
		case "append", "min", "max":
			res := flowAll
			for _, a := range call.Call.Args {
				switch w.walk(a, ctx, depth+1) {
				case flowSkips:
					return flowSkips
				case flowUnknown:
					res = flowUnknown
				}
			}
			return res
		case "len", "cap":
			return flowAll
		}
		w.unknown = "builtin " + b.Name()
		return flowUnknown
	}
	callee := call.Call.StaticCallee()
	if callee == nil {
		w.unknown = "dynamic call at " + w.c.P.Pos(call.Pos())
		return flowUnknown
	}
	if w.c.P.IsRepoFunc(callee) && len(callee.Blocks) > 0 {
		for x := ctx; x != nil; x = x.up {
			if x.call.Call.StaticCallee() == callee {
				return flowAll // recursion: the first activation decides
			}
		}
		inner := &flowCtx{call: call, up: ctx}
		res := flowAll
		rets := successReturns(callee)
		for _, ret := range rets {
			if resultIdx >= len(ret.Results) {
				continue
			}
			switch w.walk(ret.Results[resultIdx], inner, depth+1) {
			case flowSkips:
				w.note(ret, "result of "+callee.Name())
				return flowSkips
			case flowUnknown:
				res = flowUnknown
			}
		}
		return res
	}
	// library function: its result is derived from its data-carrying arguments
	res := flowAll
	for _, a := range call.Call.Args {
		if !carriesData(a.Type()) {
			continue
		}
		switch w.walk(a, ctx, depth+1) {
		case flowSkips:
			w.note(call, callee.Name())
			return flowSkips
		case flowUnknown:
			res = flowUnknown
		}
	}
	return res
}

// constBytes returns the constant content of a []byte / string SSA value built from a
// composite literal or a constant (e.g. []byte{'\r','\n'} or "\r\n"), if it is one.
func constBytes(v ssa.Value) (string, bool) {
	switch x := v.(type) {
	case *ssa.Const:
		if x.Value != nil && x.Value.Kind() == constant.String {
			return constant.StringVal(x.Value), true
		}
	case *ssa.Convert:
		return constBytes(x.X)
	case *ssa.Slice:
		// slice of an array literal: &[n]byte{...}[:]
		alloc, ok := x.X.(*ssa.Alloc)
		if !ok || alloc.Referrers() == nil {
			return "", false
		}
		arr, ok := alloc.Type().(*types.Pointer).Elem().Underlying().(*types.Array)
		if !ok {
			return "", false
		}
		buf := make([]byte, arr.Len())
		set := 0
		for _, ref := range *alloc.Referrers() {
			ia, ok := ref.(*ssa.IndexAddr)
			if !ok {
				continue
			}
			ik, ok := ia.Index.(*ssa.Const)
			if !ok || ia.Referrers() == nil {
				return "", false
			}
			i, _ := constant.Int64Val(ik.Value)
			for _, r2 := range *ia.Referrers() {
				st, ok := r2.(*ssa.Store)
				if !ok {
					continue
				}
				vk, ok := st.Val.(*ssa.Const)
				if !ok {
					return "", false
				}
				b, _ := constant.Int64Val(vk.Value)
				if i >= 0 && int(i) < len(buf) {
					buf[i] = byte(b)
					set++
				}
			}
		}
		if set == len(buf) {
			return string(buf), true
		}
	}
	return "", false
}
