package rules

func init() {
	reg("C01", &PropSpec{
		Rules: []Rule{
			r("S1a,S1b,S1c,S1d", RuleS1("S1a", "S1b", "S1c", "S1d")),
			r("S1e", RuleS1e),
			r("N1", RuleN1),
			r("N1b", RuleN1b),
			r("B1", RuleB1),
			r("N2", RuleN2),
			r("U1", RuleU1),
			r("IX1", RuleIX1),
			r("X1", RuleX1),
			r("P1", RuleP1),
			r("P2", RuleP2),
			r("T1", RuleT1),
			r("L1", RuleL1),
			r("SB1", RuleSB1),
			r("NE1", RuleNE1),
			r("UX1", RuleUX1),
		},
		Explanation: "Totality is split into the mechanisms the code relies on, each decided on every path/site: scanner pushdown reachability (no empty pops, no inverted lexeme spans, no index underflow, progress), nil/unset typestates of the parser and directive tree, guarded recursion and worklists, discharged explicit panics, recover barriers around the trusted library. A parameter indexed at a fixed end receives, at every call site, a value that is non-empty by construction; a transformed lexeme value is reported (IX1). A result of a call outside the repository is dereferenced only where its error was found nil (NE1). A local string that starts empty and is indexed at a fixed position is assigned or found non-empty on every path first (IX1 zero-local). An index x[v-K] is evaluated only where a test of v precedes it in evaluation order (UX1).",
		Trusted:     trustedCommon,
	})
}
