package rules

import (
	"fmt"
	"go/ast"
	"go/constant"
	"go/token"
	"go/types"
	"sort"
	"strings"

	"golang.org/x/tools/go/cfg"
	"golang.org/x/tools/go/ssa"

	"verif/checker/cfgx"
)

// ---------------------------------------------------------------- T1: recursion

// t1Exceptions: recursive functions that follow user-type reference chains; the
// schema library has rejected cyclic references before they run. Each is checked to
// be reachable only after compileUserTypes succeeded (stage order).
// Frozen exceptions of T1, found by role rather than by name.
//
//   - a self-recursive function (or a loop) that follows user-type references: it looks a
//     type up in the catalog's UserTypes collection and continues with what it found. The
//     schema library rejects reference cycles ("Infinity recursion detected") when the types
//     are compiled, and these run after that stage returned nil.
//   - a self-recursive re-check keyed by a type name taken from a library error value.
const (
	t1WhyRefChain = "follows user-type references found in the UserTypes collection; the schema library rejects reference cycles when the types are compiled, and this runs after compileCore returned nil"
	t1WhyCulprit  = "re-check keyed by a type name taken from a library error; the chain of distinct incorrect types is finite and the library reports a type at most as its own culprit once"
)

// t1RoleOf classifies a self-recursive function: "refchain", "culprit" or "".
func (c *Ctx) t1RoleOf(f *ssa.Function) string {
	pk, decl, lit, body := c.syntaxOf(f)
	if pk == nil || lit != nil {
		return ""
	}
	info := pk.TypesInfo
	self, _ := info.Defs[decl.Name].(*types.Func)
	utGet := c.Func("catalog", "UserTypes.Get")
	fromGet := map[types.Object]bool{}
	ast.Inspect(body, func(n ast.Node) bool {
		as, ok := n.(*ast.AssignStmt)
		if !ok || len(as.Rhs) != 1 {
			return true
		}
		if call, ok := as.Rhs[0].(*ast.CallExpr); ok && utGet != nil && Callee(info, call) == utGet {
			if id, ok := as.Lhs[0].(*ast.Ident); ok {
				fromGet[info.ObjectOf(id)] = true
			}
		}
		return true
	})
	role := ""
	ast.Inspect(body, func(n ast.Node) bool {
		call, ok := n.(*ast.CallExpr)
		if !ok || Callee(info, call) != self {
			return true
		}
		for _, a := range call.Args {
			if root := cfgx.RootObj(info, stripPtr(a)); root != nil && fromGet[root] {
				role = "refchain"
			}
			if inner, ok := ast.Unparen(a).(*ast.CallExpr); ok {
				if r := Recv(inner); r != nil {
					if t := info.TypeOf(r); t != nil {
						if n, ok := t.(*types.Named); ok && n.Obj().Pkg() != nil && strings.Contains(n.Obj().Pkg().Path(), "jsight-schema-go-library") {
							if role == "" {
								role = "culprit"
							}
						}
					}
				}
			}
		}
		return true
	})
	return role
}

// t1LoopFollowsRefChain: the loop's body reassigns what its condition reads from a value
// looked up in the UserTypes collection.
func (c *Ctx) t1LoopFollowsRefChain(pk *pkgT, fs *ast.ForStmt) bool {
	info := pk.TypesInfo
	utGet := c.Func("catalog", "UserTypes.Get")
	if utGet == nil || fs.Cond == nil {
		return false
	}
	fromGet := map[types.Object]bool{}
	ast.Inspect(fs.Body, func(n ast.Node) bool {
		as, ok := n.(*ast.AssignStmt)
		if !ok || len(as.Rhs) != 1 {
			return true
		}
		if call, ok := as.Rhs[0].(*ast.CallExpr); ok && Callee(info, call) == utGet {
			if id, ok := as.Lhs[0].(*ast.Ident); ok {
				fromGet[info.ObjectOf(id)] = true
			}
		}
		return true
	})
	follows := false
	ast.Inspect(fs.Body, func(n ast.Node) bool {
		as, ok := n.(*ast.AssignStmt)
		if !ok || len(as.Lhs) != 1 || len(as.Rhs) != 1 {
			return true
		}
		if root := cfgx.RootObj(info, as.Rhs[0]); root != nil && fromGet[root] {
			// the assigned expression is read by the loop condition
			lhsRoot := cfgx.RootObj(info, as.Lhs[0])
			ast.Inspect(fs.Cond, func(y ast.Node) bool {
				if id, ok := y.(*ast.Ident); ok && info.ObjectOf(id) == lhsRoot {
					follows = true
				}
				return true
			})
		}
		return true
	})
	return follows
}

type fnNode struct {
	fn   *ssa.Function
	decl *ast.FuncDecl // enclosing declaration (for closures: the parent's)
	lit  *ast.FuncLit  // non-nil for closures
	pk   *pkgT
}

// RuleT1: every recursive cycle and every open loop matches a termination idiom.
func RuleT1(c *Ctx) {
	c.ruleT1Rec()
	c.ruleT1Loops()
}

func (c *Ctx) ruleT1Rec() {
	sc := c.Run.Begin("T1r", "every recursive call cycle (VTA call graph, closures and library iterators included) descends a finite tree, is guarded by a visited/on-stack set, or is the scanner's same-byte dispatch bounded by S1e", 1)
	defer sc.End()
	cg := c.P.CallGraph()
	m, pds, merr := c.Machine()

	// Tarjan over the whole graph
	var fns []*ssa.Function
	idx := map[*ssa.Function]int{}
	for f := range cg.Nodes {
		if f != nil {
			idx[f] = len(fns)
			fns = append(fns, f)
		}
	}
	sort.Slice(fns, func(i, j int) bool { return fns[i].String() < fns[j].String() })
	for i, f := range fns {
		idx[f] = i
	}
	adj := make([][]int, len(fns))
	for f, n := range cg.Nodes {
		if f == nil {
			continue
		}
		for _, e := range n.Out {
			if e.Callee.Func != nil {
				adj[idx[f]] = append(adj[idx[f]], idx[e.Callee.Func])
			}
		}
	}
	comp := tarjan(len(fns), adj)
	members := map[int][]int{}
	for v, cid := range comp {
		members[cid] = append(members[cid], v)
	}
	var cids []int
	for cid, vs := range members {
		rec := len(vs) > 1
		if !rec {
			for _, w := range adj[vs[0]] {
				if w == vs[0] {
					rec = true
				}
			}
		}
		if !rec {
			continue
		}
		hasRepo := false
		for _, v := range vs {
			if c.P.IsRepoFunc(fns[v]) {
				hasRepo = true
			}
		}
		if hasRepo {
			cids = append(cids, cid)
		}
	}
	sort.Slice(cids, func(i, j int) bool {
		return sccName(c, fns, members[cids[i]]) < sccName(c, fns, members[cids[j]])
	})
	for _, cid := range cids {
		vs := members[cid]
		name := sccName(c, fns, vs)
		key := "scc:" + name
		inSCC := map[*ssa.Function]bool{}
		var repo []*ssa.Function
		isRepo := func(f *ssa.Function) bool {
			// bound-method and thunk wrappers have no body of their own: they are as
			// neutral as a library iterator
			return c.P.IsRepoFunc(f) && f.Synthetic == ""
		}
		for _, v := range vs {
			inSCC[fns[v]] = true
			if isRepo(fns[v]) {
				repo = append(repo, fns[v])
			}
		}
		sort.Slice(repo, func(i, j int) bool { return repo[i].String() < repo[j].String() })
		// scanner machine?
		allScanner := merr == nil
		for _, f := range repo {
			if m == nil || f.Pkg == nil || f.Pkg.Pkg != c.P.Pkg("scanner").Types || !m.FuncsSeen[f.Name()] {
				allScanner = false
			}
		}
		if allScanner {
			if cyc := m.Progress(pds); len(cyc) == 0 {
				sc.Holds(key, c.P.Pos(repo[0].Pos()), fmt.Sprintf("%d scanner step functions: same-byte dispatch, bounded by S1e (no cycle of steps without consumption)", len(repo)))
			} else {
				sc.Violation(key, c.P.Pos(repo[0].Pos()), "scanner dispatch cycle without progress: "+strings.Join(cyc[0].States, "->"))
			}
			continue
		}
		// classify repo->repo edges
		type edge struct {
			from, to *ssa.Function
			kind     string
			pos      token.Pos
			levels   map[int]func(cand map[int]bool) int // callee position -> level w.r.t. the caller's candidate positions
		}
		var edges []edge
		entryGuarded := map[*ssa.Function]bool{}
		for _, f := range repo {
			if c.entryGuarded(f, inSCC) {
				entryGuarded[f] = true
			}
		}
		for _, f := range repo {
			node := cg.Nodes[f]
			for _, e := range node.Out {
				g := e.Callee.Func
				if g == nil || !inSCC[g] {
					continue
				}
				if !isRepo(g) {
					edges = append(edges, edge{from: f, to: g, kind: "neutral", pos: e.Pos()})
					continue
				}
				ed := edge{from: f, to: g, kind: "same", pos: e.Pos()}
				if entryGuarded[g] {
					ed.kind = "guarded(entry)"
				} else if e.Site != nil {
					guarded, lv := c.siteLevels(f, e.Site.Pos())
					if guarded {
						ed.kind = "guarded(site)"
					}
					ed.levels = lv
				}
				edges = append(edges, ed)
			}
		}
		// library -> repo edges are neutral
		for _, v := range vs {
			f := fns[v]
			if isRepo(f) {
				continue
			}
			for _, e := range cg.Nodes[f].Out {
				if g := e.Callee.Func; g != nil && inSCC[g] {
					edges = append(edges, edge{from: f, to: g, kind: "neutral"})
				}
			}
		}
		// measure positions: cand[g] = parameter positions (receiver = -1) whose argument on
		// every non-guarded incoming in-SCC call is derived from a candidate position of the caller
		cand := map[*ssa.Function]map[int]bool{}
		for _, f := range repo {
			cand[f] = map[int]bool{}
			if f.Signature.Recv() != nil {
				cand[f][-1] = true
			}
			for i := 0; i < f.Signature.Params().Len(); i++ {
				cand[f][i] = true
			}
		}
		calledFromLib := map[*ssa.Function]bool{}
		for _, e := range edges {
			if e.kind == "neutral" && isRepo(e.to) {
				calledFromLib[e.to] = true
			}
		}
		for changed := true; changed; {
			changed = false
			for _, e := range edges {
				if e.levels == nil || strings.HasPrefix(e.kind, "guarded") {
					continue
				}
				for j := range cand[e.to] {
					lf, ok := e.levels[j]
					if !ok || lf(cand[e.from]) < 0 {
						delete(cand[e.to], j)
						changed = true
					}
				}
			}
		}
		for i := range edges {
			e := &edges[i]
			if e.levels == nil || strings.HasPrefix(e.kind, "guarded") {
				continue
			}
			for j := range cand[e.to] {
				if lf, ok := e.levels[j]; ok && lf(cand[e.from]) >= 1 {
					e.kind = "descend"
				}
			}
			if e.kind != "descend" && len(cand[e.to]) == 0 {
				e.kind = "other"
			}
		}
		// Every cycle must contain a guarded edge or a descending edge of a consistent measure.
		rem := map[*ssa.Function][]*ssa.Function{}
		var kinds []string
		var badEdges []string
		for _, e := range edges {
			if isRepo(e.from) && isRepo(e.to) {
				kinds = append(kinds, fmt.Sprintf("%s->%s:%s", shortFn(e.from), shortFn(e.to), e.kind))
			}
			if strings.HasPrefix(e.kind, "guarded") || e.kind == "descend" {
				continue
			}
			rem[e.from] = append(rem[e.from], e.to)
			if e.kind == "other" {
				badEdges = append(badEdges, fmt.Sprintf("%s -> %s at %s", shortFn(e.from), shortFn(e.to), c.P.Pos(e.pos)))
			}
		}
		sort.Strings(kinds)
		cyc := findCycle(rem)
		detail := strings.Join(uniq(kinds), "; ")
		if cyc == nil {
			sc.Holds(key, c.P.Pos(repo[0].Pos()), detail)
			continue
		}
		exc := ""
		if len(repo) == 1 {
			switch c.t1RoleOf(repo[0]) {
			case "refchain":
				exc = t1WhyRefChain
			case "culprit":
				exc = t1WhyCulprit
			}
		}
		if exc != "" {
			sc.Exception(key, c.P.Pos(repo[0].Pos()), exc)
			continue
		}
		var cn []string
		for _, f := range cyc {
			cn = append(cn, shortFn(f))
		}
		sc.Violation(key, c.P.Pos(repo[0].Pos()), fmt.Sprintf("recursive cycle %s is neither structural (no argument descends a tree of the caller's parameter) nor guarded by a visited/on-stack set: unbounded recursion on cyclic input overflows the stack; unguarded edges: %s; all edges: %s", strings.Join(cn, " -> "), strings.Join(badEdges, ", "), detail))
	}
}

func reaches(g map[*ssa.Function][]*ssa.Function, from, to *ssa.Function) bool {
	seen := map[*ssa.Function]bool{}
	var dfs func(f *ssa.Function) bool
	dfs = func(f *ssa.Function) bool {
		if f == to {
			return true
		}
		if seen[f] {
			return false
		}
		seen[f] = true
		for _, h := range g[f] {
			if dfs(h) {
				return true
			}
		}
		return false
	}
	return dfs(from)
}

func uniq(ss []string) []string {
	var out []string
	for i, s := range ss {
		if i == 0 || s != ss[i-1] {
			out = append(out, s)
		}
	}
	return out
}

func shortFn(f *ssa.Function) string {
	s := f.String()
	s = strings.ReplaceAll(s, "github.com/jsightapi/jsight-api-go-library/", "")
	return s
}

func sccName(c *Ctx, fns []*ssa.Function, vs []int) string {
	var names []string
	for _, v := range vs {
		if c.P.IsRepoFunc(fns[v]) {
			names = append(names, shortFn(fns[v]))
		}
	}
	sort.Strings(names)
	if len(names) > 3 {
		return fmt.Sprintf("%s+%d", names[0], len(names)-1)
	}
	return strings.Join(names, "|")
}

func tarjan(n int, adj [][]int) []int {
	index := make([]int, n)
	low := make([]int, n)
	on := make([]bool, n)
	comp := make([]int, n)
	for i := range index {
		index[i] = -1
	}
	var stack []int
	cnt, ncomp := 0, 0
	type frame struct{ v, i int }
	for s := 0; s < n; s++ {
		if index[s] != -1 {
			continue
		}
		work := []frame{{s, 0}}
		index[s], low[s] = cnt, cnt
		cnt++
		stack = append(stack, s)
		on[s] = true
		for len(work) > 0 {
			fr := &work[len(work)-1]
			v := fr.v
			if fr.i < len(adj[v]) {
				w := adj[v][fr.i]
				fr.i++
				if index[w] == -1 {
					index[w], low[w] = cnt, cnt
					cnt++
					stack = append(stack, w)
					on[w] = true
					work = append(work, frame{w, 0})
				} else if on[w] && index[w] < low[v] {
					low[v] = index[w]
				}
				continue
			}
			work = work[:len(work)-1]
			if len(work) > 0 {
				p := work[len(work)-1].v
				if low[v] < low[p] {
					low[p] = low[v]
				}
			}
			if low[v] == index[v] {
				for {
					w := stack[len(stack)-1]
					stack = stack[:len(stack)-1]
					on[w] = false
					comp[w] = ncomp
					if w == v {
						break
					}
				}
				ncomp++
			}
		}
	}
	return comp
}

func findCycle(g map[*ssa.Function][]*ssa.Function) []*ssa.Function {
	state := map[*ssa.Function]int{}
	var path []*ssa.Function
	var res []*ssa.Function
	var keys []*ssa.Function
	for k := range g {
		keys = append(keys, k)
	}
	sort.Slice(keys, func(i, j int) bool { return keys[i].String() < keys[j].String() })
	var dfs func(f *ssa.Function) bool
	dfs = func(f *ssa.Function) bool {
		state[f] = 1
		path = append(path, f)
		for _, h := range g[f] {
			if state[h] == 1 {
				for i, p := range path {
					if p == h {
						res = append([]*ssa.Function(nil), path[i:]...)
					}
				}
				return true
			}
			if state[h] == 0 && dfs(h) {
				return true
			}
		}
		state[f] = 2
		path = path[:len(path)-1]
		return false
	}
	for _, k := range keys {
		if state[k] == 0 && dfs(k) {
			return res
		}
	}
	return nil
}

// syntaxOf finds the declaration (and literal) of an SSA function.
func (c *Ctx) syntaxOf(f *ssa.Function) (pk *pkgT, decl *ast.FuncDecl, lit *ast.FuncLit, body *ast.BlockStmt) {
	top := f
	for top.Parent() != nil {
		top = top.Parent()
	}
	obj, _ := top.Object().(*types.Func)
	if obj == nil {
		return nil, nil, nil, nil
	}
	decl = c.P.Decl(obj)
	if decl == nil {
		return nil, nil, nil, nil
	}
	pk = c.P.PkgOfDecl(decl)
	body = decl.Body
	if f.Parent() != nil {
		if l, ok := f.Syntax().(*ast.FuncLit); ok {
			lit = l
			body = l.Body
		}
	}
	return pk, decl, lit, body
}

// siteLevels analyses the call at pos inside f: whether it is guarded by a visited
// set, and for each callee position (receiver = -1) a function giving the descent level
// of the argument relative to a set of candidate positions of the caller.
func (c *Ctx) siteLevels(f *ssa.Function, pos token.Pos) (bool, map[int]func(map[int]bool) int) {
	pk, decl, lit, body := c.syntaxOf(f)
	if pk == nil {
		return false, nil
	}
	var call *ast.CallExpr
	ast.Inspect(body, func(n ast.Node) bool {
		if ce, ok := n.(*ast.CallExpr); ok && (ce.Lparen == pos || ce.Pos() == pos) {
			call = ce
		}
		return true
	})
	if call == nil {
		return false, nil
	}
	info := pk.TypesInfo
	cf := c.CFG(pk, body)
	// positions of the enclosing function's parameters
	posOf := map[types.Object]int{}
	ft := decl.Type
	if lit != nil {
		ft = lit.Type
	} else if decl.Recv != nil && len(decl.Recv.List) == 1 && len(decl.Recv.List[0].Names) == 1 {
		posOf[info.ObjectOf(decl.Recv.List[0].Names[0])] = -1
	}
	i := 0
	for _, fl := range ft.Params.List {
		for _, nm := range fl.Names {
			if o := info.ObjectOf(nm); o != nil {
				posOf[o] = i
			}
			i++
		}
	}
	// a literal handed to an iterator over a descendant of the parent's parameter: its
	// parameters are elements of that descendant
	descClosure := false
	if lit != nil {
		pparams := map[types.Object]bool{}
		for _, fl := range []*ast.FieldList{decl.Recv, decl.Type.Params} {
			if fl == nil {
				continue
			}
			for _, f := range fl.List {
				for _, nm := range f.Names {
					if o := info.ObjectOf(nm); o != nil {
						pparams[o] = true
					}
				}
			}
		}
		pcf := c.CFG(pk, decl.Body)
		ast.Inspect(decl.Body, func(n ast.Node) bool {
			ce, ok := n.(*ast.CallExpr)
			if !ok {
				return true
			}
			for _, a := range ce.Args {
				if a == lit {
					if r := Recv(ce); r != nil && descLevel(info, pcf, pparams, r, 0) >= 1 {
						descClosure = true
					}
				}
			}
			return true
		})
	}
	if lit == nil && c.onlyDescCallback(pk, decl) {
		// a named function or method that is only ever handed, as a value, to an iterator over
		// a descendant of the handing function's parameter: like such a literal, its
		// parameters are elements of that descendant
		descClosure = true
	}
	mk := func(e ast.Expr) func(map[int]bool) int {
		return func(cand map[int]bool) int {
			params := map[types.Object]bool{}
			for o, p := range posOf {
				if cand[p] {
					params[o] = true
				}
			}
			if descClosure {
				if id, ok := ast.Unparen(e).(*ast.Ident); ok {
					if _, isParam := posOf[info.ObjectOf(id)]; isParam {
						return 1
					}
				}
			}
			return descLevel(info, cf, params, e, 0)
		}
	}
	levels := map[int]func(map[int]bool) int{}
	for j, a := range call.Args {
		levels[j] = mk(a)
	}
	if r := Recv(call); r != nil {
		levels[-1] = mk(r)
	}
	return c.callSiteVisitedGuard(pk, cf, body, call), levels
}

// descLevel: how many field selections / element-of steps separate e from a
// parameter (0: the parameter itself; -1: not derived from a parameter).
func descLevel(info *types.Info, cf *cfgx.Func, params map[types.Object]bool, e ast.Expr, depth int) int {
	if depth > 10 {
		return -1
	}
	e = ast.Unparen(e)
	switch x := e.(type) {
	case *ast.Ident:
		obj := info.ObjectOf(x)
		if obj == nil {
			return -1
		}
		if params[obj] {
			return 0
		}
		// range variable?
		lv := -1
		ast.Inspect(cf.Body, func(n ast.Node) bool {
			rs, ok := n.(*ast.RangeStmt)
			if !ok {
				return true
			}
			for _, kv := range []ast.Expr{rs.Key, rs.Value} {
				if id, ok := kv.(*ast.Ident); ok && info.ObjectOf(id) == obj {
					if l := descLevel(info, cf, params, rs.X, depth+1); l >= 0 {
						lv = l + 1
					}
				}
			}
			return true
		})
		if lv >= 0 {
			return lv
		}
		if cf.AssignedOnce(obj) {
			if r := cf.Resolve(x); r != ast.Expr(x) {
				return descLevel(info, cf, params, r, depth+1)
			}
		}
		return -1
	case *ast.SelectorExpr:
		if v, ok := info.ObjectOf(x.Sel).(*types.Var); ok && v.IsField() {
			if l := descLevel(info, cf, params, x.X, depth+1); l >= 0 {
				return l + 1
			}
		}
		return -1
	case *ast.IndexExpr:
		if l := descLevel(info, cf, params, x.X, depth+1); l >= 0 {
			return l + 1
		}
		return -1
	case *ast.StarExpr:
		return descLevel(info, cf, params, x.X, depth+1)
	case *ast.UnaryExpr:
		if x.Op == token.AND {
			return descLevel(info, cf, params, x.X, depth+1)
		}
	}
	return -1
}

// mapLookupOK matches a fact (ok, truth) where ok comes from `_, ok := M[k]` and
// returns M and k.
func mapLookupOf(info *types.Info, cf *cfgx.Func, e ast.Expr) (m, k ast.Expr, found bool) {
	// a lookup handed over by a helper's summary: the index expression itself
	if ix, ok := ast.Unparen(e).(*ast.IndexExpr); ok {
		if t := info.TypeOf(ix.X); t != nil {
			if _, isMap := t.Underlying().(*types.Map); isMap {
				return ix.X, ix.Index, true
			}
		}
		return nil, nil, false
	}
	id, ok := ast.Unparen(e).(*ast.Ident)
	if !ok {
		return nil, nil, false
	}
	obj := info.ObjectOf(id)
	ast.Inspect(cf.Body, func(n ast.Node) bool {
		as, ok := n.(*ast.AssignStmt)
		if !ok || len(as.Lhs) != 2 || len(as.Rhs) != 1 {
			return true
		}
		if oid, ok := as.Lhs[1].(*ast.Ident); !ok || info.ObjectOf(oid) != obj {
			return true
		}
		if ix, ok := ast.Unparen(as.Rhs[0]).(*ast.IndexExpr); ok {
			if _, isMap := info.TypeOf(ix.X).Underlying().(*types.Map); isMap {
				m, k, found = ix.X, ix.Index, true
			}
		}
		return true
	})
	return
}

// callSiteVisitedGuard: the call is reached only when M[k] was absent, and M[k] is
// inserted before the call (visited / on-stack set).
func (c *Ctx) callSiteVisitedGuard(pk *pkgT, cf *cfgx.Func, body *ast.BlockStmt, call *ast.CallExpr) bool {
	info := pk.TypesInfo
	var gm, gk ast.Expr
	gen := func(fa cfgx.Fact) bool {
		if fa.Truth {
			return false
		}
		m, k, ok := mapLookupOf(info, cf, fa.Expr)
		if !ok {
			return false
		}
		gm, gk = m, k
		return true
	}
	if cf.MustAt(call, gen, nil, nil) && gm != nil && markHeldAt(info, cf, call, gm, gk) {
		return true
	}
	{
		// ... or a helper did both: `if !core.startExpanding(name) { return err }` with the
		// helper answering true only after it found the key absent and inserted it
		var tsMap types.Object
		genTS := func(fa cfgx.Fact) bool {
			e, truth := ast.Unparen(fa.Expr), fa.Truth
			for {
				u, isNot := e.(*ast.UnaryExpr)
				if !isNot || u.Op != token.NOT {
					break
				}
				e, truth = ast.Unparen(u.X), !truth
			}
			hc, ok := e.(*ast.CallExpr)
			if !ok || !truth {
				return false
			}
			if mo, ok := c.testAndSetHelper(Callee(info, hc)); ok {
				tsMap = mo
				return true
			}
			return false
		}
		// a release before the call (not a deferred one) ends the protection
		kill := func(nd ast.Node) bool {
			es, ok := nd.(*ast.ExprStmt)
			if !ok {
				return false
			}
			ce, ok := es.X.(*ast.CallExpr)
			if !ok {
				return false
			}
			deletes := func(body ast.Node, inf *types.Info) bool {
				hit := false
				ast.Inspect(body, func(y ast.Node) bool {
					if dc, ok := y.(*ast.CallExpr); ok && len(dc.Args) == 2 {
						if id, ok := dc.Fun.(*ast.Ident); ok && id.Name == "delete" {
							if sel, ok := ast.Unparen(dc.Args[0]).(*ast.SelectorExpr); ok && tsMap != nil && inf.ObjectOf(sel.Sel) == tsMap {
								hit = true
							}
						}
					}
					return !hit
				})
				return hit
			}
			if deletes(ce, info) {
				return true
			}
			if gd := c.P.Decl(Callee(info, ce)); gd != nil {
				return deletes(gd.Body, c.P.PkgOfDecl(gd).TypesInfo)
			}
			return false
		}
		return cf.MustAt(call, genTS, nil, kill)
	}
}

// testAndSetHelper: h(k) bool answers true only on paths on which it found M[k] absent and
// then inserted it (M a map field, k its parameter). Returns the map field.
func (c *Ctx) testAndSetHelper(h *types.Func) (types.Object, bool) {
	hd := c.P.Decl(h)
	if hd == nil || hd.Type.Results == nil || len(hd.Type.Results.List) != 1 {
		return nil, false
	}
	hpk := c.P.PkgOfDecl(hd)
	info := hpk.TypesInfo
	if b, ok := info.TypeOf(hd.Type.Results.List[0].Type).Underlying().(*types.Basic); !ok || b.Kind() != types.Bool {
		return nil, false
	}
	params := map[types.Object]bool{}
	for _, fl := range hd.Type.Params.List {
		for _, nm := range fl.Names {
			params[info.ObjectOf(nm)] = true
		}
	}
	cf := c.CFG(hpk, hd.Body)
	var field types.Object
	good, n := true, 0
	inspectNoLit(hd.Body, func(x ast.Node) bool {
		ret, ok := x.(*ast.ReturnStmt)
		if !ok || len(ret.Results) != 1 {
			return true
		}
		tv, has := info.Types[ret.Results[0]]
		if !has || tv.Value == nil {
			good = false // a computed answer: not judged
			return true
		}
		if tv.Value.ExactString() != "true" {
			return true
		}
		n++
		var gm, gk ast.Expr
		gen := func(fa cfgx.Fact) bool {
			if fa.Truth {
				return false
			}
			m, k, ok := mapLookupOf(info, cf, fa.Expr)
			if !ok {
				return false
			}
			if id, isID := ast.Unparen(k).(*ast.Ident); !isID || !params[info.ObjectOf(id)] {
				return false
			}
			gm, gk = m, k
			return true
		}
		if !cf.MustAt(ret, gen, nil, nil) || gm == nil || !markHeldAt(info, cf, ret, gm, gk) {
			good = false
			return true
		}
		if sel, ok := ast.Unparen(gm).(*ast.SelectorExpr); ok {
			field = info.ObjectOf(sel.Sel)
		} else {
			good = false
		}
		return true
	})
	if !good || n == 0 || field == nil {
		return nil, false
	}
	return field, true
}

// markHeldAt: on every path to node at, M[k] was inserted and not deleted again
// (a deferred delete runs after the call and does not count).
func markHeldAt(info *types.Info, cf *cfgx.Func, at ast.Node, gm, gk ast.Expr) bool {
	genStmt := func(nd ast.Node) bool {
		as, ok := nd.(*ast.AssignStmt)
		if !ok || len(as.Lhs) != 1 {
			return false
		}
		ix, ok := ast.Unparen(as.Lhs[0]).(*ast.IndexExpr)
		return ok && cfgx.SameExpr(info, ix.X, gm) && cfgx.SameExpr(info, ix.Index, gk)
	}
	kill := func(nd ast.Node) bool {
		es, ok := nd.(*ast.ExprStmt)
		if !ok {
			return false
		}
		call, ok := es.X.(*ast.CallExpr)
		if !ok || len(call.Args) != 2 {
			return false
		}
		id, ok := call.Fun.(*ast.Ident)
		return ok && id.Name == "delete" && cfgx.SameExpr(info, call.Args[0], gm)
	}
	return cf.MustAt(at, nil, genStmt, kill)
}

// entryGuarded: f starts with `if _, ok := M[p]; ok { return }` and `M[p] = ...`
// for one of its own parameters p, both before every in-SCC call it makes.
func (c *Ctx) entryGuarded(f *ssa.Function, inSCC map[*ssa.Function]bool) bool {
	pk, decl, lit, body := c.syntaxOf(f)
	if pk == nil || lit != nil {
		return false
	}
	info := pk.TypesInfo
	cf := c.CFG(pk, body)
	params := map[types.Object]bool{}
	for _, fl := range decl.Type.Params.List {
		for _, nm := range fl.Names {
			if o := info.ObjectOf(nm); o != nil {
				params[o] = true
			}
		}
	}
	var calls []*ast.CallExpr
	for _, e := range c.P.CallGraph().Nodes[f].Out {
		if e.Callee.Func != nil && inSCC[e.Callee.Func] && e.Site != nil {
			pos := e.Site.Pos()
			ast.Inspect(body, func(n ast.Node) bool {
				if ce, ok := n.(*ast.CallExpr); ok && (ce.Lparen == pos || ce.Pos() == pos) {
					calls = append(calls, ce)
				}
				return true
			})
		}
	}
	if len(calls) == 0 {
		return false
	}
	for _, call := range calls {
		var gm, gk ast.Expr
		gen := func(fa cfgx.Fact) bool {
			if fa.Truth {
				return false
			}
			m, k, ok := mapLookupOf(info, cf, fa.Expr)
			if !ok {
				return false
			}
			id, isId := ast.Unparen(k).(*ast.Ident)
			if !isId || !params[info.ObjectOf(id)] {
				return false
			}
			gm, gk = m, k
			return true
		}
		if !cf.MustAt(call, gen, nil, nil) || gm == nil {
			// the lookup may have been made by the callers (directly, or by a helper whose
			// summary says so) while this function only sets and holds the mark
			if m, k, ok := c.callersLookedUpMark(pk, decl, cf, call, params); ok {
				gm, gk = m, k
			} else {
				return false
			}
		}
		if !markHeldAt(info, cf, call, gm, gk) {
			return false
		}
	}
	return true
}

// callersLookedUpMark: before `call`, the function stores M[p] for one of its parameters p
// (the mark), and every static caller of the function reaches its call only after a lookup
// (not found) of the corresponding argument in the same map.
func (c *Ctx) callersLookedUpMark(pk *pkgT, decl *ast.FuncDecl, cf *cfgx.Func, call *ast.CallExpr, params map[types.Object]bool) (ast.Expr, ast.Expr, bool) {
	info := pk.TypesInfo
	var ix *ast.IndexExpr
	cf.Before(call, func(nd ast.Node) {
		as, ok := nd.(*ast.AssignStmt)
		if !ok || len(as.Lhs) != 1 {
			return
		}
		if x, ok := ast.Unparen(as.Lhs[0]).(*ast.IndexExpr); ok {
			if t := info.TypeOf(x.X); t != nil {
				if _, isMap := t.Underlying().(*types.Map); isMap {
					if id, isId := ast.Unparen(x.Index).(*ast.Ident); isId && params[info.ObjectOf(id)] {
						ix = x
					}
				}
			}
		}
	})
	if ix == nil {
		return nil, nil, false
	}
	if _, ok := c.h1CallersLookedUp(pk, decl, ix); !ok {
		return nil, nil, false
	}
	return ix.X, ix.Index, true
}

// ---------------------------------------------------------------- T1: loops

func (c *Ctx) ruleT1Loops() {
	sc := c.Run.Begin("T1l", "every for-loop that is not a range or a plain counted loop makes progress on every iteration: pointer-chain walk, shrinking slice, monotone index, lexeme/scanner worklist", 1)
	defer sc.End()
	next := c.Func("scanner", "Scanner.Next")
	stackPop := c.Func("scanner", "Stack.Pop")
	c.P.Funcs(func(pk *pkgT, fd *ast.FuncDecl) {
		info := pk.TypesInfo
		n := 0
		ast.Inspect(fd.Body, func(x ast.Node) bool {
			fs, ok := x.(*ast.ForStmt)
			if !ok {
				return true
			}
			n++
			fn := c.P.DeclName(fd)
			key := fmt.Sprintf("%s:for#%d", fn, n)
			pos := c.P.Pos(fs.Pos())
			body := innermostBody(fd, fs)
			cf := c.CFG(pk, body.body)
			if why, ok := countedLoop(info, fs); ok {
				sc.Holds(key, pos, why)
				return true
			}
			ok2, why := c.loopProgress(pk, cf, fs, next, stackPop)
			if ok2 {
				sc.Holds(key, pos, why)
				return true
			}
			if c.t1LoopFollowsRefChain(pk, fs) {
				sc.Exception(key, pos, t1WhyRefChain)
				return true
			}
			sc.Violation(key, pos, "loop matches no termination idiom ("+why+"): an iteration may make no progress, so some input can make the parser loop forever")
			return true
		})
	})
	// the include worklist: Stack.Push refuses a file that is already on the stack
	c.checkIncludeWorklist(sc)
}

// countedLoop: for i := a; i OP n; i++/i-- where the body writes i only in the
// remove-and-step-back idiom.
func countedLoop(info *types.Info, fs *ast.ForStmt) (string, bool) {
	if fs.Init == nil || fs.Cond == nil || fs.Post == nil {
		return "", false
	}
	init, ok := fs.Init.(*ast.AssignStmt)
	if !ok || len(init.Lhs) != 1 {
		return "", false
	}
	iv, ok := init.Lhs[0].(*ast.Ident)
	if !ok {
		return "", false
	}
	obj := info.ObjectOf(iv)
	post, ok := fs.Post.(*ast.IncDecStmt)
	if !ok {
		return "", false
	}
	if pid, ok := post.X.(*ast.Ident); !ok || info.ObjectOf(pid) != obj {
		return "", false
	}
	cond, ok := ast.Unparen(fs.Cond).(*ast.BinaryExpr)
	if !ok {
		return "", false
	}
	if cid, ok := ast.Unparen(cond.X).(*ast.Ident); !ok || info.ObjectOf(cid) != obj {
		return "", false
	}
	up := post.Tok == token.INC
	switch cond.Op {
	case token.LSS, token.LEQ, token.NEQ:
		if !up {
			return "", false
		}
	case token.GTR, token.GEQ:
		if up {
			return "", false
		}
	default:
		return "", false
	}
	// writes to i in the body
	writes := 0
	stepBack := 0
	var check func(list []ast.Stmt)
	check = func(list []ast.Stmt) {
		for i, st := range list {
			switch s := st.(type) {
			case *ast.IncDecStmt:
				if id, ok := s.X.(*ast.Ident); ok && info.ObjectOf(id) == obj {
					writes++
					// i-- right after  S = append(S[:i], S[i+1:]...)  with the loop bounded by len(S)
					if s.Tok == token.DEC && up && i > 0 && isRemoveAt(info, list[i-1], obj, cond.Y) {
						stepBack++
					}
				}
			case *ast.AssignStmt:
				for _, l := range s.Lhs {
					if id, ok := l.(*ast.Ident); ok && info.ObjectOf(id) == obj {
						writes++
					}
				}
			case *ast.BlockStmt:
				check(s.List)
			case *ast.IfStmt:
				check(s.Body.List)
				if eb, ok := s.Else.(*ast.BlockStmt); ok {
					check(eb.List)
				}
			case *ast.ForStmt:
				check(s.Body.List)
			case *ast.RangeStmt:
				check(s.Body.List)
			case *ast.SwitchStmt:
				for _, cl := range s.Body.List {
					check(cl.(*ast.CaseClause).Body)
				}
			}
		}
	}
	check(fs.Body.List)
	if writes == stepBack {
		if stepBack > 0 {
			return "counted loop with remove-and-step-back (len - i decreases every iteration)", true
		}
		return "counted loop", true
	}
	return "", false
}

// isRemoveAt: st is  S = append(S[:i], S[i+1:]...)  and bound is len(S).
func isRemoveAt(info *types.Info, st ast.Stmt, i types.Object, bound ast.Expr) bool {
	as, ok := st.(*ast.AssignStmt)
	if !ok || len(as.Lhs) != 1 || len(as.Rhs) != 1 {
		return false
	}
	call, ok := as.Rhs[0].(*ast.CallExpr)
	if !ok || len(call.Args) != 2 || !call.Ellipsis.IsValid() {
		return false
	}
	if id, ok := call.Fun.(*ast.Ident); !ok || id.Name != "append" {
		return false
	}
	s1, ok1 := call.Args[0].(*ast.SliceExpr)
	s2, ok2 := call.Args[1].(*ast.SliceExpr)
	if !ok1 || !ok2 || !cfgx.SameExpr(info, s1.X, as.Lhs[0]) || !cfgx.SameExpr(info, s2.X, as.Lhs[0]) {
		return false
	}
	if hid, ok := s1.High.(*ast.Ident); !ok || info.ObjectOf(hid) != i {
		return false
	}
	lenOf, ok := lengthExpr(info, bound)
	return ok && cfgx.SameExpr(info, lenOf, as.Lhs[0])
}

// isRemoval: S = append(S[:i], S[i+1:]...) for any index expression i.
func isRemoval(info *types.Info, as *ast.AssignStmt) bool {
	if len(as.Lhs) != 1 || len(as.Rhs) != 1 {
		return false
	}
	call, ok := ast.Unparen(as.Rhs[0]).(*ast.CallExpr)
	if !ok || len(call.Args) != 2 || !call.Ellipsis.IsValid() {
		return false
	}
	if id, ok := call.Fun.(*ast.Ident); !ok || id.Name != "append" {
		return false
	}
	s1, ok1 := ast.Unparen(call.Args[0]).(*ast.SliceExpr)
	s2, ok2 := ast.Unparen(call.Args[1]).(*ast.SliceExpr)
	if !ok1 || !ok2 || !cfgx.SameExpr(info, s1.X, as.Lhs[0]) || !cfgx.SameExpr(info, s2.X, as.Lhs[0]) {
		return false
	}
	if s1.Low != nil || s1.High == nil || s2.High != nil || s2.Low == nil {
		return false
	}
	// constants: S[:k] and S[k+1:]
	if hv, ok := info.Types[s1.High]; ok && hv.Value != nil {
		if lv, ok := info.Types[s2.Low]; ok && lv.Value != nil {
			h, ok1 := constant.Int64Val(constant.ToInt(hv.Value))
			l, ok2 := constant.Int64Val(constant.ToInt(lv.Value))
			return ok1 && ok2 && l == h+1
		}
		return false
	}
	// S[i+1:] with the same i as S[:i]
	be, ok := ast.Unparen(s2.Low).(*ast.BinaryExpr)
	if !ok || be.Op != token.ADD || !cfgx.SameExpr(info, be.X, s1.High) {
		return false
	}
	tv, ok := info.Types[be.Y]
	return ok && tv.Value != nil && tv.Value.ExactString() == "1"
}

// isShrink: X = X[:len(X)-k] (the length possibly held in a local) or X = X[k:], k >= 1.
func isShrink(info *types.Info, cf *cfgx.Func, as *ast.AssignStmt) bool {
	if len(as.Lhs) != 1 || len(as.Rhs) != 1 || as.Tok != token.ASSIGN {
		return false
	}
	sl, ok := ast.Unparen(as.Rhs[0]).(*ast.SliceExpr)
	if !ok || !cfgx.SameExpr(info, sl.X, as.Lhs[0]) {
		return false
	}
	pos := func(e ast.Expr) bool {
		tv, ok := info.Types[e]
		if !ok || tv.Value == nil {
			return false
		}
		v, ok := constant.Int64Val(constant.ToInt(tv.Value))
		return ok && v >= 1
	}
	if sl.Low != nil && sl.High == nil {
		return pos(sl.Low)
	}
	if sl.Low == nil && sl.High != nil {
		if be, ok := ast.Unparen(sl.High).(*ast.BinaryExpr); ok && be.Op == token.SUB && pos(be.Y) {
			if lo, isLen := lengthExpr(info, cf.Resolve(be.X)); isLen && cfgx.SameExpr(info, lo, as.Lhs[0]) {
				return true
			}
		}
		// X = X[:len(rest)] with rest := X[k:], k >= 1
		if lo, isLen := lengthExpr(info, cf.Resolve(sl.High)); isLen {
			if tail, ok := ast.Unparen(cf.Resolve(lo)).(*ast.SliceExpr); ok && tail.High == nil && tail.Low != nil && pos(tail.Low) && cfgx.SameExpr(info, tail.X, as.Lhs[0]) {
				return true
			}
		}
	}
	return false
}

// loopProgress: every path around the loop executes a progress statement.
func (c *Ctx) loopProgress(pk *pkgT, cf *cfgx.Func, fs *ast.ForStmt, next, stackPop *types.Func) (bool, string) {
	info := pk.TypesInfo
	kinds := map[string]bool{}
	isProgress := func(nd ast.Node) bool {
		res := false
		ast.Inspect(nd, func(x ast.Node) bool {
			if res {
				return false
			}
			switch s := x.(type) {
			case *ast.FuncLit:
				return false
			case *ast.AssignStmt:
				if len(s.Lhs) == 1 && len(s.Rhs) == 1 && s.Tok == token.ASSIGN {
					l, r := s.Lhs[0], ast.Unparen(s.Rhs[0])
					// X = X.f   (pointer chain; X may be read through a per-iteration alias)
					if sel, ok := r.(*ast.SelectorExpr); ok && (cfgx.SameExpr(info, sel.X, l) || cf.SameResolved(sel.X, l)) {
						if v, ok := info.ObjectOf(sel.Sel).(*types.Var); ok && v.IsField() {
							kinds["pointer-chain walk "+types.ExprString(l)+"="+types.ExprString(r)] = true
							res = true
						}
					}
					// S = append(S[:i], S[i+1:]...)  (removal: len(S) decreases)
					if isRemoval(info, s) {
						kinds["element removal from "+types.ExprString(l)] = true
						res = true
					}
					// v = v[1:] / v = v[:len(v)-1]
					if sl, ok := r.(*ast.SliceExpr); ok && cfgx.SameExpr(info, sl.X, l) {
						if sl.Low != nil && sl.High == nil {
							if tv, ok := info.Types[sl.Low]; ok && tv.Value != nil && tv.Value.ExactString() != "0" {
								kinds["shrinking slice"] = true
								res = true
							}
						}
						if sl.Low == nil && sl.High != nil {
							if be, ok := ast.Unparen(sl.High).(*ast.BinaryExpr); ok && be.Op == token.SUB {
								if lo, ok := lengthExpr(info, be.X); ok && cfgx.SameExpr(info, lo, l) {
									kinds["shrinking slice"] = true
									res = true
								}
							}
						}
					}
				}
			case *ast.IncDecStmt:
				kinds["monotone index "+types.ExprString(s.X)+s.Tok.String()] = true
				res = true
			case *ast.CallExpr:
				callee := Callee(info, s)
				// a helper whose body unconditionally removes an element of a slice field
				if callee != nil {
					if hd := c.P.Decl(callee); hd != nil && c.P.PkgOfDecl(hd) == pk {
						hcf := c.CFG(pk, hd.Body)
						for _, st := range hd.Body.List {
							if as, ok := st.(*ast.AssignStmt); ok && (isRemoval(info, as) || isShrink(info, hcf, as)) {
								kinds["element removal via "+callee.Name()+"()"] = true
								res = true
							}
						}
					}
				}
				if callee != nil && next != nil && callee == next {
					kinds["lexeme worklist: Scanner.Next() (bounded by S1e)"] = true
					res = true
				}
				if callee != nil && stackPop != nil && c.reachesStatic(callee, stackPop, 2) {
					kinds["include worklist: scanner Stack.Pop()"] = true
					res = true
				}
			}
			return true
		})
		return res
	}
	// locate the loop head block
	var head *cfg.Block
	for _, b := range cf.G.Blocks {
		if b.Stmt == ast.Stmt(fs) && (b.Kind == cfg.KindForLoop || (b.Kind == cfg.KindForBody && fs.Cond == nil)) {
			head = b
		}
	}
	if head == nil {
		return false, "loop head not found in the CFG"
	}
	inLoop := func(b *cfg.Block) bool {
		for _, nd := range b.Nodes {
			if fs.Pos() <= nd.Pos() && nd.End() <= fs.End() {
				return true
			}
		}
		// empty blocks created for this loop's structure
		if b.Stmt != nil && fs.Pos() <= b.Stmt.Pos() && b.Stmt.End() <= fs.End() {
			return true
		}
		return false
	}
	// DFS from head: can we come back to head without crossing a progress node?
	seen := map[*cfg.Block]bool{}
	var dfs func(b *cfg.Block, first bool) bool
	dfs = func(b *cfg.Block, first bool) bool {
		if !first && b == head {
			return true
		}
		if seen[b] || !b.Live || !inLoop(b) {
			return false
		}
		seen[b] = true
		for _, nd := range b.Nodes {
			if isProgress(nd) {
				return false
			}
		}
		for _, s := range b.Succs {
			if dfs(s, false) {
				return true
			}
		}
		return false
	}
	// a loop without a condition starts with its first body block: its statements count;
	// with a condition, the head holds only the condition
	if fs.Cond == nil {
		headProgress := false
		for _, nd := range head.Nodes {
			if isProgress(nd) {
				headProgress = true
			}
		}
		if !headProgress {
			for _, s := range head.Succs {
				if dfs2(head, s, dfs) {
					return false, "an iteration path makes no recognised progress"
				}
			}
		}
	} else {
		for _, s := range head.Succs {
			if dfs2(head, s, dfs) {
				return false, "an iteration path makes no recognised progress"
			}
		}
	}
	var ks []string
	for k := range kinds {
		ks = append(ks, k)
	}
	sort.Strings(ks)
	if len(ks) == 0 {
		return false, "no progress statement in the loop"
	}
	return true, "every iteration path passes: " + strings.Join(ks, "; ")
}

func dfs2(head, s *cfg.Block, dfs func(*cfg.Block, bool) bool) bool {
	if s == head {
		return true
	}
	return dfs(s, false)
}

// reachesStatic: f statically calls target within depth calls.
func (c *Ctx) reachesStatic(f, target *types.Func, depth int) bool {
	if f == target {
		return true
	}
	if depth == 0 {
		return false
	}
	fd := c.P.Decl(f)
	if fd == nil {
		return false
	}
	for _, g := range staticCallees(c.P, c.P.PkgOfDecl(fd).TypesInfo, fd.Body) {
		if c.reachesStatic(g, target, depth-1) {
			return true
		}
	}
	return false
}

// checkIncludeWorklist: in the scanner stack's Push, the append to the stack is
// dominated by a membership test (found -> error) and an insert into the same set;
// Pop deletes from that set.
func (c *Ctx) checkIncludeWorklist(sc interface {
	Holds(string, string, string)
	Violation(string, string, string)
	Undecided(string, string, string)
}) {
	push := c.Func("scanner", "Stack.Push")
	fd := c.P.Decl(push)
	if fd == nil {
		sc.Undecided("include-worklist", "-", "unresolved anchor: scanner.Stack.Push")
		return
	}
	pk := c.P.PkgOfDecl(fd)
	info := pk.TypesInfo
	cf := c.CFG(pk, fd.Body)
	stackF := c.Field("scanner", "Stack", "stack")
	found := false
	// the append itself, or the call of a method of the package that does it
	growsStack := func(n ast.Node) bool {
		switch x := n.(type) {
		case *ast.AssignStmt:
			return len(x.Lhs) == 1 && fieldSel(info, x.Lhs[0], stackF)
		case *ast.ExprStmt:
			call, ok := x.X.(*ast.CallExpr)
			if !ok {
				return false
			}
			gd := c.P.Decl(Callee(info, call))
			if gd == nil || c.P.PkgOfDecl(gd) != pk || gd == fd {
				return false
			}
			hit := false
			ast.Inspect(gd.Body, func(y ast.Node) bool {
				if as, ok := y.(*ast.AssignStmt); ok && len(as.Lhs) == 1 && fieldSel(info, as.Lhs[0], stackF) {
					hit = true
				}
				return !hit
			})
			return hit
		}
		return false
	}
	ast.Inspect(fd.Body, func(n ast.Node) bool {
		as, ok := n.(ast.Stmt)
		if !ok || !growsStack(n) {
			return true
		}
		found = true
		var gm, gk ast.Expr
		gen := func(fa cfgx.Fact) bool {
			if fa.Truth {
				return false
			}
			m, k, ok := mapLookupOf(info, cf, fa.Expr)
			if ok {
				gm, gk = m, k
			}
			return ok
		}
		if cf.MustAt(as, gen, nil, nil) && gm != nil {
			sc.Holds("include-worklist:Push", c.P.Pos(as.Pos()), "the scanner stack grows only for a file that is not already on it ("+types.ExprString(gm)+"): include depth is bounded by the number of distinct files")
			// the key identifies the file: an accessor chain, no transformation that could map two files to one key
			_, k, _ := mapLookupOfAny(info, cf, gm)
			if k == nil {
				k = gk
			}
			if k != nil {
				if bad := transformedKey(info, cf.Resolve(k)); bad != "" {
					sc.Violation("include-worklist:key", c.P.Pos(k.Pos()), "the on-stack set of files is keyed by "+bad+" instead of the file name itself: two different files can share a key and a legitimate include is refused as recursion (or a real cycle is missed)")
				} else {
					sc.Holds("include-worklist:key", c.P.Pos(k.Pos()), "keyed by the file name itself ("+types.ExprString(cf.Resolve(k))+")")
				}
			}
		} else {
			sc.Violation("include-worklist:Push", c.P.Pos(as.Pos()), "a scanner is pushed without testing that its file is not already on the stack: an include cycle recurses forever")
		}
		return true
	})
	if !found {
		sc.Undecided("include-worklist:Push", c.P.Pos(fd.Pos()), "no append to Stack.stack in Push")
	}
}

// mapLookupOfAny finds some `_, ok := M[k]` on map expression m in the body.
func mapLookupOfAny(info *types.Info, cf *cfgx.Func, m ast.Expr) (ast.Expr, ast.Expr, bool) {
	var rm, rk ast.Expr
	ast.Inspect(cf.Body, func(n ast.Node) bool {
		as, ok := n.(*ast.AssignStmt)
		if !ok || len(as.Lhs) != 2 || len(as.Rhs) != 1 {
			return true
		}
		if ix, ok := ast.Unparen(as.Rhs[0]).(*ast.IndexExpr); ok && cfgx.SameExpr(info, ix.X, m) {
			rm, rk = ix.X, ix.Index
		}
		return true
	})
	return rm, rk, rk != nil
}

// transformedKey returns a description when e is not a pure accessor chain
// (selectors and zero-argument method calls only).
func transformedKey(info *types.Info, e ast.Expr) string {
	for {
		e = ast.Unparen(e)
		switch x := e.(type) {
		case *ast.Ident:
			return ""
		case *ast.SelectorExpr:
			e = x.X
		case *ast.CallExpr:
			if len(x.Args) != 0 {
				return types.ExprString(x)
			}
			sel, ok := x.Fun.(*ast.SelectorExpr)
			if !ok {
				return types.ExprString(x)
			}
			e = sel.X
		default:
			return types.ExprString(e)
		}
	}
}

// onlyDescCallback: the function is never called directly; every reference to it is a
// function value passed as an argument of a call whose receiver descends (by a field or
// element step) from a parameter of the referring function.
func (c *Ctx) onlyDescCallback(pk *pkgT, decl *ast.FuncDecl) bool {
	self, _ := pk.TypesInfo.Defs[decl.Name].(*types.Func)
	if self == nil || len(c.callSitesOf(self)) > 0 {
		return false
	}
	refs, good := 0, 0
	c.P.Funcs(func(p *pkgT, fd *ast.FuncDecl) {
		info := p.TypesInfo
		pparams := map[types.Object]bool{}
		for _, fl := range []*ast.FieldList{fd.Recv, fd.Type.Params} {
			if fl == nil {
				continue
			}
			for _, f := range fl.List {
				for _, nm := range f.Names {
					if o := info.ObjectOf(nm); o != nil {
						pparams[o] = true
					}
				}
			}
		}
		pcf := c.CFG(p, fd.Body)
		ast.Inspect(fd.Body, func(n ast.Node) bool {
			ce, ok := n.(*ast.CallExpr)
			if !ok {
				return true
			}
			for _, a := range ce.Args {
				var id *ast.Ident
				switch x := ast.Unparen(a).(type) {
				case *ast.Ident:
					id = x
				case *ast.SelectorExpr:
					id = x.Sel
				}
				if id == nil || info.ObjectOf(id) != types.Object(self) {
					continue
				}
				refs++
				if r := Recv(ce); r != nil && descLevel(info, pcf, pparams, r, 0) >= 1 {
					good++
				}
			}
			return true
		})
	})
	return refs > 0 && refs == good
}
