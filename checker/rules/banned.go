package rules

import (
	"fmt"
	"go/ast"
	"go/token"
	"go/types"
	"strings"

	"verif/checker/cfgx"
)

// bannedLookupGen accepts the fact "ok is false" for `_, ok := <x>.bannedDirectives[k]`
// with keyOK(k).
func bannedLookupGen(info *types.Info, cf *cfgx.Func, field *types.Var, keyOK func(ast.Expr) bool) func(cfgx.Fact) bool {
	return func(fa cfgx.Fact) bool {
		if fa.Truth {
			return false
		}
		m, k, found := mapLookupOf(info, cf, fa.Expr)
		if !found || !fieldSel(info, m, field) {
			return false
		}
		return keyOK(k)
	}
}

// directiveConstructors: functions of package directive that return *Directive built
// from a composite literal (directly or through another constructor).
func (c *Ctx) directiveConstructors() map[*types.Func]bool {
	pk := c.P.Pkg("directive")
	dirT := c.Named("directive", "Directive")
	out := map[*types.Func]bool{}
	if pk == nil || dirT == nil {
		return out
	}
	for changed := true; changed; {
		changed = false
		for _, name := range pk.Types.Scope().Names() {
			f, ok := pk.Types.Scope().Lookup(name).(*types.Func)
			if !ok || out[f] {
				continue
			}
			sig := f.Type().(*types.Signature)
			if sig.Results().Len() != 1 {
				continue
			}
			p, ok := sig.Results().At(0).Type().(*types.Pointer)
			if !ok || !types.Identical(p.Elem(), dirT) {
				continue
			}
			fd := c.P.Decl(f)
			if fd == nil {
				continue
			}
			is := false
			ast.Inspect(fd.Body, func(n ast.Node) bool {
				ret, ok := n.(*ast.ReturnStmt)
				if !ok || len(ret.Results) != 1 {
					return true
				}
				// the literal may sit in a local that is filled further before it is returned
				switch r := ast.Unparen(c.CFG(pk, fd.Body).Resolve(ret.Results[0])).(type) {
				case *ast.UnaryExpr:
					if _, ok := r.X.(*ast.CompositeLit); ok && r.Op == token.AND {
						is = true
					}
				case *ast.CallExpr:
					if g := Callee(pk.TypesInfo, r); g != nil && out[g] {
						is = true
					}
				}
				return true
			})
			if is {
				out[f] = true
				changed = true
			}
		}
	}
	return out
}

// RuleB2: a banned kind is refused where directives are created and before files are touched.
func RuleB2(c *Ctx) {
	sc := c.Run.Begin("B2", "every creation of a directive (the only call sites of the directive constructors outside their package) is dominated by a bannedDirectives lookup on the created kind whose found branch cannot reach it, and every file-system call is reachable only after a bannedDirectives lookup on the INCLUDE kind", 1)
	defer sc.End()
	banned := c.Field("core", "JApiCore", "bannedDirectives")
	ctors := c.directiveConstructors()
	dpk := c.P.Pkg("directive")
	if banned == nil || len(ctors) == 0 || dpk == nil {
		sc.Undecided("anchors", "-", "unresolved anchor: JApiCore.bannedDirectives / directive constructors")
		return
	}
	includeConst, _ := dpk.Types.Scope().Lookup("Include").(*types.Const)
	n := 0
	c.eachCall(func(cs callSite) {
		info := cs.Pk.TypesInfo
		f := Callee(info, cs.Call)
		if f == nil {
			return
		}
		if ctors[f] && cs.Pk != dpk {
			n++
			key := fmt.Sprintf("create:%s#%d", c.P.DeclName(cs.Decl), n)
			cf := c.CFG(cs.Pk, cs.Body)
			kind := cs.Call.Args[0]
			gen := bannedLookupGen(info, cf, banned, func(k ast.Expr) bool { return cf.SameResolved(k, kind) })
			if cf.MustAt(cs.Call, gen, nil, nil) {
				sc.Holds(key, c.P.Pos(cs.Call.Pos()), "the ban test on the created kind dominates the creation")
			} else {
				sc.Violation(key, c.P.Pos(cs.Call.Pos()), "a directive is created without first testing its kind against bannedDirectives: MACRO, PASTE and INCLUDE never reach the later test in addDirective, so banning them (or any kind inside an unpasted macro) has no effect")
			}
			return
		}
		// file-system access
		if f.Pkg() != nil && (f.Pkg().Path() == "os" || f.Pkg().Path() == "io/ioutil") && fsCall(f.Name()) {
			if cs.Pk.Types.Path() != c.P.Pkg("core").Types.Path() {
				return // kit's reader is the caller-supplied root path, checked by I1
			}
			n++
			key := fmt.Sprintf("fs:%s:%s#%d", c.P.DeclName(cs.Decl), f.Name(), n)
			ok, why := c.guardedByIncludeBan(cs, cs.Call, banned, includeConst, 0)
			if ok {
				sc.Holds(key, c.P.Pos(cs.Call.Pos()), why)
			} else {
				sc.Violation(key, c.P.Pos(cs.Call.Pos()), "the file system is touched without a preceding ban test on INCLUDE ("+why+"): a host that bans INCLUDE to keep the parser off its files gets no protection")
			}
		}
	})
}

func fsCall(name string) bool {
	switch name {
	case "Stat", "Lstat", "ReadFile", "Open", "OpenFile", "ReadDir", "Create", "WriteFile", "Readlink":
		return true
	}
	return false
}

func (c *Ctx) guardedByIncludeBan(cs callSite, at ast.Node, banned *types.Var, include *types.Const, depth int) (bool, string) {
	info := cs.Pk.TypesInfo
	cf := c.CFG(cs.Pk, cs.Body)
	gen := bannedLookupGen(info, cf, banned, func(k ast.Expr) bool {
		tv, ok := info.Types[k]
		return ok && tv.Value != nil && include != nil && tv.Value.ExactString() == include.Val().ExactString()
	})
	if cf.MustAt(at, gen, nil, nil) {
		return true, "dominated by the ban test on INCLUDE"
	}
	if depth > 3 || cs.Lit != nil {
		return false, "no ban test on the path"
	}
	f := declObj(cs)
	if f == nil || c.usedAsValue(f) {
		return false, "function used as a value"
	}
	callers := c.callSitesOf(f)
	if len(callers) == 0 {
		return false, "no ban test and no caller to establish it"
	}
	for _, cc := range callers {
		if ok, why := c.guardedByIncludeBan(cc, cc.Call, banned, include, depth+1); !ok {
			return false, fmt.Sprintf("via %s: %s", c.P.DeclName(cc.Decl), why)
		}
	}
	return true, fmt.Sprintf("every caller chain (%d) passes the ban test on INCLUDE first", len(callers))
}

// RuleNI: a field can influence a run only by rejecting it.
func RuleNI(fieldNames ...string) func(*Ctx) {
	return func(c *Ctx) {
		sc := c.Run.Begin("NI", "non-interference: every read of the listed JApiCore sets is a lookup whose outcome is used only to return an error (or, for visited sets, to skip work), so they influence a run only by rejecting it: "+strings.Join(fieldNames, ", "), len(fieldNames))
		defer sc.End()
		pk := c.P.Pkg("core")
		for _, fname := range fieldNames {
			fld := c.Field("core", "JApiCore", fname)
			if fld == nil {
				sc.Undecided(fname, "-", "unresolved anchor: core.JApiCore."+fname)
				continue
			}
			n := 0
			// a set the run itself fills (a visited / uniqueness set) has an element store
			// outside the setup functions; a set that only options fill is what the host said
			runFilled := false
			c.P.Funcs(func(p *pkgT, fd *ast.FuncDecl) {
				info := p.TypesInfo
				if p == pk && (c.isOptionSetup(p, fd) || strings.HasPrefix(fd.Name.Name, "New")) {
					return
				}
				ast.Inspect(fd.Body, func(x ast.Node) bool {
					if as, ok := x.(*ast.AssignStmt); ok {
						for _, l := range as.Lhs {
							if ix, ok := ast.Unparen(l).(*ast.IndexExpr); ok {
								if s2, ok := ast.Unparen(ix.X).(*ast.SelectorExpr); ok && info.ObjectOf(s2.Sel) == types.Object(fld) {
									runFilled = true
								}
							}
						}
					}
					return true
				})
			})
			c.P.Funcs(func(p *pkgT, fd *ast.FuncDecl) {
				info := p.TypesInfo
				// the option constructor / NewJApiCore may initialise the field
				isSetup := p == pk && (c.isOptionSetup(p, fd) || strings.HasPrefix(fd.Name.Name, "New"))
				ast.Inspect(fd.Body, func(x ast.Node) bool {
					sel, ok := x.(*ast.SelectorExpr)
					if !ok || info.ObjectOf(sel.Sel) != fld {
						return true
					}
					n++
					key := fmt.Sprintf("%s:%s#%d", fname, c.P.DeclName(fd), n)
					pos := c.P.Pos(sel.Pos())
					if isSetup {
						// an option-filled set holds exactly what the options put there: the
						// constructor allocates it, only an option constructor stores elements
						if !runFilled && !c.isOptionSetup(p, fd) {
							stores := false
							ast.Inspect(fd.Body, func(y ast.Node) bool {
								if as, ok := y.(*ast.AssignStmt); ok {
									for _, l := range as.Lhs {
										if ix, ok := ast.Unparen(l).(*ast.IndexExpr); ok && ast.Unparen(ix.X) == ast.Expr(sel) {
											stores = true
										}
									}
								}
								return true
							})
							if stores {
								sc.Violation(key, pos, fmt.Sprintf("the constructor adds an element to core.%s on its own: the set no longer holds exactly what the host's options said, so a kind nobody banned is refused (and the diagnostic stands at a directive of that kind)", fname))
								return true
							}
						}
						sc.Holds(key, pos, "initialisation in the constructor / option")
						return true
					}
					why, ok2 := c.readOnlyRejects(p, fd, sel)
					if ok2 && !runFilled && strings.HasPrefix(why, "visited-set lookup") {
						why, ok2 = "use at "+pos+" skips or does work depending on core."+fname+", which only options fill: a project without any directive of the listed kinds is processed differently with the option than without it", false
					}
					if ok2 {
						sc.Holds(key, pos, why)
					} else {
						sc.Violation(key, pos, fmt.Sprintf("core.%s is read in a way that can influence the result other than by rejecting the project (%s)", fname, why))
					}
					return true
				})
			})
			if n == 0 {
				sc.Undecided(fname, "-", "field is never used")
			}
		}
	}
}

// isOptionSetup: an option constructor, or a function every reference to which is a call
// inside an option constructor (the body of the option's closure moved into a method).
func (c *Ctx) isOptionSetup(pk *pkgT, fd *ast.FuncDecl) bool {
	info := pk.TypesInfo
	if isOptionCtor(info, fd) {
		return true
	}
	self, _ := info.Defs[fd.Name].(*types.Func)
	if self == nil || c.usedAsValue(self) {
		return false
	}
	sites := c.callSitesOf(self)
	if len(sites) == 0 {
		return false
	}
	for _, cs := range sites {
		if cs.Decl == nil || !isOptionCtor(cs.Pk.TypesInfo, cs.Decl) {
			return false
		}
	}
	return true
}

func isOptionCtor(info *types.Info, fd *ast.FuncDecl) bool {
	// returns a func(*JApiCore)
	if fd.Type.Results == nil || len(fd.Type.Results.List) != 1 {
		return false
	}
	t := info.TypeOf(fd.Type.Results.List[0].Type)
	if t == nil {
		return false
	}
	sig, ok := t.Underlying().(*types.Signature)
	return ok && sig.Params().Len() == 1 && sig.Results().Len() == 0
}

// readOnlyRejects classifies one syntactic use of the field.
func (c *Ctx) readOnlyRejects(pk *pkgT, fd *ast.FuncDecl, sel *ast.SelectorExpr) (string, bool) {
	info := pk.TypesInfo
	// find the statement that contains the use
	var stmt ast.Stmt
	var parentIf *ast.IfStmt
	ast.Inspect(fd.Body, func(n ast.Node) bool {
		switch s := n.(type) {
		case *ast.IfStmt:
			if s.Init != nil && s.Init.Pos() <= sel.Pos() && sel.End() <= s.Init.End() {
				parentIf = s
			}
		case ast.Stmt:
			if s.Pos() <= sel.Pos() && sel.End() <= s.End() {
				if _, isBlock := s.(*ast.BlockStmt); !isBlock {
					stmt = s
				}
			}
		}
		return true
	})
	// insert  F[k] = v : allowed when dominated by a lookup (H1 checks that)
	if as, ok := stmt.(*ast.AssignStmt); ok && len(as.Lhs) == 1 {
		if ix, ok := ast.Unparen(as.Lhs[0]).(*ast.IndexExpr); ok && ix.X == ast.Expr(sel) {
			return "insert (membership is tested first: H1)", true
		}
	}
	// delete(F, k)
	if es, ok := stmt.(*ast.ExprStmt); ok {
		if call, ok := es.X.(*ast.CallExpr); ok {
			if id, ok := call.Fun.(*ast.Ident); ok && id.Name == "delete" {
				return "delete", true
			}
		}
	}
	if ds, ok := stmt.(*ast.DeferStmt); ok {
		if id, ok := ds.Call.Fun.(*ast.Ident); ok && id.Name == "delete" {
			return "deferred delete", true
		}
	}
	// if _, ok := F[k]; ok { return <error> }   /   if v, ok := F[k]; ok { if v != x { return err } }
	if parentIf != nil {
		as, ok := parentIf.Init.(*ast.AssignStmt)
		if ok && len(as.Lhs) == 2 && len(as.Rhs) == 1 {
			okId, _ := as.Lhs[1].(*ast.Ident)
			condId, _ := ast.Unparen(parentIf.Cond).(*ast.Ident)
			neg := false
			if u, isNot := ast.Unparen(parentIf.Cond).(*ast.UnaryExpr); isNot && u.Op == token.NOT {
				condId, _ = ast.Unparen(u.X).(*ast.Ident)
				neg = true
			}
			// `if v, ok := F[k]; ok && <something about v> { return err }`: found and compared,
			// a mismatch is an error, nothing else happens
			if be, isAnd := ast.Unparen(parentIf.Cond).(*ast.BinaryExpr); isAnd && be.Op == token.LAND && okId != nil && parentIf.Else == nil {
				if lid, isId := ast.Unparen(be.X).(*ast.Ident); isId && info.ObjectOf(lid) == info.ObjectOf(okId) && endsWithErrorReturn(info, parentIf.Body) {
					return "lookup; found and mismatching -> error return", true
				}
			}
			if okId != nil && condId != nil && info.ObjectOf(okId) == info.ObjectOf(condId) && parentIf.Else == nil {
				valBlank := false
				if vid, ok := as.Lhs[0].(*ast.Ident); ok && vid.Name == "_" {
					valBlank = true
				}
				if !neg && endsWithErrorReturn(info, parentIf.Body) {
					return "lookup; found -> error return", true
				}
				if !neg && !valBlank && onlyConditionalErrorReturns(info, parentIf.Body) {
					return "lookup; found -> compared, mismatch -> error return", true
				}
				if neg && valBlank {
					// the do-the-work-once shape marks the key inside the branch; an error
					// for an ABSENT key means something else must have been processed first
					marks := false
					ast.Inspect(parentIf.Body, func(y ast.Node) bool {
						if as2, ok := y.(*ast.AssignStmt); ok {
							for _, l := range as2.Lhs {
								if ix2, ok := ast.Unparen(l).(*ast.IndexExpr); ok {
									if s2, ok := ast.Unparen(ix2.X).(*ast.SelectorExpr); ok && info.ObjectOf(s2.Sel) == info.ObjectOf(sel.Sel) {
										marks = true
									}
								}
							}
						}
						return true
					})
					if marks {
						return "visited-set lookup; not found -> do the work once", true
					}
					if endsWithErrorReturn(info, parentIf.Body) {
						return "use at " + c.P.Pos(sel.Pos()) + " makes the ABSENCE of a key an error: the declaration is accepted only if another one was processed before it (source order decides the verdict)", false
					}
					return "visited-set lookup; not found -> do the work once", true
				}
				if !neg && valBlank && endsWithNilReturnOrContinue(parentIf.Body) {
					return "visited-set lookup; found -> skip", true
				}
			}
		}
	}
	return "use at " + c.P.Pos(sel.Pos()) + " is not a reject-only lookup", false
}

func endsWithErrorReturn(info *types.Info, b *ast.BlockStmt) bool {
	if len(b.List) == 0 {
		return false
	}
	ret, ok := b.List[len(b.List)-1].(*ast.ReturnStmt)
	if !ok || len(ret.Results) == 0 {
		return false
	}
	last := ret.Results[len(ret.Results)-1]
	tv, ok := info.Types[last]
	return ok && !tv.IsNil() && isErrorType(tv.Type)
}

func endsWithNilReturnOrContinue(b *ast.BlockStmt) bool {
	if len(b.List) == 0 {
		return false
	}
	switch s := b.List[len(b.List)-1].(type) {
	case *ast.ReturnStmt:
		return true
	case *ast.BranchStmt:
		return s.Tok == token.CONTINUE
	}
	return false
}

// onlyConditionalErrorReturns: the block consists of if-statements whose bodies end in error returns.
func onlyConditionalErrorReturns(info *types.Info, b *ast.BlockStmt) bool {
	if len(b.List) == 0 {
		return false
	}
	for _, st := range b.List {
		ifs, ok := st.(*ast.IfStmt)
		if !ok || ifs.Else != nil || !endsWithErrorReturn(info, ifs.Body) {
			return false
		}
	}
	return true
}

// RuleOP1: an option closure must not put state it captured into the core: the
// closure is created once and applied to many cores, so a captured map, slice or
// pointer stored into a core field is shared by every parse that uses the option.
func RuleOP1(c *Ctx) {
	sc := c.Run.Begin("OP1", "an Option closure stores into the core only constants, scalars and values it allocates itself per application - never a map, slice or pointer captured from the option constructor (which would be shared by every parse using that option value)", 1)
	defer sc.End()
	pk := c.P.Pkg("core")
	coreT := c.Named("core", "JApiCore")
	if pk == nil || coreT == nil {
		sc.Undecided("anchors", "-", "unresolved anchor: core.JApiCore")
		return
	}
	info := pk.TypesInfo
	c.P.Funcs(func(p *pkgT, fd *ast.FuncDecl) {
		if p != pk || !isOptionCtor(info, fd) {
			return
		}
		ast.Inspect(fd.Body, func(n ast.Node) bool {
			lit, ok := n.(*ast.FuncLit)
			if !ok {
				return true
			}
			// the literal's *JApiCore parameter
			var coreParam types.Object
			for _, fl := range lit.Type.Params.List {
				for _, nm := range fl.Names {
					if pt, ok := info.TypeOf(fl.Type).(*types.Pointer); ok && types.Identical(pt.Elem(), coreT) {
						coreParam = info.ObjectOf(nm)
					}
				}
			}
			if coreParam == nil {
				return true
			}
			bad := ""
			nStores := 0
			ast.Inspect(lit.Body, func(x ast.Node) bool {
				as, ok := x.(*ast.AssignStmt)
				if !ok {
					return true
				}
				for i, l := range as.Lhs {
					if cfgx.RootObj(info, l) != coreParam || i >= len(as.Rhs) {
						continue
					}
					nStores++
					r := ast.Unparen(as.Rhs[i])
					t := info.TypeOf(r)
					if t == nil {
						continue
					}
					switch t.Underlying().(type) {
					case *types.Map, *types.Slice, *types.Pointer, *types.Chan, *types.Interface, *types.Signature:
					default:
						continue // scalars and structs are copied
					}
					// does the stored value alias a variable captured from outside the literal?
					alias := r
					if call, ok := r.(*ast.CallExpr); ok {
						alias = nil
						if id, ok := call.Fun.(*ast.Ident); ok && id.Name == "append" && len(call.Args) > 0 {
							alias = call.Args[0]
						}
					}
					if u, ok := alias.(*ast.UnaryExpr); ok && u.Op == token.AND {
						alias = u.X
					}
					if _, isLit := alias.(*ast.CompositeLit); isLit || alias == nil {
						continue
					}
					if obj, ok := cfgx.RootObj(info, alias).(*types.Var); ok && !obj.IsField() {
						if obj.Pos() < lit.Pos() || obj.Pos() > lit.End() {
							switch obj.Type().Underlying().(type) {
							case *types.Map, *types.Slice, *types.Pointer, *types.Chan:
								bad = fmt.Sprintf("%s = %s at %s stores the captured %s into the core", types.ExprString(l), types.ExprString(r), c.P.Pos(as.Pos()), obj.Type())
							}
						}
					}
				}
				return true
			})
			key := c.P.DeclName(fd)
			if bad == "" {
				sc.Holds(key, c.P.Pos(lit.Pos()), fmt.Sprintf("%d stores into the core, none of a captured reference", nStores))
			} else {
				sc.Violation(key, c.P.Pos(lit.Pos()), bad+": the same map/slice is then shared (and mutated) by every core the option is applied to, so one parse's options leak into another")
			}
			return false
		})
	})
}
