// Package rules holds the repository-specific static rules. Each rule enumerates
// its instances from the loaded program, decides each one and records the verdict.
package rules

import (
	"fmt"
	"go/ast"
	"go/constant"
	"go/types"
	"os"
	"sort"
	"strings"

	"golang.org/x/tools/go/packages"

	"verif/checker/cfgx"
	"verif/checker/load"
	"verif/checker/report"
	"verif/checker/scanpds"
)

// Ctx is shared by the rules of one run.
type Ctx struct {
	P    *load.Program
	Run  *report.Run
	Tier string

	machine    *scanpds.Machine
	machineErr error
	pds        *scanpds.Result
	cfgs       map[*ast.BlockStmt]*cfgx.Func
	sums       *summaries
}

func NewCtx(p *load.Program, run *report.Run, tier string) *Ctx {
	return &Ctx{P: p, Run: run, Tier: tier, cfgs: map[*ast.BlockStmt]*cfgx.Func{}}
}

// Rule is one rule entry point.
type Rule struct {
	ID  string
	Run func(*Ctx)
}

// Machine extracts the scanner automaton once.
func (c *Ctx) Machine() (*scanpds.Machine, *scanpds.Result, error) {
	if c.machine == nil && c.machineErr == nil {
		c.machine, c.machineErr = scanpds.Extract(c.P)
		if c.machineErr == nil && os.Getenv("JSVET_DUMP_MACHINE") != "" {
			// debugging aid: the extracted arms of every state
			for _, st := range c.machine.States {
				for _, p := range st.Paths {
					fmt.Fprintln(os.Stderr, "ARM", c.machine.Describe(st, p))
				}
			}
		}
		if c.machineErr == nil {
			if c.Tier == "thorough" {
				scanpds.Sat = 5
			}
			if kw := c.includeKeyword(); kw != "" {
				scanpds.IncludeKeyword = kw
			}
			c.pds = c.machine.Analyse()
		}
	}
	return c.machine, c.pds, c.machineErr
}

// includeKeyword resolves the spelling of the Include directive from the directive
// table (directive.Include.String() == ss[Include]) without running it.
func (c *Ctx) includeKeyword() string {
	names := c.DirectiveNames()
	for k, v := range names {
		if k == "Include" {
			return v
		}
	}
	return ""
}

// CFG returns (cached) the control-flow analysis of a function body.
func (c *Ctx) CFG(pk *packages.Package, body *ast.BlockStmt) *cfgx.Func {
	if f, ok := c.cfgs[body]; ok {
		return f
	}
	f := cfgx.New(body, pk.TypesInfo)
	f.Expand = c.expandFact(pk)
	c.cfgs[body] = f
	return f
}

// ---------------------------------------------------------------- lookup helpers

// Func finds a package-level function or a method "T.m" in a repo package.
func (c *Ctx) Func(rel, name string) *types.Func {
	pk := c.P.Pkg(rel)
	if pk == nil {
		return nil
	}
	if i := strings.Index(name, "."); i >= 0 {
		tn, ok := pk.Types.Scope().Lookup(name[:i]).(*types.TypeName)
		if !ok {
			return nil
		}
		obj, _, _ := types.LookupFieldOrMethod(tn.Type(), true, pk.Types, name[i+1:])
		f, _ := obj.(*types.Func)
		return f
	}
	f, _ := pk.Types.Scope().Lookup(name).(*types.Func)
	return f
}

// Field finds a struct field of a named type.
func (c *Ctx) Field(rel, typ, field string) *types.Var {
	pk := c.P.Pkg(rel)
	if pk == nil {
		return nil
	}
	tn, ok := pk.Types.Scope().Lookup(typ).(*types.TypeName)
	if !ok {
		return nil
	}
	st, ok := tn.Type().Underlying().(*types.Struct)
	if !ok {
		return nil
	}
	for i := 0; i < st.NumFields(); i++ {
		if st.Field(i).Name() == field {
			return st.Field(i)
		}
	}
	return nil
}

// Named finds a named type.
func (c *Ctx) Named(rel, typ string) *types.Named {
	pk := c.P.Pkg(rel)
	if pk == nil {
		return nil
	}
	tn, ok := pk.Types.Scope().Lookup(typ).(*types.TypeName)
	if !ok {
		return nil
	}
	n, _ := tn.Type().(*types.Named)
	return n
}

// Callee resolves the static callee of a call through type information.
func Callee(info *types.Info, call *ast.CallExpr) *types.Func {
	switch fn := ast.Unparen(call.Fun).(type) {
	case *ast.Ident:
		f, _ := info.ObjectOf(fn).(*types.Func)
		return f
	case *ast.SelectorExpr:
		f, _ := info.ObjectOf(fn.Sel).(*types.Func)
		return f
	case *ast.IndexExpr: // generic instantiation f[T](...)
		if id, ok := fn.X.(*ast.Ident); ok {
			f, _ := info.ObjectOf(id).(*types.Func)
			return f
		}
	}
	return nil
}

// Recv returns the receiver expression of a method call (x in x.m()).
func Recv(call *ast.CallExpr) ast.Expr {
	if sel, ok := ast.Unparen(call.Fun).(*ast.SelectorExpr); ok {
		return sel.X
	}
	return nil
}

// EnumConsts lists the constants of a named type declared in its package, in value order.
func EnumConsts(pk *packages.Package, t types.Type) []*types.Const {
	var out []*types.Const
	for _, name := range pk.Types.Scope().Names() {
		if cst, ok := pk.Types.Scope().Lookup(name).(*types.Const); ok && types.Identical(cst.Type(), t) {
			out = append(out, cst)
		}
	}
	sort.Slice(out, func(i, j int) bool {
		a, _ := constant.Int64Val(constant.ToInt(out[i].Val()))
		b, _ := constant.Int64Val(constant.ToInt(out[j].Val()))
		if a != b {
			return a < b
		}
		return out[i].Name() < out[j].Name()
	})
	return out
}

// DirectiveNames maps the identifiers of directive.Enumeration constants to the
// strings of the ss table (constant index i -> ss[i]), read from the syntax.
func (c *Ctx) DirectiveNames() map[string]string {
	pk := c.P.Pkg("directive")
	if pk == nil {
		return nil
	}
	en := c.Named("directive", "Enumeration")
	if en == nil {
		return nil
	}
	// the table: the package-level []string variable indexed by the receiver in Enumeration.String
	strM := c.Func("directive", "Enumeration.String")
	fd := c.P.Decl(strM)
	if fd == nil {
		return nil
	}
	var table *types.Var
	ast.Inspect(fd.Body, func(n ast.Node) bool {
		if ix, ok := n.(*ast.IndexExpr); ok {
			if id, ok := ix.X.(*ast.Ident); ok {
				if v, ok := pk.TypesInfo.ObjectOf(id).(*types.Var); ok && v.Parent() == pk.Types.Scope() {
					table = v
				}
			}
		}
		return true
	})
	if table == nil {
		return nil
	}
	var elems []string
	for _, f := range pk.Syntax {
		ast.Inspect(f, func(n ast.Node) bool {
			vs, ok := n.(*ast.ValueSpec)
			if !ok {
				return true
			}
			for i, nm := range vs.Names {
				if pk.TypesInfo.ObjectOf(nm) == table && i < len(vs.Values) {
					if cl, ok := vs.Values[i].(*ast.CompositeLit); ok {
						for _, e := range cl.Elts {
							if tv, ok := pk.TypesInfo.Types[e]; ok && tv.Value != nil {
								elems = append(elems, strings.Trim(tv.Value.ExactString(), `"`))
							}
						}
					}
				}
			}
			return true
		})
	}
	out := map[string]string{}
	for _, cst := range EnumConsts(pk, en) {
		var idx int
		if _, err := fmt.Sscan(cst.Val().ExactString(), &idx); err == nil && idx >= 0 && idx < len(elems) {
			out[cst.Name()] = elems[idx]
		}
	}
	return out
}

type pkgT = packages.Package

type (
	machineT = *scanpds.Machine
	resultT  = *scanpds.Result
)
