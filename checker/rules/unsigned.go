package rules

import (
	"fmt"
	"go/ast"
	"go/constant"
	"go/token"
	"go/types"

	"verif/checker/cfgx"
)

// RuleU1: an unsigned conversion of len(x)-K (or x.Len()-K) wraps around when the
// length is smaller than K; every such conversion needs a dominating length test, or
// must sit in a scanner library-length helper (reached only after a byte was consumed:
// rule S1d checks that on the automaton).
func RuleU1(c *Ctx) {
	sc := c.Run.Begin("U1", "every unsigned conversion of len(x)-K is dominated by a test that the length is at least K (scanner length helpers: discharged on the automaton, S1d)", 4)
	defer sc.End()
	m, _, merr := c.Machine()
	counts := map[string]int{}
	c.P.Funcs(func(pk *pkgT, fd *ast.FuncDecl) {
		info := pk.TypesInfo
		ast.Inspect(fd.Body, func(n ast.Node) bool {
			call, ok := n.(*ast.CallExpr)
			if !ok || len(call.Args) != 1 {
				return true
			}
			tv, ok := info.Types[call.Fun]
			if !ok || !tv.IsType() {
				return true
			}
			bt, ok := tv.Type.Underlying().(*types.Basic)
			if !ok || bt.Info()&types.IsUnsigned == 0 {
				return true
			}
			sub, ok := ast.Unparen(call.Args[0]).(*ast.BinaryExpr)
			if !ok || sub.Op != token.SUB {
				return true
			}
			ktv, ok := info.Types[sub.Y]
			if !ok || ktv.Value == nil {
				return true
			}
			k, _ := constant.Int64Val(constant.ToInt(ktv.Value))
			lenOf, ok := lengthExpr(info, sub.X)
			if !ok || k <= 0 {
				return true
			}
			fn := c.P.DeclName(fd)
			counts[fn]++
			key := fmt.Sprintf("%s:len-%d#%d", fn, k, counts[fn])
			pos := c.P.Pos(call.Pos())
			// scanner library-length helper?
			if merr == nil {
				if obj, ok := info.Defs[fd.Name].(*types.Func); ok && m.IsLibLenFunc(obj) {
					sc.Holds(key, pos, "scanner length helper: runs only after at least one byte was consumed (checked on the automaton by S1d)")
					return true
				}
			}
			body := innermostBody(fd, call)
			cf := c.CFG(pk, body.body)
			gen := func(fa cfgx.Fact) bool { return impliesLenAtLeast(info, cf, fa, lenOf, sub.X, k) }
			kill := func(nd ast.Node) bool {
				root := cfgx.RootObj(info, lenOf)
				return cfgx.Assigns(nd, func(l ast.Expr) bool {
					id, ok := ast.Unparen(l).(*ast.Ident)
					return ok && root != nil && info.ObjectOf(id) == root && !isDefineOf(nd, id)
				})
			}
			if cf.MustAt(call, gen, nil, kill) {
				sc.Holds(key, pos, "dominated by a length test")
			} else {
				sc.Violation(key, pos, fmt.Sprintf("%s converts %s to an unsigned type with no test that the length is >= %d: for a shorter (empty) value it wraps to a huge number and the following index is out of range", types.ExprString(call.Fun), types.ExprString(sub), k))
			}
			return true
		})
	})
}

// lengthExpr recognises len(e) and e.Len() and returns e.
func lengthExpr(info *types.Info, e ast.Expr) (ast.Expr, bool) {
	call, ok := ast.Unparen(e).(*ast.CallExpr)
	if !ok {
		return nil, false
	}
	if id, ok := call.Fun.(*ast.Ident); ok && len(call.Args) == 1 {
		if b, ok := info.ObjectOf(id).(*types.Builtin); ok && b.Name() == "len" {
			return call.Args[0], true
		}
	}
	if sel, ok := call.Fun.(*ast.SelectorExpr); ok && len(call.Args) == 0 && sel.Sel.Name == "Len" {
		return sel.X, true
	}
	return nil, false
}

// impliesLenAtLeast: the fact implies length(lenOf) >= k.
func impliesLenAtLeast(info *types.Info, cf *cfgx.Func, fa cfgx.Fact, lenOf, lenCall ast.Expr, k int64) bool {
	be, ok := ast.Unparen(fa.Expr).(*ast.BinaryExpr)
	if !ok {
		return false
	}
	isLen := func(e ast.Expr) bool {
		e = cf.Resolve(e)
		x, ok := lengthExpr(info, e)
		return ok && cfgx.SameExpr(info, x, lenOf)
	}
	constOf := func(e ast.Expr) (int64, bool) {
		tv, ok := info.Types[e]
		if !ok || tv.Value == nil {
			return 0, false
		}
		v, ok := constant.Int64Val(constant.ToInt(tv.Value))
		return v, ok
	}
	op := be.Op
	l, r := be.X, be.Y
	if !isLen(l) {
		if !isLen(r) {
			return false
		}
		// K op len  ->  len op' K
		l, r = r, l
		switch op {
		case token.LSS:
			op = token.GTR
		case token.GTR:
			op = token.LSS
		case token.LEQ:
			op = token.GEQ
		case token.GEQ:
			op = token.LEQ
		}
	}
	v, ok := constOf(r)
	if !ok {
		return false
	}
	if !fa.Truth {
		// negate
		switch op {
		case token.EQL:
			op = token.NEQ
		case token.NEQ:
			op = token.EQL
		case token.LSS:
			op = token.GEQ
		case token.GEQ:
			op = token.LSS
		case token.GTR:
			op = token.LEQ
		case token.LEQ:
			op = token.GTR
		}
	}
	switch op {
	case token.NEQ:
		return v == 0 && k == 1
	case token.GTR:
		return v+1 >= k
	case token.GEQ:
		return v >= k
	case token.EQL:
		return v >= k
	}
	return false
}

// lenFact interprets a branch fact about a length: it returns the measured expression and
// whether the fact implies "at least one element" (nonEmpty) or "no element" (empty).
// All spellings are understood: len(x) == 0, len(x) < 1, len(x) <= 0, 0 == len(x),
// len(x) != 0, len(x) > 0, len(x) >= 1, x.Len() ..., and their negations.
func lenFact(info *types.Info, fa cfgx.Fact) (lenOf ast.Expr, nonEmpty, empty bool) {
	return lenFactR(info, fa, nil)
}

// lenFactR is lenFact with operands resolved through single-assignment locals
// (`n := len(q); if n < 1`).
func lenFactR(info *types.Info, fa cfgx.Fact, resolve func(ast.Expr) ast.Expr) (lenOf ast.Expr, nonEmpty, empty bool) {
	if resolve == nil {
		resolve = func(e ast.Expr) ast.Expr { return e }
	}
	e := ast.Unparen(fa.Expr)
	truth := fa.Truth
	for {
		u, ok := e.(*ast.UnaryExpr)
		if !ok || u.Op != token.NOT {
			break
		}
		e = ast.Unparen(u.X)
		truth = !truth
	}
	be, ok := e.(*ast.BinaryExpr)
	if !ok {
		return nil, false, false
	}
	constOf := func(x ast.Expr) (int64, bool) {
		tv, ok := info.Types[x]
		if !ok || tv.Value == nil || tv.Value.Kind() != constant.Int {
			return 0, false
		}
		return constant.Int64Val(tv.Value)
	}
	op := be.Op
	l, r := be.X, be.Y
	lo, isLen := lengthExpr(info, resolve(l))
	if !isLen {
		lo, isLen = lengthExpr(info, resolve(r))
		if !isLen {
			return nil, false, false
		}
		l, r = r, l
		switch op {
		case token.LSS:
			op = token.GTR
		case token.GTR:
			op = token.LSS
		case token.LEQ:
			op = token.GEQ
		case token.GEQ:
			op = token.LEQ
		}
	}
	k, ok := constOf(r)
	if !ok {
		return nil, false, false
	}
	if !truth {
		switch op {
		case token.EQL:
			op = token.NEQ
		case token.NEQ:
			op = token.EQL
		case token.LSS:
			op = token.GEQ
		case token.GEQ:
			op = token.LSS
		case token.GTR:
			op = token.LEQ
		case token.LEQ:
			op = token.GTR
		default:
			return nil, false, false
		}
	}
	switch op {
	case token.EQL:
		return lo, k >= 1, k == 0
	case token.NEQ:
		return lo, k == 0, false
	case token.GTR:
		return lo, k >= 0, false
	case token.GEQ:
		return lo, k >= 1, false
	case token.LSS:
		return lo, false, k <= 1
	case token.LEQ:
		return lo, false, k <= 0
	}
	return nil, false, false
}
