package rules

import (
	"fmt"
	"go/ast"
	"go/constant"
	"go/token"
	"go/types"
	"strings"

	"verif/checker/cfgx"
	"verif/checker/report"
)

// RuleU1: an unsigned conversion of len(x)-K (or x.Len()-K) wraps around when the
// length is smaller than K; every such conversion needs a dominating length test, or
// must sit in a scanner library-length helper (reached only after a byte was consumed:
// rule S1d checks that on the automaton).
func RuleU1(c *Ctx) {
	sc := c.Run.Begin("U1", "every unsigned conversion of len(x)-K is dominated by a test that the length is at least K (scanner length helpers: discharged on the automaton, S1d)", 1)
	defer sc.End()
	m, _, merr := c.Machine()
	counts := map[string]int{}
	c.P.Funcs(func(pk *pkgT, fd *ast.FuncDecl) {
		info := pk.TypesInfo
		ast.Inspect(fd.Body, func(n ast.Node) bool {
			call, ok := n.(*ast.CallExpr)
			if !ok || len(call.Args) != 1 {
				return true
			}
			tv, ok := info.Types[call.Fun]
			if !ok || !tv.IsType() {
				return true
			}
			bt, ok := tv.Type.Underlying().(*types.Basic)
			if !ok || bt.Info()&types.IsUnsigned == 0 {
				return true
			}
			sub, ok := ast.Unparen(call.Args[0]).(*ast.BinaryExpr)
			if !ok || sub.Op != token.SUB {
				return true
			}
			ktv, ok := info.Types[sub.Y]
			if !ok || ktv.Value == nil {
				return true
			}
			k, _ := constant.Int64Val(constant.ToInt(ktv.Value))
			lenOf, ok := lengthExpr(info, sub.X)
			if !ok || k <= 0 {
				return true
			}
			fn := c.P.DeclName(fd)
			counts[fn]++
			key := fmt.Sprintf("%s:len-%d#%d", fn, k, counts[fn])
			pos := c.P.Pos(call.Pos())
			// scanner library-length helper?
			if merr == nil {
				if obj, ok := info.Defs[fd.Name].(*types.Func); ok && (m.IsLibLenFunc(obj) || (m.FuncsSeen[fd.Name.Name] && asksLibLength(info, fd, m.IsLibLenFunc))) {
					sc.Holds(key, pos, "scanner length helper: runs only after at least one byte was consumed (checked on the automaton by S1d)")
					return true
				}
				// a part of such a helper moved into a function of its own (`restOfFile()`):
				// every caller is a length helper
				if obj, ok := info.Defs[fd.Name].(*types.Func); ok && !c.usedAsValue(obj) {
					sites := c.callSitesOf(obj)
					all := len(sites) > 0
					for _, cs := range sites {
						co := declObj(cs)
						if cs.Decl == nil || co == nil || !(m.IsLibLenFunc(co) || (m.FuncsSeen[cs.Decl.Name.Name] && asksLibLength(cs.Pk.TypesInfo, cs.Decl, m.IsLibLenFunc))) {
							all = false
						}
					}
					if all {
						sc.Holds(key, pos, fmt.Sprintf("called only from scanner length helpers (%d), which run after at least one byte was consumed", len(sites)))
						return true
					}
				}
			}
			body := innermostBody(fd, call)
			cf := c.CFG(pk, body.body)
			gen := func(fa cfgx.Fact) bool { return impliesLenAtLeast(info, cf, fa, lenOf, sub.X, k) }
			kill := func(nd ast.Node) bool {
				root := cfgx.RootObj(info, lenOf)
				return cfgx.Assigns(nd, func(l ast.Expr) bool {
					id, ok := ast.Unparen(l).(*ast.Ident)
					return ok && root != nil && info.ObjectOf(id) == root && !isDefineOf(nd, id)
				})
			}
			if cf.MustAt(call, gen, nil, kill) {
				sc.Holds(key, pos, "dominated by a length test")
			} else if why, ok := c.u1CallersTest(pk, fd, lenOf, k); ok {
				sc.Holds(key, pos, why)
			} else {
				sc.Violation(key, pos, fmt.Sprintf("%s converts %s to an unsigned type with no test that the length is >= %d: for a shorter (empty) value it wraps to a huge number and the following index is out of range", types.ExprString(call.Fun), types.ExprString(sub), k))
			}
			return true
		})
	})
}

// lengthExpr recognises len(e) and e.Len() and returns e.
func lengthExpr(info *types.Info, e ast.Expr) (ast.Expr, bool) {
	call, ok := ast.Unparen(e).(*ast.CallExpr)
	if !ok {
		return nil, false
	}
	if id, ok := call.Fun.(*ast.Ident); ok && len(call.Args) == 1 {
		if b, ok := info.ObjectOf(id).(*types.Builtin); ok && b.Name() == "len" {
			return call.Args[0], true
		}
	}
	if sel, ok := call.Fun.(*ast.SelectorExpr); ok && len(call.Args) == 0 && sel.Sel.Name == "Len" {
		return sel.X, true
	}
	return nil, false
}

// impliesLenAtLeast: the fact implies length(lenOf) >= k.
func impliesLenAtLeast(info *types.Info, cf *cfgx.Func, fa cfgx.Fact, lenOf, lenCall ast.Expr, k int64) bool {
	be, ok := ast.Unparen(fa.Expr).(*ast.BinaryExpr)
	if !ok {
		return false
	}
	isLen := func(e ast.Expr) bool {
		e = cf.Resolve(e)
		x, ok := lengthExpr(info, e)
		return ok && cfgx.SameExpr(info, x, lenOf)
	}
	constOf := func(e ast.Expr) (int64, bool) {
		tv, ok := info.Types[e]
		if !ok || tv.Value == nil {
			return 0, false
		}
		v, ok := constant.Int64Val(constant.ToInt(tv.Value))
		return v, ok
	}
	op := be.Op
	l, r := be.X, be.Y
	if !isLen(l) {
		if !isLen(r) {
			return false
		}
		// K op len  ->  len op' K
		l, r = r, l
		switch op {
		case token.LSS:
			op = token.GTR
		case token.GTR:
			op = token.LSS
		case token.LEQ:
			op = token.GEQ
		case token.GEQ:
			op = token.LEQ
		}
	}
	v, ok := constOf(r)
	if !ok {
		return false
	}
	if !fa.Truth {
		// negate
		switch op {
		case token.EQL:
			op = token.NEQ
		case token.NEQ:
			op = token.EQL
		case token.LSS:
			op = token.GEQ
		case token.GEQ:
			op = token.LSS
		case token.GTR:
			op = token.LEQ
		case token.LEQ:
			op = token.GTR
		}
	}
	switch op {
	case token.NEQ:
		return v == 0 && k == 1
	case token.GTR:
		return v+1 >= k
	case token.GEQ:
		return v >= k
	case token.EQL:
		return v >= k
	}
	return false
}

// lenFact interprets a branch fact about a length: it returns the measured expression and
// whether the fact implies "at least one element" (nonEmpty) or "no element" (empty).
// All spellings are understood: len(x) == 0, len(x) < 1, len(x) <= 0, 0 == len(x),
// len(x) != 0, len(x) > 0, len(x) >= 1, x.Len() ..., and their negations.
func lenFact(info *types.Info, fa cfgx.Fact) (lenOf ast.Expr, nonEmpty, empty bool) {
	return lenFactR(info, fa, nil)
}

// lenFactR is lenFact with operands resolved through single-assignment locals
// (`n := len(q); if n < 1`).
func lenFactR(info *types.Info, fa cfgx.Fact, resolve func(ast.Expr) ast.Expr) (lenOf ast.Expr, nonEmpty, empty bool) {
	if resolve == nil {
		resolve = func(e ast.Expr) ast.Expr { return e }
	}
	e := ast.Unparen(fa.Expr)
	truth := fa.Truth
	for {
		u, ok := e.(*ast.UnaryExpr)
		if !ok || u.Op != token.NOT {
			break
		}
		e = ast.Unparen(u.X)
		truth = !truth
	}
	be, ok := e.(*ast.BinaryExpr)
	if !ok {
		return nil, false, false
	}
	constOf := func(x ast.Expr) (int64, bool) {
		tv, ok := info.Types[x]
		if !ok || tv.Value == nil || tv.Value.Kind() != constant.Int {
			return 0, false
		}
		return constant.Int64Val(tv.Value)
	}
	op := be.Op
	l, r := be.X, be.Y
	lo, isLen := lengthExpr(info, resolve(l))
	if !isLen {
		lo, isLen = lengthExpr(info, resolve(r))
		if !isLen {
			return nil, false, false
		}
		l, r = r, l
		switch op {
		case token.LSS:
			op = token.GTR
		case token.GTR:
			op = token.LSS
		case token.LEQ:
			op = token.GEQ
		case token.GEQ:
			op = token.LEQ
		}
	}
	k, ok := constOf(r)
	if !ok {
		return nil, false, false
	}
	if !truth {
		switch op {
		case token.EQL:
			op = token.NEQ
		case token.NEQ:
			op = token.EQL
		case token.LSS:
			op = token.GEQ
		case token.GEQ:
			op = token.LSS
		case token.GTR:
			op = token.LEQ
		case token.LEQ:
			op = token.GTR
		default:
			return nil, false, false
		}
	}
	switch op {
	case token.EQL:
		return lo, k >= 1, k == 0
	case token.NEQ:
		return lo, k == 0, false
	case token.GTR:
		return lo, k >= 0, false
	case token.GEQ:
		return lo, k >= 1, false
	case token.LSS:
		return lo, false, k <= 1
	case token.LEQ:
		return lo, false, k <= 0
	}
	return nil, false, false
}

// ---------------------------------------------------------------- IX1

// RuleIX1: a parameter indexed at a fixed end (p[0], p[len(p)-1]) is never empty. Either
// the function tests the length first, or every static caller passes something that is
// non-empty by construction: the value of a scanner lexeme as written (a lexeme spans
// begin..end inclusive, S1c/S1i), a constant-length slice, a non-empty literal, a value
// the caller tested, or its own parameter under the same obligation. A transformation
// slipped in between (Unquote, a trim) can empty the value and turns the index into a
// panic on a document such as `INCLUDE ""`.
func RuleIX1(c *Ctx) {
	sc := c.Run.Begin("IX1", "every string/byte-slice parameter that is indexed at a fixed end without a length test in the function receives, at every static call site, a value that is non-empty by construction (raw lexeme value, constant-length slice, literal, tested value)", 1)
	defer sc.End()
	c.ix1ZeroLocals(sc)
	lexT := c.Named("scanner", "Lexeme")
	perFn := map[*ast.FuncDecl]int{}
	var nonEmptyArg func(cs callSite, arg ast.Expr, depth int) (bool, string)
	nonEmptyArg = func(cs callSite, arg ast.Expr, depth int) (bool, string) {
		info := cs.Pk.TypesInfo
		cf := c.CFG(cs.Pk, cs.Body)
		e := ast.Unparen(cf.Resolve(arg))
		// literal
		if tv, ok := info.Types[e]; ok && tv.Value != nil && tv.Value.Kind() == constant.String {
			if constant.StringVal(tv.Value) != "" {
				return true, "non-empty literal"
			}
			return false, "the empty literal"
		}
		// conversions string(x) / []byte(x)
		for {
			call, ok := e.(*ast.CallExpr)
			if !ok || len(call.Args) != 1 {
				break
			}
			if tv, isT := info.Types[call.Fun]; !isT || !tv.IsType() {
				break
			}
			e = ast.Unparen(cf.Resolve(call.Args[0]))
		}
		// constant-length slice
		if sl, ok := e.(*ast.SliceExpr); ok && sl.High != nil {
			lo, hi := int64(0), int64(-1)
			if sl.Low != nil {
				if tv, ok := info.Types[sl.Low]; ok && tv.Value != nil {
					lo, _ = constant.Int64Val(tv.Value)
				} else {
					lo = -1
				}
			}
			if tv, ok := info.Types[sl.High]; ok && tv.Value != nil {
				hi, _ = constant.Int64Val(tv.Value)
			}
			if lo >= 0 && hi > lo {
				return true, "constant-length slice"
			}
		}
		// raw lexeme value: X.Value() or X.Value().String()
		chain := e
		if call, ok := chain.(*ast.CallExpr); ok {
			if f := Callee(info, call); f != nil && f.Name() == "String" && len(call.Args) == 0 {
				chain = ast.Unparen(cf.Resolve(Recv(call)))
			}
		}
		if call, ok := chain.(*ast.CallExpr); ok {
			if f := Callee(info, call); f != nil && f.Name() == "Value" && lexT != nil && recvNamedOf(f) == lexT {
				return true, "the value of a lexeme as written"
			}
		}
		// tested at the call site
		gen := func(fa cfgx.Fact) bool {
			lo, nonEmpty, _ := lenFactR(info, fa, cf.Resolve)
			if lo != nil && nonEmpty && cf.SameResolved(lo, arg) {
				return true
			}
			if be, ok := ast.Unparen(fa.Expr).(*ast.BinaryExpr); ok && (be.Op == token.NEQ || be.Op == token.EQL) {
				for _, pair := range [][2]ast.Expr{{be.X, be.Y}, {be.Y, be.X}} {
					if tv, ok := info.Types[pair[1]]; ok && tv.Value != nil && tv.Value.Kind() == constant.String && constant.StringVal(tv.Value) == "" && cf.SameResolved(pair[0], arg) {
						return (be.Op == token.NEQ) == fa.Truth
					}
				}
			}
			return false
		}
		if cf.MustAt(cs.Call, gen, nil, nil) {
			return true, "tested non-empty by the caller"
		}
		// the caller's own parameter
		if id, ok := e.(*ast.Ident); ok && depth < 3 {
			if idx := paramIndexOf(info, cs.Decl, info.ObjectOf(id)); idx >= 0 && cs.Lit == nil && !assignedAnywhere(info, cs.Decl.Body, info.ObjectOf(id)) {
				self, _ := info.Defs[cs.Decl.Name].(*types.Func)
				sites := c.callSitesOf(self)
				if self != nil && len(sites) > 0 && !c.usedAsValue(self) {
					for _, up := range sites {
						if idx >= len(up.Call.Args) {
							return false, "variadic or unmapped argument at " + c.P.Pos(up.Call.Pos())
						}
						if ok, why := nonEmptyArg(up, up.Call.Args[idx], depth+1); !ok {
							return false, why
						}
					}
					return true, "every caller of " + self.Name() + " passes a non-empty value"
				}
			}
		}
		return false, types.ExprString(arg) + " at " + c.P.Pos(cs.Call.Pos()) + " is not known to be non-empty"
	}
	c.P.Funcs(func(pk *pkgT, fd *ast.FuncDecl) {
		if strings.Contains(c.P.Pos(fd.Pos()), "internal/") {
			return
		}
		info := pk.TypesInfo
		self, _ := info.Defs[fd.Name].(*types.Func)
		cf := c.CFG(pk, fd.Body)
		seen := map[types.Object]bool{}
		inspectNoLit(fd.Body, func(n ast.Node) bool {
			ix, ok := n.(*ast.IndexExpr)
			if !ok {
				return true
			}
			id, ok := ast.Unparen(ix.X).(*ast.Ident)
			if !ok {
				return true
			}
			obj := info.ObjectOf(id)
			pidx := paramIndexOf(info, fd, obj)
			if pidx < 0 || seen[obj] {
				return true
			}
			switch u := obj.Type().Underlying().(type) {
			case *types.Basic:
				if u.Info()&types.IsString == 0 {
					return true
				}
			case *types.Slice:
				if !isByte(u.Elem()) {
					return true
				}
			default:
				return true
			}
			// fixed end: constant index, or len(p)-K
			fixed := false
			if tv, ok := info.Types[ix.Index]; ok && tv.Value != nil {
				fixed = true
			} else if be, ok := ast.Unparen(ix.Index).(*ast.BinaryExpr); ok && be.Op == token.SUB {
				if lo, isLen := lengthExpr(info, cf.Resolve(be.X)); isLen && cfgx.SameExpr(info, lo, ix.X) {
					fixed = true
				}
			}
			if !fixed {
				return true
			}
			seen[obj] = true
			perFn[fd]++
			key := fmt.Sprintf("%s:%s", c.P.DeclName(fd), id.Name)
			// tested in the function?
			gen := func(fa cfgx.Fact) bool {
				lo, nonEmpty, _ := lenFactR(info, fa, cf.Resolve)
				return lo != nil && nonEmpty && cfgx.SameExpr(info, ast.Unparen(lo), ix.X)
			}
			if cf.MustAt(ix, gen, nil, nil) || assignedAnywhere(info, fd.Body, obj) {
				sc.Holds(key, c.P.Pos(ix.Pos()), "the length is tested before the index (or the parameter is re-assigned first)")
				return true
			}
			if self == nil || c.usedAsValue(self) {
				sc.Undecided(key, c.P.Pos(ix.Pos()), "the function is used as a value: its callers are not known")
				return true
			}
			sites := c.callSitesOf(self)
			if len(sites) == 0 {
				if ast.IsExported(fd.Name.Name) {
					sc.Info(key, c.P.Pos(ix.Pos()), "exported and not called inside the library: the obligation is the API user's")
				} else {
					sc.Holds(key, c.P.Pos(ix.Pos()), "never called")
				}
				return true
			}
			for _, cs := range sites {
				if pidx >= len(cs.Call.Args) {
					sc.Undecided(key, c.P.Pos(cs.Call.Pos()), "unmapped argument")
					return true
				}
				if ok, why := nonEmptyArg(cs, cs.Call.Args[pidx], 0); !ok {
					// only what is positively known to be able to empty a value is reported:
					// a scanner lexeme's value that went through a transformation
					if transformedLexemeValue(cs, cs.Call.Args[pidx], lexT, c) {
						sc.Violation(key, c.P.Pos(ix.Pos()), fmt.Sprintf("%s is indexed at a fixed end without a length test, and a caller can pass an empty value: %s - an index-out-of-range panic instead of a diagnostic", types.ExprString(ix), why))
					} else {
						sc.Info(key, c.P.Pos(ix.Pos()), "not decided: "+why)
					}
					return true
				}
			}
			sc.Holds(key, c.P.Pos(ix.Pos()), fmt.Sprintf("all %d call sites pass a value that is non-empty by construction", len(sites)))
			return true
		})
	})
}

// u1CallersTest: the measured value is a parameter the function does not reassign, and every
// static caller reaches the call only after a test that its argument has at least k elements.
func (c *Ctx) u1CallersTest(pk *pkgT, fd *ast.FuncDecl, lenOf ast.Expr, k int64) (string, bool) {
	info := pk.TypesInfo
	id, ok := ast.Unparen(lenOf).(*ast.Ident)
	if !ok {
		return "", false
	}
	obj := info.ObjectOf(id)
	pidx := paramIndexOf(info, fd, obj)
	if pidx < 0 || assignedAnywhere(info, fd.Body, obj) {
		return "", false
	}
	self, _ := info.Defs[fd.Name].(*types.Func)
	if self == nil || c.usedAsValue(self) {
		return "", false
	}
	sites := c.callSitesOf(self)
	if len(sites) == 0 {
		return "", false
	}
	for _, cs := range sites {
		if pidx >= len(cs.Call.Args) {
			return "", false
		}
		cinfo := cs.Pk.TypesInfo
		cf := c.CFG(cs.Pk, cs.Body)
		arg := cs.Call.Args[pidx]
		lenCall := &ast.CallExpr{Fun: ast.NewIdent("len"), Args: []ast.Expr{arg}}
		gen := func(fa cfgx.Fact) bool { return impliesLenAtLeast(cinfo, cf, fa, arg, lenCall, k) }
		if !cf.MustAt(cs.Call, gen, nil, nil) {
			return "", false
		}
	}
	return fmt.Sprintf("the value is a parameter and all %d callers test its length first", len(sites)), true
}

// asksLibLength: a function modelled by the scanner automaton that asks the library for a
// length itself: it calls a library-length helper, or a function-typed parameter of the
// (length, error) shape.
func asksLibLength(info *types.Info, fd *ast.FuncDecl, isLibLen func(*types.Func) bool) bool {
	hit := false
	ast.Inspect(fd.Body, func(n ast.Node) bool {
		call, ok := n.(*ast.CallExpr)
		if !ok {
			return true
		}
		if g := Callee(info, call); g != nil && isLibLen(g) {
			hit = true
		}
		if id, ok := ast.Unparen(call.Fun).(*ast.Ident); ok {
			if v, ok := info.ObjectOf(id).(*types.Var); ok {
				if sig, ok := v.Type().Underlying().(*types.Signature); ok && sig.Results().Len() == 2 {
					if b, ok := sig.Results().At(0).Type().Underlying().(*types.Basic); ok && b.Info()&types.IsInteger != 0 {
						hit = true
					}
				}
			}
		}
		return true
	})
	return hit
}

// transformedLexemeValue: the argument is the value of a scanner lexeme that went through at
// least one method other than the accessors Value()/String() (Unquote, a trim, a slice).
func transformedLexemeValue(cs callSite, arg ast.Expr, lexT *types.Named, c *Ctx) bool {
	info := cs.Pk.TypesInfo
	cf := c.CFG(cs.Pk, cs.Body)
	e := ast.Unparen(cf.Resolve(arg))
	transformed := false
	for depth := 0; depth < 8; depth++ {
		call, ok := e.(*ast.CallExpr)
		if !ok {
			return false
		}
		if tv, isT := info.Types[call.Fun]; isT && tv.IsType() && len(call.Args) == 1 {
			e = ast.Unparen(cf.Resolve(call.Args[0]))
			continue
		}
		f := Callee(info, call)
		if f == nil {
			return false
		}
		if f.Name() == "Value" && lexT != nil && recvNamedOf(f) == lexT {
			return transformed
		}
		if f.Name() != "String" {
			transformed = true
		}
		r := Recv(call)
		if r == nil {
			return false
		}
		e = ast.Unparen(cf.Resolve(r))
	}
	return false
}

// ix1ZeroLocals: a local string that starts as "" (`var s string`, `s := ""`) and is indexed
// at a constant position is, on every path from its declaration to the index, either
// assigned or found non-empty first. A path on which it still has its zero value when
// indexed is a certain panic for whatever input takes that path (an `or` alternative
// without a type, say).
func (c *Ctx) ix1ZeroLocals(sc *report.RuleScope) {
	perFn := map[*ast.FuncDecl]int{}
	c.P.Funcs(func(pk *pkgT, fd *ast.FuncDecl) {
		info := pk.TypesInfo
		zero := map[types.Object]ast.Node{}
		ast.Inspect(fd.Body, func(x ast.Node) bool {
			switch d := x.(type) {
			case *ast.DeclStmt:
				if gd, ok := d.Decl.(*ast.GenDecl); ok && gd.Tok == token.VAR {
					for _, sp := range gd.Specs {
						vs, ok := sp.(*ast.ValueSpec)
						if !ok || len(vs.Values) != 0 {
							continue
						}
						for _, nm := range vs.Names {
							if o := info.ObjectOf(nm); o != nil {
								if b, ok := o.Type().Underlying().(*types.Basic); ok && b.Info()&types.IsString != 0 {
									zero[o] = d
								}
							}
						}
					}
				}
			case *ast.AssignStmt:
				if d.Tok == token.DEFINE && len(d.Lhs) == len(d.Rhs) {
					for i, l := range d.Lhs {
						if tv, ok := info.Types[d.Rhs[i]]; ok && tv.Value != nil && tv.Value.Kind() == constant.String && constant.StringVal(tv.Value) == "" {
							if id, ok := l.(*ast.Ident); ok && info.Defs[id] != nil {
								zero[info.Defs[id]] = d
							}
						}
					}
				}
			}
			return true
		})
		if len(zero) == 0 {
			return
		}
		ast.Inspect(fd.Body, func(x ast.Node) bool {
			ix, ok := x.(*ast.IndexExpr)
			if !ok {
				return true
			}
			id, ok := ast.Unparen(ix.X).(*ast.Ident)
			if !ok {
				return true
			}
			obj := info.ObjectOf(id)
			decl, isZero := zero[obj]
			if !isZero {
				return true
			}
			if tv, ok := info.Types[ix.Index]; !ok || tv.Value == nil {
				return true
			}
			body := innermostBody(fd, ix)
			if db := innermostBody(fd, decl); db.body != body.body {
				return true // declared outside the closure that indexes it: not followed
			}
			cf := c.CFG(pk, body.body)
			nonEmpty := func(fa cfgx.Fact) bool {
				be, ok := ast.Unparen(fa.Expr).(*ast.BinaryExpr)
				if !ok {
					return false
				}
				mentions := func(e ast.Expr) bool {
					hit := false
					ast.Inspect(e, func(y ast.Node) bool {
						if i2, ok := y.(*ast.Ident); ok && info.ObjectOf(i2) == obj {
							hit = true
						}
						return true
					})
					return hit
				}
				switch be.Op {
				case token.NEQ, token.EQL:
					// s != "" true / s == "" false
					for _, pair := range [][2]ast.Expr{{be.X, be.Y}, {be.Y, be.X}} {
						if tv, ok := info.Types[pair[1]]; ok && tv.Value != nil && tv.Value.ExactString() == `""` && mentions(pair[0]) {
							return (be.Op == token.NEQ) == fa.Truth
						}
					}
				case token.GTR, token.GEQ, token.LSS, token.LEQ:
					return mentions(be.X) || mentions(be.Y) // a length comparison involving s
				}
				return false
			}
			assigned := func(nd ast.Node) bool {
				as, ok := nd.(*ast.AssignStmt)
				if !ok || nd == decl {
					return false
				}
				for _, l := range as.Lhs {
					if lid, ok := l.(*ast.Ident); ok && info.ObjectOf(lid) == obj {
						return true
					}
				}
				return false
			}
			perFn[fd]++
			key := fmt.Sprintf("zero-local:%s:%s#%d", c.P.DeclName(fd), id.Name, perFn[fd])
			if cf.MustAt(ix, nonEmpty, assigned, func(nd ast.Node) bool { return nd == decl }) {
				sc.Holds(key, c.P.Pos(ix.Pos()), "assigned or found non-empty on every path before the index")
			} else {
				sc.Violation(key, c.P.Pos(ix.Pos()), fmt.Sprintf("%s is declared empty, assigned only on some paths, and indexed at a fixed position without a non-emptiness test: on the remaining path it is still \"\" and the index panics", id.Name))
			}
			return true
		})
	})
}
