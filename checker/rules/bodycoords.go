package rules

import (
	"fmt"
	"go/ast"
	"go/token"
	"go/types"
	"sort"

	"golang.org/x/tools/go/packages"

	"verif/checker/cfgx"
	"verif/checker/load"
)

// callSite is a call expression with its enclosing function body.
type callSite struct {
	Call *ast.CallExpr
	Pk   *packages.Package
	Decl *ast.FuncDecl  // enclosing declaration
	Body *ast.BlockStmt // innermost enclosing function body (FuncLit body or Decl.Body)
	Lit  *ast.FuncLit   // innermost enclosing literal, or nil
}

// callSitesOf finds every static call to f in the repo's non-test code.
func (c *Ctx) callSitesOf(f *types.Func) []callSite {
	var out []callSite
	c.eachCall(func(cs callSite) {
		if callee := Callee(cs.Pk.TypesInfo, cs.Call); callee != nil && callee.Origin() == f.Origin() {
			out = append(out, cs)
		}
	})
	return out
}

// eachCall visits every call expression of the repo's non-test code.
func (c *Ctx) eachCall(fn func(callSite)) {
	c.P.Funcs(func(pk *packages.Package, fd *ast.FuncDecl) {
		var lits []*ast.FuncLit
		var walk func(n ast.Node) bool
		walk = func(n ast.Node) bool {
			switch x := n.(type) {
			case *ast.FuncLit:
				lits = append(lits, x)
				ast.Inspect(x.Body, walk)
				lits = lits[:len(lits)-1]
				return false
			case *ast.CallExpr:
				cs := callSite{Call: x, Pk: pk, Decl: fd, Body: fd.Body}
				if len(lits) > 0 {
					cs.Lit = lits[len(lits)-1]
					cs.Body = cs.Lit.Body
				}
				fn(cs)
			}
			return true
		}
		ast.Inspect(fd.Body, walk)
	})
}

// usedAsValue reports whether f is referenced other than as the callee of a call.
func (c *Ctx) usedAsValue(f *types.Func) bool {
	found := false
	for _, pk := range c.P.Repo {
		calleeIdents := map[*ast.Ident]bool{}
		for _, file := range pk.Syntax {
			if c.P.IsTestFile(file) {
				continue
			}
			ast.Inspect(file, func(n ast.Node) bool {
				if call, ok := n.(*ast.CallExpr); ok {
					switch fn := ast.Unparen(call.Fun).(type) {
					case *ast.Ident:
						calleeIdents[fn] = true
					case *ast.SelectorExpr:
						calleeIdents[fn.Sel] = true
					}
				}
				return true
			})
			ast.Inspect(file, func(n ast.Node) bool {
				if id, ok := n.(*ast.Ident); ok && !calleeIdents[id] {
					if obj, ok := pk.TypesInfo.Uses[id].(*types.Func); ok && obj.Origin() == f.Origin() {
						found = true
					}
				}
				return true
			})
		}
	}
	return found
}

func stripPtr(e ast.Expr) ast.Expr {
	for {
		e = ast.Unparen(e)
		switch x := e.(type) {
		case *ast.StarExpr:
			e = x.X
		case *ast.UnaryExpr:
			if x.Op == token.AND {
				e = x.X
				continue
			}
			return e
		default:
			return e
		}
	}
}

type b1 struct {
	c        *Ctx
	isSet    *types.Func
	read     *types.Func
	bei      *types.Func
	bodyF    *types.Var
	rawGet   *types.Func // (*directive.Directives).GetValue
	utField  *types.Var  // core.JApiCore.userTypes
	utGet    *types.Func // (*catalog.UserSchemas).GetValue
	utEach   *types.Func
	utSet    *types.Func
	invOK    bool
	invWhy   string
	keyDepth int // how many helper parameters the key was followed through
}

// RuleB1: body-coordinates typestate.
func RuleB1(c *Ctx) {
	sc := c.Run.Begin("B1", "Coords.Read() and Directive.BodyErrorIndex() are reached only with BodyCoords.IsSet() established for the same directive on every path (through parameters and the userTypes-key invariant)", 1)
	defer sc.End()
	b := &b1{c: c,
		isSet: c.Func("directive", "Coords.IsSet"), read: c.Func("directive", "Coords.Read"),
		bei: c.Func("directive", "Directive.BodyErrorIndex"), bodyF: c.Field("directive", "Directive", "BodyCoords"),
		rawGet: c.Func("directive", "Directives.GetValue"), utField: c.Field("core", "JApiCore", "userTypes"),
		utGet: c.Func("catalog", "UserSchemas.GetValue"), utEach: c.Func("catalog", "UserSchemas.Each"), utSet: c.Func("catalog", "UserSchemas.Set"),
	}
	if b.isSet == nil || b.read == nil || b.bei == nil || b.bodyF == nil || b.rawGet == nil || b.utField == nil || b.utGet == nil || b.utEach == nil || b.utSet == nil {
		sc.Undecided("anchors", "-", "unresolved anchor: Coords.IsSet/Read, Directive.BodyErrorIndex/BodyCoords, Directives.GetValue, JApiCore.userTypes, UserSchemas.GetValue/Each/Set")
		return
	}
	b.checkInvariant(sc)

	type site struct {
		cs   callSite
		x    ast.Expr
		what string
	}
	var sites []site
	c.eachCall(func(cs callSite) {
		callee := Callee(cs.Pk.TypesInfo, cs.Call)
		if callee == nil {
			return
		}
		switch callee.Origin() {
		case b.read:
			recv := Recv(cs.Call)
			if sel, ok := ast.Unparen(recv).(*ast.SelectorExpr); ok && cs.Pk.TypesInfo.ObjectOf(sel.Sel) == b.bodyF {
				sites = append(sites, site{cs, sel.X, "Read"})
			} else {
				sites = append(sites, site{cs, nil, "Read"})
			}
		case b.bei:
			sites = append(sites, site{cs, Recv(cs.Call), "BodyErrorIndex"})
		}
	})
	counts := map[string]int{}
	for _, s := range sites {
		fn := c.P.DeclName(s.cs.Decl)
		counts[fn+":"+s.what]++
		key := fmt.Sprintf("%s:%s#%d", fn, s.what, counts[fn+":"+s.what])
		pos := c.P.Pos(s.cs.Call.Pos())
		if s.x == nil {
			// Read on a bare Coords value: a pass-through wrapper; its parameter carries the obligation
			if len(c.callSitesOf(declObj(s.cs))) == 0 && !c.usedAsValue(declObj(s.cs)) {
				sc.Holds(key, pos, "pass-through wrapper with no caller in the repository")
			} else {
				sc.Violation(key, pos, "Coords.Read() on a coordinate value of unknown provenance")
			}
			continue
		}
		// frozen exception
		if why := b.exceptionFor(s.cs); why != "" {
			if ok2, _ := b.discharged(s.cs, s.x, s.cs.Call, 0); ok2 {
				sc.Holds(key, pos, "guarded")
			} else {
				sc.Exception(key, pos, why)
			}
			continue
		}
		if ok, why := b.discharged(s.cs, s.x, s.cs.Call, 0); ok {
			sc.Holds(key, pos, why)
		} else {
			sc.Violation(key, pos, fmt.Sprintf("%s is called on a directive whose BodyCoords.IsSet() is not established on every path (%s): with no body the coordinates hold a nil file and the call dereferences it", s.what, why))
		}
	}
}

// exceptionFor: the one frozen exception, by role - the self-recursive re-check keyed by a
// type name taken from a library error (the same function T1 classifies as "culprit").
func (b *b1) exceptionFor(cs callSite) string {
	f := declObj(cs)
	if f == nil {
		return ""
	}
	sf := b.c.P.SSAFunc(f)
	if sf != nil && b.c.t1RoleOf(sf) == "culprit" {
		return "second-phase re-check: every type was already Check()ed successfully when the user types were built, and a name taken from a library error names a schema that was added with AddType, i.e. a key of userTypes"
	}
	return ""
}

func declObj(cs callSite) *types.Func {
	f, _ := cs.Pk.TypesInfo.Defs[cs.Decl.Name].(*types.Func)
	return f
}

// discharged decides whether directive expression x is body-set at node at.
func (b *b1) discharged(cs callSite, x ast.Expr, at ast.Node, depth int) (bool, string) {
	c := b.c
	info := cs.Pk.TypesInfo
	cf := c.CFG(cs.Pk, cs.Body)
	x = stripPtr(x)
	rx := stripPtr(cf.Resolve(x))
	// (a) local guard
	gen := func(fa cfgx.Fact) bool {
		if !fa.Truth {
			return false
		}
		call, ok := ast.Unparen(fa.Expr).(*ast.CallExpr)
		if !ok || Callee(info, call) != b.isSet {
			return false
		}
		sel, ok := ast.Unparen(Recv(call)).(*ast.SelectorExpr)
		if !ok || info.ObjectOf(sel.Sel) != b.bodyF {
			return false
		}
		g := stripPtr(sel.X)
		return cfgx.SameExpr(info, g, x) || cfgx.SameExpr(info, stripPtr(cf.Resolve(g)), rx)
	}
	root := cfgx.RootObj(info, rx)
	kill := func(nd ast.Node) bool {
		return cfgx.Assigns(nd, func(l ast.Expr) bool {
			if sel, ok := ast.Unparen(l).(*ast.SelectorExpr); ok && info.ObjectOf(sel.Sel) == b.bodyF {
				return true
			}
			id, ok := ast.Unparen(l).(*ast.Ident)
			return ok && root != nil && info.ObjectOf(id) == root && !isDefineOf(nd, id)
		})
	}
	if cf.MustAt(at, gen, nil, kill) {
		return true, "IsSet() on every path"
	}
	if depth > 4 {
		return false, "precondition chain too deep"
	}
	// (b) fetched from rawUserTypes by a key of userTypes
	if call, ok := ast.Unparen(rx).(*ast.CallExpr); ok && Callee(info, call) == b.rawGet && len(call.Args) == 1 {
		if !b.invOK {
			return false, "userTypes-key invariant does not hold: " + b.invWhy
		}
		k := call.Args[0]
		if b.isUserTypesKey(cs, cf, k, at) {
			return true, "directive of a userTypes key (every userTypes.Set is guarded by IsSet)"
		}
		return false, "the directive is fetched from rawUserTypes by a key that is not known to be a key of userTypes"
	}
	// (c) parameter precondition
	if id, ok := ast.Unparen(rx).(*ast.Ident); ok && root != nil {
		if pi := paramIndex(cs, info, info.ObjectOf(id)); pi >= 0 {
			if cs.Lit != nil {
				return false, "parameter of a function literal without a local guard"
			}
			f := declObj(cs)
			if f == nil || c.usedAsValue(f) {
				return false, "parameter of a function that is also used as a value"
			}
			callers := c.callSitesOf(f)
			if len(callers) == 0 {
				return true, "precondition of a function with no caller"
			}
			for _, cc := range callers {
				if pi >= len(cc.Call.Args) {
					return false, "variadic caller"
				}
				if ok, why := b.discharged(cc, cc.Call.Args[pi], cc.Call, depth+1); !ok {
					return false, fmt.Sprintf("caller %s at %s: %s", c.P.DeclName(cc.Decl), c.P.Pos(cc.Call.Pos()), why)
				}
			}
			return true, fmt.Sprintf("precondition established by all %d callers", len(callers))
		}
	}
	return false, "no IsSet() test dominates the call"
}

func isDefineOf(nd ast.Node, id *ast.Ident) bool {
	as, ok := nd.(*ast.AssignStmt)
	if !ok || as.Tok != token.DEFINE {
		return false
	}
	for _, l := range as.Lhs {
		if l == id {
			return true
		}
	}
	return false
}

// paramIndex returns the index of obj among the parameters of the innermost
// enclosing function of the call site (receiver excluded), or -1.
func paramIndex(cs callSite, info *types.Info, obj types.Object) int {
	ft := cs.Decl.Type
	if cs.Lit != nil {
		ft = cs.Lit.Type
	}
	i := 0
	for _, fl := range ft.Params.List {
		for _, nm := range fl.Names {
			if info.ObjectOf(nm) == obj {
				return i
			}
			i++
		}
	}
	return -1
}

// isUserTypesKey: k is known to be a key of core.userTypes at node at.
func (b *b1) isUserTypesKey(cs callSite, cf *cfgx.Func, k ast.Expr, at ast.Node) bool {
	info := cs.Pk.TypesInfo
	// key parameter of a literal passed to userTypes.Each
	if cs.Lit != nil {
		if id, ok := ast.Unparen(k).(*ast.Ident); ok && paramIndex(cs, info, info.ObjectOf(id)) == 0 {
			if b.litPassedTo(cs, b.utEach) {
				return true
			}
		}
	}
	// userTypes.GetValue(k) != nil established (possibly through an alias)
	gen := func(fa cfgx.Fact) bool {
		be, ok := ast.Unparen(fa.Expr).(*ast.BinaryExpr)
		if !ok || (be.Op != token.NEQ && be.Op != token.EQL) || (be.Op == token.NEQ) != fa.Truth {
			return false
		}
		x := cf.Resolve(be.X)
		call, ok := ast.Unparen(x).(*ast.CallExpr)
		if !ok || Callee(info, call) != b.utGet || len(call.Args) != 1 {
			return false
		}
		if !fieldSel(info, Recv(call), b.utField) {
			return false
		}
		return cfgx.SameExpr(info, call.Args[0], k)
	}
	if cf.MustAt(at, gen, nil, nil) {
		return true
	}
	// the key is a parameter of a helper: it is a userTypes key when every caller passes one
	return b.paramKeyOfCallers(cs, cf, k, b.keyDepth)
}

func (b *b1) paramKeyOfCallers(cs callSite, cf *cfgx.Func, k ast.Expr, depth int) bool {
	info := cs.Pk.TypesInfo
	id, ok := ast.Unparen(cf.Resolve(k)).(*ast.Ident)
	if !ok || cs.Lit != nil || depth > 2 {
		return false
	}
	pi := paramIndex(cs, info, info.ObjectOf(id))
	self := declObj(cs)
	if pi < 0 || self == nil || b.c.usedAsValue(self) || assignedAnywhere(info, cs.Decl.Body, info.ObjectOf(id)) {
		return false
	}
	callers := b.c.callSitesOf(self)
	if len(callers) == 0 {
		return false
	}
	for _, up := range callers {
		if pi >= len(up.Call.Args) {
			return false
		}
		ucf := b.c.CFG(up.Pk, up.Body)
		if !b.isUserTypesKeyDepth(up, ucf, up.Call.Args[pi], up.Call, depth+1) {
			return false
		}
	}
	return true
}

func (b *b1) isUserTypesKeyDepth(cs callSite, cf *cfgx.Func, k ast.Expr, at ast.Node, depth int) bool {
	if depth > 2 {
		return false
	}
	saved := b.keyDepth
	b.keyDepth = depth
	defer func() { b.keyDepth = saved }()
	return b.isUserTypesKey(cs, cf, k, at)
}

// litPassedTo: the innermost literal of cs is an argument of a call to f on core.userTypes.
func (b *b1) litPassedTo(cs callSite, f *types.Func) bool {
	found := false
	ast.Inspect(cs.Decl.Body, func(n ast.Node) bool {
		call, ok := n.(*ast.CallExpr)
		if !ok {
			return true
		}
		if Callee(cs.Pk.TypesInfo, call) != f || !fieldSel(cs.Pk.TypesInfo, Recv(call), b.utField) {
			return true
		}
		for _, a := range call.Args {
			if a == cs.Lit {
				found = true
			}
		}
		return true
	})
	return found
}

// checkInvariant: every core.userTypes.Set(k, v) either (a) sits in the callback of
// rawUserTypes.EachSafe/Each with k the callback's key and is guarded by
// v.BodyCoords.IsSet(), or (b) re-sets a key already known to be present.
func (b *b1) checkInvariant(sc interface {
	Holds(string, string, string)
	Violation(string, string, string)
}) {
	c := b.c
	b.invOK = true
	rawEach := map[*types.Func]bool{c.Func("directive", "Directives.EachSafe"): true, c.Func("directive", "Directives.Each"): true}
	var sets []callSite
	c.eachCall(func(cs callSite) {
		if Callee(cs.Pk.TypesInfo, cs.Call) == b.utSet && fieldSel(cs.Pk.TypesInfo, Recv(cs.Call), b.utField) {
			sets = append(sets, cs)
		}
	})
	sort.Slice(sets, func(i, j int) bool { return sets[i].Call.Pos() < sets[j].Call.Pos() })
	if len(sets) == 0 {
		b.invOK, b.invWhy = false, "no userTypes.Set call found"
		return
	}
	for i, cs := range sets {
		info := cs.Pk.TypesInfo
		key := fmt.Sprintf("inv:%s:userTypes.Set#%d", c.P.DeclName(cs.Decl), i+1)
		cf := c.CFG(cs.Pk, cs.Body)
		k := cs.Call.Args[0]
		ok := false
		why := ""
		// the callback handed to rawUserTypes.Each*: a literal, or a declared function or
		// method every reference to which is such an argument
		var cbParams *ast.FieldList
		if cs.Lit != nil {
			ast.Inspect(cs.Decl.Body, func(n ast.Node) bool {
				call, isCall := n.(*ast.CallExpr)
				if isCall && rawEach[Callee(info, call)] {
					for _, a := range call.Args {
						if a == cs.Lit {
							cbParams = cs.Lit.Type.Params
						}
					}
				}
				return true
			})
		} else if self := declObj(cs); self != nil && len(c.callSitesOf(self)) == 0 {
			handed := 0
			c.eachCall(func(up callSite) {
				if !rawEach[Callee(up.Pk.TypesInfo, up.Call)] {
					return
				}
				for _, a := range up.Call.Args {
					var g *types.Func
					switch x := ast.Unparen(a).(type) {
					case *ast.Ident:
						g, _ = up.Pk.TypesInfo.ObjectOf(x).(*types.Func)
					case *ast.SelectorExpr:
						g, _ = up.Pk.TypesInfo.ObjectOf(x.Sel).(*types.Func)
					}
					if g == self {
						handed++
					}
				}
			})
			if handed > 0 {
				cbParams = cs.Decl.Type.Params
			}
		}
		if cbParams != nil {
			pidx := -1
			if id, isId := ast.Unparen(k).(*ast.Ident); isId {
				n := 0
				for _, fl := range cbParams.List {
					for _, nm := range fl.Names {
						if info.ObjectOf(nm) == info.ObjectOf(id) {
							pidx = n
						}
						n++
					}
				}
			}
			if pidx == 0 {
				passed := true
				if passed {
					// guarded by <value param>.BodyCoords.IsSet()
					var vObj types.Object
					n := 0
					for _, fl := range cbParams.List {
						for _, nm := range fl.Names {
							if n == 1 {
								vObj = info.ObjectOf(nm)
							}
							n++
						}
					}
					gen := func(fa cfgx.Fact) bool {
						if !fa.Truth {
							return false
						}
						call, isCall := ast.Unparen(fa.Expr).(*ast.CallExpr)
						if !isCall || Callee(info, call) != b.isSet {
							return false
						}
						sel, isSel := ast.Unparen(Recv(call)).(*ast.SelectorExpr)
						if !isSel || info.ObjectOf(sel.Sel) != b.bodyF {
							return false
						}
						id, isId := stripPtr(sel.X).(*ast.Ident)
						return isId && info.ObjectOf(id) == vObj
					}
					if cf.MustAt(cs.Call, gen, nil, nil) {
						ok, why = true, "in the rawUserTypes callback, guarded by IsSet()"
					} else {
						why = "in the rawUserTypes callback but not guarded by v.BodyCoords.IsSet()"
					}
				}
			}
		}
		if !ok && b.isUserTypesKey(cs, cf, k, cs.Call) {
			ok, why = true, "re-sets a key already present"
		}
		if ok {
			sc.Holds(key, c.P.Pos(cs.Call.Pos()), why)
		} else {
			if why == "" {
				why = "neither in the guarded rawUserTypes callback nor a re-set of a present key"
			}
			b.invOK, b.invWhy = false, fmt.Sprintf("userTypes.Set at %s: %s", c.P.Pos(cs.Call.Pos()), why)
			sc.Violation(key, c.P.Pos(cs.Call.Pos()), "a user type is registered without a body ("+why+"): later stages read and locate errors in its body unconditionally")
		}
	}
}

var _ = load.FuncName
