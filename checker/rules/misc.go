package rules

import (
	"fmt"
	"go/ast"
	"go/constant"
	"go/token"
	"go/types"
	"golang.org/x/tools/go/ssa"
	"sort"
	"strconv"
	"strings"
	"verif/checker/report"

	"verif/checker/cfgx"
)

// ---------------------------------------------------------------- MP1 paste lookup

// RuleMP1: a macro fetched for expansion was found.
func RuleMP1(c *Ctx) {
	sc := c.Run.Begin("MP1", "every value read from the macro table for expansion is used only where the lookup reported it found (PASTE of an undefined macro is an error, not a nil dereference)", 1)
	defer sc.End()
	pk := c.P.Pkg("core")
	macro := c.Field("core", "JApiCore", "macro")
	if pk == nil || macro == nil {
		sc.Undecided("anchors", "-", "unresolved anchor: core.JApiCore.macro")
		return
	}
	info := pk.TypesInfo
	n := 0
	c.P.Funcs(func(p *pkgT, fd *ast.FuncDecl) {
		if p != pk {
			return
		}
		cf := c.CFG(pk, fd.Body)
		ast.Inspect(fd.Body, func(x ast.Node) bool {
			as, ok := x.(*ast.AssignStmt)
			if !ok || len(as.Rhs) != 1 {
				return true
			}
			ix, ok := ast.Unparen(as.Rhs[0]).(*ast.IndexExpr)
			if !ok || !fieldSel(info, ix.X, macro) {
				return true
			}
			vid, ok := as.Lhs[0].(*ast.Ident)
			if !ok || vid.Name == "_" {
				return true
			}
			vobj := info.ObjectOf(vid)
			var okObj types.Object
			if len(as.Lhs) == 2 {
				if oid, ok := as.Lhs[1].(*ast.Ident); ok {
					okObj = info.ObjectOf(oid)
				}
			}
			match := func(e ast.Expr) bool {
				id, ok := ast.Unparen(e).(*ast.Ident)
				return ok && info.ObjectOf(id) == vobj
			}
			// handing the value out counts as a use: a success return that carries it is
			// reached only where the lookup found it
			inspectNoLit(fd.Body, func(y ast.Node) bool {
				ret, ok := y.(*ast.ReturnStmt)
				if !ok || len(ret.Results) < 2 {
					return true
				}
				carries := false
				for _, r := range ret.Results {
					if match(r) {
						carries = true
					}
				}
				last := ret.Results[len(ret.Results)-1]
				if tv, has := info.Types[last]; !carries || !has || !tv.IsNil() {
					return true
				}
				n++
				key := fmt.Sprintf("%s:macro-value-returned#%d", c.P.DeclName(fd), n)
				gen := func(fa cfgx.Fact) bool {
					if id, ok := ast.Unparen(fa.Expr).(*ast.Ident); ok && okObj != nil && info.ObjectOf(id) == okObj && fa.Truth {
						return true
					}
					for _, r := range ret.Results {
						if match(r) && cfgx.IsNilCheck(info, fa, r) {
							return true
						}
					}
					return false
				}
				if cf.MustAt(ret, gen, nil, nil) {
					sc.Holds(key, c.P.Pos(ret.Pos()), "returned with success only after the lookup succeeded")
				} else {
					sc.Violation(key, c.P.Pos(ret.Pos()), "a macro fetched from the table is returned as found without testing that it exists")
				}
				return true
			})
			for _, us := range usesOf(fd.Body, match) {
				n++
				key := fmt.Sprintf("%s:macro-value#%d", c.P.DeclName(fd), n)
				gen := func(fa cfgx.Fact) bool {
					if id, ok := ast.Unparen(fa.Expr).(*ast.Ident); ok && okObj != nil && info.ObjectOf(id) == okObj && fa.Truth {
						return true
					}
					return cfgx.IsNilCheck(info, fa, us.Target)
				}
				if cf.MustAt(us.Node, gen, nil, nil) {
					sc.Holds(key, c.P.Pos(us.Node.Pos()), "used only after the lookup succeeded")
				} else {
					sc.Violation(key, c.P.Pos(us.Node.Pos()), "a macro fetched from the table is used without testing that it exists: PASTE of an undefined macro dereferences nil instead of reporting 'macro not found'")
				}
			}
			return true
		})
	})
	// direct uses core.macro[name].X without a lookup variable are covered by N-style rules; require at least one guarded read
	if n == 0 {
		sc.Undecided("reads", "-", "no guarded read of the macro table found")
	}
}

// ---------------------------------------------------------------- IM1 base immutability

// RuleIM1: inheriting from a base type never writes into the base.
func RuleIM1(c *Ctx) {
	sc := c.Run.Begin("IM1", "in the function that inherits properties from a base user type, no store goes through a pointer obtained from the base type (only through value copies): the base types are left as declared", 1)
	defer sc.End()
	unshift := c.Func("catalog", "SchemaContentJSight.Unshift")
	utGet := c.Func("catalog", "UserTypes.Get")
	if unshift == nil || utGet == nil {
		sc.Undecided("anchors", "-", "unresolved anchor: SchemaContentJSight.Unshift / UserTypes.Get")
		return
	}
	done := map[*ast.FuncDecl]bool{}
	for _, cs := range c.callSitesOf(unshift) {
		fd := cs.Decl
		if done[fd] {
			continue
		}
		done[fd] = true
		pk := cs.Pk
		info := pk.TypesInfo
		cf := c.CFG(pk, fd.Body)
		// what may be written: the schema that inherits (the receiver of Unshift and whatever
		// is reached from it) and value copies. A store into a node of the catalog model
		// through any other pointer - the base type as looked up, a child of it, a parameter
		// that carries one - changes the base as declared.
		scj := c.Named("catalog", "SchemaContentJSight")
		var target types.Object
		if r := Recv(cs.Call); r != nil {
			target = cfgx.RootObj(info, r)
		}
		var allowed func(e ast.Expr, depth int) bool
		allowed = func(e ast.Expr, depth int) bool {
			if depth > 8 {
				return false
			}
			root := cfgx.RootObj(info, e)
			if root == nil {
				return false
			}
			if root == target {
				return true
			}
			v, ok := root.(*types.Var)
			if !ok || v.IsField() {
				return false
			}
			if _, isPtr := v.Type().Underlying().(*types.Pointer); !isPtr {
				if _, isSl := v.Type().Underlying().(*types.Slice); !isSl {
					if _, isMap := v.Type().Underlying().(*types.Map); !isMap {
						return true // a value copy
					}
				}
			}
			if !cf.AssignedOnce(root) {
				return false
			}
			var def ast.Expr
			ast.Inspect(fd.Body, func(n ast.Node) bool {
				if as, ok := n.(*ast.AssignStmt); ok && len(as.Lhs) == len(as.Rhs) {
					for i, l := range as.Lhs {
						if id, ok := l.(*ast.Ident); ok && info.ObjectOf(id) == root {
							def = as.Rhs[i]
						}
					}
				}
				return true
			})
			if def == nil {
				return false
			}
			// p := sc.ObjectProperty(k): reached from the inheriting schema
			if call, ok := ast.Unparen(def).(*ast.CallExpr); ok {
				if r := Recv(call); r != nil {
					return allowed(r, depth+1)
				}
				return false
			}
			return allowed(def, depth+1)
		}
		n := 0
		bad := 0
		ast.Inspect(fd.Body, func(x ast.Node) bool {
			as, ok := x.(*ast.AssignStmt)
			if !ok {
				return true
			}
			for _, l := range as.Lhs {
				sel, isSel := ast.Unparen(l).(*ast.SelectorExpr)
				if !isSel {
					if ix, isIx := ast.Unparen(l).(*ast.IndexExpr); isIx {
						// an element store into a Children slice of a node
						if s2, ok := ast.Unparen(ix.X).(*ast.SelectorExpr); ok {
							sel, isSel = s2, true
						}
					}
				}
				if !isSel {
					continue
				}
				// only stores into nodes of the schema model
				t := info.TypeOf(sel.X)
				if p, ok := t.(*types.Pointer); ok {
					t = p.Elem()
				}
				if scj == nil || t == nil || !types.Identical(t, scj) {
					continue
				}
				n++
				if !allowed(sel.X, 0) {
					bad++
					sc.Violation(fmt.Sprintf("%s:store#%d", c.P.DeclName(fd), n), c.P.Pos(as.Pos()), "the store to "+types.ExprString(l)+" goes through a pointer that is neither the inheriting schema nor a value copy: inheriting changes the base as declared (and every other schema that inherits from it)")
				}
			}
			return true
		})
		if bad == 0 {
			sc.Holds(c.P.DeclName(fd), c.P.Pos(fd.Pos()), fmt.Sprintf("%d stores into schema nodes, all into the inheriting schema or a value copy", n))
			sc.Holds(c.P.DeclName(fd)+":copy", c.P.Pos(fd.Pos()), "inherited nodes are inserted as value copies")
		}
		// every copy that is handed on carries the mark of THIS base: `vv := *v ... &vv` is
		// used only after `vv.InheritedFrom = ...` on every path (a mark set only when the
		// base's own property had none keeps the name of the base's base)
		k := 0
		ast.Inspect(fd.Body, func(x ast.Node) bool {
			u, ok := x.(*ast.UnaryExpr)
			if !ok || u.Op != token.AND {
				return true
			}
			id, ok := ast.Unparen(u.X).(*ast.Ident)
			if !ok {
				return true
			}
			obj := info.ObjectOf(id)
			var as *ast.AssignStmt
			ast.Inspect(fd.Body, func(y ast.Node) bool {
				if a2, ok := y.(*ast.AssignStmt); ok && a2.Tok == token.DEFINE && len(a2.Lhs) == 1 && len(a2.Rhs) == 1 {
					if did, ok := a2.Lhs[0].(*ast.Ident); ok && info.Defs[did] == obj {
						as = a2
					}
				}
				return true
			})
			if as == nil {
				return true
			}
			if _, isCopy := ast.Unparen(as.Rhs[0]).(*ast.StarExpr); !isCopy {
				return true
			}
			hasMark := false
			if st, ok := obj.Type().Underlying().(*types.Struct); ok {
				for i := 0; i < st.NumFields(); i++ {
					if st.Field(i).Name() == "InheritedFrom" {
						hasMark = true
					}
				}
			}
			if !hasMark {
				return true
			}
			k++
			key := fmt.Sprintf("%s:mark#%d", c.P.DeclName(fd), k)
			marks := func(nd ast.Node) bool {
				a2, ok := nd.(*ast.AssignStmt)
				if !ok {
					return false
				}
				for _, l := range a2.Lhs {
					if sel, ok := ast.Unparen(l).(*ast.SelectorExpr); ok && sel.Sel.Name == "InheritedFrom" {
						if bid, ok := ast.Unparen(sel.X).(*ast.Ident); ok && info.ObjectOf(bid) == obj {
							return true
						}
					}
				}
				return false
			}
			body := innermostBody(fd, u)
			if c.CFG(pk, body.body).MustAt(u, nil, marks, func(nd ast.Node) bool { return nd == ast.Node(as) }) {
				sc.Holds(key, c.P.Pos(u.Pos()), "the copy is marked with the base it is taken from on every path before it is handed on")
			} else {
				sc.Violation(key, c.P.Pos(u.Pos()), "a copy of a base property is handed on without its InheritedFrom having been set on every path: a property the base itself inherited keeps the mark of the base's base, so the catalog names the wrong type as the one the property was taken from")
			}
			return true
		})
	}
}

// ---------------------------------------------------------------- PS1 path schema checked before use

// RulePS1: path schemas are checked before their children are read; unused
// properties are reported on every path.
func RulePS1(c *Ctx) {
	sc := c.Run.Begin("PS1", "the stage that binds path parameters reads the children of a Path schema only after every Path schema passed the flat-object check (its error returns first), and for each Path directive the 'unused parameters' test follows the binding loop on every path", 1)
	defer sc.End()
	pk := c.P.Pkg("core")
	slot := c.Field("core", "rawPathVariable", "schema")
	content := c.Field("catalog", "Schema", "ContentJSight")
	if pk == nil || slot == nil || content == nil {
		sc.Undecided("anchors", "-", "unresolved anchor: core.rawPathVariable.schema / Schema.ContentJSight")
		return
	}
	info := pk.TypesInfo
	// checker: the function with a Schema parameter that tests TokenType against the object constant and returns errors
	var checker *types.Func
	c.P.Funcs(func(p *pkgT, fd *ast.FuncDecl) {
		if p != pk || fd.Recv != nil {
			return
		}
		self, _ := info.Defs[fd.Name].(*types.Func)
		sig := self.Type().(*types.Signature)
		if sig.Params().Len() != 1 || sig.Results().Len() != 1 || !isErrorType(sig.Results().At(0).Type()) {
			return
		}
		pt := sig.Params().At(0).Type()
		if ptr, isPtr := pt.(*types.Pointer); isPtr {
			pt = ptr.Elem()
		}
		if n, ok := pt.(*types.Named); !ok || n.Obj().Name() != "Schema" {
			return
		}
		checker = self
	})
	if checker == nil {
		sc.Undecided("checker", "-", "unresolved anchor: the Path schema check func(Schema) error")
		return
	}
	c.ps2PerPropertyKind(sc, pk, checker)
	c.ps3ShortcutFollowed(sc, pk, checker, slot)
	// checkAll: functions that call the checker on every element of rawPathVariables and return its error
	checkAll := map[*types.Func]bool{}
	for _, cs := range c.callSitesOf(checker) {
		if f := declObj(cs); f != nil {
			checkAll[f] = true
		}
	}
	// reader: functions (other than the check-all ones) that read <x>.schema.ContentJSight.<...>
	c.P.Funcs(func(p *pkgT, fd *ast.FuncDecl) {
		if p != pk {
			return
		}
		self, _ := info.Defs[fd.Name].(*types.Func)
		if checkAll[self] || self == checker {
			return
		}
		reads := false
		ast.Inspect(fd.Body, func(n ast.Node) bool {
			if sel, ok := n.(*ast.SelectorExpr); ok && sel.Sel.Name == "Children" {
				if inner, ok := ast.Unparen(sel.X).(*ast.SelectorExpr); ok && info.ObjectOf(inner.Sel) == content {
					if s2, ok := ast.Unparen(inner.X).(*ast.SelectorExpr); ok && info.ObjectOf(s2.Sel) == slot {
						reads = true
					}
				}
			}
			return true
		})
		if !reads {
			return
		}
		// every call site of this reader is dominated by a successful check-all call
		sites := c.callSitesOf(self)
		for i, cs := range sites {
			key := fmt.Sprintf("%s<-%s#%d", self.Name(), c.P.DeclName(cs.Decl), i+1)
			cf := c.CFG(cs.Pk, cs.Body)
			gen := func(fa cfgx.Fact) bool {
				be, ok := ast.Unparen(fa.Expr).(*ast.BinaryExpr)
				if !ok {
					return false
				}
				id, ok := ast.Unparen(be.X).(*ast.Ident)
				if !ok {
					return false
				}
				def, ok := ast.Unparen(cf.Resolve(id)).(*ast.CallExpr)
				if !ok {
					return false
				}
				g := Callee(cs.Pk.TypesInfo, def)
				if g == nil || !checkAll[g] {
					return false
				}
				return (be.Op == token.NEQ && !fa.Truth) || (be.Op == token.EQL && fa.Truth)
			}
			if cf.MustAt(cs.Call, gen, nil, nil) {
				sc.Holds(key, c.P.Pos(cs.Call.Pos()), "runs only after every Path schema passed the flat-object check")
			} else if c.ps1CallersDominated(cs, checkAll, 0) {
				sc.Holds(key, c.P.Pos(cs.Call.Pos()), "called from a function every call of which comes after the flat-object check of all Path schemas")
			} else {
				sc.Violation(key, c.P.Pos(cs.Call.Pos()), self.Name()+" reads the children of Path schemas but is not dominated by a successful pass of the Path schema check: a Path body that is not a flat object is read as if it were")
			}
		}
		if len(sites) == 0 {
			sc.Undecided(self.Name(), c.P.Pos(fd.Pos()), "reader of Path schemas has no caller")
		}
		// the unused-parameters test: inside the range over rawPathVariables, after the binding loop, `if len(pp) > 0 { return err }`
		found := false
		ast.Inspect(fd.Body, func(n ast.Node) bool {
			rs, ok := n.(*ast.RangeStmt)
			if !ok {
				return true
			}
			var inner *ast.RangeStmt
			for _, st := range rs.Body.List {
				if r2, ok := st.(*ast.RangeStmt); ok {
					inner = r2
				}
				if ifs, ok := st.(*ast.IfStmt); ok && inner != nil && ifs.Pos() > inner.End() {
					if be, ok := ast.Unparen(ifs.Cond).(*ast.BinaryExpr); ok {
						if _, isLen := lengthExpr(info, be.X); isLen && endsWithErrorReturn(info, ifs.Body) {
							found = true
						}
					}
				}
			}
			return true
		})
		key := self.Name() + ":unused-parameters"
		if found {
			sc.Holds(key, c.P.Pos(fd.Pos()), "after binding, leftover properties of the Path schema are an error for every Path directive")
		} else {
			sc.Violation(key, c.P.Pos(fd.Pos()), "the 'unused parameters' test no longer follows the binding loop: a Path property that matches no {segment} is silently accepted")
		}
	})
}

// ps3ShortcutFollowed: a Path body given as a type name is replaced by that type's schema,
// which may again be a type name. Where a function stores into a rawPathVariable's schema
// and then hands that schema to the flat-object check, the check is reached only over a
// "this is not a shortcut" test made after the last store: a chain of aliases is followed to
// its end (one step only, and a valid project is refused as "must be an object").
func (c *Ctx) ps3ShortcutFollowed(sc *report.RuleScope, pk *pkgT, checker *types.Func, slot *types.Var) {
	info := pk.TypesInfo
	isSlot := func(e ast.Expr) bool {
		sel, ok := ast.Unparen(e).(*ast.SelectorExpr)
		return ok && info.ObjectOf(sel.Sel) == types.Object(slot)
	}
	throughSlot := func(e ast.Expr) bool {
		for {
			sel, ok := ast.Unparen(e).(*ast.SelectorExpr)
			if !ok {
				return false
			}
			if info.ObjectOf(sel.Sel) == types.Object(slot) {
				return true
			}
			e = sel.X
		}
	}
	for _, cs := range c.callSitesOf(checker) {
		if cs.Pk != pk || len(cs.Call.Args) != 1 {
			continue
		}
		cf := c.CFG(cs.Pk, cs.Body)
		arg := ast.Unparen(cs.Call.Args[0])
		if u, ok := arg.(*ast.UnaryExpr); ok && u.Op == token.AND {
			arg = ast.Unparen(u.X)
		}
		if !isSlot(arg) && !isSlot(cf.Resolve(arg)) {
			continue
		}
		stores := 0
		kill := func(n ast.Node) bool {
			as, ok := n.(*ast.AssignStmt)
			if !ok {
				return false
			}
			for _, l := range as.Lhs {
				if isSlot(l) {
					return true
				}
			}
			return false
		}
		ast.Inspect(cs.Body, func(n ast.Node) bool {
			if n != nil && kill(n) {
				stores++
			}
			return true
		})
		if stores == 0 {
			continue
		}
		gen := func(fa cfgx.Fact) bool {
			be, ok := ast.Unparen(fa.Expr).(*ast.BinaryExpr)
			if !ok || (be.Op != token.EQL && be.Op != token.NEQ) {
				return false
			}
			x, y := ast.Unparen(be.X), ast.Unparen(be.Y)
			if !throughSlot(x) {
				x, y = y, x
			}
			xs, ok := x.(*ast.SelectorExpr)
			if !ok || xs.Sel.Name != "TokenType" || !throughSlot(xs.X) {
				return false
			}
			isShortcut := false
			if ys, ok := y.(*ast.SelectorExpr); ok {
				if k, ok := info.ObjectOf(ys.Sel).(*types.Const); ok && k.Name() == "TokenTypeShortcut" {
					isShortcut = true
				}
			}
			if be.Op == token.EQL {
				return isShortcut != fa.Truth
			}
			return isShortcut && fa.Truth
		}
		key := fmt.Sprintf("%s:shortcut-followed", c.P.DeclName(cs.Decl))
		if cf.MustAt(cs.Call, gen, nil, kill) {
			sc.Holds(key, c.P.Pos(cs.Call.Pos()), fmt.Sprintf("the schema stored here (%d store(s)) reaches the flat-object check only after a not-a-shortcut test that follows the last store", stores))
		} else {
			sc.Violation(key, c.P.Pos(cs.Call.Pos()), "a Path schema replaced by a user type's schema reaches the flat-object check without being tested again for being a type name: a Path body that is an alias of an alias is refused (\"must be an object\") although the project is valid")
		}
	}
}

// ps2PerPropertyKind: "flat" is a statement about the KIND of every property of the Path
// body. The flat-object check therefore walks the children of the schema and, for each,
// has a rejection (an error return) decided by the child's kind field (TokenType / Type),
// read directly or by a function the child is handed to. A rejection decided by what the
// child happens to contain (its Children, its Rules) is a different predicate: an empty
// object or array as a Path property has the kind and not the contents.
func (c *Ctx) ps2PerPropertyKind(sc *report.RuleScope, pk *pkgT, checker *types.Func) {
	fd := c.P.Decl(checker)
	if fd == nil || fd.Body == nil {
		return
	}
	info := pk.TypesInfo
	isKindField := func(o types.Object) bool {
		v, ok := o.(*types.Var)
		return ok && v.IsField() && (v.Name() == "TokenType" || v.Name() == "Type")
	}
	// functions searched: the checker and the same-package functions it calls
	bodies := []*ast.FuncDecl{fd}
	for _, g := range staticCallees(c.P, info, fd.Body) {
		if gd := c.P.Decl(g); gd != nil && c.P.PkgOfDecl(gd) == pk && gd != fd {
			bodies = append(bodies, gd)
		}
	}
	var childrenT types.Type
	if f := c.Field("catalog", "SchemaContentJSight", "Children"); f != nil {
		childrenT = f.Type()
	}
	loops, kindReads := 0, 0
	var firstOther ast.Node
	for _, b := range bodies {
		ast.Inspect(b.Body, func(n ast.Node) bool {
			rs, ok := n.(*ast.RangeStmt)
			if !ok {
				return true
			}
			isChildren := false
			if sel, ok := ast.Unparen(rs.X).(*ast.SelectorExpr); ok && sel.Sel.Name == "Children" {
				isChildren = true
			}
			if t := info.TypeOf(rs.X); t != nil && childrenT != nil && types.Identical(t, childrenT) {
				isChildren = true // a helper that walks the children handed to it
			}
			if !isChildren {
				return true
			}
			var elem, idx types.Object
			if id, ok := rs.Value.(*ast.Ident); ok && id.Name != "_" {
				elem = info.ObjectOf(id)
			}
			if id, ok := rs.Key.(*ast.Ident); ok && id.Name != "_" {
				idx = info.ObjectOf(id)
			}
			if elem == nil && idx == nil {
				return true
			}
			loops++
			mentionsElem := func(e ast.Node) bool {
				m := false
				ast.Inspect(e, func(x ast.Node) bool {
					if id, ok := x.(*ast.Ident); ok {
						if o := info.ObjectOf(id); o != nil && (o == elem || o == idx) {
							m = true
						}
					}
					return true
				})
				return m
			}
			ast.Inspect(rs.Body, func(x ast.Node) bool {
				switch z := x.(type) {
				case *ast.SelectorExpr:
					if isKindField(info.ObjectOf(z.Sel)) && mentionsElem(z.X) {
						kindReads++
					}
				case *ast.CallExpr:
					// the child handed to a function of the repository (or a method of the child): the callee decides
					if f := Callee(info, z); f != nil && c.P.Decl(f) != nil && mentionsElem(z) {
						kindReads++
					}
				case *ast.IfStmt:
					if firstOther == nil && mentionsElem(z.Cond) && endsWithErrorReturn(info, z.Body) {
						firstOther = z
					}
				}
				return true
			})
			return true
		})
	}
	key := checker.Name() + ":per-property-kind"
	switch {
	case kindReads > 0:
		sc.Holds(key, c.P.Pos(fd.Pos()), fmt.Sprintf("the check walks the properties of the Path body (%d loop(s)) and consults each property's kind", loops))
	case firstOther != nil:
		sc.Violation(key, c.P.Pos(firstOther.Pos()), "the flat-object check rejects a property of the Path body by what it contains and never reads its kind (TokenType / Type): an empty object or array as a Path property is a non-scalar that passes, and {name} is bound to it")
	default:
		sc.Violation(key, c.P.Pos(fd.Pos()), "the flat-object check no longer looks at the kind of the properties of the Path body: a multi-level Path body is accepted")
	}
}

// ---------------------------------------------------------------- DN1 / AN1 / K2'

// RuleDN1: descriptions reach the catalog only through the normaliser.
func RuleDN1(c *Ctx) {
	sc := c.Run.Begin("DN1", "the catalog's description setters are reached only from the Description handler, and there only after the normaliser ran (its error returns) and the result was tested for emptiness; the stored text is the normaliser's result", 1)
	defer sc.End()
	pk := c.P.Pkg("core")
	cat := c.Named("catalog", "Catalog")
	table := c.handlerTable()
	if pk == nil || cat == nil || table["Description"] == nil {
		sc.Undecided("anchors", "-", "unresolved anchor: handler table entry for Description")
		return
	}
	info := pk.TypesInfo
	handler := table["Description"]
	hfd := c.P.Decl(handler)
	cf := c.CFG(pk, hfd.Body)
	// the normaliser: the package function  func([]byte) ([]byte, error)  called in the handler
	var norm *types.Func
	ast.Inspect(hfd.Body, func(n ast.Node) bool {
		if call, ok := n.(*ast.CallExpr); ok {
			if g := Callee(info, call); g != nil && g.Pkg() == pk.Types {
				sig := g.Type().(*types.Signature)
				if sig.Recv() == nil && sig.Params().Len() == 1 && sig.Results().Len() == 2 && isErrorType(sig.Results().At(1).Type()) {
					if sl, ok := sig.Params().At(0).Type().Underlying().(*types.Slice); ok && isByte(sl.Elem()) {
						norm = g
					}
				}
			}
		}
		return true
	})
	if norm == nil {
		sc.Undecided("normaliser", c.P.Pos(hfd.Pos()), "the description normaliser call was not found in the handler")
		return
	}
	// setters
	var setters []*types.Func
	for i := 0; i < cat.NumMethods(); i++ {
		if m := cat.Method(i); strings.HasPrefix(m.Name(), "AddDescriptionTo") {
			setters = append(setters, m)
		}
	}
	if len(setters) < 3 {
		sc.Undecided("setters", "-", "fewer than three description setters found")
	}
	below := map[*types.Func]bool{}
	for _, f := range reachStatic(c.P, pk, []*types.Func{handler}) {
		below[f] = true
	}
	// relay[g] = index of the parameter of g that reaches a setter's stored text unchanged
	relay := map[*types.Func]int{}
	for _, s := range setters {
		// inside the setter: what is stored into a Description field is the address of a
		// parameter that is never reassigned
		sfd := c.P.Decl(s)
		spk := c.P.PkgOfDecl(sfd)
		textIdx := -1
		okStore := sfd != nil
		nStores := 0
		if sfd != nil {
			ast.Inspect(sfd.Body, func(x ast.Node) bool {
				as, ok := x.(*ast.AssignStmt)
				if !ok {
					return true
				}
				for i, l := range as.Lhs {
					sel, ok := ast.Unparen(l).(*ast.SelectorExpr)
					if !ok || sel.Sel.Name != "Description" || i >= len(as.Rhs) {
						continue
					}
					nStores++
					idx := -1
					if u, ok := ast.Unparen(as.Rhs[i]).(*ast.UnaryExpr); ok && u.Op == token.AND {
						if id, ok := ast.Unparen(u.X).(*ast.Ident); ok {
							idx = paramIndexOf(spk.TypesInfo, sfd, spk.TypesInfo.ObjectOf(id))
							if idx >= 0 && assignedAnywhere(spk.TypesInfo, sfd.Body, spk.TypesInfo.ObjectOf(id)) {
								idx = -1
							}
						}
					}
					if idx < 0 || (textIdx >= 0 && textIdx != idx) {
						okStore = false
					}
					textIdx = idx
				}
				return true
			})
		}
		// the store may sit in a helper (or in the callback it returns) that receives the
		// address of the text: `c.Tags.Update(n, tagDescriptionSetter(&description))`
		if sfd != nil && nStores == 0 {
			sinfo := spk.TypesInfo
			ast.Inspect(sfd.Body, func(x ast.Node) bool {
				call, ok := x.(*ast.CallExpr)
				if !ok {
					return true
				}
				g := Callee(sinfo, call)
				gd := c.P.Decl(g)
				if g == nil || gd == nil || gd.Body == nil || c.P.PkgOfDecl(gd) != spk {
					return true
				}
				for ai, a := range call.Args {
					// the address of the text, or the text itself (the helper then stores the
					// address of its own copy: the same characters)
					byValue := false
					var id *ast.Ident
					if u, ok := ast.Unparen(a).(*ast.UnaryExpr); ok && u.Op == token.AND {
						id, _ = ast.Unparen(u.X).(*ast.Ident)
					} else if vid, ok := ast.Unparen(a).(*ast.Ident); ok {
						if b, isB := sinfo.TypeOf(vid).Underlying().(*types.Basic); isB && b.Info()&types.IsString != 0 {
							id, byValue = vid, true
						}
					}
					if id == nil {
						continue
					}
					idx := paramIndexOf(sinfo, sfd, sinfo.ObjectOf(id))
					if idx < 0 || assignedAnywhere(sinfo, sfd.Body, sinfo.ObjectOf(id)) {
						continue
					}
					// the callee's parameter at that position
					var q types.Object
					pi := 0
					for _, fl := range gd.Type.Params.List {
						for _, nm := range fl.Names {
							if pi == ai {
								q = sinfo.ObjectOf(nm)
							}
							pi++
						}
					}
					if q == nil || assignedAnywhere(sinfo, gd.Body, q) {
						continue
					}
					ast.Inspect(gd.Body, func(y ast.Node) bool {
						as, ok := y.(*ast.AssignStmt)
						if !ok {
							return true
						}
						for i, l := range as.Lhs {
							sel, ok := ast.Unparen(l).(*ast.SelectorExpr)
							if !ok || sel.Sel.Name != "Description" || i >= len(as.Rhs) {
								continue
							}
							nStores++
							rhs := ast.Unparen(as.Rhs[i])
							if byValue {
								if u, ok := rhs.(*ast.UnaryExpr); ok && u.Op == token.AND {
									rhs = ast.Unparen(u.X)
								} else {
									rhs = nil
								}
							}
							if rid, ok := rhs.(*ast.Ident); ok && sinfo.ObjectOf(rid) == q && (textIdx < 0 || textIdx == idx) {
								textIdx = idx
							} else {
								okStore = false
							}
						}
						return true
					})
				}
				return true
			})
		}
		skey := s.Name() + ":store"
		if okStore && nStores > 0 && textIdx >= 0 {
			sc.Holds(skey, c.P.Pos(sfd.Pos()), fmt.Sprintf("stores the address of its parameter #%d, which it never reassigns", textIdx))
		} else {
			pos := "-"
			if sfd != nil {
				pos = c.P.Pos(sfd.Pos())
			}
			sc.Violation(skey, pos, "the setter stores into Description something other than its unmodified text parameter: the catalog's description is not the normalised text for this host")
			continue
		}
		for i, cs := range c.callSitesOf(s) {
			key := fmt.Sprintf("%s<-%s#%d", s.Name(), c.P.DeclName(cs.Decl), i+1)
			caller := declObj(cs)
			if caller == nil || !below[caller] {
				sc.Violation(key, c.P.Pos(cs.Call.Pos()), "a description is stored from outside the Description handler: it bypasses the normaliser")
				continue
			}
			if caller == handler {
				relay[s] = textIdx
				sc.Holds(key, c.P.Pos(cs.Call.Pos()), "called by the Description handler itself")
				continue
			}
			// the relaying function passes its own parameter on untouched
			j := -1
			if textIdx < len(cs.Call.Args) {
				ccf := c.CFG(cs.Pk, cs.Body)
				if id, ok := ast.Unparen(ccf.Resolve(cs.Call.Args[textIdx])).(*ast.Ident); ok {
					if fdc := cs.Decl; fdc != nil {
						obj := cs.Pk.TypesInfo.ObjectOf(id)
						j = paramIndexOf(cs.Pk.TypesInfo, fdc, obj)
						if j >= 0 && assignedAnywhere(cs.Pk.TypesInfo, fdc.Body, obj) {
							j = -1
						}
					}
				}
			}
			if j < 0 {
				sc.Violation(key, c.P.Pos(cs.Call.Pos()), "the text handed to the setter is not the caller's unmodified parameter: it is transformed between the normaliser and the catalog, for this host only")
				continue
			}
			if prev, seen := relay[caller]; seen && prev != j {
				sc.Undecided(key, c.P.Pos(cs.Call.Pos()), "one relaying function forwards two different parameters")
				continue
			}
			relay[caller] = j
			sc.Holds(key, c.P.Pos(cs.Call.Pos()), fmt.Sprintf("called under the Description handler; forwards its parameter #%d untouched", j))
		}
	}
	// inside the handler: every call that hands the text on is dominated by the normaliser's success and the emptiness test
	var bbObj, errObj types.Object
	ast.Inspect(hfd.Body, func(n ast.Node) bool {
		as, ok := n.(*ast.AssignStmt)
		if !ok || len(as.Lhs) != 2 || len(as.Rhs) != 1 {
			return true
		}
		if call, ok := as.Rhs[0].(*ast.CallExpr); ok && Callee(info, call) == norm {
			if a, ok := as.Lhs[0].(*ast.Ident); ok {
				bbObj = info.ObjectOf(a)
			}
			if b, ok := as.Lhs[1].(*ast.Ident); ok {
				errObj = info.ObjectOf(b)
			}
		}
		return true
	})
	n := 0
	ast.Inspect(hfd.Body, func(x ast.Node) bool {
		call, ok := x.(*ast.CallExpr)
		if !ok {
			return true
		}
		g := Callee(info, call)
		if g == nil || !below[g] || g == handler || c.P.Decl(g) == nil || recvNamedOf(g) == nil {
			return true
		}
		// passes a string derived from bb?
		passes := false
		isNormText := func(a ast.Expr) bool {
			r := cf.Resolve(a)
			if conv, ok := ast.Unparen(r).(*ast.CallExpr); ok && len(conv.Args) == 1 {
				if tv, isT := info.Types[conv.Fun]; isT && tv.IsType() {
					if id, ok := ast.Unparen(conv.Args[0]).(*ast.Ident); ok && info.ObjectOf(id) == bbObj {
						return true
					}
				}
			}
			return false
		}
		for _, a := range call.Args {
			if isNormText(a) {
				passes = true
			}
		}
		j, relays := relay[g]
		if !passes && !relays {
			return true
		}
		n++
		key := fmt.Sprintf("handler->%s#%d", g.Name(), n)
		if relays && (j >= len(call.Args) || !isNormText(call.Args[j])) {
			sc.Violation(key, c.P.Pos(call.Pos()), fmt.Sprintf("argument #%d, which %s forwards to the catalog as the description, is not string(normalised text)", j, g.Name()))
			return true
		}
		genErr := func(fa cfgx.Fact) bool {
			be, ok := ast.Unparen(fa.Expr).(*ast.BinaryExpr)
			if !ok {
				return false
			}
			id, ok := ast.Unparen(be.X).(*ast.Ident)
			return ok && info.ObjectOf(id) == errObj && ((be.Op == token.NEQ && !fa.Truth) || (be.Op == token.EQL && fa.Truth))
		}
		genLen := func(fa cfgx.Fact) bool {
			lo, nonEmpty, _ := lenFact(info, fa)
			if lo == nil || !nonEmpty {
				return false
			}
			id, ok := ast.Unparen(lo).(*ast.Ident)
			return ok && info.ObjectOf(id) == bbObj
		}
		if cf.MustAt(call, genErr, nil, nil) && cf.MustAt(call, genLen, nil, nil) {
			sc.Holds(key, c.P.Pos(call.Pos()), "receives string(normalised text) after the normaliser succeeded and the text was found non-empty")
		} else {
			sc.Violation(key, c.P.Pos(call.Pos()), "the description is handed on without the normaliser's error check or without the emptiness test: a blank description is accepted or an un-normalised text is stored")
		}
		return true
	})
	if n == 0 {
		sc.Undecided("handler", c.P.Pos(hfd.Pos()), "no call handing the normalised text on was found")
	}
}

// RuleAN1: annotations and notes are normalised by one function.
func RuleAN1(c *Ctx) {
	sc := c.Run.Begin("AN1", "every store into Directive.Annotation and SchemaContentJSight.Note takes the result of the one annotation normaliser", 1)
	defer sc.End()
	ann := c.Func("catalog", "Annotation")
	fields := []*types.Var{c.Field("directive", "Directive", "Annotation"), c.Field("catalog", "SchemaContentJSight", "Note")}
	if ann == nil || fields[0] == nil || fields[1] == nil {
		sc.Undecided("anchors", "-", "unresolved anchor: catalog.Annotation / Directive.Annotation / SchemaContentJSight.Note")
		return
	}
	n := 0
	c.P.Funcs(func(pk *pkgT, fd *ast.FuncDecl) {
		info := pk.TypesInfo
		check := func(fld *types.Var, val ast.Expr, at ast.Node) {
			n++
			key := fmt.Sprintf("%s:%s#%d", c.P.DeclName(fd), fld.Name(), n)
			if call, ok := ast.Unparen(val).(*ast.CallExpr); ok && Callee(info, call) == ann {
				sc.Holds(key, c.P.Pos(at.Pos()), "normalised by "+ann.Name())
				return
			}
			// copying an already normalised field of the same kind
			if sel, ok := ast.Unparen(val).(*ast.SelectorExpr); ok && info.ObjectOf(sel.Sel) == fld {
				sc.Holds(key, c.P.Pos(at.Pos()), "copy of an already normalised value")
				return
			}
			if tv, ok := info.Types[val]; ok && tv.Value != nil {
				sc.Holds(key, c.P.Pos(at.Pos()), "constant")
				return
			}
			sc.Violation(key, c.P.Pos(at.Pos()), fld.Name()+" is stored without passing the annotation normaliser: the // and /* */ spellings (or differently spaced texts) give different catalog values")
		}
		ast.Inspect(fd.Body, func(x ast.Node) bool {
			switch s := x.(type) {
			case *ast.AssignStmt:
				for i, l := range s.Lhs {
					for _, f := range fields {
						if fieldSel(info, l, f) && i < len(s.Rhs) {
							check(f, s.Rhs[i], s)
						}
					}
				}
			case *ast.KeyValueExpr:
				if id, ok := s.Key.(*ast.Ident); ok {
					for _, f := range fields {
						if info.ObjectOf(id) == f {
							check(f, s.Value, s)
						}
					}
				}
			}
			return true
		})
	})
}

// RuleK2p: the description look-ahead and the keyword dispatcher use one table.
func RuleK2p(c *Ctx) {
	sc := c.Run.Begin("K2p", "the look-ahead that ends a description (does the next line start with a directive?) and the keyword-to-kind lookup read the same name table, and the scanner's description state calls that look-ahead", 1)
	defer sc.End()
	pk := c.P.Pkg("directive")
	look := c.Func("directive", "IsStartWithDirective")
	kind := c.Func("directive", "NewDirectiveType")
	if pk == nil || look == nil || kind == nil {
		sc.Undecided("anchors", "-", "unresolved anchor: directive.IsStartWithDirective / NewDirectiveType")
		return
	}
	tables := func(f *types.Func) map[*types.Var]bool {
		out := map[*types.Var]bool{}
		for _, g := range reachStatic(c.P, pk, []*types.Func{f}) {
			fd := c.P.Decl(g)
			ast.Inspect(fd.Body, func(n ast.Node) bool {
				if id, ok := n.(*ast.Ident); ok {
					if v, ok := pk.TypesInfo.ObjectOf(id).(*types.Var); ok && v.Parent() == pk.Types.Scope() {
						if _, isSlice := v.Type().Underlying().(*types.Slice); isSlice {
							out[v] = true
						}
					}
				}
				return true
			})
		}
		return out
	}
	a, b := tables(look), tables(kind)
	common := ""
	for v := range a {
		if b[v] {
			common = v.Name()
		}
	}
	if common != "" {
		sc.Holds("table", c.P.Pos(c.P.Decl(look).Pos()), "both read the package-level table "+common)
	} else {
		sc.Violation("table", c.P.Pos(c.P.Decl(look).Pos()), "the description look-ahead and the keyword lookup no longer share one name table: a line can end a description without being a directive the dispatcher knows, or vice versa")
	}
	// the scanner's opaque predicate reaches the look-ahead
	m, _, err := c.Machine()
	if err != nil {
		sc.Undecided("scanner", "-", err.Error())
		return
	}
	spk := c.P.Pkg("scanner")
	found := false
	c.P.Funcs(func(p *pkgT, fd *ast.FuncDecl) {
		if p != spk || m.OpaquePreds[fd.Name.Name] == 0 {
			return
		}
		ast.Inspect(fd.Body, func(n ast.Node) bool {
			if call, ok := n.(*ast.CallExpr); ok && Callee(spk.TypesInfo, call) == look {
				found = true
			}
			return true
		})
	})
	if found {
		sc.Holds("scanner", "-", "the description state's look-ahead predicate calls it")
	} else {
		sc.Violation("scanner", "-", "no scanner predicate calls the directive look-ahead: description text would run over the following directives")
	}
	c.lookAheadShape(sc, pk, look)
}

// lookAheadShape: the look-ahead agrees with the scanner's keyword set in three
// structural respects. (a) A "too short to be a directive" guard rejects only lines
// shorter than the shortest spelled keyword. (b) The loop over the name table skips only
// kinds that have no spelled keyword in the scanner (the response code, which is matched by
// its digits), and a table entry is matched by a plain prefix test. (c) Nothing in the
// look-ahead treats LF differently from CR: a function of its tree that mentions one of the
// two line-break bytes mentions the other too.
func (c *Ctx) lookAheadShape(sc *report.RuleScope, pk *pkgT, look *types.Func) {
	info := pk.TypesInfo
	fd := c.P.Decl(look)
	_, pds, err := c.Machine()
	names := c.DirectiveNames()
	if fd == nil || err != nil || pds == nil || len(names) == 0 {
		sc.Undecided("shape", "-", "unresolved anchor: scanner automaton / directive name table")
		return
	}
	minLen := 1 << 30
	spelled := map[string]bool{}
	for kind, nm := range names {
		if pds.Keywords[nm] {
			spelled[kind] = true
			if len(nm) < minLen {
				minLen = len(nm)
			}
		}
	}
	if len(spelled) < 10 {
		sc.Undecided("shape", "-", "fewer than ten spelled keywords found in the scanner automaton")
		return
	}
	cf := c.CFG(pk, fd.Body)
	// (a) length guards whose branch returns false
	nGuards := 0
	inspectNoLit(fd.Body, func(n ast.Node) bool {
		ifs, ok := n.(*ast.IfStmt)
		if !ok || len(ifs.Body.List) == 0 {
			return true
		}
		ret, ok := ifs.Body.List[len(ifs.Body.List)-1].(*ast.ReturnStmt)
		if !ok || len(ret.Results) != 1 {
			return true
		}
		if tv, has := info.Types[ret.Results[0]]; !has || tv.Value == nil || tv.Value.String() != "false" {
			return true
		}
		max, isLenGuard := maxLenWhenTrue(info, cf, ifs.Cond)
		if !isLenGuard {
			return true
		}
		nGuards++
		key := fmt.Sprintf("short-line-guard#%d", nGuards)
		if max < int64(minLen) {
			sc.Holds(key, c.P.Pos(ifs.Pos()), fmt.Sprintf("rejects lines of at most %d bytes; the shortest spelled keyword has %d", max, minLen))
		} else {
			sc.Violation(key, c.P.Pos(ifs.Pos()), fmt.Sprintf("the look-ahead answers 'not a directive' for every line of at most %d bytes, but the scanner spells keywords of %d bytes: a bare short keyword on its own line no longer ends a description and is swallowed into the text", max, minLen))
		}
		return true
	})
	// (a') any other early "not a directive" answer must be a first-byte filter that admits
	// the first byte of every spelled keyword
	firstBytes := map[byte]string{}
	for kind, nm := range names {
		if spelled[kind] && nm != "" {
			firstBytes[nm[0]] = nm
		}
	}
	nFilters := 0
	inspectNoLit(fd.Body, func(n ast.Node) bool {
		switch n.(type) {
		case *ast.ForStmt, *ast.RangeStmt:
			return false // the table loop is judged below
		}
		ifs, ok := n.(*ast.IfStmt)
		if !ok || len(ifs.Body.List) == 0 {
			return true
		}
		ret, ok := ifs.Body.List[len(ifs.Body.List)-1].(*ast.ReturnStmt)
		if !ok || len(ret.Results) != 1 {
			return true
		}
		if tv, has := info.Types[ret.Results[0]]; !has || tv.Value == nil || tv.Value.String() != "false" {
			return true
		}
		if _, isLenGuard := maxLenWhenTrue(info, cf, ifs.Cond); isLenGuard {
			return true
		}
		nFilters++
		key := fmt.Sprintf("filter#%d", nFilters)
		// strings.IndexByte(CONST, b[0]) == -1 / < 0, !strings.ContainsRune(CONST, ...), bytes.IndexByte
		admitted, understood := firstByteFilter(info, ifs.Cond)
		if !understood {
			sc.Undecided(key, c.P.Pos(ifs.Pos()), "the look-ahead answers 'not a directive' under a condition this rule cannot relate to the keyword table: "+types.ExprString(ifs.Cond))
			return true
		}
		var lost []string
		for b, nm := range firstBytes {
			if !strings.ContainsRune(admitted, rune(b)) {
				lost = append(lost, nm)
			}
		}
		sort.Strings(lost)
		if len(lost) == 0 {
			sc.Holds(key, c.P.Pos(ifs.Pos()), "first-byte filter admits the first byte of every spelled keyword")
		} else {
			sc.Violation(key, c.P.Pos(ifs.Pos()), "the look-ahead's first-byte filter "+strconv.Quote(admitted)+" rejects lines that start with the keyword(s) "+strings.Join(lost, ", ")+": such a line no longer ends a description and the directive is swallowed into the text")
		}
		return true
	})
	// (b) skips in the loop over the table
	enumT := c.Named("directive", "Enumeration")
	consts := map[types.Object]string{}
	if enumT != nil {
		for _, k := range EnumConsts(pk, enumT) {
			consts[k] = k.Name()
		}
	}
	nSkips := 0
	inspectNoLit(fd.Body, func(n ast.Node) bool {
		var body *ast.BlockStmt
		switch l := n.(type) {
		case *ast.ForStmt:
			body = l.Body
		case *ast.RangeStmt:
			body = l.Body
		}
		if body == nil {
			return true
		}
		inspectNoLit(body, func(y ast.Node) bool {
			ifs, ok := y.(*ast.IfStmt)
			if !ok || len(ifs.Body.List) == 0 {
				return true
			}
			br, ok := ifs.Body.List[len(ifs.Body.List)-1].(*ast.BranchStmt)
			if !ok || br.Tok != token.CONTINUE {
				return true
			}
			nSkips++
			key := fmt.Sprintf("skip#%d", nSkips)
			var bad []string
			understood := true
			var walk func(e ast.Expr)
			walk = func(e ast.Expr) {
				e = ast.Unparen(e)
				be, ok := e.(*ast.BinaryExpr)
				if !ok {
					understood = false
					return
				}
				switch be.Op {
				case token.LOR:
					walk(be.X)
					walk(be.Y)
				case token.EQL:
					var k string
					for _, side := range []ast.Expr{be.X, be.Y} {
						if id, ok := ast.Unparen(side).(*ast.Ident); ok {
							if nm, isConst := consts[info.ObjectOf(id)]; isConst {
								k = nm
							}
						}
						if sel, ok := ast.Unparen(side).(*ast.SelectorExpr); ok {
							if nm, isConst := consts[info.ObjectOf(sel.Sel)]; isConst {
								k = nm
							}
						}
					}
					if k == "" {
						understood = false
					} else if spelled[k] {
						bad = append(bad, k)
					}
				default:
					understood = false
				}
			}
			walk(ifs.Cond)
			switch {
			case len(bad) > 0:
				sc.Violation(key, c.P.Pos(ifs.Pos()), "the look-ahead skips "+strings.Join(bad, ", ")+", which the scanner spells as a keyword: a line starting with it no longer ends a description, so the directive (and, for INCLUDE, the whole file) is swallowed into the text")
			case !understood:
				sc.Undecided(key, c.P.Pos(ifs.Pos()), "skip condition "+types.ExprString(ifs.Cond)+" is not a comparison with directive kinds")
			default:
				sc.Holds(key, c.P.Pos(ifs.Pos()), "skips only kinds without a spelled keyword ("+types.ExprString(ifs.Cond)+")")
			}
			return true
		})
		return false
	})
	// (c) LF and CR alike in the whole tree of the look-ahead
	for _, g := range reachStatic(c.P, pk, []*types.Func{look}) {
		gd := c.P.Decl(g)
		if gd == nil {
			continue
		}
		lf, cr := token.NoPos, token.NoPos
		sp, tab := token.NoPos, token.NoPos
		ast.Inspect(gd.Body, func(n ast.Node) bool {
			lit, ok := n.(*ast.BasicLit)
			if !ok || (lit.Kind != token.CHAR && lit.Kind != token.STRING) {
				return true
			}
			v, err := strconv.Unquote(lit.Value)
			if err != nil {
				return true
			}
			if strings.Contains(v, "\n") && lf == token.NoPos {
				lf = lit.Pos()
			}
			if strings.Contains(v, "\r") && cr == token.NoPos {
				cr = lit.Pos()
			}
			// blanks as separators: a literal that is nothing but white space
			if strings.Trim(v, " \t") == "" && v != "" {
				if strings.Contains(v, " ") && sp == token.NoPos {
					sp = lit.Pos()
				}
				if strings.Contains(v, "\t") && tab == token.NoPos {
					tab = lit.Pos()
				}
			}
			return true
		})
		wkey := "blanks:" + g.Name()
		switch {
		case sp == token.NoPos && tab == token.NoPos:
			sc.Holds(wkey, c.P.Pos(gd.Pos()), "mentions no blank as a separator")
		case sp != token.NoPos && tab != token.NoPos:
			sc.Holds(wkey, c.P.Pos(gd.Pos()), "mentions space and tab")
		case sp != token.NoPos:
			sc.Violation(wkey, c.P.Pos(sp), "the look-ahead separates words at a space and never mentions the tab, which the scanner treats alike: a keyword followed by a TAB no longer ends a description")
		default:
			sc.Violation(wkey, c.P.Pos(tab), "the look-ahead separates words at a tab and never mentions the space")
		}
		key := "line-breaks:" + g.Name()
		switch {
		case lf == token.NoPos && cr == token.NoPos:
			sc.Holds(key, c.P.Pos(gd.Pos()), "mentions no line-break byte")
		case lf != token.NoPos && cr != token.NoPos:
			sc.Holds(key, c.P.Pos(gd.Pos()), "mentions LF and CR")
		case lf != token.NoPos:
			sc.Violation(key, c.P.Pos(lf), "the look-ahead treats LF specially and never mentions CR: with CR or CRLF line ends the same document is delimited differently")
		default:
			sc.Violation(key, c.P.Pos(cr), "the look-ahead treats CR specially and never mentions LF")
		}
	}
}

// firstByteFilter recognises conditions that are true when a byte is NOT in a constant set:
// strings.IndexByte(SET, x) == -1 (or < 0), !strings.ContainsRune(SET, rune(x)),
// !strings.Contains(SET, string(x)); it returns SET.
func firstByteFilter(info *types.Info, cond ast.Expr) (string, bool) {
	cond = ast.Unparen(cond)
	setOf := func(call *ast.CallExpr, names ...string) (string, bool) {
		f := Callee(info, call)
		if f == nil || f.Pkg() == nil || (f.Pkg().Path() != "strings" && f.Pkg().Path() != "bytes") || len(call.Args) != 2 {
			return "", false
		}
		okName := false
		for _, n := range names {
			if f.Name() == n {
				okName = true
			}
		}
		if !okName {
			return "", false
		}
		tv, ok := info.Types[call.Args[0]]
		if !ok || tv.Value == nil || tv.Value.Kind() != constant.String {
			return "", false
		}
		return constant.StringVal(tv.Value), true
	}
	if u, ok := cond.(*ast.UnaryExpr); ok && u.Op == token.NOT {
		if call, ok := ast.Unparen(u.X).(*ast.CallExpr); ok {
			return setOf(call, "ContainsRune", "Contains", "ContainsAny")
		}
		return "", false
	}
	if be, ok := cond.(*ast.BinaryExpr); ok {
		if call, ok := ast.Unparen(be.X).(*ast.CallExpr); ok {
			if tv, has := info.Types[be.Y]; has && tv.Value != nil {
				v := tv.Value.ExactString()
				if (be.Op == token.EQL && v == "-1") || (be.Op == token.LSS && v == "0") {
					return setOf(call, "IndexByte", "IndexRune", "Index")
				}
			}
		}
	}
	return "", false
}

// maxLenWhenTrue: for a condition that bounds a length from above (len(x) < K, len(x) <= K,
// K > len(x), len(x) == 0 ...) it returns the largest length for which it is true.
func maxLenWhenTrue(info *types.Info, cf *cfgx.Func, cond ast.Expr) (int64, bool) {
	be, ok := ast.Unparen(cond).(*ast.BinaryExpr)
	if !ok {
		return 0, false
	}
	constOf := func(x ast.Expr) (int64, bool) {
		tv, ok := info.Types[x]
		if !ok || tv.Value == nil || tv.Value.Kind() != constant.Int {
			return 0, false
		}
		return constant.Int64Val(tv.Value)
	}
	op := be.Op
	l, r := be.X, be.Y
	if _, isLen := lengthExpr(info, cf.Resolve(l)); !isLen {
		if _, isLen2 := lengthExpr(info, cf.Resolve(r)); !isLen2 {
			return 0, false
		}
		l, r = r, l
		switch op {
		case token.LSS:
			op = token.GTR
		case token.GTR:
			op = token.LSS
		case token.LEQ:
			op = token.GEQ
		case token.GEQ:
			op = token.LEQ
		}
	}
	_ = l
	k, ok := constOf(r)
	if !ok {
		return 0, false
	}
	switch op {
	case token.LSS:
		return k - 1, true
	case token.LEQ:
		return k, true
	case token.EQL:
		return k, true
	}
	return 0, false
}

func isByte(t types.Type) bool {
	b, ok := t.Underlying().(*types.Basic)
	return ok && b.Kind() == types.Uint8
}

// paramIndexOf returns the index of obj among the parameters of fd, or -1.
func paramIndexOf(info *types.Info, fd *ast.FuncDecl, obj types.Object) int {
	if fd == nil || obj == nil {
		return -1
	}
	i := 0
	for _, fl := range fd.Type.Params.List {
		if len(fl.Names) == 0 {
			i++
			continue
		}
		for _, id := range fl.Names {
			if info.ObjectOf(id) == obj {
				return i
			}
			i++
		}
	}
	return -1
}

// assignedAnywhere reports whether obj is assigned (=, op=, ++/--) anywhere in body,
// function literals included.
func assignedAnywhere(info *types.Info, body *ast.BlockStmt, obj types.Object) bool {
	hit := false
	ast.Inspect(body, func(x ast.Node) bool {
		switch s := x.(type) {
		case *ast.AssignStmt:
			for _, l := range s.Lhs {
				if id, ok := ast.Unparen(l).(*ast.Ident); ok && info.ObjectOf(id) == obj && s.Tok != token.DEFINE {
					hit = true
				}
			}
		case *ast.IncDecStmt:
			if id, ok := ast.Unparen(s.X).(*ast.Ident); ok && info.ObjectOf(id) == obj {
				hit = true
			}
		}
		return true
	})
	return hit
}

// descriptionNormaliser finds the Description handler and the package function
// func([]byte) ([]byte, error) it calls.
func (c *Ctx) descriptionNormaliser() (handler, norm *types.Func) {
	pk := c.P.Pkg("core")
	table := c.handlerTable()
	if pk == nil || table["Description"] == nil {
		return nil, nil
	}
	handler = table["Description"]
	hfd := c.P.Decl(handler)
	if hfd == nil {
		return handler, nil
	}
	info := pk.TypesInfo
	ast.Inspect(hfd.Body, func(n ast.Node) bool {
		if call, ok := n.(*ast.CallExpr); ok {
			if g := Callee(info, call); g != nil && g.Pkg() == pk.Types {
				sig := g.Type().(*types.Signature)
				if sig.Recv() == nil && sig.Params().Len() == 1 && sig.Results().Len() == 2 && isErrorType(sig.Results().At(1).Type()) {
					if sl, ok := sig.Params().At(0).Type().Underlying().(*types.Slice); ok && isByte(sl.Elem()) {
						norm = g
					}
				}
			}
		}
		return true
	})
	return handler, norm
}

// RuleDN2: line-end normalisation is on every value path of the normaliser.
func RuleDN2(c *Ctx) {
	sc := c.Run.Begin("DN2", "in the description normaliser every value path from the raw body to a success result passes through the replacement of CR LF and then of CR by LF, whichever spelling (bare or parenthesised) the body has", 1)
	defer sc.End()
	_, norm := c.descriptionNormaliser()
	if norm == nil {
		sc.Undecided("anchors", "-", "unresolved anchor: the description normaliser")
		return
	}
	fn := c.P.SSAFunc(norm)
	if fn == nil {
		sc.Undecided("anchors", "-", "no SSA form for the description normaliser")
		return
	}
	replacer := func(old string) func(*ssa.Call) bool {
		return func(call *ssa.Call) bool {
			callee := call.Call.StaticCallee()
			if callee == nil || callee.Pkg == nil {
				return false
			}
			pp := callee.Pkg.Pkg.Path()
			if pp != "bytes" && pp != "strings" {
				return false
			}
			args := call.Call.Args
			switch callee.Name() {
			case "ReplaceAll":
				if len(args) != 3 {
					return false
				}
			case "Replace":
				if len(args) != 4 {
					return false
				}
				if k, ok := args[3].(*ssa.Const); !ok || k.Value == nil || k.Int64() >= 0 {
					return false
				}
			default:
				return false
			}
			o, ok1 := constBytes(args[1])
			n, ok2 := constBytes(args[2])
			return ok1 && ok2 && o == old && n == "\n"
		}
	}
	pos := c.P.Pos(c.P.Decl(norm).Pos())
	for _, st := range []struct{ key, old, what string }{
		{"cr", "\r", "a lone CR"},
		{"crlf", "\r\n", "CR LF"},
	} {
		v, why, nodes := c.flowMustPass(fn, 0, replacer(st.old))
		switch v {
		case flowAll:
			sc.Holds(st.key, pos, fmt.Sprintf("every value path to a success result replaces %s by LF (%d SSA values walked)", st.what, nodes))
		case flowSkips:
			sc.Violation(st.key, pos, "a success result of the normaliser is derived from the raw body without replacing "+st.what+" by LF: "+why+" - one spelling of the description keeps its CR line ends")
		default:
			sc.Undecided(st.key, pos, "value flow not decided: "+why)
		}
	}
	// order: what the lone-CR replacement receives already went through the CR LF one
	isCR, isCRLF := replacer("\r"), replacer("\r\n")
	n := 0
	var visit func(f *ssa.Function, seen map[*ssa.Function]bool)
	visit = func(f *ssa.Function, seen map[*ssa.Function]bool) {
		if f == nil || seen[f] || !c.P.IsRepoFunc(f) {
			return
		}
		seen[f] = true
		for _, b := range f.Blocks {
			for _, in := range b.Instrs {
				call, ok := in.(*ssa.Call)
				if !ok {
					continue
				}
				if isCR(call) && f == fn {
					n++
					v, why, _ := c.flowFrom(fn, call.Call.Args[0], isCRLF)
					key := fmt.Sprintf("order#%d", n)
					switch v {
					case flowAll:
						sc.Holds(key, c.P.Pos(call.Pos()), "the lone-CR replacement receives text whose CR LF pairs are already single LFs")
					case flowSkips:
						sc.Violation(key, c.P.Pos(call.Pos()), "the lone-CR replacement can receive text that still has CR LF pairs ("+why+"): a Windows line end becomes two line ends")
					default:
						sc.Undecided(key, c.P.Pos(call.Pos()), "value flow not decided: "+why)
					}
				}
			}
		}
	}
	visit(fn, map[*ssa.Function]bool{})
}

// ---------------------------------------------------------------- LC1

// accumulatingLoops lists, for one function body (declaration or literal), the loops whose
// body accumulates: appends to a variable declared outside the loop, stores into a map
// declared outside the loop, or calls something whose error it propagates. Nested function
// literals are separate bodies.
type accLoop struct {
	Loop    ast.Stmt
	Body    *ast.BlockStmt
	Why     string
	Exits   []string // early exits that report success because of the current element
	Neutral []string // early exits under loop-invariant conditions only
}

func (c *Ctx) accumulatingLoops(pk *pkgT, body *ast.BlockStmt, resultsErr bool, noResults bool) []accLoop {
	info := pk.TypesInfo
	var out []accLoop
	var loops []ast.Stmt
	inspectNoLit(body, func(x ast.Node) bool {
		switch x.(type) {
		case *ast.RangeStmt:
			loops = append(loops, x.(ast.Stmt))
		case *ast.ForStmt:
			// `for { ... }` without a condition ends by break/return by construction
			if x.(*ast.ForStmt).Cond != nil {
				loops = append(loops, x.(ast.Stmt))
			}
		}
		return true
	})
	for _, l := range loops {
		var lb *ast.BlockStmt
		switch s := l.(type) {
		case *ast.ForStmt:
			lb = s.Body
		case *ast.RangeStmt:
			lb = s.Body
		}
		declaredOutside := func(e ast.Expr) bool {
			obj := cfgx.RootObj(info, e)
			if obj == nil {
				return false
			}
			return obj.Pos() < l.Pos() || obj.Pos() > l.End()
		}
		why := ""
		inspectNoLit(lb, func(x ast.Node) bool {
			switch s := x.(type) {
			case *ast.AssignStmt:
				for i, lhs := range s.Lhs {
					if i < len(s.Rhs) {
						if call, ok := ast.Unparen(s.Rhs[i]).(*ast.CallExpr); ok {
							if id, ok := ast.Unparen(call.Fun).(*ast.Ident); ok && id.Name == "append" && info.Uses[id] == types.Universe.Lookup("append") && declaredOutside(lhs) {
								why = "appends to " + types.ExprString(lhs)
							}
						}
					}
					if ix, ok := ast.Unparen(lhs).(*ast.IndexExpr); ok && s.Tok == token.ASSIGN {
						if _, isMap := info.TypeOf(ix.X).Underlying().(*types.Map); isMap && declaredOutside(ix.X) {
							why = "stores into " + types.ExprString(ix.X)
						}
					}
				}
			case *ast.IfStmt:
				// if err := f(...); err != nil { return ..., err }
				if as, ok := s.Init.(*ast.AssignStmt); ok && len(as.Rhs) == 1 {
					if call, ok := ast.Unparen(as.Rhs[0]).(*ast.CallExpr); ok {
						if g := Callee(info, call); g != nil && c.P.Decl(g) != nil && endsWithErrorReturn(info, s.Body) {
							why = "propagates the error of " + g.Name()
						}
					}
				}
			}
			return true
		})
		if why == "" {
			continue
		}
		al := accLoop{Loop: l, Body: lb, Why: why}
		// variables whose value depends on the current element: the loop variables and
		// everything defined or assigned in the body from them (fixpoint)
		derived := map[types.Object]bool{}
		mark := func(e ast.Expr) {
			if id, ok := e.(*ast.Ident); ok && id.Name != "_" {
				if o := info.ObjectOf(id); o != nil {
					derived[o] = true
				}
			}
		}
		switch ls := l.(type) {
		case *ast.RangeStmt:
			if ls.Key != nil {
				mark(ls.Key)
			}
			if ls.Value != nil {
				mark(ls.Value)
			}
		case *ast.ForStmt:
			if as, ok := ls.Init.(*ast.AssignStmt); ok {
				for _, x := range as.Lhs {
					mark(x)
				}
			}
		}
		mentions := func(e ast.Node) bool {
			hit := false
			if e == nil {
				return false
			}
			ast.Inspect(e, func(y ast.Node) bool {
				if id, ok := y.(*ast.Ident); ok && derived[info.ObjectOf(id)] {
					hit = true
				}
				return !hit
			})
			return hit
		}
		for changed := true; changed; {
			changed = false
			inspectNoLit(lb, func(y ast.Node) bool {
				switch as := y.(type) {
				case *ast.AssignStmt:
					dep := false
					for _, r := range as.Rhs {
						if mentions(r) {
							dep = true
						}
					}
					if dep {
						for _, x := range as.Lhs {
							if id, ok := ast.Unparen(x).(*ast.Ident); ok && id.Name != "_" {
								if o := info.ObjectOf(id); o != nil && !derived[o] && o.Pos() >= l.Pos() && o.Pos() <= l.End() {
									derived[o] = true
									changed = true
								}
							}
						}
					}
				case *ast.RangeStmt:
					if mentions(as.X) {
						for _, x := range []ast.Expr{as.Key, as.Value} {
							if id, ok := x.(*ast.Ident); ok && id.Name != "_" {
								if o := info.ObjectOf(id); o != nil && !derived[o] {
									derived[o] = true
									changed = true
								}
							}
						}
					}
				case *ast.ValueSpec:
					dep := false
					for _, r := range as.Values {
						if mentions(r) {
							dep = true
						}
					}
					if dep {
						for _, id := range as.Names {
							if o := info.ObjectOf(id); o != nil && !derived[o] {
								derived[o] = true
								changed = true
							}
						}
					}
				}
				return true
			})
		}
		// early exits with success: break out of this loop; return whose error result is
		// nil. An exit counts when it is unconditional or when a condition on the way to it
		// looks at the current element ("this element is X, so skip all the others"); an
		// exit under loop-invariant conditions only ("nothing left to do") does not.
		record := func(what string, pos token.Pos, conds []ast.Node) {
			// the innermost condition decides: `if nothingLeft { break }` nested in a test
			// about the element is still a "done" exit
			dep := len(conds) == 0
			for k := len(conds) - 1; k >= 0 && k >= len(conds)-innermost(conds); k-- {
				if mentions(conds[k]) {
					dep = true
				}
			}
			if dep {
				al.Exits = append(al.Exits, what+" at "+c.P.Pos(pos))
			} else {
				al.Neutral = append(al.Neutral, what+" at "+c.P.Pos(pos))
			}
		}
		var visit func(st ast.Stmt, inner bool, conds []ast.Node)
		visitList := func(list []ast.Stmt, inner bool, conds []ast.Node) {
			for _, st := range list {
				visit(st, inner, conds)
			}
		}
		with := func(conds []ast.Node, more ...ast.Node) []ast.Node {
			out := append([]ast.Node{}, conds...)
			for _, m := range more {
				if m != nil && !isNilNode(m) {
					out = append(out, m)
				}
			}
			return out
		}
		visit = func(st ast.Stmt, inner bool, conds []ast.Node) {
			switch s := st.(type) {
			case *ast.BlockStmt:
				visitList(s.List, inner, conds)
			case *ast.LabeledStmt:
				visit(s.Stmt, inner, conds)
			case *ast.IfStmt:
				cc := with(conds, s.Cond, s.Init)
				visit(s.Body, inner, cc)
				if s.Else != nil {
					visit(s.Else, inner, cc)
				}
			case *ast.ForStmt:
				visit(s.Body, true, with(conds, s.Cond))
			case *ast.RangeStmt:
				visit(s.Body, true, conds)
			case *ast.SwitchStmt:
				for _, cl := range s.Body.List {
					cc := cl.(*ast.CaseClause)
					nodes := []ast.Node{s.Tag, s.Init}
					for _, e := range cc.List {
						nodes = append(nodes, e)
					}
					if cc.List == nil {
						// default: depends on all the other cases
						for _, o := range s.Body.List {
							for _, e := range o.(*ast.CaseClause).List {
								nodes = append(nodes, e)
							}
						}
					}
					visitList(cc.Body, true, with(conds, nodes...))
				}
			case *ast.TypeSwitchStmt:
				for _, cl := range s.Body.List {
					visitList(cl.(*ast.CaseClause).Body, true, with(conds, s.Assign))
				}
			case *ast.SelectStmt:
				for _, cl := range s.Body.List {
					visitList(cl.(*ast.CommClause).Body, true, with(conds, cl.(*ast.CommClause).Comm))
				}
			case *ast.BranchStmt:
				switch {
				case s.Tok == token.BREAK && s.Label == nil && !inner:
					record("break", s.Pos(), conds)
				case s.Tok == token.BREAK && s.Label != nil:
					if ls, ok := labelTarget(body, s.Label.Name); ok && ls == l {
						record("break", s.Pos(), conds)
					}
				case s.Tok == token.GOTO:
					record("goto", s.Pos(), conds)
				}
			case *ast.ReturnStmt:
				if noResults && len(s.Results) == 0 {
					record("return", s.Pos(), conds)
				} else if resultsErr && len(s.Results) > 0 {
					if tv, has := info.Types[s.Results[len(s.Results)-1]]; has && tv.IsNil() {
						record("return nil", s.Pos(), conds)
					}
				}
			}
		}
		visit(lb, false, nil)
		out = append(out, al)
	}
	return out
}

// innermost: how many trailing entries of conds belong to the innermost test (an if
// contributes its condition and, when present, its init statement).
func innermost(conds []ast.Node) int {
	if len(conds) == 0 {
		return 0
	}
	n := 1
	if _, isStmt := conds[len(conds)-1].(ast.Stmt); isStmt && len(conds) >= 2 {
		n = 2
	}
	return n
}

func isNilNode(n ast.Node) bool {
	switch x := n.(type) {
	case ast.Expr:
		return x == nil
	case ast.Stmt:
		return x == nil
	}
	return n == nil
}

func labelTarget(body *ast.BlockStmt, name string) (ast.Stmt, bool) {
	var out ast.Stmt
	ast.Inspect(body, func(x ast.Node) bool {
		if ls, ok := x.(*ast.LabeledStmt); ok && ls.Label.Name == name {
			out = ls.Stmt
		}
		return true
	})
	return out, out != nil
}

// RuleLC1: loops that bind path parameters visit every element.
func RuleLC1(files ...string) func(c *Ctx) {
	return func(c *Ctx) {
		sc := c.Run.Begin("LC1", "in the path-parameter code every loop that accumulates (appends to an outer slice, fills an outer map, or propagates a per-element error) runs over all elements: it is left early only with an error or under a condition that does not look at the current element, never by a break or a success return that depends on the element at hand", 1)
		defer sc.End()
		inScope := map[string]bool{}
		for _, f := range files {
			inScope[f] = true
		}
		n := 0
		c.P.Funcs(func(pk *pkgT, fd *ast.FuncDecl) {
			pos := c.P.Pos(fd.Pos())
			file := pos
			if i := strings.Index(pos, ":"); i > 0 {
				file = pos[:i]
			}
			if !inScope[file] {
				return
			}
			info := pk.TypesInfo
			bodies := []struct {
				body *ast.BlockStmt
				typ  *ast.FuncType
			}{{fd.Body, fd.Type}}
			ast.Inspect(fd.Body, func(x ast.Node) bool {
				if fl, ok := x.(*ast.FuncLit); ok {
					bodies = append(bodies, struct {
						body *ast.BlockStmt
						typ  *ast.FuncType
					}{fl.Body, fl.Type})
				}
				return true
			})
			k := 0
			for _, b := range bodies {
				resultsErr, noResults := false, b.typ.Results == nil || len(b.typ.Results.List) == 0
				if !noResults {
					last := b.typ.Results.List[len(b.typ.Results.List)-1]
					resultsErr = isErrorLike(info.TypeOf(last.Type))
				}
				for _, al := range c.accumulatingLoops(pk, b.body, resultsErr, noResults) {
					n++
					k++
					key := fmt.Sprintf("%s#%d", c.P.DeclName(fd), k)
					if len(al.Exits) == 0 {
						note := "is left early only with an error"
						if len(al.Neutral) > 0 {
							note = "is left early only with an error or under a loop-invariant condition (" + strings.Join(al.Neutral, "; ") + ")"
						}
						sc.Holds(key, c.P.Pos(al.Loop.Pos()), "accumulating loop ("+al.Why+") "+note)
					} else {
						sc.Violation(key, c.P.Pos(al.Loop.Pos()), "accumulating loop ("+al.Why+") is left early with success ("+strings.Join(al.Exits, "; ")+"): the remaining elements - later {parameters} of the path, later alternatives of an `or` - are neither bound nor checked")
					}
				}
			}
		})
	}
}

// ---------------------------------------------------------------- PA1

// RulePA1: every declared schema is expanded in its own right. The top-level calls of the
// allOf expander (those outside its own recursion) are guarded by nothing but nil tests,
// type assertions and the JSight-notation test: a guard that looks at the content of the
// declaration ("has no allOf at the root, skip") leaves the declaration to be expanded,
// or not, as a side effect of whatever else refers to it.
func RulePA1(c *Ctx) {
	sc := c.Run.Begin("PA1", "every top-level call of the allOf expander (one per kind of declared schema) is reached under no condition other than nil tests, type assertions and the notation test, and lies in a function the allOf stage calls unconditionally", 1)
	defer sc.End()
	pk := c.P.Pkg("core")
	exp := c.allOfExpander()
	if exp == nil || pk == nil {
		sc.Undecided("anchors", "-", "unresolved anchor: the allOf expander")
		return
	}
	inner := map[*types.Func]bool{}
	for _, f := range reachStatic(c.P, pk, []*types.Func{exp}) {
		inner[f] = true
	}
	notationT := c.Named("notation", "SchemaNotation")
	n := 0
	perFn := map[*types.Func]int{}
	// work list of (call site, index of the argument that carries the schema): the calls of
	// the expander outside its own recursion and, when such a call sits in a wrapper that
	// merely forwards its own parameter, the calls of that wrapper (two levels)
	type job struct {
		cs    callSite
		arg   int
		depth int
	}
	var jobs []job
	for _, cs := range c.callSitesOf(exp) {
		if caller := declObj(cs); caller != nil && !inner[caller] {
			jobs = append(jobs, job{cs, 0, 0})
		}
	}
	var leafSites []callSite
	for len(jobs) > 0 {
		jb := jobs[0]
		jobs = jobs[1:]
		cs := jb.cs
		caller := declObj(cs)
		if jb.arg >= len(cs.Call.Args) {
			continue
		}
		n++
		perFn[caller]++
		key := fmt.Sprintf("%s#%d", c.P.DeclName(cs.Decl), perFn[caller])
		info := cs.Pk.TypesInfo
		cf := c.CFG(cs.Pk, cs.Body)
		arg := cs.Call.Args[jb.arg]
		bad := ""
		for _, fa := range cf.FactsAt(cs.Call) {
			if fa.Derived {
				continue
			}
			if !pa1Allowed(info, cf, fa, notationT) || !pa1NilOnPrefix(info, cf, fa, arg) {
				bad = fmt.Sprintf("%s is %v", types.ExprString(fa.Expr), fa.Truth)
				break
			}
		}
		if bad == "" {
			sc.Holds(key, c.P.Pos(cs.Call.Pos()), "guarded only by nil tests, type assertions and the notation test")
		} else {
			sc.Violation(key, c.P.Pos(cs.Call.Pos()), "the expansion of this kind of declared schema is conditional on its content or on another declaration ("+bad+"): a declaration that the filter skips is expanded only when another declaration inherits from it, so adding or deleting that other declaration changes this one's entry")
		}
		// a wrapper: the schema argument is rooted at a parameter of the enclosing function
		root := cfgx.RootObj(info, cf.Resolve(arg))
		pidx := -1
		if cs.Lit == nil {
			pidx = paramIndexOf(info, cs.Decl, root)
		}
		if pidx >= 0 && jb.depth < 2 && caller != nil && !c.usedAsValue(caller) {
			for _, up := range c.callSitesOf(caller) {
				jobs = append(jobs, job{up, pidx, jb.depth + 1})
			}
			continue
		}
		leafSites = append(leafSites, cs)
	}
	if n == 0 {
		sc.Undecided("sites", "-", "no top-level call of the expander found")
		return
	}
	// the walk over the children of a schema node is unconditional too: the expander's
	// call on a range variable over a Children slice is reached under nothing but nil tests
	// of that child itself
	efd := c.P.Decl(exp)
	if efd != nil {
		epk := c.P.PkgOfDecl(efd)
		einfo := epk.TypesInfo
		k := 0
		ast.Inspect(efd.Body, func(x ast.Node) bool {
			rs, ok := x.(*ast.RangeStmt)
			if !ok || rs.Value == nil {
				return true
			}
			sel, ok := ast.Unparen(rs.X).(*ast.SelectorExpr)
			if !ok || sel.Sel.Name != "Children" {
				return true
			}
			vobj := einfo.ObjectOf(rs.Value.(*ast.Ident))
			ast.Inspect(rs.Body, func(y ast.Node) bool {
				call, ok := y.(*ast.CallExpr)
				if !ok || Callee(einfo, call) != exp || len(call.Args) == 0 {
					return true
				}
				id, ok := ast.Unparen(call.Args[0]).(*ast.Ident)
				if !ok || einfo.ObjectOf(id) != vobj {
					return true
				}
				k++
				key := fmt.Sprintf("children:%s#%d", c.P.DeclName(efd), k)
				body := innermostBody(efd, call)
				cf := c.CFG(epk, body.body)
				bad := ""
				for _, fa := range cf.FactsAt(call) {
					// only facts established inside the loop body concern the child
					if fa.Derived || fa.Expr.Pos() < rs.Body.Pos() || fa.Expr.End() > rs.Body.End() {
						continue
					}
					if !pa1Allowed(einfo, cf, fa, notationT) || !pa1NilOnPrefix(einfo, cf, fa, call.Args[0]) {
						bad = fmt.Sprintf("%s is %v", types.ExprString(fa.Expr), fa.Truth)
					}
				}
				if bad == "" {
					sc.Holds(key, c.P.Pos(call.Pos()), "every child is walked, whatever it contains")
				} else {
					sc.Violation(key, c.P.Pos(call.Pos()), "the walk into the children of a schema node skips a child because of its content ("+bad+"): an allOf below a node the filter takes for uninteresting (an object without rules of its own) is never expanded")
				}
				return true
			})
			return true
		})
	}
	// order inside the stage: the pass over the user types comes first, so that every type is
	// expanded in its own right (with its own used-type set) before anything uses it as a base.
	// Passes = functions of core that reach the expander from outside its recursion; the one
	// over the user types is the one that iterates catalog.UserTypes.
	reachesExp := map[*types.Func]bool{}
	var reach func(f *types.Func, depth int) bool
	reach = func(f *types.Func, depth int) bool {
		if f == exp {
			return true
		}
		if v, ok := reachesExp[f]; ok {
			return v
		}
		fd := c.P.Decl(f)
		if fd == nil || depth > 4 || c.P.PkgOfDecl(fd) != pk || inner[f] {
			return false
		}
		reachesExp[f] = false
		res := false
		for _, g := range refsFuncs(pk.TypesInfo, fd.Body) {
			if g != f && reach(g, depth+1) {
				res = true
			}
		}
		reachesExp[f] = res
		return res
	}
	iteratesUserTypes := func(fd *ast.FuncDecl) bool {
		hit := false
		ast.Inspect(fd.Body, func(x ast.Node) bool {
			if call, ok := x.(*ast.CallExpr); ok {
				if f := Callee(pk.TypesInfo, call); f != nil && f.Name() == "Each" {
					if rsel, ok := ast.Unparen(Recv(call)).(*ast.SelectorExpr); ok && rsel.Sel.Name == "UserTypes" {
						hit = true
					}
				}
			}
			return true
		})
		return hit
	}
	nStages := 0
	c.P.Funcs(func(p *pkgT, sfd *ast.FuncDecl) {
		if p != pk {
			return
		}
		info := pk.TypesInfo
		// a stage: calls at least three different passes
		var passCalls []*ast.CallExpr
		var utCall *ast.CallExpr
		distinct := map[*types.Func]bool{}
		inspectNoLit(sfd.Body, func(x ast.Node) bool {
			call, ok := x.(*ast.CallExpr)
			if !ok {
				return true
			}
			g := Callee(info, call)
			gd := c.P.Decl(g)
			if g == nil || gd == nil || inner[g] || g == exp || !reach(g, 0) {
				return true
			}
			distinct[g] = true
			passCalls = append(passCalls, call)
			if iteratesUserTypes(gd) {
				utCall = call
			}
			return true
		})
		if len(distinct) < 3 {
			// the table form: a literal list of the passes (method values), ranged over and
			// called in list order
			inspectNoLit(sfd.Body, func(x ast.Node) bool {
				cl, ok := x.(*ast.CompositeLit)
				if !ok {
					return true
				}
				var refs []*types.Func
				for _, el := range cl.Elts {
					var g *types.Func
					switch y := ast.Unparen(el).(type) {
					case *ast.Ident:
						g, _ = info.ObjectOf(y).(*types.Func)
					case *ast.SelectorExpr:
						g, _ = info.ObjectOf(y.Sel).(*types.Func)
					}
					if g == nil || c.P.Decl(g) == nil || inner[g] || g == exp || !reach(g, 0) {
						return true
					}
					refs = append(refs, g)
				}
				if len(refs) < 3 {
					return true
				}
				// ranged over, the element called
				ranged := false
				inspectNoLit(sfd.Body, func(y ast.Node) bool {
					rs, ok := y.(*ast.RangeStmt)
					if !ok || rs.Value == nil {
						return true
					}
					vid, ok := rs.Value.(*ast.Ident)
					if !ok {
						return true
					}
					src := ast.Unparen(c.CFG(pk, sfd.Body).Resolve(rs.X))
					if src != ast.Expr(cl) {
						return true
					}
					ast.Inspect(rs.Body, func(z ast.Node) bool {
						if call, ok := z.(*ast.CallExpr); ok {
							if fid, ok := ast.Unparen(call.Fun).(*ast.Ident); ok && info.ObjectOf(fid) == info.ObjectOf(vid) {
								ranged = true
							}
						}
						return true
					})
					return true
				})
				if !ranged {
					return true
				}
				nStages++
				key := "order:" + c.P.DeclName(sfd)
				ut := -1
				for i, g := range refs {
					if iteratesUserTypes(c.P.Decl(g)) {
						ut = i
					}
				}
				switch {
				case ut < 0:
					sc.Undecided(key, c.P.Pos(sfd.Pos()), "the pass that expands the user types themselves was not found in the list of passes of this stage")
				case ut == 0:
					sc.Holds(key, c.P.Pos(cl.Pos()), fmt.Sprintf("the passes are run in list order (%d) and the pass over the user types is the first", len(refs)))
				default:
					sc.Violation(key, c.P.Pos(cl.Pos()), "another kind of declared schema is expanded ("+refs[0].Name()+") before the pass over the user types: a base type is then expanded on first use, with the used-type set of whichever declaration got there first, so that declaration's usedUserTypes depends on the order of declarations")
				}
				return true
			})
			return
		}
		nStages++
		key := "order:" + c.P.DeclName(sfd)
		if utCall == nil {
			sc.Undecided(key, c.P.Pos(sfd.Pos()), "the pass that expands the user types themselves was not found among the passes of this stage")
			return
		}
		cf := c.CFG(pk, sfd.Body)
		late := ""
		for _, call := range passCalls {
			if call == utCall {
				continue
			}
			before := false
			cf.Before(call, func(nd ast.Node) {
				ast.Inspect(nd, func(y ast.Node) bool {
					if y == ast.Node(utCall) {
						before = true
					}
					return true
				})
			})
			if !before {
				late = types.ExprString(call.Fun) + " at " + c.P.Pos(call.Pos())
			}
		}
		if late == "" {
			sc.Holds(key, c.P.Pos(utCall.Pos()), "the user types are expanded before every other kind of declared schema")
		} else {
			sc.Violation(key, c.P.Pos(utCall.Pos()), "another kind of declared schema is expanded ("+late+") before the pass over the user types: a base type is then expanded on first use, with the used-type set of whichever declaration got there first, so that declaration's usedUserTypes depends on the order of declarations")
		}
	})
	if nStages == 0 {
		sc.Undecided("order", "-", "no stage function calling the allOf passes found")
	}
	_ = leafSites
}

// refsFuncs lists the functions a body refers to: called, or used as a value (a method
// value handed to an iterator).
func refsFuncs(info *types.Info, body *ast.BlockStmt) []*types.Func {
	seen := map[*types.Func]bool{}
	var out []*types.Func
	ast.Inspect(body, func(n ast.Node) bool {
		var id *ast.Ident
		switch x := n.(type) {
		case *ast.Ident:
			id = x
		case *ast.SelectorExpr:
			id = x.Sel
		}
		if id != nil {
			if f, ok := info.ObjectOf(id).(*types.Func); ok && !seen[f] {
				seen[f] = true
				out = append(out, f)
			}
		}
		return true
	})
	return out
}

// pa1NilOnPrefix: a nil test in a guard of the expander call may only look at the access
// path of the expander's own argument (q, q.Schema for q.Schema.ContentJSight), not at
// other fields of the declaration.
func pa1NilOnPrefix(info *types.Info, cf *cfgx.Func, fa cfgx.Fact, arg ast.Expr) bool {
	// a condition that is known only as a whole (a conjunction that is false, a disjunction
	// that is true): every nil test in it still has to be about the declaration itself -
	// "this one is expanded when that other one is absent" makes the expansion of one
	// declaration depend on another
	switch x := ast.Unparen(fa.Expr).(type) {
	case *ast.UnaryExpr:
		if x.Op == token.NOT {
			return pa1NilOnPrefix(info, cf, cfgx.Fact{Expr: x.X, Truth: !fa.Truth}, arg)
		}
	case *ast.BinaryExpr:
		if x.Op == token.LAND || x.Op == token.LOR {
			return pa1NilOnPrefix(info, cf, cfgx.Fact{Expr: x.X, Truth: fa.Truth}, arg) && pa1NilOnPrefix(info, cf, cfgx.Fact{Expr: x.Y, Truth: fa.Truth}, arg)
		}
	}
	be, ok := ast.Unparen(fa.Expr).(*ast.BinaryExpr)
	if !ok || (be.Op != token.EQL && be.Op != token.NEQ) {
		return true
	}
	x := be.X
	if isNilIdentExpr(info, x) {
		x = be.Y
	} else if !isNilIdentExpr(info, be.Y) {
		return true
	}
	// errors and type-assertion results are not part of the declaration
	if t := info.TypeOf(x); t != nil && isErrorLike(t) {
		return true
	}
	for p := ast.Unparen(cf.Resolve(arg)); p != nil; {
		if cf.SameResolved(p, x) {
			return true
		}
		switch n := p.(type) {
		case *ast.SelectorExpr:
			p = ast.Unparen(cf.Resolve(n.X))
		case *ast.StarExpr:
			p = ast.Unparen(cf.Resolve(n.X))
		case *ast.CallExpr:
			if len(n.Args) == 0 {
				if sel, ok := n.Fun.(*ast.SelectorExpr); ok {
					p = ast.Unparen(cf.Resolve(sel.X))
					continue
				}
			}
			p = nil
		default:
			p = nil
		}
	}
	return false
}

func pa1Allowed(info *types.Info, cf *cfgx.Func, fa cfgx.Fact, notationT *types.Named) bool {
	e := ast.Unparen(fa.Expr)
	switch x := e.(type) {
	case *ast.Ident:
		// ok of a type assertion / comma-ok, or a single-assignment boolean already decomposed
		if def := cf.Resolve(x); def != x {
			return pa1Allowed(info, cf, cfgx.Fact{Expr: def, Truth: fa.Truth}, notationT)
		}
		obj := info.ObjectOf(x)
		if obj == nil {
			return false
		}
		ok := false
		ast.Inspect(cf.Body, func(n ast.Node) bool {
			as, isAs := n.(*ast.AssignStmt)
			if !isAs || len(as.Lhs) != 2 || len(as.Rhs) != 1 {
				return true
			}
			if id, isId := as.Lhs[1].(*ast.Ident); isId && info.ObjectOf(id) == obj {
				if _, isTA := ast.Unparen(as.Rhs[0]).(*ast.TypeAssertExpr); isTA {
					ok = true
				}
			}
			return true
		})
		return ok
	case *ast.BinaryExpr:
		switch x.Op {
		case token.LSS, token.LEQ, token.GTR, token.GEQ:
			// the bound test of an index loop (`i < len(xs)`): one side is an integer local
			for _, side := range []ast.Expr{x.X, x.Y} {
				if id, ok := ast.Unparen(side).(*ast.Ident); ok {
					if v, ok := info.ObjectOf(id).(*types.Var); ok && !v.IsField() {
						if b, ok := v.Type().Underlying().(*types.Basic); ok && b.Info()&types.IsInteger != 0 {
							return true
						}
					}
				}
			}
		case token.EQL, token.NEQ:
			if isNilIdentExpr(info, x.X) || isNilIdentExpr(info, x.Y) {
				return true
			}
			if notationT != nil {
				tx, ty := info.TypeOf(x.X), info.TypeOf(x.Y)
				if (tx != nil && types.Identical(tx, notationT)) || (ty != nil && types.Identical(ty, notationT)) {
					return true
				}
			}
		case token.LAND, token.LOR:
			return pa1Allowed(info, cf, cfgx.Fact{Expr: x.X, Truth: fa.Truth}, notationT) && pa1Allowed(info, cf, cfgx.Fact{Expr: x.Y, Truth: fa.Truth}, notationT)
		}
	case *ast.UnaryExpr:
		if x.Op == token.NOT {
			return pa1Allowed(info, cf, cfgx.Fact{Expr: x.X, Truth: !fa.Truth}, notationT)
		}
	}
	return false
}

func isNilIdentExpr(info *types.Info, e ast.Expr) bool {
	tv, ok := info.Types[e]
	return ok && tv.IsNil()
}

// allOfExpander finds by role the method of JApiCore that expands allOf in a schema tree:
// its parameters are (*SchemaContentJSight, *StringSet), it returns an error, and the
// functions it reaches mark a visited set (store into a map field of JApiCore).
func (c *Ctx) allOfExpander() *types.Func {
	core := c.Named("core", "JApiCore")
	scj := c.Named("catalog", "SchemaContentJSight")
	set := c.Named("catalog", "StringSet")
	pk := c.P.Pkg("core")
	if core == nil || scj == nil || set == nil || pk == nil {
		return nil
	}
	isPtrTo := func(t types.Type, n *types.Named) bool {
		p, ok := t.(*types.Pointer)
		return ok && types.Identical(p.Elem(), n)
	}
	var found []*types.Func
	for i := 0; i < core.NumMethods(); i++ {
		m := core.Method(i)
		sig := m.Type().(*types.Signature)
		if sig.Params().Len() != 2 || sig.Results().Len() != 1 || !isErrorType(sig.Results().At(0).Type()) {
			continue
		}
		if !isPtrTo(sig.Params().At(0).Type(), scj) || !isPtrTo(sig.Params().At(1).Type(), set) {
			continue
		}
		marks := false
		for _, f := range reachStatic(c.P, pk, []*types.Func{m}) {
			fd := c.P.Decl(f)
			if fd == nil {
				continue
			}
			info := pk.TypesInfo
			ast.Inspect(fd.Body, func(n ast.Node) bool {
				as, ok := n.(*ast.AssignStmt)
				if !ok {
					return true
				}
				for _, l := range as.Lhs {
					ix, ok := ast.Unparen(l).(*ast.IndexExpr)
					if !ok {
						continue
					}
					if sel, ok := ast.Unparen(ix.X).(*ast.SelectorExpr); ok {
						if fld, ok := info.ObjectOf(sel.Sel).(*types.Var); ok && fld.IsField() && fieldOwner(core, fld) {
							marks = true
						}
					}
				}
				return true
			})
		}
		if marks {
			found = append(found, m)
		}
	}
	if len(found) == 1 {
		return found[0]
	}
	return nil
}

// ---------------------------------------------------------------- Q2

// RuleQ2: quotes come off first. Every Unquote() of the schema library's Bytes is applied
// to the value as written (an accessor result, a field, a parameter), never to the result
// of another end-sensitive Bytes transformation such as TrimSquareBrackets: with the other
// order the quoted spelling of a value ("[@cat]") is classified differently from the bare
// one ([@cat]).
func RuleQ2(c *Ctx) {
	sc := c.Run.Begin("Q2", "Unquote is applied before any other end-sensitive transformation of a parameter value: its receiver is never the result of another Bytes-to-Bytes method (whitespace trims excepted)", 1)
	defer sc.End()
	n := 0
	perFn := map[*ast.FuncDecl]int{}
	c.eachCall(func(cs callSite) {
		info := cs.Pk.TypesInfo
		f := Callee(info, cs.Call)
		if f == nil || f.Name() != "Unquote" || f.Pkg() == nil || !strings.HasSuffix(f.Pkg().Path(), "jsight-schema-go-library/bytes") {
			return
		}
		n++
		perFn[cs.Decl]++
		key := fmt.Sprintf("%s#%d", c.P.DeclName(cs.Decl), perFn[cs.Decl])
		recv := Recv(cs.Call)
		cf := c.CFG(cs.Pk, cs.Body)
		r := ast.Unparen(cf.Resolve(recv))
		if inner, ok := r.(*ast.CallExpr); ok {
			if g := Callee(info, inner); g != nil && g.Pkg() == f.Pkg() && recvNamedOf(g) == recvNamedOf(f) && !strings.HasPrefix(g.Name(), "TrimSpaces") {
				sig := g.Type().(*types.Signature)
				if sig.Results().Len() == 1 && types.Identical(sig.Results().At(0).Type(), f.Type().(*types.Signature).Results().At(0).Type()) {
					sc.Violation(key, c.P.Pos(cs.Call.Pos()), "Unquote() is applied to the result of "+g.Name()+"(): the transformation saw the value with its quotes on, so a quoted value (e.g. \"[@cat]\") is treated differently from the same value written bare")
					return
				}
			}
		}
		sc.Holds(key, c.P.Pos(cs.Call.Pos()), "applied to the value as written ("+types.ExprString(recv)+")")
	})
	if n == 0 {
		sc.Undecided("sites", "-", "no Unquote call found")
	}
	// quotes come off once: a quote test or a second Unquote is never asked of a value an
	// unquoter already returned - the value `"a"` written as "\"a\"" has quotes of its own
	// after the first pass, and they are content
	libBytes := ""
	unquoters := map[*types.Func]bool{}
	c.eachCall(func(cs callSite) {
		f := Callee(cs.Pk.TypesInfo, cs.Call)
		if f != nil && f.Name() == "Unquote" && f.Pkg() != nil && strings.HasSuffix(f.Pkg().Path(), "jsight-schema-go-library/bytes") {
			libBytes = f.Pkg().Path()
			unquoters[f] = true
			if g := declObj(cs); g != nil {
				sig := g.Type().(*types.Signature)
				if sig.Params().Len() == 1 && sig.Results().Len() == 1 && types.Identical(sig.Params().At(0).Type(), sig.Results().At(0).Type()) {
					unquoters[g] = true
				}
			}
		}
	})
	isUnquoterCall := func(info *types.Info, e ast.Expr) bool {
		call, ok := ast.Unparen(e).(*ast.CallExpr)
		if !ok {
			return false
		}
		g := Callee(info, call)
		return g != nil && unquoters[g]
	}
	perFn2 := map[*ast.FuncDecl]int{}
	c.eachCall(func(cs callSite) {
		info := cs.Pk.TypesInfo
		f := Callee(info, cs.Call)
		if f == nil || f.Pkg() == nil || f.Pkg().Path() != libBytes || (f.Name() != "InQuotes" && f.Name() != "Unquote") {
			return
		}
		recv := Recv(cs.Call)
		if recv == nil {
			return
		}
		second := isUnquoterCall(info, recv)
		if id, ok := ast.Unparen(recv).(*ast.Ident); ok && !second {
			obj := info.ObjectOf(id)
			cf := c.CFG(cs.Pk, cs.Body)
			assignsTo := func(nd ast.Node, unq bool) bool {
				as, ok := nd.(*ast.AssignStmt)
				if !ok {
					return false
				}
				for i, l := range as.Lhs {
					if lid, ok := l.(*ast.Ident); ok && info.ObjectOf(lid) == obj {
						if !unq {
							return true
						}
						if len(as.Lhs) == len(as.Rhs) && isUnquoterCall(info, as.Rhs[i]) {
							return true
						}
					}
				}
				return false
			}
			second = cf.MustAt(cs.Call, nil,
				func(nd ast.Node) bool { return assignsTo(nd, true) },
				func(nd ast.Node) bool { return assignsTo(nd, false) && !assignsTo(nd, true) })
		}
		if !second {
			return
		}
		perFn2[cs.Decl]++
		sc.Violation(fmt.Sprintf("%s:twice#%d", c.P.DeclName(cs.Decl), perFn2[cs.Decl]), c.P.Pos(cs.Call.Pos()), f.Name()+"() is asked of a value that has already been unquoted: quotation marks that are part of the value (written \\\"a\\\") are taken for delimiters a second time, so the quoted spelling no longer gives the value it spells")
	})
}

// ---------------------------------------------------------------- FC1

// RuleFC1: a kind test that rejects something is fail-closed. In a function that returns
// an error, a switch over a string-typed kind (a schema node's token type, a notation
// name) in which some listed case ends in an error must not have a default that ends in
// success: listing what is refused and accepting the rest lets through every kind the
// author did not think of (a "reference" to an object type where only scalars are allowed).
func RuleFC1(c *Ctx) {
	sc := c.Run.Begin("FC1", "in error-returning functions a switch over a string-typed kind that rejects some listed case does not accept by default (allow-lists, not deny-lists)", 1)
	defer sc.End()
	n := 0
	c.P.Funcs(func(pk *pkgT, fd *ast.FuncDecl) {
		if strings.Contains(c.P.Pos(fd.Pos()), "internal/") || fd.Type.Results == nil {
			return
		}
		info := pk.TypesInfo
		res := fd.Type.Results.List
		if !isErrorLike(info.TypeOf(res[len(res)-1].Type)) {
			return
		}
		perFn := 0
		// outcome of a statement list: "accept", "reject" or "" (falls through)
		var outcome func(list []ast.Stmt) string
		outcome = func(list []ast.Stmt) string {
			for _, st := range list {
				switch s := st.(type) {
				case *ast.ReturnStmt:
					if len(s.Results) == 0 {
						return ""
					}
					last := s.Results[len(s.Results)-1]
					if tv, ok := info.Types[last]; ok && tv.IsNil() {
						return "accept"
					}
					// an error being constructed here (Errorf, errors.New, KeywordError ...); a
					// call that merely hands on another function's verdict decides nothing
					if call, isCall := ast.Unparen(last).(*ast.CallExpr); isCall && len(s.Results) >= 1 {
						if g := Callee(info, call); g != nil {
							nm := g.Name()
							if strings.Contains(nm, "Error") || (g.Pkg() != nil && g.Pkg().Path() == "errors" && nm == "New") {
								return "reject"
							}
						}
					}
					return ""
				}
			}
			return ""
		}
		var visit func(list []ast.Stmt)
		visit = func(list []ast.Stmt) {
			for i, st := range list {
				sw, ok := st.(*ast.SwitchStmt)
				if ok && sw.Tag != nil {
					if t := info.TypeOf(sw.Tag); t != nil {
						if b, isB := t.Underlying().(*types.Basic); isB && b.Info()&types.IsString != 0 {
							after := outcome(list[i+1:])
							var def string
							hasDefault, rejects := false, false
							for _, cl := range sw.Body.List {
								cc := cl.(*ast.CaseClause)
								o := outcome(cc.Body)
								if o == "" {
									o = after
								}
								if cc.List == nil {
									hasDefault, def = true, o
								} else if o == "reject" {
									rejects = true
								}
							}
							if !hasDefault {
								def = after
							}
							if rejects || def != "" {
								n++
								perFn++
								key := fmt.Sprintf("%s#%d", c.P.DeclName(fd), perFn)
								if rejects && def == "accept" {
									sc.Violation(key, c.P.Pos(sw.Pos()), "the switch over "+types.ExprString(sw.Tag)+" rejects the listed kinds and accepts every other one: a kind that is not listed (a reference, a new token type) passes the check it was meant to fail")
								} else {
									sc.Holds(key, c.P.Pos(sw.Pos()), "kinds not listed are not accepted by default")
								}
							}
						}
					}
				}
				// nested statement lists
				ast.Inspect(st, func(x ast.Node) bool {
					switch b := x.(type) {
					case *ast.FuncLit:
						return false
					case *ast.BlockStmt:
						if ast.Node(b) != ast.Node(st) {
							visit(b.List)
							return false
						}
					case *ast.CaseClause:
						visit(b.Body)
						return false
					}
					return true
				})
			}
		}
		visit(fd.Body.List)
	})
	if n == 0 {
		sc.Undecided("sites", "-", "no switch over a string-typed kind in an error-returning function")
	}
}

// ps1CallersDominated: the call site lies in a function all of whose own call sites are
// dominated by a successful check-all pass (up to three levels).
func (c *Ctx) ps1CallersDominated(cs callSite, checkAll map[*types.Func]bool, depth int) bool {
	caller := declObj(cs)
	if caller == nil || depth > 2 || c.usedAsValue(caller) {
		return false
	}
	sites := c.callSitesOf(caller)
	if len(sites) == 0 {
		return false
	}
	for _, up := range sites {
		cf := c.CFG(up.Pk, up.Body)
		info := up.Pk.TypesInfo
		gen := func(fa cfgx.Fact) bool {
			be, ok := ast.Unparen(fa.Expr).(*ast.BinaryExpr)
			if !ok {
				return false
			}
			id, ok := ast.Unparen(be.X).(*ast.Ident)
			if !ok {
				return false
			}
			def, ok := ast.Unparen(cf.Resolve(id)).(*ast.CallExpr)
			if !ok {
				return false
			}
			g := Callee(info, def)
			if g == nil || !checkAll[g] {
				return false
			}
			return (be.Op == token.NEQ && !fa.Truth) || (be.Op == token.EQL && fa.Truth)
		}
		if !cf.MustAt(up.Call, gen, nil, nil) && !c.ps1CallersDominated(up, checkAll, depth+1) {
			return false
		}
	}
	return true
}

// ---------------------------------------------------------------- MU1

// RuleMU1: a macro that is never pasted contributes nothing. The macro table is read (a) by
// the function that expands a PASTE - it is in the expansion's recursion, guarded by the
// on-stack set - and otherwise only (b) by functions that have no effect on the catalog or on
// the core's tables (the recursion check). A function outside the expansion that reads
// macro bodies and registers what it finds there (rules of ENUMs, types ...) makes an
// unpasted macro visible in the result.
func RuleMU1(c *Ctx) {
	sc := c.Run.Begin("MU1", "the macro table is read only by the PASTE expansion and by functions without effects on the catalog or the core's tables", 1)
	defer sc.End()
	pk := c.P.Pkg("core")
	macro := c.Field("core", "JApiCore", "macro")
	coreT := c.Named("core", "JApiCore")
	catT := c.Named("catalog", "Catalog")
	if pk == nil || macro == nil || coreT == nil || catT == nil {
		sc.Undecided("anchors", "-", "unresolved anchor: core.JApiCore.macro / catalog.Catalog")
		return
	}
	info := pk.TypesInfo
	// effectful: stores into a map/slice field of JApiCore, or calls an Add* method of the catalog
	effectful := func(fd *ast.FuncDecl) string {
		why := ""
		ast.Inspect(fd.Body, func(n ast.Node) bool {
			switch x := n.(type) {
			case *ast.AssignStmt:
				for _, l := range x.Lhs {
					if ix, ok := ast.Unparen(l).(*ast.IndexExpr); ok {
						if sel, ok := ast.Unparen(ix.X).(*ast.SelectorExpr); ok {
							// the insert into the macro table itself (also by a helper) is what collecting macros is
							if f, ok := info.ObjectOf(sel.Sel).(*types.Var); ok && f.IsField() && fieldOwner(coreT, f) && f != macro {
								why = "stores into core." + f.Name()
							}
						}
					}
				}
			case *ast.CallExpr:
				if g := Callee(info, x); g != nil && recvNamedOf(g) == catT && strings.HasPrefix(g.Name(), "Add") {
					why = "calls catalog." + g.Name()
				}
			}
			return true
		})
		return why
	}
	n := 0
	c.P.Funcs(func(p *pkgT, fd *ast.FuncDecl) {
		if p != pk {
			return
		}
		reads := false
		var at ast.Node
		ast.Inspect(fd.Body, func(x ast.Node) bool {
			if as, ok := x.(*ast.AssignStmt); ok {
				// an insert M[k] = v is not a read
				for _, l := range as.Lhs {
					if ix, ok := ast.Unparen(l).(*ast.IndexExpr); ok && fieldSel(info, ix.X, macro) {
						for _, r := range as.Rhs {
							ast.Inspect(r, func(y ast.Node) bool {
								if ix2, ok := y.(*ast.IndexExpr); ok && fieldSel(info, ix2.X, macro) {
									reads, at = true, ix2
								}
								return true
							})
						}
						return false
					}
				}
			}
			if ix, ok := x.(*ast.IndexExpr); ok && fieldSel(info, ix.X, macro) {
				reads, at = true, ix
			}
			return true
		})
		if !reads {
			return
		}
		self, _ := info.Defs[fd.Name].(*types.Func)
		n++
		key := c.P.DeclName(fd)
		// (a) the expansion: the function itself is recursive through what it calls
		inExpansion := false
		for _, g := range reachStatic(c.P, pk, []*types.Func{self}) {
			if g == self {
				continue
			}
			if gd := c.P.Decl(g); gd != nil {
				for _, h := range staticCallees(c.P, info, gd.Body) {
					if h == self {
						inExpansion = true
					}
				}
			}
		}
		if inExpansion {
			sc.Holds(key, c.P.Pos(at.Pos()), "part of the PASTE expansion's recursion")
			return
		}
		// (b) no effects
		why := ""
		for _, g := range reachStatic(c.P, pk, []*types.Func{self}) {
			if gd := c.P.Decl(g); gd != nil {
				if w := effectful(gd); w != "" && g != self {
					why = g.Name() + " " + w
				} else if w != "" {
					// the function's own stores: allowed only when they are the insert into the macro table itself
					own := ""
					ast.Inspect(gd.Body, func(x ast.Node) bool {
						if as, ok := x.(*ast.AssignStmt); ok {
							for _, l := range as.Lhs {
								if ix, ok := ast.Unparen(l).(*ast.IndexExpr); ok {
									if sel, ok := ast.Unparen(ix.X).(*ast.SelectorExpr); ok {
										if f, ok := info.ObjectOf(sel.Sel).(*types.Var); ok && f.IsField() && fieldOwner(coreT, f) && f != macro {
											own = "stores into core." + f.Name()
										}
									}
								}
							}
						}
						if call, ok := x.(*ast.CallExpr); ok {
							if h := Callee(info, call); h != nil && recvNamedOf(h) == catT && strings.HasPrefix(h.Name(), "Add") {
								own = "calls catalog." + h.Name()
							}
						}
						return true
					})
					if own != "" {
						why = g.Name() + " " + own
					}
				}
			}
		}
		if why == "" {
			sc.Holds(key, c.P.Pos(at.Pos()), "reads the macro table without any effect on the catalog or the core's tables")
		} else {
			sc.Violation(key, c.P.Pos(at.Pos()), "reads macro bodies outside the PASTE expansion and has effects ("+why+"): what stands in a macro that nobody pastes reaches the catalog (an ENUM of an unpasted macro becomes a defined rule)")
		}
	})
	if n == 0 {
		sc.Undecided("reads", "-", "no read of the macro table found")
	}
}

// ---------------------------------------------------------------- AL1

// RuleAL1: the bytes of a source file are read-only. Body coordinates hand out sub-slices of
// the file content, and the same coordinates are read again for every PASTE of a macro, every
// diagnostic and every later stage. A function that receives a byte slice therefore never
// writes through it: no element store `p[i] = x`, no `copy(p, ...)`, and not the in-place
// filter idiom `res := p[:0]; res = append(res, ...)`, which reuses the caller's memory. The
// first reader would see the right text and every later one the damaged buffer.
func RuleAL1(c *Ctx) {
	sc := c.Run.Begin("AL1", "no function writes through a byte-slice parameter (element store, copy into it, or append onto a zero-length reslice of it)", 5)
	defer sc.End()
	n := 0
	c.P.Funcs(func(pk *pkgT, fd *ast.FuncDecl) {
		if strings.Contains(c.P.Pos(fd.Pos()), "internal/") {
			return
		}
		info := pk.TypesInfo
		params := map[types.Object]bool{}
		for _, fl := range fd.Type.Params.List {
			for _, nm := range fl.Names {
				o := info.ObjectOf(nm)
				if o == nil {
					continue
				}
				if sl, ok := o.Type().Underlying().(*types.Slice); ok && isByte(sl.Elem()) {
					params[o] = true
				}
			}
		}
		if len(params) == 0 {
			return
		}
		n++
		// locals that alias a parameter's memory from its start: x := p[:0] / x := p[:k] / x := p
		alias := map[types.Object]ast.Node{}
		rootParam := func(e ast.Expr) bool {
			for {
				switch x := ast.Unparen(e).(type) {
				case *ast.Ident:
					return params[info.ObjectOf(x)] || alias[info.ObjectOf(x)] != nil
				case *ast.SliceExpr:
					e = x.X
				default:
					return false
				}
			}
		}
		ast.Inspect(fd.Body, func(x ast.Node) bool {
			as, ok := x.(*ast.AssignStmt)
			if !ok || len(as.Lhs) != len(as.Rhs) {
				return true
			}
			for i, r := range as.Rhs {
				se, ok := ast.Unparen(r).(*ast.SliceExpr)
				if !ok || !rootParam(se.X) {
					continue
				}
				// only a reslice that keeps the start and has spare capacity behind its end
				// lets append write into the caller's memory: p[:0], p[:k]
				if se.Low != nil {
					if tv, ok := info.Types[se.Low]; !ok || tv.Value == nil || tv.Value.ExactString() != "0" {
						continue
					}
				}
				if se.High == nil {
					continue
				}
				if id, ok := as.Lhs[i].(*ast.Ident); ok {
					alias[info.ObjectOf(id)] = as
				}
			}
			return true
		})
		bad := ""
		ast.Inspect(fd.Body, func(x ast.Node) bool {
			switch s := x.(type) {
			case *ast.AssignStmt:
				for i, l := range s.Lhs {
					if ix, ok := ast.Unparen(l).(*ast.IndexExpr); ok && rootParam(ix.X) {
						bad = "element store " + types.ExprString(l) + " at " + c.P.Pos(l.Pos())
					}
					// x = append(x, ...) with x an alias of the parameter's memory
					if i < len(s.Rhs) {
						if call, ok := ast.Unparen(s.Rhs[i]).(*ast.CallExpr); ok {
							if id, ok := call.Fun.(*ast.Ident); ok && id.Name == "append" && len(call.Args) >= 1 {
								if a0, ok := ast.Unparen(call.Args[0]).(*ast.Ident); ok && alias[info.ObjectOf(a0)] != nil {
									bad = "append onto " + a0.Name + ", a zero-based reslice of the parameter (" + c.P.Pos(alias[info.ObjectOf(a0)].Pos()) + "), at " + c.P.Pos(call.Pos())
								}
							}
						}
					}
				}
			case *ast.CallExpr:
				if id, ok := s.Fun.(*ast.Ident); ok && id.Name == "copy" && len(s.Args) == 2 && rootParam(s.Args[0]) {
					if _, isBuiltin := info.ObjectOf(id).(*types.Builtin); isBuiltin {
						bad = "copy into the parameter at " + c.P.Pos(s.Pos())
					}
				}
			}
			return true
		})
		key := c.P.DeclName(fd)
		if bad == "" {
			sc.Holds(key, c.P.Pos(fd.Pos()), "writes through none of its byte-slice parameters")
		} else {
			sc.Violation(key, c.P.Pos(fd.Pos()), "the function writes into the memory of its byte-slice parameter ("+bad+"): the slice is a window on the file content, which is read again from the same coordinates for every PASTE of the macro, so the second expansion sees a damaged text")
		}
	})
	if n == 0 {
		sc.Undecided("sites", "-", "no function with a byte-slice parameter found")
	}
}

// ---------------------------------------------------------------- LR1

// RuleLR1: a loop that answers a question about all elements looks at more than the first.
// A `for`/`range` body whose last statement is an unconditional `return` (and which has no
// `continue` that could skip it) ends during the first iteration: the function returns what
// the first element says and never sees the second (`for _, p := range pp { return p.x == ""
// }`). Loops written to take the first element of a map or channel are not of this kind:
// the rule looks only at loops over slices, arrays and strings, and at counted loops.
func RuleLR1(c *Ctx) {
	sc := c.Run.Begin("LR1", "no loop over a slice, array or string (or counted loop) ends unconditionally during its first iteration", 0)
	defer sc.End()
	n, loops := 0, 0
	perFn := map[*ast.FuncDecl]int{}
	c.P.Funcs(func(pk *pkgT, fd *ast.FuncDecl) {
		if strings.Contains(c.P.Pos(fd.Pos()), "internal/") {
			return
		}
		info := pk.TypesInfo
		ast.Inspect(fd.Body, func(x ast.Node) bool {
			var body *ast.BlockStmt
			switch l := x.(type) {
			case *ast.RangeStmt:
				t := info.TypeOf(l.X)
				if t == nil {
					return true
				}
				switch u := t.Underlying().(type) {
				case *types.Slice, *types.Array:
				case *types.Pointer:
					if _, isArr := u.Elem().Underlying().(*types.Array); !isArr {
						return true
					}
				case *types.Basic:
					if u.Info()&types.IsString == 0 {
						return true
					}
				default:
					return true
				}
				body = l.Body
			case *ast.ForStmt:
				if l.Cond == nil || l.Post == nil {
					return true
				}
				body = l.Body
			default:
				return true
			}
			loops++
			if len(body.List) == 0 {
				return true
			}
			last := body.List[len(body.List)-1]
			if _, isRet := last.(*ast.ReturnStmt); !isRet {
				if br, isBr := last.(*ast.BranchStmt); !isBr || br.Tok != token.BREAK || br.Label != nil {
					return true
				}
			}
			// a `continue` earlier in the body (not inside a nested loop) can skip the return
			skips := false
			var walk func(nd ast.Node)
			walk = func(nd ast.Node) {
				ast.Inspect(nd, func(y ast.Node) bool {
					switch z := y.(type) {
					case *ast.ForStmt, *ast.RangeStmt, *ast.FuncLit:
						return y == nd
					case *ast.BranchStmt:
						if z.Tok == token.CONTINUE {
							skips = true
						}
					}
					return true
				})
			}
			for _, st := range body.List[:len(body.List)-1] {
				walk(st)
			}
			if skips {
				return true
			}
			n++
			perFn[fd]++
			sc.Violation(fmt.Sprintf("%s#%d", c.P.DeclName(fd), perFn[fd]), c.P.Pos(last.Pos()), "the loop body ends with an unconditional exit: the loop stops during its first iteration, so only the first element is ever looked at (an empty {} that is not the first parameter of a path passes)")
			return true
		})
	})
	if n == 0 {
		sc.Holds("loops", "-", fmt.Sprintf("%d loops over slices, arrays, strings or counters, none ends unconditionally in its first iteration", loops))
	}
}

// ---------------------------------------------------------------- LV1

// RuleLV1: the address of a loop variable does not outlive its iteration. The module
// declares a Go language version below 1.22, so `for _, v := range xs` has ONE variable v
// for the whole loop: `&v` (or the address of a part of v) that is appended to a slice,
// stored in a map, a field or a variable declared outside the loop, put into a composite
// literal, returned, or captured by a function literal that is itself stored or deferred,
// refers after the loop to the LAST element only. A pass over "every response" written this
// way treats the last response N times. The rule is skipped (no obligations, reported as
// such) when the language version is 1.22 or later.
func RuleLV1(c *Ctx) {
	sc := c.Run.Begin("LV1", "under the module's declared language version (< go1.22: one loop variable per loop) no address of a range/for variable is appended, stored outside the loop, put in a composite literal or returned", 1)
	defer sc.End()
	n := 0
	perIter := false
	for _, pk := range c.P.Repo {
		if pk.Module != nil && pk.Module.GoVersion != "" {
			var maj, min int
			fmt.Sscanf(pk.Module.GoVersion, "%d.%d", &maj, &min)
			if maj > 1 || (maj == 1 && min >= 22) {
				perIter = true
			}
		}
	}
	if perIter {
		sc.Holds("language-version", "go.mod", "the module declares go >= 1.22: every iteration has its own variable, the address of one may be kept")
		return
	}
	c.P.Funcs(func(pk *pkgT, fd *ast.FuncDecl) {
		info := pk.TypesInfo
		ast.Inspect(fd.Body, func(x ast.Node) bool {
			var vars []types.Object
			var body *ast.BlockStmt
			switch l := x.(type) {
			case *ast.RangeStmt:
				if l.Tok != token.DEFINE {
					return true
				}
				for _, e := range []ast.Expr{l.Key, l.Value} {
					if id, ok := e.(*ast.Ident); ok && id.Name != "_" {
						vars = append(vars, info.ObjectOf(id))
					}
				}
				body = l.Body
			case *ast.ForStmt:
				if as, ok := l.Init.(*ast.AssignStmt); ok && as.Tok == token.DEFINE {
					for _, e := range as.Lhs {
						if id, ok := e.(*ast.Ident); ok && id.Name != "_" {
							vars = append(vars, info.ObjectOf(id))
						}
					}
				}
				body = l.Body
			}
			if body == nil || len(vars) == 0 {
				return true
			}
			isVar := func(o types.Object) bool {
				for _, v := range vars {
					if v == o {
						return true
					}
				}
				return false
			}
			// addrOfLoopVar: &v, &v.f, &v[i] (array) - not through a pointer or slice element
			addrOfLoopVar := func(e ast.Expr) bool {
				u, ok := ast.Unparen(e).(*ast.UnaryExpr)
				if !ok || u.Op != token.AND {
					return false
				}
				t := ast.Unparen(u.X)
				for {
					switch y := t.(type) {
					case *ast.SelectorExpr:
						if _, isPtr := info.TypeOf(y.X).Underlying().(*types.Pointer); isPtr {
							return false
						}
						t = ast.Unparen(y.X)
						continue
					case *ast.IndexExpr:
						if _, isArr := info.TypeOf(y.X).Underlying().(*types.Array); !isArr {
							return false
						}
						t = ast.Unparen(y.X)
						continue
					case *ast.Ident:
						return isVar(info.ObjectOf(y))
					}
					return false
				}
			}
			declaredInside := func(o types.Object) bool {
				return o != nil && body.Pos() <= o.Pos() && o.Pos() <= body.End()
			}
			report := func(at ast.Node, how string) {
				n++
				sc.Violation(fmt.Sprintf("%s:escape#%d", c.P.DeclName(fd), n), c.P.Pos(at.Pos()), "the address of a loop variable is "+how+": with the module's go < 1.22 semantics the loop has one variable, so after the loop every such pointer refers to the last element - a pass over all elements handles the last one repeatedly and the others never")
			}
			ast.Inspect(body, func(y ast.Node) bool {
				switch s := y.(type) {
				case *ast.CallExpr:
					if id, ok := s.Fun.(*ast.Ident); ok {
						if b, ok := info.ObjectOf(id).(*types.Builtin); ok && b.Name() == "append" {
							for _, a := range s.Args[1:] {
								if addrOfLoopVar(a) {
									report(a, "appended to a slice")
								}
							}
						}
					}
				case *ast.CompositeLit:
					for _, el := range s.Elts {
						v := el
						if kv, ok := el.(*ast.KeyValueExpr); ok {
							v = kv.Value
						}
						if addrOfLoopVar(v) {
							report(v, "put into a composite literal")
						}
					}
				case *ast.ReturnStmt:
					for _, r := range s.Results {
						if addrOfLoopVar(r) {
							report(r, "returned")
						}
					}
				case *ast.AssignStmt:
					for i, r := range s.Rhs {
						if !addrOfLoopVar(r) || i >= len(s.Lhs) {
							continue
						}
						l := ast.Unparen(s.Lhs[i])
						if id, ok := l.(*ast.Ident); ok {
							if id.Name == "_" || declaredInside(info.ObjectOf(id)) {
								continue
							}
						}
						report(r, "stored outside the loop")
					}
				}
				return true
			})
			if n == 0 {
				// count the loops looked at, as evidence
			}
			return true
		})
	})
	if n == 0 {
		sc.Holds("no-escape", "-", "no address of a loop variable is appended, stored outside its loop, put in a composite literal or returned")
	}
}
